import XvcRepo.Props.C01
import XvcRepo.RecGrow
/-!
  # C04 — Every committed version stays restorable until explicitly removed
-/
namespace Repo

/-- **C04_cache_shrinks_only_on_remove**: along any history that contains no `remove`, no `untrack`
    and no `--force`d carry, every object that was in the cache is still there, bit for bit — so
    committing new versions (track, carry-in, copy, move, recheck …) never deletes or alters an earlier
    version. -/
theorem C04_cache_shrinks_only_on_remove (c : Cfg) (s : St) (cs : List Cmd) (hg : ∀ cmd ∈ cs, cmd.gentle = true)
    (a : Addr) (o : Obj) (h : s.cache a = some o) : (s.run c cs).cache a = some o :=
  C02_objects_immutable_run c s cs hg a o h

/-- what `git checkout <old xvc commit>` gives in a workspace without the data files: the records of
    that commit, the cache as it is now, no workspace entries -/
def St.checkoutOld (sNow sOld : St) : St :=
  { sNow with recs := sOld.recs, next := sOld.next, ws := fun _ => none }

theorem checkoutOld_findEnt (sNow sOld : St) (p : Path) : (sNow.checkoutOld sOld).findEnt p = sOld.findEnt p := rfl

/-- **C04_old_commit_restorable**: take the repository at any earlier moment (`sOld`: path `p` recorded
    with digest `d`, object present), let **any** gentle history follow, check out the old records into
    an empty workspace and run `xvc file recheck p`: the file comes back with exactly the bytes of the
    object that was there then, for every recheck method. -/
theorem C04_old_commit_restorable (c : Cfg) (sOld : St) (cs : List Cmd) (hg : ∀ cmd ∈ cs, cmd.gentle = true)
    (p : Path) (e : Ent) (r : Rec) (d : Digest) (o : Obj) (n : Nat) (m : Option Method)
    (hfind : sOld.findEnt p = some e) (hrec : sOld.recs e = some r) (hcur : r.cur = some d) (hmd : r.md = .stamp n)
    (hobj : sOld.cache (addrOf p d) = some o) :
    let s := (sOld.run c cs).checkoutOld sOld
    (s.recheckOne c m false p).2 = .ok ∧ ∃ k, (s.recheckOne c m false p).1.readThrough p = some (o.b, k) := by
  have hkeep := C04_cache_shrinks_only_on_remove c sOld cs hg (addrOf p d) o hobj
  have := C01_recheck_restores c ((sOld.run c cs).checkoutOld sOld) p e r d o n m false
    (by rw [checkoutOld_findEnt]; exact hfind) hrec hcur hmd hkeep (Or.inl rfl)
  exact ⟨this.1, this.2.1⟩

/-- **C04_versions_append_only (track)**: re-tracking a changed file appends the new digest to the
    path's version list and keeps every earlier one. -/
theorem C04_track_appends (c : Cfg) (o : TrackOpts) (s : St) (p : Path) (b : Bytes) (stamp : Nat) (e : Ent) (r : Rec)
    (hfind : s.findEnt p = some e) (hrec : s.recs e = some r) :
    ∃ r', (s.trackFile c o p b stamp).1.recs e = some r' ∧ r.digests <+: r'.digests ∧ r'.path = r.path := by
  have hpre : ∀ d m t, r.digests <+: (updRec r stamp d m t).digests := by
    intro d m t; unfold updRec; simp only; split <;> simp
  unfold St.trackFile
  simp only [hfind, hrec]
  split
  · exact ⟨r, hrec, List.prefix_refl _, rfl⟩
  · split
    · exact ⟨_, upd_same _ _ _, hpre _ _ _, rfl⟩
    · rw [carryOne_recs]
      exact ⟨_, upd_same _ _ _, hpre _ _ _, rfl⟩

/-- **C04_versions_append_only (carry-in)**: `carry-in` appends the new digest and keeps every earlier one. -/
theorem C04_carryIn_appends (c : Cfg) (tob : Option Tob) (force : Bool) (s : St) (p : Path) (e : Ent) (r : Rec)
    (hrec : s.recs e = some r) :
    ∃ r', (s.carryInRec c tob force p e r).1.recs e = some r' ∧ r.digests <+: r'.digests ∧ r'.path = r.path := by
  have hpre : r.digests <+: (match s.carryDiff c r (tob.getD c.tob) with
      | .different a => r.digests ++ [a]
      | _ => r.digests) := by split <;> simp
  unfold St.carryInRec
  simp only
  split
  · exact ⟨_, upd_same _ _ _, hpre, rfl⟩
  · split
    · exact ⟨r, hrec, List.prefix_refl _, rfl⟩
    · exact ⟨_, upd_same _ _ _, hpre, rfl⟩
    · exact ⟨_, upd_same _ _ _, hpre, rfl⟩
    · exact ⟨r, hrec, List.prefix_refl _, rfl⟩

/-- **C04_carryIn_mode_change_rehashes**: `carry-in --text-or-binary t` on a file recorded with another
    mode commits the file in the new mode: afterwards the recorded mode is `t` AND the recorded current
    digest is the digest of the present bytes in mode `t` — also when the file's metadata is unchanged
    (before the repair of `cmd_carry_in` the metadata short-cut left the old digest next to the new mode,
    and every later comparison reported the untouched file as changed). -/
theorem C04_carryIn_mode_change_rehashes (c : Cfg) (tob : Option Tob) (s : St) (p : Path) (e : Ent) (r : Rec)
    (b : Bytes) (n : Nat) (hpath : r.path = p) (hr : s.readThrough p = some (b, n)) (ht : r.tob ≠ tob.getD c.tob) :
    ∃ r', (s.carryInRec c tob false p e r).1.recs e = some r' ∧ r'.tob = tob.getD c.tob ∧
      r'.cur = some (digestOf c.algo (tob.getD c.tob) b) ∧ r.digests <+: r'.digests := by
  have hr' : s.readThrough r.path = some (b, n) := by rw [hpath]; exact hr
  unfold St.carryInRec
  simp only
  have htc : (false || decide (s.carryDiff c r (tob.getD c.tob) ≠ .same) || decide (r.tob ≠ tob.getD c.tob)) = true := by
    simp [ht]
  simp only [htc, Bool.not_true, Bool.false_eq_true, if_false]
  cases hdd : s.carryDiff c r (tob.getD c.tob) with
  | actualMissing =>
    unfold St.carryDiff at hdd
    simp only [ht, if_false, hr'] at hdd
    split at hdd <;> cases hdd
  | different a =>
    obtain ⟨b', n', hrb, ha⟩ := carryDiff_different hdd
    rw [hr'] at hrb; cases hrb
    simp only
    refine ⟨{ r with md := s.actualMeta p, tob := tob.getD c.tob, digests := r.digests ++ [a] }, by simp [upd], rfl, ?_, by simp⟩
    simp [Rec.cur, ha]
  | same =>
    have hc := carryDiff_same_mode_change ht hdd hr'
    simp only [hc]
    refine ⟨{ r with md := s.actualMeta p, tob := tob.getD c.tob }, by simp [upd], rfl, ?_, by simp⟩
    simpa [Rec.cur] using hc

/-- a gentle command is none of `remove`, `untrack`, `untrack --restore-versions` -/
theorem gentle_not_removing {cmd : Cmd} (h : cmd.gentle = true) : cmd.removing = false := by
  cases cmd with
  | remove ps a f => simp [Cmd.gentle] at h
  | untrack ps => simp [Cmd.gentle] at h
  | untrackRestore ps bl => simp [Cmd.gentle] at h
  | _ => rfl

theorem run_recGrow (c : Cfg) (s : St) (cs : List Cmd) (hg : ∀ cmd ∈ cs, cmd.gentle = true) : RecGrow s (s.run c cs) := by
  induction cs generalizing s with
  | nil => exact RecGrow.refl s
  | cons cmd cs ih =>
    exact (step_recGrow c s cmd (gentle_not_removing (hg cmd (by simp)))).trans
      (ih _ (fun x hx => hg x (by simp [hx])))

/-- **C04_versions_persist**: along any history without `remove`, `untrack` and `--force`d carries — user
    edits, new commits of the same path, copies, moves, rechecks, of any length — a version once recorded
    for a tracked file stays recorded for it (the version list only grows) and its object stays in the
    cache, bit for bit: the set of restorable versions contains every version ever committed. -/
theorem C04_versions_persist (c : Cfg) (s : St) (cs : List Cmd) (hg : ∀ cmd ∈ cs, cmd.gentle = true)
    (e : Ent) (he : e < s.next) (r : Rec) (hr : s.recs e = some r) (d : Digest) (hd : d ∈ r.digests)
    (a : Addr) (o : Obj) (ho : s.cache a = some o) :
    (∃ r', (s.run c cs).recs e = some r' ∧ r.digests <+: r'.digests ∧ d ∈ r'.digests) ∧
    (s.run c cs).cache a = some o := by
  obtain ⟨r', hr', hp⟩ := (run_recGrow c s cs hg).2 e he r hr
  exact ⟨⟨r', hr', hp, hp.subset hd⟩, C04_cache_shrinks_only_on_remove c s cs hg a o ho⟩

/-- **C04_committed_stays_restorable** (the "stays true after any later sequence" clause of C01): a file
    committed at some moment (`s`: entity `e`, path `p`, current digest `d`, object present) is, after
    ANY later gentle history, still restorable: its version is still in the entity's list, the object
    is untouched — and as long as `p` still designates the entity and no newer version was committed,
    deleting or damaging the workspace copy and running `recheck` (`--force` for damage) gives back
    exactly the object's bytes, with every method. -/
theorem C04_committed_stays_restorable (c : Cfg) (s : St) (cs : List Cmd) (hg : ∀ cmd ∈ cs, cmd.gentle = true)
    (p : Path) (e : Ent) (r : Rec) (d : Digest) (o : Obj)
    (hfind : s.findEnt p = some e) (hrec : s.recs e = some r) (hcur : r.cur = some d)
    (hobj : s.cache (addrOf p d) = some o) :
    let s' := s.run c cs
    (∃ r', s'.recs e = some r' ∧ d ∈ r'.digests) ∧ s'.cache (addrOf p d) = some o ∧
    ∀ r' n (m : Option Method) (force : Bool), s'.findEnt p = some e → s'.recs e = some r' → r'.cur = some d →
      r'.md = .stamp n → (s'.ws p = none ∨ (force = true ∧ ((s'.ws p).isSome → (s'.readThrough p).isSome))) →
      (s'.recheckOne c m force p).2 = .ok ∧ ∃ k, (s'.recheckOne c m force p).1.readThrough p = some (o.b, k) := by
  have hd : d ∈ r.digests := by
    unfold Rec.cur at hcur
    exact List.mem_of_getLast? hcur
  obtain ⟨⟨r', hr', _, hd'⟩, hkeep⟩ := C04_versions_persist c s cs hg e (findEnt_lt hfind) r hrec d hd (addrOf p d) o hobj
  refine ⟨⟨r', hr', hd'⟩, hkeep, ?_⟩
  intro r'' n m force hf' hr'' hcur' hmd' hdam
  have := C01_recheck_restores c (s.run c cs) p e r'' d o n m force hf' hr'' hcur' hmd' hkeep hdam
  exact ⟨this.1, this.2.1⟩

/-- non-vacuity: a file committed, then edited, committed again and moved: the first version is still
    recorded and its object is still in the cache -/
example :
    let s := ((St.init.userWrite ⟨0, 1⟩ [104]).track {} {} [⟨0, 1⟩]).1
    let cs := [Cmd.write ⟨0, 1⟩ [105], .carryIn [⟨0, 1⟩] none false, .move ⟨0, 1⟩ ⟨1, 1⟩ {}]
    (∀ cmd ∈ cs, cmd.gentle = true) ∧ s.findEnt ⟨0, 1⟩ = some 1 ∧
    ((s.run {} cs).recs 1).map (·.digests) = some [⟨0, [104]⟩, ⟨0, [105]⟩] ∧
    ((s.run {} cs).recs 1).map (·.path) = some ⟨1, 1⟩ ∧
    ((s.run {} cs).cache ⟨⟨0, [104]⟩, 1⟩).isSome = true := by
  decide

/-! ### `untrack --restore-versions`

  The copy of a version can fail for reasons outside xvc (`blocked`: something in the way at the
  destination name, a name that becomes too long, a full disk …); the theorems hold for every such
  fault pattern. -/

/-- **C04_restore_versions_before_delete**: whatever `untrack --restore-versions` does and whichever
    copies fail, an object that was in the cache is still there afterwards or has been written out
    byte-for-byte: no version is deleted without having been restored. -/
theorem C04_restore_versions_before_delete (s : St) (ps : List Path) (blocked : List (Path × Addr)) (a : Addr) (o : Obj)
    (h : s.cache a = some o) :
    (s.untrackRestore ps blocked).1.1.cache a = some o ∨ ∃ p, (p, a, o.b) ∈ (s.untrackRestore ps blocked).2 := by
  by_cases hok : (s.untrackRestore ps blocked).1.2 = .ok
  · obtain ⟨s1, hc, hall, hw, hst⟩ := untrackRestore_ok_shape s ps blocked hok
    by_cases hd : a ∈ s.untrackDeletable (s.targetEnts ps)
    · right
      have hv : a ∈ (s.targetEnts ps).flatMap s.versionsOf := by
        unfold St.untrackDeletable at hd
        exact (List.mem_filter.mp hd).1
      obtain ⟨p, hp⟩ := restoreItems_covers s _ a hv
      obtain ⟨o', ho', hin, _⟩ := restoreCopies_all s1 blocked _ hall (p, a) hp
      simp only at ho' hin
      rw [hc, h] at ho'
      cases ho'
      exact ⟨p, by rw [hw]; exact hin⟩
    · left
      rw [hst, foldl_removeObj_keep _ _ a hd]
      show s1.cache a = some o
      rw [hc]; exact h
  · left
    rw [untrackRestore_fail_cache s ps blocked hok]; exact h

/-- **C04_restore_versions_byte_for_byte**: every file it writes is named after a target path and one
    of that path's recorded versions, and carries exactly the bytes of that version's cache object. -/
theorem C04_restore_versions_byte_for_byte (s : St) (ps : List Path) (blocked : List (Path × Addr))
    (p : Path) (a : Addr) (b : Bytes) (h : (p, a, b) ∈ (s.untrackRestore ps blocked).2) :
    (p, a) ∈ s.restoreItems (s.targetEnts ps) ∧ ∃ o, s.cache a = some o ∧ o.b = b := by
  unfold St.untrackRestore at h
  simp only at h
  · have h1 := rematerialise_cache s (s.targetEnts ps)
    generalize s.rematerialise (s.targetEnts ps) = res at h h1
    obtain ⟨s1, out⟩ := res
    have key : ∀ w, w = (s1.restoreCopies blocked (s.restoreItems (s.targetEnts ps))).1 → (p, a, b) ∈ w →
        (p, a) ∈ s.restoreItems (s.targetEnts ps) ∧ ∃ o, s.cache a = some o ∧ o.b = b := by
      intro w hw hin
      subst hw
      have := restoreCopies_sound s1 blocked _ p a b hin
      rw [show s1.cache = s.cache from h1] at this
      exact this
    cases out <;> simp only at h
    all_goals first
      | (cases h; done)
      | (generalize hrc : s1.restoreCopies blocked _ = rc at h
         obtain ⟨w, ok⟩ := rc
         cases ok <;> exact key w (by rw [hrc]) h)

/-- **C04_restore_versions_complete**: when the command succeeds, every recorded version of every
    target has been written out under the target's name (and the repository is in the state plain
    `untrack` leaves). -/
theorem C04_restore_versions_complete (s : St) (ps : List Path) (blocked : List (Path × Addr))
    (hok : (s.untrackRestore ps blocked).1.2 = .ok) :
    (∀ x ∈ s.restoreItems (s.targetEnts ps), ∃ o, s.cache x.2 = some o ∧ (x.1, x.2, o.b) ∈ (s.untrackRestore ps blocked).2) ∧
    (∀ e ∈ s.targetEnts ps, ∀ a ∈ s.versionsOf e, ∃ p, (p, a) ∈ s.restoreItems (s.targetEnts ps)) ∧
    (s.untrackRestore ps blocked).1 = s.untrack ps := by
  refine ⟨?_, ?_, untrackRestore_ok s ps blocked hok⟩
  · obtain ⟨s1, hc, hall, hw, _⟩ := untrackRestore_ok_shape s ps blocked hok
    intro x hx
    obtain ⟨o, ho, hin, _⟩ := restoreCopies_all s1 blocked _ hall x hx
    exact ⟨o, hc ▸ ho, hw ▸ hin⟩
  · intro e he a ha
    exact restoreItems_covers s _ a (List.mem_flatMap.mpr ⟨e, he, ha⟩)

/-- two committed versions of one file: restoring writes out both and then deletes both; when the copy
    of the second version is blocked nothing is deleted (non-vacuity of the three theorems above) -/
theorem C04_restore_versions_witness :
    let s0 := ((St.init.userWrite ⟨0, 1⟩ [104]).track {} {} [⟨0, 1⟩]).1
    let s1 := ((s0.userWrite ⟨0, 1⟩ [105]).carryIn {} none false [⟨0, 1⟩]).1
    let a1 : Addr := ⟨⟨0, [104]⟩, 1⟩
    let a2 : Addr := ⟨⟨0, [105]⟩, 1⟩
    (s1.cache a1).isSome = true ∧ (s1.cache a2).isSome = true ∧
    (s1.untrackRestore [⟨0, 1⟩] []).1.2 = .ok ∧
    (s1.untrackRestore [⟨0, 1⟩] []).2 = [(⟨0, 1⟩, a1, [104]), (⟨0, 1⟩, a2, [105])] ∧
    ((s1.untrackRestore [⟨0, 1⟩] []).1.1.cache a1).isNone = true ∧
    (s1.untrackRestore [⟨0, 1⟩] [(⟨0, 1⟩, a2)]).1.2 = .panic ∧
    (s1.untrackRestore [⟨0, 1⟩] [(⟨0, 1⟩, a2)]).2 = [(⟨0, 1⟩, a1, [104])] ∧
    ((s1.untrackRestore [⟨0, 1⟩] [(⟨0, 1⟩, a2)]).1.1.cache a2).isSome = true := by
  decide

example : ∃ (s : St) (e : Ent) (r : Rec) (d : Digest) (o : Obj), s.findEnt ⟨0, 1⟩ = some e ∧ s.recs e = some r ∧
    r.cur = some d ∧ s.cache (addrOf ⟨0, 1⟩ d) = some o ∧
    Cmd.gentle (.carryIn [⟨0, 1⟩] none false) = true :=
  ⟨((St.init.userWrite ⟨0, 1⟩ [104]).track {} {} [⟨0, 1⟩]).1, 1,
    { path := ⟨0, 1⟩, md := .stamp 1, digests := [⟨0, [104]⟩], method := .copy, tob := .auto }, ⟨0, [104]⟩, ⟨[104], true, 1⟩,
    by decide, by decide, by decide, by decide, by decide⟩

/-! ### Links into the cache are not content (repair F31, formerly known finding K10)

    With the symlink recheck method the workspace entry of a tracked path is a link to its cache object.
    `carry-in --force` used to remove the object and then rename the (now dangling) link onto the cache address;
    a change of the text/binary mode renamed the link onto the NEW address.  Since the repair a link to the object
    itself is only re-materialised, and any other link is dereferenced: the bytes are copied to the new address. -/

/-- `--force` (or not) on a path that is a link to the cached copy at the address itself: the cache is untouched -
    the object is still there, bit for bit - and the path is materialised again by the method. -/
theorem C04_force_on_link_keeps_object (s : St) (p : Path) (a : Addr) (m : Method) (force : Bool) (o : Obj)
    (hl : s.ws p = some (.sym a)) (ho : s.cache a = some o) :
    (s.carryOne p a m force).1.cache = s.cache ∧ (s.carryOne p a m force).2 = .ok ∧
    ∃ k, (s.carryOne p a m force).1.readThrough p = some (o.b, k) := by
  have hlt : s.linksTo p a = true := by simp [St.linksTo, hl, ho]
  unfold St.carryOne
  simp only [hlt, if_true]
  have ho' : (s.setWs p none).cache a = some o := ho
  have hp : ((s.setWs p none).ws p).isSome → ((s.setWs p none).readThrough p).isSome := by
    intro h; simp [St.setWs] at h
  obtain ⟨h1, _, h3, h4⟩ := C17_method_materialises (s.setWs p none) p a o m ho' hp
  exact ⟨by rw [h4]; rfl, h1, h3⟩

/-- A link to ANOTHER object (the address changes, e.g. because the text/binary mode changes): the bytes the link
    points to are copied to the new address as a regular read-only object; the object the link pointed to stays. -/
theorem C04_link_is_dereferenced (s : St) (p : Path) (a a' : Addr) (o : Obj)
    (hl : s.ws p = some (.sym a')) (ho : s.cache a' = some o) (hne : a ≠ a') :
    (s.moveToCache p a).2 = .ok ∧ (∃ st, (s.moveToCache p a).1.cache a = some ⟨o.b, true, st⟩) ∧
    (s.moveToCache p a).1.cache a' = some o ∧ (s.moveToCache p a).1.ws p = none := by
  have hd : s.deref p = (s.setWs p (some (.file o.b true s.clock none))).tick := by
    simp [St.deref, hl, ho]
  unfold St.moveToCache
  rw [hd]
  have hw : ((s.setWs p (some (.file o.b true s.clock none))).tick).ws p = some (.file o.b true s.clock none) := by
    show upd s.ws p _ p = _
    simp
  simp only [hw]
  refine ⟨trivial, ⟨s.clock, ?_⟩, ?_, ?_⟩
  · show upd _ a _ a = _
    simp
  · show upd _ a _ a' = _
    rw [upd_other _ _ (Ne.symm hne)]
    exact ho
  · show upd _ p none p = none
    simp

/-- before the repair (NOT the code any more): the link itself was renamed onto the address after `--force` had
    removed the object there - the only copy of the bytes is gone -/
theorem C04_force_on_link_lost_object_before_fix :
    let s : St := ((St.init.userWrite ⟨0, 1⟩ [104]).track {} { method := some .symlink } [⟨0, 1⟩]).1
    let a : Addr := addrOf ⟨0, 1⟩ ⟨0, [104]⟩
    s.ws ⟨0, 1⟩ = some (.sym a) ∧ (s.cache a).isSome = true ∧
    -- old first phase: detach + remove the object, then rename the link onto the address
    ((({ (s.detach a).setCache a none with dirRo := upd s.dirRo a.d false } : St).setWs ⟨0, 1⟩ none).setCache a none).cache a = none ∧
    -- the repaired procedure
    ((s.carryOne ⟨0, 1⟩ a .symlink true).1.cache a).isSome = true := by
  decide

end Repo

open Repo in
#print axioms C04_cache_shrinks_only_on_remove
open Repo in
#print axioms C04_old_commit_restorable
open Repo in
#print axioms C04_track_appends
open Repo in
#print axioms C04_carryIn_appends
open Repo in
#print axioms C04_carryIn_mode_change_rehashes
open Repo in
#print axioms C04_versions_persist
open Repo in
#print axioms C04_committed_stays_restorable
open Repo in
#print axioms C04_restore_versions_before_delete
open Repo in
#print axioms C04_restore_versions_byte_for_byte
open Repo in
#print axioms C04_restore_versions_complete
open Repo in
#print axioms C04_restore_versions_witness
open Repo in
#print axioms C04_force_on_link_keeps_object
open Repo in
#print axioms C04_link_is_dereferenced
open Repo in
#print axioms C04_force_on_link_lost_object_before_fix
