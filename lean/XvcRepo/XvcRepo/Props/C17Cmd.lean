import XvcRepo.Materialise
/-!
  # C17 — whole commands

  `xvc file recheck --force --recheck-method m` over any list of distinct targets.
-/
namespace Repo

/-- **C17_recheck_command_materialises**: a forced `recheck --recheck-method m` over ANY list of distinct
    targets — each tracked, with its current version in the cache, and not a dangling link — that does not
    panic leaves EVERY target as an entry of kind `m` that yields the committed bytes, with `m` recorded
    for it; whatever the other targets are and whatever the workspace held at the paths (modified files,
    other kinds of links, nothing). -/
theorem C17_recheck_command_materialises (c : Cfg) (m : Method) (s : St) (ps : List Path) (hnd : ps.Nodup)
    (hpre : ∀ p ∈ ps, RecheckPre p s) (hok : (s.recheck c (some m) true ps).2 ≠ .panic) :
    ∀ p ∈ ps, RecheckPost m p (s.recheck c (some m) true ps).1 :=
  forEach_post (St.recheckOne c (some m) true) RecheckPre (RecheckPost m)
    (fun s p h _ => recheckOne_step c m s p h)
    (fun s p q hpq h => recheckOne_framePre c (some m) true s p q hpq h)
    (fun s p q hpq h => recheckOne_framePost c (some m) true m s p q hpq h)
    ps hnd s hpre hok

/-- the method recorded by the command is the one used when the path is restored later without an
    explicit method (`C17_effective_method`): corollary for one target after the command -/
theorem C17_recheck_command_records (c : Cfg) (m : Method) (s : St) (ps : List Path) (hnd : ps.Nodup)
    (hpre : ∀ p ∈ ps, RecheckPre p s) (hok : (s.recheck c (some m) true ps).2 ≠ .panic) (p : Path) (hp : p ∈ ps) :
    ∃ e r, (s.recheck c (some m) true ps).1.findEnt p = some e ∧ (s.recheck c (some m) true ps).1.recs e = some r ∧
      (none : Option Method).getD r.method = m := by
  obtain ⟨e, r, _, _, hfe, hre, hm, _⟩ := C17_recheck_command_materialises c m s ps hnd hpre hok p hp
  exact ⟨e, r, hfe, hre, hm⟩

/-- non-vacuity: two tracked copies, one of them edited by the user; forced recheck as symlink turns
    both into links to their committed versions -/
theorem C17_recheck_command_witness :
    let s0 := ((St.init.userWrite ⟨0, 1⟩ [104]).userWrite ⟨1, 1⟩ [105])
    let s1 := (s0.track {} {} [⟨0, 1⟩, ⟨1, 1⟩]).1
    let s := s1.userWrite ⟨1, 1⟩ [106]
    let s' := (s.recheck {} (some .symlink) true [⟨0, 1⟩, ⟨1, 1⟩]).1
    (s.recheck {} (some .symlink) true [⟨0, 1⟩, ⟨1, 1⟩]).2 = .ok ∧
    s'.ws ⟨0, 1⟩ = some (.sym ⟨⟨0, [104]⟩, 1⟩) ∧ s'.ws ⟨1, 1⟩ = some (.sym ⟨⟨0, [105]⟩, 1⟩) ∧
    (s'.readThrough ⟨1, 1⟩).map (·.1) = some [105] := by
  decide

example : RecheckPre ⟨0, 1⟩ ((St.init.userWrite ⟨0, 1⟩ [104]).track {} {} [⟨0, 1⟩]).1 :=
  ⟨1, { path := ⟨0, 1⟩, md := .stamp 1, digests := [⟨0, [104]⟩], method := .copy, tob := .auto }, ⟨0, [104]⟩, ⟨[104], true, 1⟩,
    by decide, by decide, by decide, by decide, by decide⟩

end Repo

open Repo in
#print axioms C17_recheck_command_materialises
open Repo in
#print axioms C17_recheck_command_records
open Repo in
#print axioms C17_recheck_command_witness
