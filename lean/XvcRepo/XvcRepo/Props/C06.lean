import XvcRepo.Storage
import XvcRepo.Props.C01
/-!
  # C06 — Send and bring through a storage form a lossless round trip
-/
namespace Repo

/-- every storage object is stored under the address of its own bytes -/
def SA (st : Storage) : Prop := ∀ g a b, st.objs (g, a) = some b → HashOf a.d b

theorem sendOne_objs (g : Guid) (s : St) (st : Storage) (x : Addr × Ul) (k : Guid × Addr) :
    (sendOne g s st x).objs k =
      match s.cache x.1, x.2 with
      | some o, .ok => if k = (g, x.1) then some o.b else st.objs k
      | _, _ => st.objs k := by
  unfold sendOne
  cases hc : s.cache x.1 <;> cases hu : x.2 <;> simp [upd]

/-- **C06_guid_separation**: sending from the repository with guid `g` never touches a key of another
    repository: repositories sharing a storage do not collide. -/
theorem C06_guid_separation (g g' : Guid) (h : g' ≠ g) (s : St) (st : Storage) (l : List (Addr × Ul)) (a : Addr) :
    (send g s st l).objs (g', a) = st.objs (g', a) := by
  unfold send
  induction l generalizing st with
  | nil => rfl
  | cons x l ih =>
    simp only [List.foldl_cons]
    rw [ih, sendOne_objs]
    split
    · have : (g', a) ≠ (g, x.1) := by intro hc; exact h (by cases hc; rfl)
      simp [this]
    · rfl

/-- what a send leaves at a key of the own repository -/
theorem send_objs_mem (g : Guid) (s : St) (st : Storage) (l : List (Addr × Ul)) (a : Addr) (o : Obj)
    (hc : s.cache a = some o) (hm : (a, Ul.ok) ∈ l) : (send g s st l).objs (g, a) = some o.b := by
  unfold send
  induction l generalizing st with
  | nil => cases hm
  | cons x l ih =>
    simp only [List.foldl_cons]
    by_cases hml : (a, Ul.ok) ∈ l
    · exact ih _ hml
    · have hx : x = (a, Ul.ok) := by
        rcases List.mem_cons.mp hm with h | h
        · exact h.symm
        · exact absurd h hml
      subst hx
      have key : ∀ (l : List (Addr × Ul)) (st : Storage), (a, Ul.ok) ∉ l → st.objs (g, a) = some o.b →
          (List.foldl (sendOne g s) st l).objs (g, a) = some o.b := by
        intro l
        induction l with
        | nil => intro st _ h; exact h
        | cons y l ih2 =>
          intro st hnm h
          simp only [List.foldl_cons]
          apply ih2 _ (fun hc => hnm (List.mem_cons_of_mem _ hc))
          rw [sendOne_objs]
          split
          · rename_i o' ho' hu
            by_cases hk : (g, a) = (g, y.1)
            · have : y.1 = a := by cases hk; rfl
              rw [this, hc] at ho'
              cases ho'
              simp only [hk, if_true]
            · simp [hk, h]
          · exact h
      apply key l _ hml
      rw [sendOne_objs]; simp [hc]

/-- send keeps the storage content-addressed -/
theorem send_SA (g : Guid) (s : St) (st : Storage) (l : List (Addr × Ul))
    (hca : ∀ a o, s.cache a = some o → Valid a o) (hsa : SA st) : SA (send g s st l) := by
  unfold send
  induction l generalizing st with
  | nil => exact hsa
  | cons x l ih =>
    simp only [List.foldl_cons]
    apply ih
    intro g' a b hb
    rw [sendOne_objs] at hb
    split at hb
    · rename_i o ho _
      by_cases hk : (g', a) = (g, x.1)
      · simp [hk] at hb
        have : a = x.1 := by cases hk; rfl
        subst this; subst hb
        exact (hca _ o ho).1
      · simp [hk] at hb; exact hsa g' a b hb
    · exact hsa g' a b hb

/-- **C06_idempotent (send)**: sending again — same targets, all uploads succeeding — changes nothing. -/
theorem C06_send_idempotent (g : Guid) (s : St) (st : Storage) (as : List Addr) (k : Guid × Addr) :
    (send g s (send g s st (as.map (·, Ul.ok))) (as.map (·, Ul.ok))).objs k =
    (send g s st (as.map (·, Ul.ok))).objs k := by
  have key : ∀ (l : List Addr) (st' : Storage),
      (∀ a ∈ l, ∀ o, s.cache a = some o → st'.objs (g, a) = some o.b) →
      (send g s st' (l.map (·, Ul.ok))).objs k = st'.objs k := by
    intro l
    induction l with
    | nil => intro st' _; rfl
    | cons a l ih =>
      intro st' h
      unfold send
      simp only [List.map_cons, List.foldl_cons]
      have h1 : (sendOne g s st' (a, Ul.ok)).objs = st'.objs := by
        funext k'
        rw [sendOne_objs]
        split
        · rename_i o ho _
          by_cases hk : k' = (g, a)
          · subst hk; simp [h a (by simp) o ho]
          · simp [hk]
        · rfl
      have : sendOne g s st' (a, Ul.ok) = st' := by
        cases hs : sendOne g s st' (a, Ul.ok); cases st'; simp_all
      rw [this]
      exact ih st' (fun a' ha' => h a' (by simp [ha']))
  apply key
  intro a ha o ho
  exact send_objs_mem g s st _ a o ho (by simp [List.mem_map]; exact ha)

theorem fetchOne_from (t : Bool) (g : Guid) (st : Storage) (hsa : SA st) (s : St) (x : Addr × Dl) :
    CacheFrom s (fetchOne t g st s x) := by
  unfold fetchOne
  split
  · exact CacheFrom.refl s
  · split
    · rename_i b hrec htmp
      -- received ⇒ the outcome was `ok` and the temp file holds the stored bytes
      have hb : st.objs (g, x.1) = some b := by
        cases hx : x.2 <;> simp [received, tempFile, hx] at hrec htmp
        exact htmp
      intro a o ho
      unfold moveIn at ho
      have ho' : upd s.cache x.1 (some ⟨b, true, s.clock⟩) a = some o := by
        cases t <;> simpa using ho
      by_cases ha : a = x.1
      · subst ha; simp at ho'; subst ho'
        exact Or.inr ⟨hsa g _ b hb, rfl⟩
      · rw [upd_other _ _ ha] at ho'; exact Or.inl ho'
    · exact CacheFrom.refl s

/-- **C06_faults_never_corrupt**: for **every** pattern of succeeding, cleanly failing and partially
    failing download commands, with the temporary directory on the same or on another file system,
    every object in the cache after `bring`'s fetch is an old object or a read-only object at the
    address of its own bytes: a failed transfer never leaves a wrong or partial object at a cache
    address. -/
theorem C06_faults_never_corrupt (t : Bool) (g : Guid) (st : Storage) (hsa : SA st) (s : St) (l : List (Addr × Dl)) :
    CacheFrom s (fetch t g st s l) := by
  unfold fetch
  induction l generalizing s with
  | nil => exact CacheFrom.refl s
  | cons x l ih => exact (fetchOne_from t g st hsa s x).trans (ih _)

/-- existing objects are never replaced by a fetch -/
theorem fetch_keep (t : Bool) (g : Guid) (st : Storage) (s : St) (l : List (Addr × Dl)) :
    CacheKeep s (fetch t g st s l) := by
  unfold fetch
  induction l generalizing s with
  | nil => exact CacheKeep.refl s
  | cons x l ih =>
    refine CacheKeep.trans ?_ (ih _)
    unfold fetchOne
    split
    · exact CacheKeep.refl s
    · rename_i hn
      split
      · intro a o ho
        unfold moveIn
        have hne : a ≠ x.1 := by intro hc; subst hc; simp [ho] at hn
        cases t <;> simp [upd_other _ _ hne, ho]
      · exact CacheKeep.refl s

/-- **C06_tmp_independent**: the cache after a fetch does not depend on where the temporary directory is. -/
theorem C06_tmp_independent (g : Guid) (st : Storage) (s : St) (l : List (Addr × Dl)) :
    fetch true g st s l = fetch false g st s l := by
  unfold fetch
  induction l generalizing s with
  | nil => rfl
  | cons x l ih =>
    simp only [List.foldl_cons]
    have : fetchOne true g st s x = fetchOne false g st s x := by
      unfold fetchOne moveIn; rfl
    rw [this]; exact ih _

/-- a fetch with all downloads succeeding brings every stored, missing object -/
theorem fetch_brings (t : Bool) (g : Guid) (st : Storage) (s : St) (l : List (Addr × Dl)) (a : Addr) (b : Bytes)
    (hst : st.objs (g, a) = some b) (hm : (a, Dl.ok) ∈ l) (hnone : s.cache a = none) :
    ∃ o, (fetch t g st s l).cache a = some o ∧ o.b = b := by
  unfold fetch
  induction l generalizing s with
  | nil => cases hm
  | cons x l ih =>
    simp only [List.foldl_cons]
    by_cases hx : x = (a, Dl.ok)
    · subst hx
      have h1 : ∃ o, (fetchOne t g st s (a, Dl.ok)).cache a = some o ∧ o.b = b := by
        unfold fetchOne
        simp only [hnone, Option.isSome_none, Bool.false_eq_true, if_false, received, tempFile, hst, Option.isSome_some]
        unfold moveIn
        cases t <;> simp
      obtain ⟨o, ho, hb⟩ := h1
      exact ⟨o, fetch_keep t g st _ l a o ho, hb⟩
    · have hm' : (a, Dl.ok) ∈ l := by
        rcases List.mem_cons.mp hm with h | h
        · exact absurd h.symm hx
        · exact h
      cases hc : (fetchOne t g st s x).cache a with
      | none => exact ih _ hm' hc
      | some o =>
        -- it arrived through another entry for the same address: it holds the stored bytes
        have := fetch_keep t g st _ l a o hc
        refine ⟨o, this, ?_⟩
        unfold fetchOne at hc
        split at hc
        · rw [hnone] at hc; cases hc
        · split at hc
          · rename_i b' hrec htmp
            unfold moveIn at hc
            have hc' : upd s.cache x.1 (some ⟨b', true, s.clock⟩) a = some o := by cases t <;> simpa using hc
            by_cases ha : a = x.1
            · subst ha
              simp at hc'; subst hc'
              cases hx2 : x.2 <;> simp [received, tempFile, hx2] at hrec htmp
              rw [hst] at htmp; cases htmp; rfl
            · rw [upd_other _ _ ha, hnone] at hc'; cases hc'
          · rw [hnone] at hc; cases hc

/-- **C06_roundtrip**: `send` from a repository whose cache holds the object of `p`, then — in a clone
    with the same records and an empty cache (or the same repository after its cache was removed) —
    `bring`: fetch (all commands succeeding, temporary directory anywhere) followed by `recheck`
    yields byte-identical content at `p`, for every recheck method. -/
theorem C06_roundtrip (c : Cfg) (t : Bool) (g : Guid) (sA sB : St) (st : Storage) (ups : List (Addr × Ul))
    (dls : List (Addr × Dl)) (p : Path) (e : Ent) (r : Rec) (d : Digest) (o : Obj) (n : Nat) (m : Option Method)
    (hA : sA.cache (addrOf p d) = some o) (hup : (addrOf p d, Ul.ok) ∈ ups)
    (hfind : sB.findEnt p = some e) (hrec : sB.recs e = some r) (hcur : r.cur = some d) (hmd : r.md = .stamp n)
    (hB : sB.cache (addrOf p d) = none) (hws : sB.ws p = none) (hdl : (addrOf p d, Dl.ok) ∈ dls) :
    let sB' := fetch t g (send g sA st ups) sB dls
    (sB'.recheckOne c m false p).2 = .ok ∧ ∃ k, (sB'.recheckOne c m false p).1.readThrough p = some (o.b, k) := by
  have hst := send_objs_mem g sA st ups (addrOf p d) o hA hup
  obtain ⟨o', ho', hb'⟩ := fetch_brings t g (send g sA st ups) sB dls (addrOf p d) o.b hst hdl hB
  have hrecs : ∀ (l : List (Addr × Dl)) (s : St), (fetch t g (send g sA st ups) s l).recs = s.recs ∧
      (fetch t g (send g sA st ups) s l).next = s.next ∧ (fetch t g (send g sA st ups) s l).ws = s.ws := by
    intro l
    induction l with
    | nil => intro s; exact ⟨rfl, rfl, rfl⟩
    | cons x l ih =>
      intro s
      unfold fetch at ih ⊢
      simp only [List.foldl_cons]
      obtain ⟨h1, h2, h3⟩ := ih (fetchOne t g (send g sA st ups) s x)
      have hf : (fetchOne t g (send g sA st ups) s x).recs = s.recs ∧
          (fetchOne t g (send g sA st ups) s x).next = s.next ∧ (fetchOne t g (send g sA st ups) s x).ws = s.ws := by
        unfold fetchOne moveIn
        repeat' split
        all_goals exact ⟨rfl, rfl, rfl⟩
      exact ⟨h1.trans hf.1, h2.trans hf.2.1, h3.trans hf.2.2⟩
  obtain ⟨h1, h2, h3⟩ := hrecs dls sB
  have hfind' : (fetch t g (send g sA st ups) sB dls).findEnt p = some e := by
    unfold St.findEnt at hfind ⊢; rw [h1, h2]; exact hfind
  have := C01_recheck_restores c (fetch t g (send g sA st ups) sB dls) p e r d o' n m false hfind'
    (by rw [h1]; exact hrec) hcur hmd ho' (Or.inl (by rw [h3]; exact hws))
  rw [hb'] at this
  exact ⟨this.1, this.2.1⟩

/-- **C06_idempotent (bring)**: fetching again changes nothing (every requested path is now cached). -/
theorem C06_fetch_again_noop (t : Bool) (g : Guid) (st : Storage) (s : St) (l : List (Addr × Dl))
    (h : ∀ x ∈ l, (s.cache x.1).isSome) : fetch t g st s l = s := by
  unfold fetch
  induction l with
  | nil => rfl
  | cons x l ih =>
    simp only [List.foldl_cons]
    have : fetchOne t g st s x = s := by unfold fetchOne; simp [h x (by simp)]
    rw [this]
    exact ih (fun y hy => h y (by simp [hy]))


/-! ## the final move into the cache under a fault (`fetchF`)

  The move of a downloaded object from the temporary directory into the cache is the last write of a
  bring.  `Mv.fails` is the outcome "the step fails half way or the process dies in it" (disk full, quota, file
  size limit, kill).  The object appears at its address atomically or not at all, whether or not the temporary
  directory is on the same device. -/
/-- a failed final move changes nothing: no object, the cache as it was -/
theorem C06_move_fails_cache_unchanged (t : Bool) (s : St) (a : Addr) (b : Bytes) (n : Nat) :
    (moveInF t s a b (.fails n)).st = s ∧ (moveInF t s a b (.fails n)).done = false := ⟨rfl, rfl⟩

/-- with every final move succeeding `fetchF` is `fetch`: the theorems about `fetch` are theorems about the
    fault-free runs of `fetchF` -/
theorem fetchF_all_ok (t : Bool) (g : Guid) (st : Storage) (s : St) (l : List (Addr × Dl)) :
    fetchF t g st s (l.map (fun x => (x.1, x.2, Mv.ok))) = (fetch t g st s l, .ok) := by
  unfold fetchF fetch
  induction l generalizing s with
  | nil => rfl
  | cons x l ih =>
    simp only [List.map_cons, List.foldl_cons, fetchWith]
    have hf : fetchOne t g st s x = if (s.cache x.1).isSome then s else
        match received g st x.1 x.2, tempFile g st x.1 x.2 with
        | true, some b => moveIn t s x.1 b
        | _, _ => s := rfl
    rw [hf]
    by_cases hc : (s.cache x.1).isSome
    · simp only [hc, if_true]; exact ih s
    · simp only [hc, Bool.false_eq_true, if_false]
      cases hr : received g st x.1 x.2 <;> cases ht : tempFile g st x.1 x.2 <;>
        first
        | exact ih s
        | (simp only [moveInF, if_true]; exact ih _)

/-- one step of `fetchF`: an object that is in the cache afterwards was there before or is the complete, read-only
    copy of what the storage holds for that address -/
theorem C06_failed_final_move_leaves_no_object (t : Bool) (g : Guid) (st : Storage) (s : St)
    (l : List (Addr × Dl × Mv)) (a : Addr) (o : Obj) (h : (fetchF t g st s l).1.cache a = some o) :
    s.cache a = some o ∨ (st.objs (g, a) = some o.b ∧ o.ro = true) := by
  unfold fetchF at h
  induction l generalizing s with
  | nil => exact Or.inl h
  | cons x l ih =>
    simp only [fetchWith] at h
    split at h
    · exact ih s h
    · split at h
      · rename_i b hrec htmp
        have hb : st.objs (g, x.1) = some b := by
          cases hx : x.2.1 <;> simp [received, tempFile, hx] at hrec htmp
          exact htmp
        cases hm : x.2.2 with
        | ok =>
          simp only [hm, moveInF, if_true] at h
          rcases ih _ h with h' | h'
          · unfold moveIn at h'
            have h'' : upd s.cache x.1 (some ⟨b, true, s.clock⟩) a = some o := by cases t <;> simpa using h'
            by_cases ha : a = x.1
            · subst ha; simp at h''; subst h''; exact Or.inr ⟨hb, rfl⟩
            · rw [upd_other _ _ ha] at h''; exact Or.inl h''
          · exact Or.inr h'
        | fails n =>
          simp only [hm, moveInF, Bool.false_eq_true, if_false] at h
          exact Or.inl h
      · exact ih s h

/-- for every pattern of download outcomes AND of failing final moves, with the temporary directory on the same
    or on another file system: the cache after the fetch holds old objects and valid new ones only -/
theorem C06_final_move_faults_never_corrupt (t : Bool) (g : Guid) (st : Storage) (hsa : SA st) (s : St)
    (l : List (Addr × Dl × Mv)) : CacheFrom s (fetchF t g st s l).1 := by
  intro a o h
  rcases C06_failed_final_move_leaves_no_object t g st s l a o h with h' | ⟨h1, h2⟩
  · exact Or.inl h'
  · exact Or.inr ⟨hsa g a o.b h1, h2⟩

/-- where the temporary directory is makes no difference, whatever fails -/
theorem C06_final_move_tmp_independent (g : Guid) (st : Storage) (s : St) (l : List (Addr × Dl × Mv)) :
    fetchF true g st s l = fetchF false g st s l := by
  unfold fetchF
  induction l generalizing s with
  | nil => rfl
  | cons x l ih =>
    simp only [fetchWith]
    have hm : ∀ b, (moveInF true s x.1 b x.2.2).st = (moveInF false s x.1 b x.2.2).st ∧
        (moveInF true s x.1 b x.2.2).done = (moveInF false s x.1 b x.2.2).done := by
      intro b; cases x.2.2 <;> exact ⟨rfl, rfl⟩
    split
    · exact ih s
    · split
      · rename_i b _ _
        rw [(hm b).1, (hm b).2]
        split
        · exact ih _
        · rfl
      · exact ih s

/-- objects that are in the cache stay, whatever fails -/
theorem fetchF_keep (t : Bool) (g : Guid) (st : Storage) (s : St) (l : List (Addr × Dl × Mv)) :
    CacheKeep s (fetchF t g st s l).1 := by
  unfold fetchF
  induction l generalizing s with
  | nil => exact CacheKeep.refl s
  | cons x l ih =>
    simp only [fetchWith]
    split
    · exact ih s
    · rename_i hn
      split
      · rename_i b _ _
        cases hm : x.2.2 with
        | ok =>
          simp only [moveInF, if_true]
          refine CacheKeep.trans ?_ (ih _)
          intro a o ho
          have hne : a ≠ x.1 := by intro hc; subst hc; simp [ho] at hn
          unfold moveIn
          cases t <;> simp [upd_other _ _ hne, ho]
        | fails n =>
          simp only [moveInF, Bool.false_eq_true, if_false]
          exact CacheKeep.refl s
      · exact ih s

/-- bringing again after ANY pattern of failed downloads and failed final moves: a second fetch whose
    commands and moves succeed puts the storage's bytes at every requested, stored address -/
theorem C06_rebring_after_failed_move (t : Bool) (g : Guid) (st : Storage) (s : St)
    (l1 : List (Addr × Dl × Mv)) (l2 : List (Addr × Dl)) (a : Addr) (b : Bytes)
    (hst : st.objs (g, a) = some b) (hm : (a, Dl.ok) ∈ l2) (hnone : s.cache a = none) :
    ∃ o, (fetch t g st (fetchF t g st s l1).1 l2).cache a = some o ∧ o.b = b := by
  cases hc : (fetchF t g st s l1).1.cache a with
  | none => exact fetch_brings t g st _ l2 a b hst hm hc
  | some o =>
    refine ⟨o, fetch_keep t g st _ l2 a o hc, ?_⟩
    rcases C06_failed_final_move_leaves_no_object t g st s l1 a o hc with h | ⟨h, _⟩
    · rw [hnone] at h; cases h
    · rw [hst] at h; cases h; rfl

/-- the sending repository of the witnesses: `p.txt` = `hi!` tracked (default configuration) -/
def wA : St := ((St.init.userWrite ⟨0, 1⟩ [104, 105, 33]).track {} {} [⟨0, 1⟩]).1
def wAddr : Addr := addrOf ⟨0, 1⟩ ⟨0, [104, 105, 33]⟩
/-- the storage after `send` -/
def wSt : Storage := send 7 wA { objs := fun _ => none } [(wAddr, Ul.ok)]
/-- a clone: the records of `wA`, empty cache and workspace -/
def wB : St := { wA with ws := fun _ => none, cache := fun _ => none }

/-- **counterexample for the in-place copy (NOT the code)**: temporary directory on another file system, the final
    move fails after 2 of the 3 bytes.  The partial copy sits AT the cache address; the second bring (no fault) takes
    it for present, does not download again, and recheck delivers the 2 bytes as `p.txt`. -/
theorem C06_in_place_copy_counterexample :
    let r1 := fetchInPlace false 7 wSt wB [(wAddr, Dl.ok, Mv.fails 2)]
    let s2 := (fetchInPlace false 7 wSt r1.1 [(wAddr, Dl.ok, Mv.ok)]).1
    wSt.objs (7, wAddr) = some [104, 105, 33] ∧
    r1.2 = .panic ∧ (r1.1.cache wAddr).map (·.b) = some [104, 105] ∧
    (s2.cache wAddr).map (·.b) = some [104, 105] ∧
    (s2.recheckOne {} none false ⟨0, 1⟩).2 = .ok ∧
    ((s2.recheckOne {} none false ⟨0, 1⟩).1.readThrough ⟨0, 1⟩).map (·.1) = some [104, 105] := by decide

/-- the same history with the code's move: nothing at the address after the failed bring, the second bring
    downloads again and `p.txt` is byte-identical -/
theorem C06_failed_final_move_then_rebring_witness :
    let r1 := fetchF false 7 wSt wB [(wAddr, Dl.ok, Mv.fails 2)]
    let s2 := (fetchF false 7 wSt r1.1 [(wAddr, Dl.ok, Mv.ok)]).1
    r1.2 = .panic ∧ r1.1.cache wAddr = none ∧
    (moveInF false wB wAddr [104, 105, 33] (Mv.fails 2)).hidden = some [104, 105] ∧
    (s2.cache wAddr).map (·.b) = some [104, 105, 33] ∧
    (s2.recheckOne {} none false ⟨0, 1⟩).2 = .ok ∧
    ((s2.recheckOne {} none false ⟨0, 1⟩).1.readThrough ⟨0, 1⟩).map (·.1) = some [104, 105, 33] := by decide

/-- with the temporary directory on the SAME file system the in-place variant is harmless too (`rename`):
    the defect needs both, another device and a fault -/
example : (fetchInPlace true 7 wSt wB [(wAddr, Dl.ok, Mv.fails 2)]).1.cache wAddr = none := by decide

example : ∃ (sA : St) (o : Obj), sA.cache (addrOf ⟨0, 1⟩ ⟨0, [104]⟩) = some o ∧ SA { objs := fun _ => none } :=
  ⟨((St.init.userWrite ⟨0, 1⟩ [104]).track {} {} [⟨0, 1⟩]).1, ⟨[104], true, 1⟩, by decide, by intro g a b h; cases h⟩

end Repo

open Repo in
#print axioms C06_guid_separation
open Repo in
#print axioms C06_send_idempotent
open Repo in
#print axioms C06_faults_never_corrupt
open Repo in
#print axioms C06_tmp_independent
open Repo in
#print axioms C06_roundtrip
open Repo in
#print axioms C06_fetch_again_noop
open Repo in
#print axioms C06_move_fails_cache_unchanged
open Repo in
#print axioms C06_failed_final_move_leaves_no_object
open Repo in
#print axioms C06_final_move_faults_never_corrupt
open Repo in
#print axioms C06_final_move_tmp_independent
open Repo in
#print axioms C06_rebring_after_failed_move
open Repo in
#print axioms C06_in_place_copy_counterexample
open Repo in
#print axioms C06_failed_final_move_then_rebring_witness
