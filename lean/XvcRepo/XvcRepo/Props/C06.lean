import XvcRepo.Storage
import XvcRepo.Props.C01
/-!
  # C06 — Send and bring through a storage form a lossless round trip
-/
namespace Repo

/-- every storage object is stored under the address of its own bytes -/
def SA (st : Storage) : Prop := ∀ g a b, st.objs (g, a) = some b → HashOf a.d b

theorem sendOne_objs (g : Guid) (s : St) (st : Storage) (x : Addr × Ul) (k : Guid × Addr) :
    (sendOne g s st x).objs k =
      match s.cache x.1, x.2 with
      | some o, .ok => if k = (g, x.1) then some o.b else st.objs k
      | _, _ => st.objs k := by
  unfold sendOne
  cases hc : s.cache x.1 <;> cases hu : x.2 <;> simp [upd]

/-- **C06_guid_separation**: sending from the repository with guid `g` never touches a key of another
    repository: repositories sharing a storage do not collide. -/
theorem C06_guid_separation (g g' : Guid) (h : g' ≠ g) (s : St) (st : Storage) (l : List (Addr × Ul)) (a : Addr) :
    (send g s st l).objs (g', a) = st.objs (g', a) := by
  unfold send
  induction l generalizing st with
  | nil => rfl
  | cons x l ih =>
    simp only [List.foldl_cons]
    rw [ih, sendOne_objs]
    split
    · have : (g', a) ≠ (g, x.1) := by intro hc; exact h (by cases hc; rfl)
      simp [this]
    · rfl

/-- what a send leaves at a key of the own repository -/
theorem send_objs_mem (g : Guid) (s : St) (st : Storage) (l : List (Addr × Ul)) (a : Addr) (o : Obj)
    (hc : s.cache a = some o) (hm : (a, Ul.ok) ∈ l) : (send g s st l).objs (g, a) = some o.b := by
  unfold send
  induction l generalizing st with
  | nil => cases hm
  | cons x l ih =>
    simp only [List.foldl_cons]
    by_cases hml : (a, Ul.ok) ∈ l
    · exact ih _ hml
    · have hx : x = (a, Ul.ok) := by
        rcases List.mem_cons.mp hm with h | h
        · exact h.symm
        · exact absurd h hml
      subst hx
      have key : ∀ (l : List (Addr × Ul)) (st : Storage), (a, Ul.ok) ∉ l → st.objs (g, a) = some o.b →
          (List.foldl (sendOne g s) st l).objs (g, a) = some o.b := by
        intro l
        induction l with
        | nil => intro st _ h; exact h
        | cons y l ih2 =>
          intro st hnm h
          simp only [List.foldl_cons]
          apply ih2 _ (fun hc => hnm (List.mem_cons_of_mem _ hc))
          rw [sendOne_objs]
          split
          · rename_i o' ho' hu
            by_cases hk : (g, a) = (g, y.1)
            · have : y.1 = a := by cases hk; rfl
              rw [this, hc] at ho'
              cases ho'
              simp only [hk, if_true]
            · simp [hk, h]
          · exact h
      apply key l _ hml
      rw [sendOne_objs]; simp [hc]

/-- send keeps the storage content-addressed -/
theorem send_SA (g : Guid) (s : St) (st : Storage) (l : List (Addr × Ul))
    (hca : ∀ a o, s.cache a = some o → Valid a o) (hsa : SA st) : SA (send g s st l) := by
  unfold send
  induction l generalizing st with
  | nil => exact hsa
  | cons x l ih =>
    simp only [List.foldl_cons]
    apply ih
    intro g' a b hb
    rw [sendOne_objs] at hb
    split at hb
    · rename_i o ho _
      by_cases hk : (g', a) = (g, x.1)
      · simp [hk] at hb
        have : a = x.1 := by cases hk; rfl
        subst this; subst hb
        exact (hca _ o ho).1
      · simp [hk] at hb; exact hsa g' a b hb
    · exact hsa g' a b hb

/-- **C06_idempotent (send)**: sending again — same targets, all uploads succeeding — changes nothing. -/
theorem C06_send_idempotent (g : Guid) (s : St) (st : Storage) (as : List Addr) (k : Guid × Addr) :
    (send g s (send g s st (as.map (·, Ul.ok))) (as.map (·, Ul.ok))).objs k =
    (send g s st (as.map (·, Ul.ok))).objs k := by
  have key : ∀ (l : List Addr) (st' : Storage),
      (∀ a ∈ l, ∀ o, s.cache a = some o → st'.objs (g, a) = some o.b) →
      (send g s st' (l.map (·, Ul.ok))).objs k = st'.objs k := by
    intro l
    induction l with
    | nil => intro st' _; rfl
    | cons a l ih =>
      intro st' h
      unfold send
      simp only [List.map_cons, List.foldl_cons]
      have h1 : (sendOne g s st' (a, Ul.ok)).objs = st'.objs := by
        funext k'
        rw [sendOne_objs]
        split
        · rename_i o ho _
          by_cases hk : k' = (g, a)
          · subst hk; simp [h a (by simp) o ho]
          · simp [hk]
        · rfl
      have : sendOne g s st' (a, Ul.ok) = st' := by
        cases hs : sendOne g s st' (a, Ul.ok); cases st'; simp_all
      rw [this]
      exact ih st' (fun a' ha' => h a' (by simp [ha']))
  apply key
  intro a ha o ho
  exact send_objs_mem g s st _ a o ho (by simp [List.mem_map]; exact ha)

theorem fetchOne_from (t : Bool) (g : Guid) (st : Storage) (hsa : SA st) (s : St) (x : Addr × Dl) :
    CacheFrom s (fetchOne t g st s x) := by
  unfold fetchOne
  split
  · exact CacheFrom.refl s
  · split
    · rename_i b hrec htmp
      -- received ⇒ the outcome was `ok` and the temp file holds the stored bytes
      have hb : st.objs (g, x.1) = some b := by
        cases hx : x.2 <;> simp [received, tempFile, hx] at hrec htmp
        exact htmp
      intro a o ho
      unfold moveIn at ho
      have ho' : upd s.cache x.1 (some ⟨b, true, s.clock⟩) a = some o := by
        cases t <;> simpa using ho
      by_cases ha : a = x.1
      · subst ha; simp at ho'; subst ho'
        exact Or.inr ⟨hsa g _ b hb, rfl⟩
      · rw [upd_other _ _ ha] at ho'; exact Or.inl ho'
    · exact CacheFrom.refl s

/-- **C06_faults_never_corrupt**: for **every** pattern of succeeding, cleanly failing and partially
    failing download commands, with the temporary directory on the same or on another file system,
    every object in the cache after `bring`'s fetch is an old object or a read-only object at the
    address of its own bytes: a failed transfer never leaves a wrong or partial object at a cache
    address. -/
theorem C06_faults_never_corrupt (t : Bool) (g : Guid) (st : Storage) (hsa : SA st) (s : St) (l : List (Addr × Dl)) :
    CacheFrom s (fetch t g st s l) := by
  unfold fetch
  induction l generalizing s with
  | nil => exact CacheFrom.refl s
  | cons x l ih => exact (fetchOne_from t g st hsa s x).trans (ih _)

/-- existing objects are never replaced by a fetch -/
theorem fetch_keep (t : Bool) (g : Guid) (st : Storage) (s : St) (l : List (Addr × Dl)) :
    CacheKeep s (fetch t g st s l) := by
  unfold fetch
  induction l generalizing s with
  | nil => exact CacheKeep.refl s
  | cons x l ih =>
    refine CacheKeep.trans ?_ (ih _)
    unfold fetchOne
    split
    · exact CacheKeep.refl s
    · rename_i hn
      split
      · intro a o ho
        unfold moveIn
        have hne : a ≠ x.1 := by intro hc; subst hc; simp [ho] at hn
        cases t <;> simp [upd_other _ _ hne, ho]
      · exact CacheKeep.refl s

/-- **C06_tmp_independent**: the cache after a fetch does not depend on where the temporary directory is. -/
theorem C06_tmp_independent (g : Guid) (st : Storage) (s : St) (l : List (Addr × Dl)) :
    fetch true g st s l = fetch false g st s l := by
  unfold fetch
  induction l generalizing s with
  | nil => rfl
  | cons x l ih =>
    simp only [List.foldl_cons]
    have : fetchOne true g st s x = fetchOne false g st s x := by
      unfold fetchOne moveIn; rfl
    rw [this]; exact ih _

/-- a fetch with all downloads succeeding brings every stored, missing object -/
theorem fetch_brings (t : Bool) (g : Guid) (st : Storage) (s : St) (l : List (Addr × Dl)) (a : Addr) (b : Bytes)
    (hst : st.objs (g, a) = some b) (hm : (a, Dl.ok) ∈ l) (hnone : s.cache a = none) :
    ∃ o, (fetch t g st s l).cache a = some o ∧ o.b = b := by
  unfold fetch
  induction l generalizing s with
  | nil => cases hm
  | cons x l ih =>
    simp only [List.foldl_cons]
    by_cases hx : x = (a, Dl.ok)
    · subst hx
      have h1 : ∃ o, (fetchOne t g st s (a, Dl.ok)).cache a = some o ∧ o.b = b := by
        unfold fetchOne
        simp only [hnone, Option.isSome_none, Bool.false_eq_true, if_false, received, tempFile, hst, Option.isSome_some]
        unfold moveIn
        cases t <;> simp
      obtain ⟨o, ho, hb⟩ := h1
      exact ⟨o, fetch_keep t g st _ l a o ho, hb⟩
    · have hm' : (a, Dl.ok) ∈ l := by
        rcases List.mem_cons.mp hm with h | h
        · exact absurd h.symm hx
        · exact h
      cases hc : (fetchOne t g st s x).cache a with
      | none => exact ih _ hm' hc
      | some o =>
        -- it arrived through another entry for the same address: it holds the stored bytes
        have := fetch_keep t g st _ l a o hc
        refine ⟨o, this, ?_⟩
        unfold fetchOne at hc
        split at hc
        · rw [hnone] at hc; cases hc
        · split at hc
          · rename_i b' hrec htmp
            unfold moveIn at hc
            have hc' : upd s.cache x.1 (some ⟨b', true, s.clock⟩) a = some o := by cases t <;> simpa using hc
            by_cases ha : a = x.1
            · subst ha
              simp at hc'; subst hc'
              cases hx2 : x.2 <;> simp [received, tempFile, hx2] at hrec htmp
              rw [hst] at htmp; cases htmp; rfl
            · rw [upd_other _ _ ha, hnone] at hc'; cases hc'
          · rw [hnone] at hc; cases hc

/-- **C06_roundtrip**: `send` from a repository whose cache holds the object of `p`, then — in a clone
    with the same records and an empty cache (or the same repository after its cache was removed) —
    `bring`: fetch (all commands succeeding, temporary directory anywhere) followed by `recheck`
    yields byte-identical content at `p`, for every recheck method. -/
theorem C06_roundtrip (c : Cfg) (t : Bool) (g : Guid) (sA sB : St) (st : Storage) (ups : List (Addr × Ul))
    (dls : List (Addr × Dl)) (p : Path) (e : Ent) (r : Rec) (d : Digest) (o : Obj) (n : Nat) (m : Option Method)
    (hA : sA.cache (addrOf p d) = some o) (hup : (addrOf p d, Ul.ok) ∈ ups)
    (hfind : sB.findEnt p = some e) (hrec : sB.recs e = some r) (hcur : r.cur = some d) (hmd : r.md = .stamp n)
    (hB : sB.cache (addrOf p d) = none) (hws : sB.ws p = none) (hdl : (addrOf p d, Dl.ok) ∈ dls) :
    let sB' := fetch t g (send g sA st ups) sB dls
    (sB'.recheckOne c m false p).2 = .ok ∧ ∃ k, (sB'.recheckOne c m false p).1.readThrough p = some (o.b, k) := by
  have hst := send_objs_mem g sA st ups (addrOf p d) o hA hup
  obtain ⟨o', ho', hb'⟩ := fetch_brings t g (send g sA st ups) sB dls (addrOf p d) o.b hst hdl hB
  have hrecs : ∀ (l : List (Addr × Dl)) (s : St), (fetch t g (send g sA st ups) s l).recs = s.recs ∧
      (fetch t g (send g sA st ups) s l).next = s.next ∧ (fetch t g (send g sA st ups) s l).ws = s.ws := by
    intro l
    induction l with
    | nil => intro s; exact ⟨rfl, rfl, rfl⟩
    | cons x l ih =>
      intro s
      unfold fetch at ih ⊢
      simp only [List.foldl_cons]
      obtain ⟨h1, h2, h3⟩ := ih (fetchOne t g (send g sA st ups) s x)
      have hf : (fetchOne t g (send g sA st ups) s x).recs = s.recs ∧
          (fetchOne t g (send g sA st ups) s x).next = s.next ∧ (fetchOne t g (send g sA st ups) s x).ws = s.ws := by
        unfold fetchOne moveIn
        repeat' split
        all_goals exact ⟨rfl, rfl, rfl⟩
      exact ⟨h1.trans hf.1, h2.trans hf.2.1, h3.trans hf.2.2⟩
  obtain ⟨h1, h2, h3⟩ := hrecs dls sB
  have hfind' : (fetch t g (send g sA st ups) sB dls).findEnt p = some e := by
    unfold St.findEnt at hfind ⊢; rw [h1, h2]; exact hfind
  have := C01_recheck_restores c (fetch t g (send g sA st ups) sB dls) p e r d o' n m false hfind'
    (by rw [h1]; exact hrec) hcur hmd ho' (Or.inl (by rw [h3]; exact hws))
  rw [hb'] at this
  exact ⟨this.1, this.2.1⟩

/-- **C06_idempotent (bring)**: fetching again changes nothing (every requested path is now cached). -/
theorem C06_fetch_again_noop (t : Bool) (g : Guid) (st : Storage) (s : St) (l : List (Addr × Dl))
    (h : ∀ x ∈ l, (s.cache x.1).isSome) : fetch t g st s l = s := by
  unfold fetch
  induction l with
  | nil => rfl
  | cons x l ih =>
    simp only [List.foldl_cons]
    have : fetchOne t g st s x = s := by unfold fetchOne; simp [h x (by simp)]
    rw [this]
    exact ih (fun y hy => h y (by simp [hy]))

example : ∃ (sA : St) (o : Obj), sA.cache (addrOf ⟨0, 1⟩ ⟨0, [104]⟩) = some o ∧ SA { objs := fun _ => none } :=
  ⟨((St.init.userWrite ⟨0, 1⟩ [104]).track {} {} [⟨0, 1⟩]).1, ⟨[104], true, 1⟩, by decide, by intro g a b h; cases h⟩

end Repo

open Repo in
#print axioms C06_guid_separation
open Repo in
#print axioms C06_send_idempotent
open Repo in
#print axioms C06_faults_never_corrupt
open Repo in
#print axioms C06_tmp_independent
open Repo in
#print axioms C06_roundtrip
open Repo in
#print axioms C06_fetch_again_noop
