import XvcRepo.Props.C19Many
/-!
  # C19 — "the destination is already tracked" is a fact of the path STORE, not of the workspace

  `xvc file move SRC DIR/` refuses when a destination path is recorded for an entity (`entities_for(&dest_path)`),
  whether or not a file is at that path in the workspace: a path tracked and then deleted, or created by
  `xvc file copy --no-recheck`, is tracked and absent.  Deciding with one `lstat` of the workspace path (seeded change
  C19-6) lets the move through: two entities carry one path, the number of distinct tracked paths drops by one.
-/
namespace Repo

/-- **C19_move_refuses_tracked_absent_destination**: `move` with a directory destination, any number of selected
    sources: if the destination of ANY selected source is recorded in the path store, the command refuses and changes
    nothing — also when that destination is absent from the workspace (`s.ws x.dst = none` is allowed: nothing is
    assumed about the workspace). -/
theorem C19_move_refuses_tracked_absent_destination (c : Cfg) (o : CopyOpts) (dp : Path) (s : St) (pairs : List (Path × Path))
    (x : Sel) (hx : x ∈ s.select pairs) (ht : (s.findEnt x.dst).isSome) :
    s.moveMany c o (some dp) pairs = (s, .refused) := by
  unfold St.moveMany
  simp only
  split
  · rfl
  · have : s.moveRefused c o (s.select pairs) = true := by
      unfold St.moveRefused
      have h2 : (s.select pairs).any (fun x => (s.findEnt x.dst).isSome || (s.ws x.dst).isSome) = true :=
        List.any_eq_true.mpr ⟨x, hx, by simp [ht]⟩
      simp [h2]
    simp [this]

/-- the same for the file-destination form (one source): `C19_refusals` does not look at the workspace either -/
theorem C19_move_file_form_refuses_tracked_absent_destination (c : Cfg) (o : CopyOpts) (s : St) (src dst : Path) (se : Ent) (r : Rec)
    (hs : s.findEnt src = some se) (hr : s.recs se = some r) (hch : s.sourceChanged c r = false)
    (ht : (s.findEnt dst).isSome) (_habsent : s.ws dst = none) :
    s.move c o src dst = (s, .refused) ∧ (o.force = false → s.copy c o src dst = (s, .refused)) :=
  ⟨(C19_refusals c o s src dst se r hs hr).2.2 hch ht, fun hf => (C19_refusals c o s src dst se r hs hr).2.1 hch ht hf⟩

/-! ## the seeded test on the model -/

/-- `St.moveRefused` when "destination occupied" is decided by the workspace alone -/
def St.moveRefusedWorkspaceOnly (c : Cfg) (o : CopyOpts) (s : St) (sel : List Sel) : Bool :=
  sel.any (fun x => s.sourceChanged c x.r) ||
  sel.any (fun x => (s.ws x.dst).isSome) ||
  sel.any (fun x => s.moveBlocked x.r x.r.path (o.method.getD x.r.method) o.noRecheck)

def St.moveManyWorkspaceOnly (c : Cfg) (o : CopyOpts) (dp : Path) (s : St) (pairs : List (Path × Path)) : St × Out :=
  let sel := s.select pairs
  if (s.findEnt dp).isSome then (s, .refused)
  else if s.moveRefusedWorkspaceOnly c o sel then (s, .refused)
  else forEachStop (St.moveOne o) s sel

/-- **C19_move_workspace_only_counterexample**: `a` (path 0) and `d/a` (path 1) tracked, `d/a` deleted from the
    workspace; `xvc file move a d/` maps `a` to `d/a`.  The code as it is refuses and changes nothing.  With the
    workspace-only test the move goes through: entities 1 and 2 both carry the path `d/a`, and only ONE distinct path is
    tracked where there were two. -/
theorem C19_move_workspace_only_counterexample :
    let a : Path := ⟨0, 1⟩
    let da : Path := ⟨1, 1⟩
    let s := (((St.init.userWrite a [97]).userWrite da [98]).track {} {} [a, da]).1.userDelete da
    (s.findEnt da).isSome = true ∧ s.ws da = none ∧
    (s.moveMany {} {} (some ⟨5, 0⟩) [(a, da)]).2 = .refused ∧
    ((s.moveMany {} {} (some ⟨5, 0⟩) [(a, da)]).1.recs 1).map (·.path) = some a ∧
    (s.moveManyWorkspaceOnly {} {} ⟨5, 0⟩ [(a, da)]).2 = .ok ∧
    ((s.moveManyWorkspaceOnly {} {} ⟨5, 0⟩ [(a, da)]).1.recs 1).map (·.path) = some da ∧
    ((s.moveManyWorkspaceOnly {} {} ⟨5, 0⟩ [(a, da)]).1.recs 2).map (·.path) = some da ∧
    (s.moveManyWorkspaceOnly {} {} ⟨5, 0⟩ [(a, da)]).1.findEnt a = none := by
  decide

/-- non-vacuity of `C19_move_refuses_tracked_absent_destination`: the state of the counterexample has a selected source whose
    destination is tracked and absent -/
example :
    let a : Path := ⟨0, 1⟩
    let da : Path := ⟨1, 1⟩
    let s := (((St.init.userWrite a [97]).userWrite da [98]).track {} {} [a, da]).1.userDelete da
    (s.select [(a, da)]).length = 1 ∧ (∀ x ∈ s.select [(a, da)], (s.findEnt x.dst).isSome ∧ s.ws x.dst = none) := by
  decide

end Repo

open Repo in
#print axioms C19_move_refuses_tracked_absent_destination
open Repo in
#print axioms C19_move_file_form_refuses_tracked_absent_destination
open Repo in
#print axioms C19_move_workspace_only_counterexample
