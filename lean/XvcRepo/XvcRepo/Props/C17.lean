import XvcRepo.Cache
/-!
  # C17 — Each recheck method materialises what it promises
-/
namespace Repo

/-- what a workspace entry must look like for a method, given the object `o` at address `a` -/
def Materialised (s : St) (p : Path) (a : Addr) (o : Obj) : Method → Prop
  | .copy | .reflink => ∃ st, s.ws p = some (.file o.b true st none)      -- independent, user-writable regular file
  | .hardlink => s.ws p = some (.file o.b false o.stamp (some a))        -- hard link of the read-only object
  | .symlink => s.ws p = some (.sym a)                                   -- symbolic link to the object

/-- **C17_method_materialises**: whenever the object exists and the path is free or readable (not a
    dangling link), `recheck_from_cache` leaves an entry of the requested kind that yields the object's
    bytes; the cache is untouched. -/
theorem C17_method_materialises (s : St) (p : Path) (a : Addr) (o : Obj) (m : Method)
    (ho : s.cache a = some o) (hp : (s.ws p).isSome → (s.readThrough p).isSome) :
    let s' := (s.recheckFromCache p a m).1
    (s.recheckFromCache p a m).2 = .ok ∧ Materialised s' p a o m ∧
    (∃ n, s'.readThrough p = some (o.b, n)) ∧ s'.cache = s.cache := by
  have hc := recheckFromCache_cache s p a m
  unfold St.recheckFromCache at hc ⊢
  have h0 : (if (s.readThrough p).isSome then s.setWs p none else s).ws p = none ∧
      (if (s.readThrough p).isSome then s.setWs p none else s).cache = s.cache := by
    split
    · simp
    · rename_i hn
      refine ⟨?_, rfl⟩
      cases hw : s.ws p with
      | none => rfl
      | some e => exact absurd (hp (by simp [hw])) hn
  generalize (if (s.readThrough p).isSome then s.setWs p none else s) = s0 at h0 hc ⊢
  obtain ⟨h0w, h0c⟩ := h0
  simp only [h0w, h0c, ho] at hc ⊢
  cases m <;> simp [Materialised, St.readThrough, h0c, ho]

/-- **C17_edit_copy_keeps_object**: editing (replacing) or deleting a workspace file never changes
    the cache. -/
theorem C17_edit_copy_keeps_object (s : St) (p : Path) (b : Bytes) :
    (s.userWrite p b).cache = s.cache ∧ (s.userDelete p).cache = s.cache := ⟨rfl, rfl⟩

/-- **C17_method_sticks**: `recheck` with an explicit method records that method (when it acts), and a
    later `recheck` without a method uses the recorded one. -/
theorem C17_method_sticks (c : Cfg) (s : St) (p : Path) (e : Ent) (r : Rec) (d : Digest) (m : Method)
    (force : Bool) (hcur : r.cur = some d) (hact : s.recheckActs c r m force = true) :
    ((s.recheckRec c (some m) force p e r).1.recs e = some { r with method := m }) ∧
    (∀ s' : St, ∀ r' : Rec, r'.method = m →
      (s'.recheckRec c none true p e r').1.recs e = (s'.setRec e (some r')).recs e ∨
      (s'.recheckRec c none true p e r').2 = .panic) := by
  constructor
  · unfold St.recheckRec
    simp only [Option.getD_some, hact, hcur, Bool.not_true, Bool.false_eq_true, if_false]
    split
    · rw [recheckFromCache_recs]; simp
    · simp
  · intro s' r' hm
    have hact' : s'.recheckActs c r' r'.method true = true := by simp [St.recheckActs]
    unfold St.recheckRec
    simp only [Option.getD_none, hact', Bool.not_true, Bool.false_eq_true, if_false]
    cases hc : r'.cur with
    | none => right; rfl
    | some d' =>
      left
      simp only
      split
      · rw [recheckFromCache_recs]
      · rfl

/-- the effective method of `recheck`: requested, else stored (`diff_recheck_method`) -/
theorem C17_effective_method (r : Rec) (m : Option Method) :
    m.getD r.method = (match m with | some x => x | none => r.method) := by
  cases m <;> rfl

example : ∃ s : St, ∃ a o, s.cache a = some o ∧ s.ws ⟨0, 1⟩ = none :=
  ⟨(St.init.setCache ⟨⟨0, [1]⟩, 1⟩ (some ⟨[1], true, 0⟩)), ⟨⟨0, [1]⟩, 1⟩, ⟨[1], true, 0⟩, by simp [upd], rfl⟩

end Repo

open Repo in
#print axioms C17_method_materialises
open Repo in
#print axioms C17_edit_copy_keeps_object
open Repo in
#print axioms C17_method_sticks
open Repo in
#print axioms C17_effective_method
