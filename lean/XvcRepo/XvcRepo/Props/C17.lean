import XvcRepo.Cache
import XvcRepo.Effects
/-!
  # C17 — Each recheck method materialises what it promises
-/
namespace Repo

/-- what a workspace entry must look like for a method, given the object `o` at address `a` -/
def Materialised (s : St) (p : Path) (a : Addr) (o : Obj) : Method → Prop
  | .copy | .reflink => ∃ st, s.ws p = some (.file o.b true st none)      -- independent, user-writable regular file
  | .hardlink => s.ws p = some (.file o.b false o.stamp (some a))        -- hard link of the read-only object
  | .symlink => s.ws p = some (.sym a)                                   -- symbolic link to the object

/-- **C17_method_materialises**: whenever the object exists and the path is free or readable (not a
    dangling link), `recheck_from_cache` leaves an entry of the requested kind that yields the object's
    bytes; the cache is untouched. -/
theorem C17_method_materialises (s : St) (p : Path) (a : Addr) (o : Obj) (m : Method)
    (ho : s.cache a = some o) (hp : (s.ws p).isSome → (s.readThrough p).isSome) :
    let s' := (s.recheckFromCache p a m).1
    (s.recheckFromCache p a m).2 = .ok ∧ Materialised s' p a o m ∧
    (∃ n, s'.readThrough p = some (o.b, n)) ∧ s'.cache = s.cache := by
  have hc := recheckFromCache_cache s p a m
  unfold St.recheckFromCache at hc ⊢
  have h0 : (if (s.readThrough p).isSome then s.setWs p none else s).ws p = none ∧
      (if (s.readThrough p).isSome then s.setWs p none else s).cache = s.cache := by
    split
    · simp
    · rename_i hn
      refine ⟨?_, rfl⟩
      cases hw : s.ws p with
      | none => rfl
      | some e => exact absurd (hp (by simp [hw])) hn
  generalize (if (s.readThrough p).isSome then s.setWs p none else s) = s0 at h0 hc ⊢
  obtain ⟨h0w, h0c⟩ := h0
  simp only [h0w, h0c, ho] at hc ⊢
  cases m <;> simp [Materialised, St.readThrough, h0c, ho]

/-- **C17_edit_copy_keeps_object**: editing (replacing) or deleting a workspace file never changes
    the cache. -/
theorem C17_edit_copy_keeps_object (s : St) (p : Path) (b : Bytes) :
    (s.userWrite p b).cache = s.cache ∧ (s.userDelete p).cache = s.cache := ⟨rfl, rfl⟩

/-- **C17_method_sticks**: `recheck` with an explicit method records that method (when it acts), and a
    later `recheck` without a method uses the recorded one. -/
theorem C17_method_sticks (c : Cfg) (s : St) (p : Path) (e : Ent) (r : Rec) (d : Digest) (m : Method)
    (force : Bool) (hcur : r.cur = some d) (hact : s.recheckActs c r m force = true) :
    ((s.recheckRec c (some m) force p e r).1.recs e = some { r with method := m }) ∧
    (∀ s' : St, ∀ r' : Rec, r'.method = m →
      (s'.recheckRec c none true p e r').1.recs e = (s'.setRec e (some r')).recs e ∨
      (s'.recheckRec c none true p e r').2 = .panic) := by
  constructor
  · unfold St.recheckRec
    simp only [Option.getD_some, hact, hcur, Bool.not_true, Bool.false_eq_true, if_false]
    split
    · rw [recheckFromCache_recs]; simp
    · simp
  · intro s' r' hm
    have hact' : s'.recheckActs c r' r'.method true = true := by simp [St.recheckActs]
    unfold St.recheckRec
    simp only [Option.getD_none, hact', Bool.not_true, Bool.false_eq_true, if_false]
    cases hc : r'.cur with
    | none => right; rfl
    | some d' =>
      left
      simp only
      split
      · rw [recheckFromCache_recs]
      · rfl

/-- the effective method of `recheck`: requested, else stored (`diff_recheck_method`) -/
theorem C17_effective_method (r : Rec) (m : Option Method) :
    m.getD r.method = (match m with | some x => x | none => r.method) := by
  cases m <;> rfl

example : ∃ s : St, ∃ a o, s.cache a = some o ∧ s.ws ⟨0, 1⟩ = none :=
  ⟨(St.init.setCache ⟨⟨0, [1]⟩, 1⟩ (some ⟨[1], true, 0⟩)), ⟨⟨0, [1]⟩, 1⟩, ⟨[1], true, 0⟩, by simp [upd], rfl⟩

/-! ## `copy_via_temp_file` call by call (the copy method's "independent, user-writable file" at every crash point) -/

theorem runC_append (x : CS) (l1 l2 : List COp) : runC x (l1 ++ l2) = runC (runC x l1) l2 := by
  simp [runC, List.foldl_append]

/-- calls on the temporary file leave the workspace path alone -/
theorem runC_path_of_tmp_only (l : List COp) (h : ∀ o ∈ l, o ≠ .rename ∧ o ≠ .chmodPathW) (x : CS) :
    (runC x l).path = x.path := by
  induction l generalizing x with
  | nil => rfl
  | cons o t ih =>
    have : runC x (o :: t) = runC (o.apply x) t := rfl
    rw [this, ih (fun o' ho' => h o' (List.mem_cons_of_mem _ ho'))]
    have ho := h o (List.mem_cons_self ..)
    cases o <;> simp_all [COp.apply]

theorem runC_appends (p : Option CFile) (f : CFile) (cs : List Bytes) :
    runC ⟨p, some f⟩ (cs.map .append) = ⟨p, some { f with b := f.b ++ cs.flatten }⟩ := by
  induction cs generalizing f with
  | nil => simp [runC]
  | cons c t ih =>
    have : runC ⟨p, some f⟩ ((c :: t).map COp.append) = runC ⟨p, some { f with b := f.b ++ c }⟩ (t.map .append) := rfl
    rw [this, ih]; simp [List.append_assoc]

theorem copyViaTempPre_result (old tmp0 : Option CFile) (cs : List Bytes) :
    runC ⟨old, tmp0⟩ (copyViaTempPre cs) = ⟨old, some ⟨cs.flatten, true⟩⟩ := by
  simp only [copyViaTempPre, runC_append]
  have : runC ⟨old, tmp0⟩ [.createTmp, .fchmodRo] = ⟨old, some ⟨[], false⟩⟩ := by simp [runC, COp.apply]
  rw [this, runC_appends]
  simp [runC, COp.apply]

theorem copyViaTempPre_tmp_only (cs : List Bytes) : ∀ o ∈ copyViaTempPre cs, o ≠ .rename ∧ o ≠ .chmodPathW := by
  intro o ho
  simp only [copyViaTempPre, List.mem_append, List.mem_cons, List.mem_map, List.mem_nil_iff, or_false] at ho
  rcases ho with ((rfl | rfl) | ⟨c, _, rfl⟩) | rfl <;> simp

/-- **C17_copy_prefix_never_readonly_at_path**: for every old entry at the path, every stale temporary file, EVERY division
    of the object's bytes into copy calls and EVERY prefix of the calls of `copy_via_temp_file` (a kill between any two):
    what is at the workspace path is either the old entry, untouched, or the complete copy WITH the owner's write bit.
    A read-only or partial file is never visible at the path, so no later `recheck` (same content, same method: it
    leaves the file alone) can be stuck with one. -/
theorem C17_copy_prefix_never_readonly_at_path (old tmp0 : Option CFile) (cs : List Bytes) (k : Nat) :
    (runC ⟨old, tmp0⟩ ((copyViaTemp cs).take k)).path = old ∨
    (runC ⟨old, tmp0⟩ ((copyViaTemp cs).take k)).path = some ⟨cs.flatten, true⟩ := by
  rcases Nat.lt_or_ge k (copyViaTemp cs).length with hk | hk
  · left
    have hk' : k ≤ (copyViaTempPre cs).length := by simp [copyViaTemp] at hk; omega
    have : (copyViaTemp cs).take k = (copyViaTempPre cs).take k := by
      simp [copyViaTemp, List.take_append_of_le_length hk']
    rw [this]
    exact runC_path_of_tmp_only _ (fun o ho => copyViaTempPre_tmp_only cs o (List.mem_of_mem_take ho)) _
  · right
    rw [List.take_of_length_le hk, copyViaTemp, runC_append, copyViaTempPre_result]
    simp [runC, COp.apply]

/-- the uninterrupted procedure ends with the complete writable copy at the path and no temporary file -/
theorem C17_copy_via_temp_complete (old tmp0 : Option CFile) (cs : List Bytes) :
    runC ⟨old, tmp0⟩ (copyViaTemp cs) = ⟨some ⟨cs.flatten, true⟩, none⟩ := by
  rw [copyViaTemp, runC_append, copyViaTempPre_result]; simp [runC, COp.apply]

/-- **C17_rename_before_chmod_counterexample**: rename first, `set_writable(path)` afterwards.  Killed between the two
    (prefix of 4 calls for a one-chunk object): the COMPLETE bytes sit at the path WITHOUT the write bit - neither the old
    entry nor a writable copy; the uninterrupted run of that order ends exactly like the right one (why tests pass). -/
theorem C17_rename_before_chmod_counterexample :
    let killed := runC ⟨none, none⟩ ((copyViaTempRenameFirst [[104, 10]]).take 4)
    killed.path = some ⟨[104, 10], false⟩ ∧ killed.path ≠ none ∧ killed.path ≠ some ⟨[104, 10], true⟩ ∧
    runC ⟨none, none⟩ (copyViaTempRenameFirst [[104, 10]]) = runC ⟨none, none⟩ (copyViaTemp [[104, 10]]) := by
  decide

end Repo

open Repo in
#print axioms C17_method_materialises
open Repo in
#print axioms C17_edit_copy_keeps_object
open Repo in
#print axioms C17_method_sticks
open Repo in
#print axioms C17_effective_method
open Repo in
#print axioms C17_copy_prefix_never_readonly_at_path
open Repo in
#print axioms C17_copy_via_temp_complete
open Repo in
#print axioms C17_rename_before_chmod_counterexample
