import XvcRepo.Model
/-!
  # C02 / C01 — the text digest drops CR and LF and NOTHING else, and alters no byte

  `XvcDigest::from_text_file` reads the BYTES of the file, removes every 0x0D and 0x0A and hashes the rest (`strip`).
  So two files treated as text get the same digest input exactly when they are equal apart from line endings; every
  other byte - valid UTF-8 or not - reaches the hasher unchanged and in its place.  A reader that first DECODES the
  bytes (`String::from_utf8_lossy`: every invalid sequence becomes U+FFFD; seeded change C01-6) feeds one input for
  files that differ inside invalid sequences - Latin-1 text, for instance: one object for two contents, and one of the
  two files comes back with the other's bytes (`C02_lossy_decode_counterexample`).
-/
namespace Repo

/-- neither CR nor LF -/
def keeps (x : Nat) : Bool := !(x == 10 || x == 13)

/-- `strip` is the filter "neither CR nor LF": it selects bytes, it never rewrites one -/
theorem strip_eq_filter (b : Bytes) : strip b = b.filter keeps := by
  induction b with
  | nil => rfl
  | cons x b ih =>
    by_cases h10 : x = 10
    · simp [strip, List.filter, keeps, h10, ih]
    · by_cases h13 : x = 13
      · simp [strip, List.filter, keeps, h13, ih]
      · have hk : keeps x = true := by simp [keeps, h10, h13]
        simp [strip, List.filter, hk, h10, h13, ih]

/-- a byte string without CR and LF is hashed as it is -/
theorem strip_id_of_no_line_endings (b : Bytes) (h : ∀ x ∈ b, x ≠ 10 ∧ x ≠ 13) : strip b = b := by
  rw [strip_eq_filter]
  apply List.filter_eq_self.mpr
  intro x hx
  have := h x hx
  simp [keeps, this.1, this.2]

/-- every byte other than CR and LF occurs in the digest input exactly as often as in the file … -/
theorem strip_count (b : Bytes) (x : Nat) (hx : x ≠ 10 ∧ x ≠ 13) : (strip b).count x = b.count x := by
  induction b with
  | nil => rfl
  | cons y b ih =>
    simp only [strip]
    by_cases hy : y = 10 ∨ y = 13
    · have hne : y ≠ x := by
        intro h; subst h; cases hy with
        | inl h => exact hx.1 h
        | inr h => exact hx.2 h
      simp [hy, ih, hne]
    · simp [hy, ih, List.count_cons]

/-- … and in the same order relative to every other kept byte: the digest input is a subsequence of the file -/
theorem strip_sublist (b : Bytes) : List.Sublist (strip b) b := by
  rw [strip_eq_filter]; exact List.filter_sublist

/-- the digest input of a file treated as text is `strip` of its bytes -/
theorem digestOf_text (algo : Nat) (b : Bytes) : digestOf algo .text b = ⟨algo, strip b⟩ := by
  simp [digestOf, asText]

/-- **C02_text_digest_input_injective_modulo_line_endings**: under one algorithm two files treated as text have the same
    digest input IF AND ONLY IF they are equal after removing CR and LF - where "removing" is the plain selection of the
    other bytes (`filter`), which leaves each of them unaltered and in place.  In particular two files WITHOUT any CR or
    LF have the same digest input only if they are the same file. -/
theorem C02_text_digest_input_injective_modulo_line_endings (algo : Nat) (a b : Bytes) :
    (digestOf algo .text a = digestOf algo .text b ↔ a.filter keeps = b.filter keeps) ∧
    ((∀ x ∈ a, x ≠ 10 ∧ x ≠ 13) → (∀ x ∈ b, x ≠ 10 ∧ x ≠ 13) → digestOf algo .text a = digestOf algo .text b → a = b) := by
  constructor
  · rw [digestOf_text, digestOf_text, ← strip_eq_filter, ← strip_eq_filter]
    constructor
    · intro h; injection h
    · intro h; rw [h]
  · intro ha hb h
    rw [digestOf_text, digestOf_text] at h
    injection h with _ h
    rw [strip_id_of_no_line_endings a ha, strip_id_of_no_line_endings b hb] at h
    exact h

/-- the same for the mode `auto` on files without NUL among the first 8000 bytes -/
theorem C02_auto_text_digest_input (algo : Nat) (b : Bytes) (h : isText b = true) : digestOf algo .auto b = ⟨algo, strip b⟩ := by
  simp [digestOf, asText, h]

/-! ## a reader that decodes before it strips -/

/-- `String::from_utf8_lossy` reduced to what matters here: every byte that cannot start or continue a valid sequence in
    its context becomes the replacement character (one value, `0xFFFD`); a lone byte >= 0x80 followed by an ASCII byte is
    always such a byte.  ASCII passes unchanged. -/
def lossy (b : Bytes) : Bytes := b.map (fun x => if x ≥ 128 then 0xFFFD else x)

/-- the text digest input of the decoding reader -/
def digestOfLossy (algo : Nat) (b : Bytes) : Digest := ⟨algo, strip (lossy b)⟩

/-- **C02_lossy_decode_counterexample**: `c 0xE9 LF` and `c 0xE8 LF` (Latin-1 "é" / "è" after a letter) are text (no
    NUL), have the same line structure, differ after stripping and so have different documented digests - and ONE digest
    input after a lossy decode. -/
theorem C02_lossy_decode_counterexample :
    let a : Bytes := [99, 0xE9, 10]
    let b : Bytes := [99, 0xE8, 10]
    isText a = true ∧ isText b = true ∧ strip a ≠ strip b ∧
    digestOf 0 .auto a ≠ digestOf 0 .auto b ∧ digestOf 0 .text a ≠ digestOf 0 .text b ∧
    digestOfLossy 0 a = digestOfLossy 0 b := by
  decide

/-- on ASCII the decoding reader is the documented one (why the repository's own tests do not notice) -/
theorem C02_lossy_decode_partial (algo : Nat) (b : Bytes) (h : ∀ x ∈ b, x < 128) : digestOfLossy algo b = digestOf algo .text b := by
  have : lossy b = b := by
    unfold lossy
    conv => rhs; rw [← List.map_id b]
    apply List.map_congr_left
    intro x hx
    have := h x hx
    simp only [id]
    split
    · omega
    · rfl
  rw [digestOf_text, digestOfLossy, this]

/-- non-vacuity: two different files without line endings, both not valid UTF-8 -/
example : (∀ x ∈ ([99, 0xE9] : Bytes), x ≠ 10 ∧ x ≠ 13) ∧ (∀ x ∈ ([99, 0xE8] : Bytes), x ≠ 10 ∧ x ≠ 13) ∧
    digestOf 0 .text [99, 0xE9] ≠ digestOf 0 .text [99, 0xE8] := by decide

end Repo

open Repo in
#print axioms C02_text_digest_input_injective_modulo_line_endings
open Repo in
#print axioms C02_auto_text_digest_input
open Repo in
#print axioms C02_lossy_decode_counterexample
open Repo in
#print axioms C02_lossy_decode_partial
open Repo in
#print axioms strip_count
open Repo in
#print axioms strip_sublist
