import XvcRepo.Cache
import XvcRepo.NoLoss
import XvcRepo.Storage
/-!
  # C05 — Removal never deletes content that other tracked paths still need
-/
namespace Repo

theorem mem_of_removed (l : List Addr) (s : St) (a : Addr) (o : Obj) (h : s.cache a = some o)
    (hr : (l.foldl St.removeObj s).cache a = none) : a ∈ l := by
  by_cases hm : a ∈ l
  · exact hm
  · rw [foldl_removeObj_keep l s a hm, h] at hr; cases hr

/-- a current version is one of the versions -/
theorem cur_mem_versionsOf (s : St) (e : Ent) (r : Rec) (d : Digest) (hr : s.recs e = some r) (hc : r.cur = some d) :
    addrOf r.path d ∈ s.versionsOf e := by
  unfold St.versionsOf
  simp only [hr, List.mem_map]
  refine ⟨d, ?_, rfl⟩
  unfold Rec.cur at hc
  exact List.mem_of_getLast? hc

/-- every candidate is a recorded version of a target, whatever the selection -/
theorem removeCandidates_versions (s : St) (ts : List Ent) (sel : RemoveSel) (a : Addr)
    (h : a ∈ s.removeCandidates ts sel) : ∃ e ∈ ts, a ∈ s.versionsOf e := by
  unfold St.removeCandidates at h
  obtain ⟨e, he, hv⟩ := List.mem_flatMap.mp h
  refine ⟨e, he, ?_⟩
  cases sel with
  | all => exact hv
  | current =>
    simp only at hv
    cases hr : s.recs e with
    | none => simp [hr] at hv
    | some r =>
      simp only [hr] at hv
      cases hc : r.cur with
      | none => simp [hc] at hv
      | some d =>
        simp [hc] at hv
        subst hv
        exact cur_mem_versionsOf s e r d hr hc
  | only d => exact (List.mem_filter.mp hv).1

/-- what `cmd_remove` decides to delete (from the cache and/or from a storage), without `--force`: only
    versions of the targets that no tracked entity outside the targets refers to in any version -/
theorem removeDeletable_spares (s : St) (ps : List Path) (sel : RemoveSel) (l : List Addr)
    (h : s.removeDeletable ps sel false = some l) (a : Addr) (ha : a ∈ l) :
    (∃ e ∈ s.targetEnts ps, a ∈ s.versionsOf e) ∧ ∀ e ∈ s.ents, e ∉ s.targetEnts ps → a ∉ s.versionsOf e := by
  unfold St.removeDeletable at h
  simp only at h
  split at h
  · cases h
  · cases h
    simp only [Bool.false_or, List.mem_filter, List.isEmpty_iff] at ha
    refine ⟨removeCandidates_versions s _ sel a ha.1, ?_⟩
    intro e he hnt hv
    have : e ∈ s.otherReferrers (s.targetEnts ps) a := by
      unfold St.otherReferrers
      simp only [List.mem_filter, decide_eq_true_eq]
      exact ⟨he, hnt, hv⟩
    rw [ha.2] at this
    cases this

/-- with or without `--force`, only versions of the targets are ever deleted -/
theorem removeDeletable_target_versions (s : St) (ps : List Path) (sel : RemoveSel) (f : Bool) (l : List Addr)
    (h : s.removeDeletable ps sel f = some l) (a : Addr) (ha : a ∈ l) : ∃ e ∈ s.targetEnts ps, a ∈ s.versionsOf e := by
  unfold St.removeDeletable at h
  simp only at h
  split at h
  · cases h
  · cases h
    exact removeCandidates_versions s _ sel a (List.mem_filter.mp ha).1

/-- **C05_remove_spares_referenced**: without `--force`, `xvc file remove --from-cache` — current
    version, `--all-versions` or `--only-version` — deletes an object only if **no** tracked entity
    outside the command's targets refers to that address in its current or any earlier recorded version
    — for every repository, every sharing pattern and every target list. -/
theorem C05_remove_spares_referenced (s : St) (ps : List Path) (sel : RemoveSel) (a : Addr) (o : Obj)
    (h : s.cache a = some o) (hr : (s.remove ps sel false).1.cache a = none) :
    ∀ e ∈ s.ents, e ∉ s.targetEnts ps → a ∉ s.versionsOf e := by
  unfold St.remove at hr
  cases hd : s.removeDeletable ps sel false with
  | none => simp only [hd] at hr; rw [h] at hr; cases hr
  | some l =>
    simp only [hd] at hr
    exact (removeDeletable_spares s ps sel l hd a (mem_of_removed _ s a o h hr)).2

/-- nothing but selected versions of the targets is ever deleted (with or without `--force`) -/
theorem C05_remove_only_target_versions (s : St) (ps : List Path) (sel : RemoveSel) (force : Bool) (a : Addr) (o : Obj)
    (h : s.cache a = some o) (hr : (s.remove ps sel force).1.cache a = none) :
    ∃ e ∈ s.targetEnts ps, a ∈ s.versionsOf e := by
  unfold St.remove at hr
  cases hd : s.removeDeletable ps sel force with
  | none => simp only [hd] at hr; rw [h] at hr; cases hr
  | some l =>
    simp only [hd] at hr
    exact removeDeletable_target_versions s ps sel force l hd a (mem_of_removed _ s a o h hr)

/-- **C05_remove_only_version_exact**: `--only-version` deletes nothing but objects of the designated
    digest, and refuses (changing nothing) when the designation matches more than one (target, version) pair -/
theorem C05_remove_only_version_exact (s : St) (ps : List Path) (d : Digest) (force : Bool) (a : Addr) (o : Obj)
    (h : s.cache a = some o) (hr : (s.remove ps (.only d) force).1.cache a = none) :
    a.d = d ∧ (s.removeCandidates (s.targetEnts ps) (.only d)).length ≤ 1 := by
  unfold St.remove at hr
  cases hd : s.removeDeletable ps (.only d) force with
  | none => simp only [hd] at hr; rw [h] at hr; cases hr
  | some l =>
    simp only [hd] at hr
    have ha := mem_of_removed _ s a o h hr
    unfold St.removeDeletable at hd
    simp only [RemoveSel.isOnly, Bool.true_and, decide_eq_true_eq] at hd
    split at hd
    · cases hd
    · rename_i hlen
      cases hd
      have hc := (List.mem_filter.mp ha).1
      unfold St.removeCandidates at hc
      obtain ⟨e, _, hv⟩ := List.mem_flatMap.mp hc
      simp only [List.mem_filter, decide_eq_true_eq] at hv
      exact ⟨hv.2, Nat.le_of_not_lt hlen⟩

/-- what `storageDelete` takes away is one of the listed paths, under the repository's own guid -/
theorem storageDelete_sub (g : Guid) (l : List Addr) (st : Storage) (k : Guid × Addr) (b : Bytes)
    (h : st.objs k = some b) (hr : (storageDelete g st l).1.objs k = none) : k.1 = g ∧ k.2 ∈ l := by
  induction l generalizing st with
  | nil => simp [storageDelete] at hr; rw [h] at hr; cases hr
  | cons a as ih =>
    unfold storageDelete at hr
    cases ho : st.objs (g, a) with
    | none => simp only [ho] at hr; rw [h] at hr; cases hr
    | some x =>
      simp only [ho] at hr
      by_cases hk : k = (g, a)
      · subst hk; exact ⟨rfl, by simp⟩
      · have h' : ({ objs := upd st.objs (g, a) none } : Storage).objs k = some b := by
          show upd st.objs (g, a) none k = some b
          rw [upd_other _ _ hk]; exact h
        obtain ⟨h1, h2⟩ := ih _ h' hr
        exact ⟨h1, List.mem_cons_of_mem _ h2⟩

/-- **C05_remove_from_storage_spares_referenced**: `xvc file remove --from-storage` (any selection of
    versions, no `--force`, whatever the order in which the paths are processed and wherever it stops)
    deletes a storage object only under the repository's own guid, only if it is a recorded version of a
    target, and only if no tracked entity outside the targets refers to it in any version. -/
theorem C05_remove_from_storage_spares_referenced (s : St) (g : Guid) (st : Storage) (ps : List Path) (sel : RemoveSel)
    (order : List Addr → List Addr) (horder : ∀ l a, a ∈ order l → a ∈ l) (k : Guid × Addr) (b : Bytes)
    (h : st.objs k = some b) (hr : (s.removeFromStorage g st ps sel false order).1.objs k = none) :
    k.1 = g ∧ (∃ e ∈ s.targetEnts ps, k.2 ∈ s.versionsOf e) ∧ ∀ e ∈ s.ents, e ∉ s.targetEnts ps → k.2 ∉ s.versionsOf e := by
  unfold St.removeFromStorage at hr
  cases hd : s.removeDeletable ps sel false with
  | none => simp only [hd] at hr; rw [h] at hr; cases hr
  | some l =>
    simp only [hd] at hr
    obtain ⟨hg, hm⟩ := storageDelete_sub g (order l) st k b h hr
    have := removeDeletable_spares s ps sel l hd k.2 (horder l k.2 hm)
    exact ⟨hg, this.1, this.2⟩

/-- with `--force` still nothing but selected versions of the targets, under the own guid, is deleted -/
theorem C05_remove_from_storage_only_target_versions (s : St) (g : Guid) (st : Storage) (ps : List Path) (sel : RemoveSel)
    (force : Bool) (order : List Addr → List Addr) (horder : ∀ l a, a ∈ order l → a ∈ l) (k : Guid × Addr) (b : Bytes)
    (h : st.objs k = some b) (hr : (s.removeFromStorage g st ps sel force order).1.objs k = none) :
    k.1 = g ∧ ∃ e ∈ s.targetEnts ps, k.2 ∈ s.versionsOf e := by
  unfold St.removeFromStorage at hr
  cases hd : s.removeDeletable ps sel force with
  | none => simp only [hd] at hr; rw [h] at hr; cases hr
  | some l =>
    simp only [hd] at hr
    obtain ⟨hg, hm⟩ := storageDelete_sub g (order l) st k b h hr
    exact ⟨hg, removeDeletable_target_versions s ps sel force l hd k.2 (horder l k.2 hm)⟩

/-- two paths with the same content, sent to a storage: removing one of them from the storage deletes
    nothing (the other still refers to the object), removing both deletes it (non-vacuity) -/
theorem C05_remove_from_storage_witness :
    let s := (((St.init.userWrite ⟨0, 1⟩ [104]).userWrite ⟨1, 1⟩ [104]).track {} {} [⟨0, 1⟩, ⟨1, 1⟩]).1
    let a : Addr := ⟨⟨0, [104]⟩, 1⟩
    let st := send 1 s { objs := fun _ => none } [(a, .ok)]
    st.objs (1, a) = some [104] ∧
    (s.removeFromStorage 1 st [⟨0, 1⟩] .current false id).1.objs (1, a) = some [104] ∧
    (s.removeFromStorage 1 st [⟨0, 1⟩, ⟨1, 1⟩] .current false id).1.objs (1, a) = none ∧
    (s.removeFromStorage 1 st [⟨0, 1⟩] .current true id).1.objs (1, a) = none := by
  decide

/-- **C05_untrack_spares_referenced**: `untrack` deletes an object only if no tracked entity outside
    the targets refers to it in any recorded version. -/
theorem C05_untrack_spares_referenced (s : St) (ps : List Path) (a : Addr) (o : Obj)
    (h : s.cache a = some o) (hr : (s.untrack ps).1.cache a = none) :
    ∀ e ∈ s.ents, e ∉ s.targetEnts ps → a ∉ s.versionsOf e := by
  unfold St.untrack at hr
  simp only at hr
  · have h1 := rematerialise_cache s (s.targetEnts ps)
    generalize s.rematerialise (s.targetEnts ps) = res at h1 hr
    obtain ⟨s1, o1⟩ := res
    have key : (List.foldl St.removeObj (s1.dropRecs (s.targetEnts ps)) (s.untrackDeletable (s.targetEnts ps))).cache a = none →
        ∀ e ∈ s.ents, e ∉ s.targetEnts ps → a ∉ s.versionsOf e := by
      intro hr
      have hm := mem_of_removed _ _ a o (by show s1.cache a = some o; rw [h1]; exact h) hr
      unfold St.untrackDeletable at hm
      simp only [List.mem_filter, List.isEmpty_iff] at hm
      intro e he hnt hv
      have : e ∈ s.otherReferrers (s.targetEnts ps) a := by
        unfold St.otherReferrers
        simp only [List.mem_filter, decide_eq_true_eq]
        exact ⟨he, hnt, hv⟩
      rw [hm.2] at this
      cases this
    cases o1 <;> simp only at h1 hr
    · exact key hr
    · exact key hr
    · rw [h1, h] at hr; cases hr

/-- **C05_untrack_unlists**: after `untrack` no target entity has a record. -/
theorem C05_untrack_unlists (s : St) (ps : List Path) (e : Ent) (he : e ∈ s.targetEnts ps)
    (hok : (s.untrack ps).2 = .ok) : (s.untrack ps).1.recs e = none := by
  unfold St.untrack at hok ⊢
  simp only at hok ⊢
  · generalize s.rematerialise (s.targetEnts ps) = res at hok ⊢
    obtain ⟨s1, o1⟩ := res
    cases o1 <;> simp only at hok ⊢
    · rw [foldl_removeObj_recs]; simp [St.dropRecs, he]
    · rw [foldl_removeObj_recs]; simp [St.dropRecs, he]
    · cases hok

/-- a symlinked target is re-materialised as an independent writable copy of its object (one target) -/
theorem C05_untrack_symlink_becomes_file (s : St) (p : Path) (e : Ent) (r : Rec) (d : Digest) (o : Obj)
    (hr : s.recs e = some r) (hp : r.path = p) (hc : r.cur = some d) (hw : s.ws p = some (.sym (addrOf p d)))
    (ho : s.cache (addrOf p d) = some o) :
    ∃ st, (s.recheckFromCache p (addrOf p d) .copy).1.ws p = some (.file o.b true st none) := by
  have := C17_placeholder s p (addrOf p d) o ho hw
  exact this
where
  C17_placeholder (s : St) (p : Path) (a : Addr) (o : Obj) (ho : s.cache a = some o) (hw : s.ws p = some (.sym a)) :
      ∃ st, (s.recheckFromCache p a .copy).1.ws p = some (.file o.b true st none) := by
    unfold St.recheckFromCache
    have hrt : (s.readThrough p).isSome := by simp [St.readThrough, hw, ho]
    simp [hrt, ho, upd]

/-- K7 repaired: a hard-linked target whose object is shared with another tracked path becomes an
    independent writable copy (witness of the scenario that used to stay a read-only alias) -/
theorem C05_untrack_shared_hardlink_becomes_file :
    let s0 := ((St.init.userWrite ⟨0, 1⟩ [104]).userWrite ⟨1, 1⟩ [104])
    let s1 := (s0.track {} { method := some .hardlink } [⟨0, 1⟩, ⟨1, 1⟩]).1
    let s2 := (s1.untrack [⟨0, 1⟩]).1
    s2.ws ⟨0, 1⟩ = some (.file [104] true 3 none) ∧ (s2.cache ⟨⟨0, [104]⟩, 1⟩).isSome = true := by
  decide

/-- a hard-linked target is re-materialised as an independent writable copy of its object (one target) -/
theorem C05_untrack_hardlink_becomes_file (s : St) (p : Path) (a : Addr) (o : Obj) (b : Bytes) (w : Bool) (st : Nat)
    (hw : s.ws p = some (.file b w st (some a))) (ho : s.cache a = some o) :
    ∃ st', (s.recheckFromCache p a .copy).1.ws p = some (.file o.b true st' none) := by
  unfold St.recheckFromCache
  have hrt : (s.readThrough p).isSome := by simp [St.readThrough, hw]
  simp [hrt, ho, upd]

/-- a target that is missing from the workspace is restored from the cache as an independent writable
    copy before it is untracked (one target) -/
theorem C05_untrack_missing_becomes_file (s : St) (p : Path) (a : Addr) (o : Obj)
    (hw : s.ws p = none) (ho : s.cache a = some o) :
    ∃ st', (s.recheckFromCache p a .copy).1.ws p = some (.file o.b true st' none) := by
  unfold St.recheckFromCache
  have hrt : (s.readThrough p).isSome = false := by simp [St.readThrough, hw]
  simp [hrt, hw, ho, upd]

/-- a target that is a read-only regular file (a hard link whose object was removed from the cache before,
    F27) is replaced by a writable copy of itself -/
theorem C05_untrack_readonly_becomes_writable (s : St) (p : Path) (b : Bytes) (st : Nat) (l : Option Addr)
    (hw : s.ws p = some (.file b false st l)) :
    (s.selfCopy p).ws p = some (.file b true s.clock none) := by
  unfold St.selfCopy
  simp [hw, St.setWs, St.tick]

/-- the whole scenario: hard link, object removed from the cache, untrack: a writable file with the bytes -/
theorem C05_untrack_detached_hardlink_witness :
    let s0 := ((St.init.userWrite ⟨0, 1⟩ [104]).track {} { method := some .hardlink } [⟨0, 1⟩]).1
    let s1 := (s0.remove [⟨0, 1⟩] .all false).1
    s1.ws ⟨0, 1⟩ = some (.file [104] false 1 none) ∧
    (s1.untrack [⟨0, 1⟩]).1.ws ⟨0, 1⟩ = some (.file [104] true 2 none) ∧ (s1.untrack [⟨0, 1⟩]).1.recs 1 = none := by
  decide

/-- …and the whole command on such a target: the file is back, the record is gone -/
theorem C05_untrack_missing_witness :
    let s0 := ((St.init.userWrite ⟨0, 1⟩ [104]).track {} { method := some .symlink } [⟨0, 1⟩]).1
    let s1 := s0.userDelete ⟨0, 1⟩
    (s1.untrack [⟨0, 1⟩]).2 = .ok ∧ (s1.untrack [⟨0, 1⟩]).1.ws ⟨0, 1⟩ = some (.file [104] true 2 none) ∧
    (s1.untrack [⟨0, 1⟩]).1.recs 1 = none := by
  decide

/-- **C05_untrack_keeps_workspace_bytes**: after `untrack` (any target list) everything that could be read
    at a workspace path before — targets and all other paths, links and files — can still be read at that
    path, byte for byte.  Hypotheses (`LinkOkAt` at the states where a target is re-materialised: its
    symlink points at its current version, a hard-link entry carries its object's bytes; and no symlink
    that remains points at an object about to be deleted) say that the workspace links are the ones xvc
    made; they are stated at their points of use, their invariance along histories is not proved. -/
theorem C05_untrack_keeps_workspace_bytes (s : St) (ps : List Path)
    (h1 : forEachP St.rematOne LinkOkAt s (s.targetEnts ps))
    (h2 : ∀ a ∈ s.untrackDeletable (s.targetEnts ps), ∀ q, (s.rematerialise (s.targetEnts ps)).1.ws q ≠ some (.sym a))
    (q : Path) (b : Bytes) (n : Nat) (hr : s.readThrough q = some (b, n)) :
    ∃ n', (s.untrack ps).1.readThrough q = some (b, n') :=
  untrack_wsKeep s ps h1 h2 q b n hr

/-- non-vacuity: two symlinked files with the same content and a third plain one; untracking the first
    keeps all three readable with their bytes, and the first is a regular file afterwards -/
theorem C05_untrack_keeps_workspace_witness :
    let s0 := (((St.init.userWrite ⟨0, 1⟩ [104]).userWrite ⟨1, 1⟩ [104]).userWrite ⟨2, 1⟩ [105])
    let s := (s0.track {} { method := some .symlink } [⟨0, 1⟩, ⟨1, 1⟩]).1
    let s' := (s.untrack [⟨0, 1⟩]).1
    s.ws ⟨0, 1⟩ = some (.sym ⟨⟨0, [104]⟩, 1⟩) ∧
    (s'.readThrough ⟨0, 1⟩).map (·.1) = some [104] ∧ (s'.readThrough ⟨1, 1⟩).map (·.1) = some [104] ∧
    (s'.readThrough ⟨2, 1⟩).map (·.1) = some [105] ∧ (∃ st, s'.ws ⟨0, 1⟩ = some (.file [104] true st none)) := by
  refine ⟨by decide, by decide, by decide, by decide, ⟨4, by decide⟩⟩

example : ∃ s : St, ∃ a o, s.cache a = some o ∧ (s.remove [⟨0, 1⟩] .current false).1.cache a = none :=
  ⟨((St.init.userWrite ⟨0, 1⟩ [104]).track {} {} [⟨0, 1⟩]).1, ⟨⟨0, [104]⟩, 1⟩, ⟨[104], true, 1⟩, by decide, by decide⟩

end Repo

open Repo in
#print axioms C05_remove_spares_referenced
open Repo in
#print axioms C05_remove_only_target_versions
open Repo in
#print axioms C05_remove_only_version_exact
open Repo in
#print axioms C05_remove_from_storage_spares_referenced
open Repo in
#print axioms C05_remove_from_storage_only_target_versions
open Repo in
#print axioms C05_remove_from_storage_witness
open Repo in
#print axioms C05_untrack_spares_referenced
open Repo in
#print axioms C05_untrack_unlists
open Repo in
#print axioms C05_untrack_symlink_becomes_file
open Repo in
#print axioms C05_untrack_shared_hardlink_becomes_file
open Repo in
#print axioms C05_untrack_hardlink_becomes_file
open Repo in
#print axioms C05_untrack_keeps_workspace_bytes
open Repo in
#print axioms C05_untrack_keeps_workspace_witness
open Repo in
#print axioms C05_untrack_missing_becomes_file
open Repo in
#print axioms C05_untrack_missing_witness
open Repo in
#print axioms C05_untrack_readonly_becomes_writable
open Repo in
#print axioms C05_untrack_detached_hardlink_witness
