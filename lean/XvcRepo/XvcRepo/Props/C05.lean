import XvcRepo.Cache
/-!
  # C05 — Removal never deletes content that other tracked paths still need
-/
namespace Repo

theorem mem_of_removed (l : List Addr) (s : St) (a : Addr) (o : Obj) (h : s.cache a = some o)
    (hr : (l.foldl St.removeObj s).cache a = none) : a ∈ l := by
  by_cases hm : a ∈ l
  · exact hm
  · rw [foldl_removeObj_keep l s a hm, h] at hr; cases hr

/-- **C05_remove_spares_referenced**: without `--force`, `xvc file remove --from-cache` (current
    version, or `--all-versions`) deletes an object only if **no** tracked entity outside the
    command's targets refers to that address in its current or any earlier recorded version — for
    every repository, every sharing pattern and every target list. -/
theorem C05_remove_spares_referenced (s : St) (ps : List Path) (allVersions : Bool) (a : Addr) (o : Obj)
    (h : s.cache a = some o) (hr : (s.remove ps allVersions false).1.cache a = none) :
    ∀ e ∈ s.ents, e ∉ s.targetEnts ps → a ∉ s.versionsOf e := by
  unfold St.remove at hr
  simp only at hr
  have hm := mem_of_removed _ s a o h hr
  simp only [Bool.false_or, List.mem_filter, List.isEmpty_iff] at hm
  intro e he hnt hv
  have : e ∈ s.otherReferrers (s.targetEnts ps) a := by
    unfold St.otherReferrers
    simp only [List.mem_filter, decide_eq_true_eq]
    exact ⟨he, hnt, hv⟩
  rw [hm.2] at this
  cases this

/-- nothing but candidate versions of the targets is ever deleted (with or without `--force`) -/
theorem C05_remove_only_target_versions (s : St) (ps : List Path) (allVersions force : Bool) (a : Addr) (o : Obj)
    (h : s.cache a = some o) (hr : (s.remove ps allVersions force).1.cache a = none) :
    ∃ e ∈ s.targetEnts ps, a ∈ s.versionsOf e := by
  unfold St.remove at hr
  simp only at hr
  have hm := mem_of_removed _ s a o h hr
  simp only [List.mem_filter, List.mem_flatMap] at hm
  obtain ⟨⟨e, he, hv⟩, _⟩ := hm
  refine ⟨e, he, ?_⟩
  split at hv
  · exact hv
  · unfold St.versionsOf
    split at hv
    · rename_i r hr'
      simp only [hr', List.mem_map]
      cases hc : r.cur with
      | none => simp [hc] at hv
      | some d =>
        simp [hc] at hv
        refine ⟨d, ?_, hv.symm⟩
        unfold Rec.cur at hc
        exact List.mem_of_getLast? hc
    · simp at hv

/-- **C05_untrack_spares_referenced**: `untrack` deletes an object only if no tracked entity outside
    the targets refers to it in any recorded version. -/
theorem C05_untrack_spares_referenced (s : St) (ps : List Path) (a : Addr) (o : Obj)
    (h : s.cache a = some o) (hr : (s.untrack ps).1.cache a = none) :
    ∀ e ∈ s.ents, e ∉ s.targetEnts ps → a ∉ s.versionsOf e := by
  unfold St.untrack at hr
  simp only at hr
  split at hr
  · rw [h] at hr; cases hr
  · have h1 := rematerialise_cache s (s.targetEnts ps)
    generalize s.rematerialise (s.targetEnts ps) = res at h1 hr
    obtain ⟨s1, o1⟩ := res
    have key : (List.foldl St.removeObj (s1.dropRecs (s.targetEnts ps)) (s.untrackDeletable (s.targetEnts ps))).cache a = none →
        ∀ e ∈ s.ents, e ∉ s.targetEnts ps → a ∉ s.versionsOf e := by
      intro hr
      have hm := mem_of_removed _ _ a o (by show s1.cache a = some o; rw [h1]; exact h) hr
      unfold St.untrackDeletable at hm
      simp only [List.mem_filter, List.isEmpty_iff] at hm
      intro e he hnt hv
      have : e ∈ s.otherReferrers (s.targetEnts ps) a := by
        unfold St.otherReferrers
        simp only [List.mem_filter, decide_eq_true_eq]
        exact ⟨he, hnt, hv⟩
      rw [hm.2] at this
      cases this
    cases o1 <;> simp only at h1 hr
    · exact key hr
    · exact key hr
    · rw [h1, h] at hr; cases hr

/-- **C05_untrack_unlists**: after `untrack` no target entity has a record. -/
theorem C05_untrack_unlists (s : St) (ps : List Path) (e : Ent) (he : e ∈ s.targetEnts ps)
    (hok : (s.untrack ps).2 = .ok) : (s.untrack ps).1.recs e = none := by
  unfold St.untrack at hok ⊢
  simp only at hok ⊢
  split
  · rename_i hany; simp [hany] at hok
  · rename_i hany
    simp only [hany, Bool.false_eq_true, if_false] at hok
    generalize s.rematerialise (s.targetEnts ps) = res at hok ⊢
    obtain ⟨s1, o1⟩ := res
    cases o1 <;> simp only at hok ⊢
    · rw [foldl_removeObj_recs]; simp [St.dropRecs, he]
    · rw [foldl_removeObj_recs]; simp [St.dropRecs, he]
    · cases hok

/-- a symlinked target is re-materialised as an independent writable copy of its object (one target) -/
theorem C05_untrack_symlink_becomes_file (s : St) (p : Path) (e : Ent) (r : Rec) (d : Digest) (o : Obj)
    (hr : s.recs e = some r) (hp : r.path = p) (hc : r.cur = some d) (hw : s.ws p = some (.sym (addrOf p d)))
    (ho : s.cache (addrOf p d) = some o) :
    ∃ st, (s.recheckFromCache p (addrOf p d) .copy).1.ws p = some (.file o.b true st none) := by
  have := C17_placeholder s p (addrOf p d) o ho hw
  exact this
where
  C17_placeholder (s : St) (p : Path) (a : Addr) (o : Obj) (ho : s.cache a = some o) (hw : s.ws p = some (.sym a)) :
      ∃ st, (s.recheckFromCache p a .copy).1.ws p = some (.file o.b true st none) := by
    unfold St.recheckFromCache
    have hrt : (s.readThrough p).isSome := by simp [St.readThrough, hw, ho]
    simp [hrt, ho, upd]

/-- K7 repaired: a hard-linked target whose object is shared with another tracked path becomes an
    independent writable copy (witness of the scenario that used to stay a read-only alias) -/
theorem C05_untrack_shared_hardlink_becomes_file :
    let s0 := ((St.init.userWrite ⟨0, 1⟩ [104]).userWrite ⟨1, 1⟩ [104])
    let s1 := (s0.track {} { method := some .hardlink } [⟨0, 1⟩, ⟨1, 1⟩]).1
    let s2 := (s1.untrack [⟨0, 1⟩]).1
    s2.ws ⟨0, 1⟩ = some (.file [104] true 3 none) ∧ (s2.cache ⟨⟨0, [104]⟩, 1⟩).isSome = true := by
  decide

/-- a hard-linked target is re-materialised as an independent writable copy of its object (one target) -/
theorem C05_untrack_hardlink_becomes_file (s : St) (p : Path) (a : Addr) (o : Obj) (b : Bytes) (w : Bool) (st : Nat)
    (hw : s.ws p = some (.file b w st (some a))) (ho : s.cache a = some o) :
    ∃ st', (s.recheckFromCache p a .copy).1.ws p = some (.file o.b true st' none) := by
  unfold St.recheckFromCache
  have hrt : (s.readThrough p).isSome := by simp [St.readThrough, hw]
  simp [hrt, ho, upd]

example : ∃ s : St, ∃ a o, s.cache a = some o ∧ (s.remove [⟨0, 1⟩] false false).1.cache a = none :=
  ⟨((St.init.userWrite ⟨0, 1⟩ [104]).track {} {} [⟨0, 1⟩]).1, ⟨⟨0, [104]⟩, 1⟩, ⟨[104], true, 1⟩, by decide, by decide⟩

end Repo

open Repo in
#print axioms C05_remove_spares_referenced
open Repo in
#print axioms C05_remove_only_target_versions
open Repo in
#print axioms C05_untrack_spares_referenced
open Repo in
#print axioms C05_untrack_unlists
open Repo in
#print axioms C05_untrack_symlink_becomes_file
open Repo in
#print axioms C05_untrack_shared_hardlink_becomes_file
open Repo in
#print axioms C05_untrack_hardlink_becomes_file
