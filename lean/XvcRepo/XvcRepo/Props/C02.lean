import XvcRepo.Cache
import XvcRepo.AddrFormat
/-!
  # C02 — Cache objects are content-addressed and immutable

  Property theorems only.  Digests are perfect hashes of the (CR/LF-stripped) bytes (see `Model.lean`),
  so "lives at the address derived from its own bytes" is `Valid`: the digest part of the address is
  the hash of the object's bytes or of its stripped bytes, and the object is read-only.
-/
namespace Repo

/-- every object of the cache is content-addressed and read-only -/
def CA (s : St) : Prop := ∀ a o, s.cache a = some o → Valid a o

/-- The only place where xvc trusts a recorded digest without hashing is the metadata short-cut of
    `carry-in` (equal size and mtime ⇒ "unchanged").  `SoundStep` says the short-cut is sound at the
    states where it is taken; for every other command it is `True`. -/
def SoundStep (c : Cfg) (s : St) : Cmd → Prop
  | .carryIn ps t f => CarryInSound c t f s ps
  | _ => True

def SoundRun (c : Cfg) : St → List Cmd → Prop
  | _, [] => True
  | s, cmd :: cs => SoundStep c s cmd ∧ SoundRun c (s.step c cmd).1 cs

/-- **C02_new_objects_hash_their_bytes**: whatever a command does, every object in the cache afterwards
    is either an untouched old object or a new, read-only one whose address is the hash of its own
    bytes.  (All nine commands, all option combinations, `--force` included.) -/
theorem C02_new_objects_hash_their_bytes (c : Cfg) (s : St) (cmd : Cmd) (h : SoundStep c s cmd) :
    CacheFrom s (s.step c cmd).1 := by
  cases cmd with
  | write p b => exact cacheFrom_of_eq rfl
  | delete p => exact cacheFrom_of_eq rfl
  | track ps o => exact track_from c o s ps
  | carryIn ps t f => exact carryIn_from c t f s ps h
  | recheck ps m f => exact cacheFrom_of_eq (recheck_cache c m f s ps)
  | remove ps a f => exact remove_from s ps a f
  | untrack ps => exact untrack_from s ps
  | untrackRestore ps bl => exact untrackRestore_from s ps bl
  | copy a b o => exact cacheFrom_of_eq (copy_cache c o s a b)
  | move a b o => exact cacheFrom_of_eq (move_cache c o s a b)

theorem ca_of_from {s s' : St} (h : CA s) (hf : CacheFrom s s') : CA s' := by
  intro a o ho
  rcases hf a o ho with h1 | h1
  · exact h a o h1
  · exact h1

theorem ca_run (c : Cfg) (s : St) (cs : List Cmd) (h : CA s) (hs : SoundRun c s cs) : CA (s.run c cs) := by
  induction cs generalizing s with
  | nil => exact h
  | cons cmd cs ih =>
    exact ih _ (ca_of_from h (C02_new_objects_hash_their_bytes c s cmd hs.1)) hs.2

/-- **C02_content_addressed**: after every prefix of every command history (any commands, any options,
    any contents, algorithms and text/binary modes) every cache object is read-only and lives at the
    address derived from its own bytes. -/
theorem C02_content_addressed (c : Cfg) (cs : List Cmd) (hs : SoundRun c St.init cs) :
    CA (St.init.run c cs) :=
  ca_run c St.init cs (by intro a o h; cases h) hs

/-- commands that are allowed to take something out of the cache or to replace an object:
    `remove`, `untrack`, and `--force` on `track` / `carry-in` -/
def Cmd.gentle : Cmd → Bool
  | .remove _ _ _ => false
  | .untrack _ => false
  | .untrackRestore _ _ => false
  | .track _ o => !o.force
  | .carryIn _ _ f => !f
  | _ => true

/-- **C02_objects_immutable**: no command other than an explicit `remove`/`untrack` (or a `--force`d
    carry) changes, replaces or deletes an existing object: same address, same bytes, same mode. -/
theorem C02_objects_immutable (c : Cfg) (s : St) (cmd : Cmd) (hg : cmd.gentle = true) :
    CacheKeep s (s.step c cmd).1 := by
  cases cmd with
  | write p b => exact cacheKeep_of_eq rfl
  | delete p => exact cacheKeep_of_eq rfl
  | track ps o => exact track_keep c o (by simpa [Cmd.gentle] using hg) s ps
  | carryIn ps t f =>
    have : f = false := by simpa [Cmd.gentle] using hg
    subst this
    exact carryIn_keep c t s ps
  | recheck ps m f => exact cacheKeep_of_eq (recheck_cache c m f s ps)
  | remove ps a f => simp [Cmd.gentle] at hg
  | untrack ps => simp [Cmd.gentle] at hg
  | untrackRestore ps bl => simp [Cmd.gentle] at hg
  | copy a b o => exact cacheKeep_of_eq (copy_cache c o s a b)
  | move a b o => exact cacheKeep_of_eq (move_cache c o s a b)

theorem C02_objects_immutable_run (c : Cfg) (s : St) (cs : List Cmd) (hg : ∀ cmd ∈ cs, cmd.gentle = true) :
    CacheKeep s (s.run c cs) := by
  induction cs generalizing s with
  | nil => exact CacheKeep.refl s
  | cons cmd cs ih =>
    exact (C02_objects_immutable c s cmd (hg cmd (by simp))).trans
      (ih _ (fun x hx => hg x (by simp [hx])))

/-- **C02_dedup**: identical content with the same extension has one address, and committing it a
    second time (at any path, with any method) leaves the existing object untouched. -/
theorem C02_dedup (s : St) (p q : Path) (d : Digest) (m : Method) (o : Obj) (he : ext p = ext q)
    (h : s.cache (addrOf p d) = some o) :
    addrOf q d = addrOf p d ∧ (s.carryOne q (addrOf q d) m false).1.cache (addrOf p d) = some o := by
  have ha : addrOf q d = addrOf p d := by simp [addrOf, he]
  exact ⟨ha, carryOne_keep s q (addrOf q d) m _ _ h⟩

/-- **C02_force_on_hard_link_keeps_object**: `carry-in --force` / `track --force` on a path that is a HARD link of
    the cached copy itself: the code unlinks the cached copy and renames the link onto its address — the same inode
    returns, so the object keeps its bytes (objects are immutable also under `--force`), every other hard link of it
    stays a link of the object, and only the path itself is re-materialised. -/
theorem C02_force_on_hard_link_keeps_object (s : St) (p q : Path) (a : Addr) (m : Method) (h : s.hardLinkOf p a = true)
    (hq : q ≠ p) : (s.carryOne p a m true).1.cache = s.cache ∧ (s.carryOne p a m true).1.ws q = s.ws q := by
  have hl : s.linksTo p a = false := by
    unfold St.hardLinkOf at h
    unfold St.linksTo
    cases hw : s.ws p with
    | none => simp
    | some en =>
      cases en with
      | file b w st l => simp
      | sym a' => simp [hw] at h
  unfold St.carryOne
  simp only [hl, h, Bool.false_eq_true, if_false, Bool.true_and, if_true]
  refine ⟨by rw [recheckFromCache_cache]; rfl, ?_⟩
  unfold St.recheckFromCache
  simp only [St.readThrough, St.setWs, upd, if_true]
  repeat' split
  all_goals simp [St.setWs, St.tick, upd, hq]

/-- non-vacuity: two hard links of one object; `carry-in --force` on one of them leaves the other a link -/
theorem C02_force_on_hard_link_witness :
    let s0 := (St.init.userWrite ⟨0, 1⟩ [104]).userWrite ⟨1, 1⟩ [104]
    let s1 := (s0.track {} { method := some .hardlink } [⟨0, 1⟩, ⟨1, 1⟩]).1
    let s2 := (s1.carryIn {} none true [⟨0, 1⟩]).1
    s1.hardLinkOf ⟨0, 1⟩ ⟨⟨0, [104]⟩, 1⟩ = true ∧ s2.ws ⟨1, 1⟩ = s1.ws ⟨1, 1⟩ ∧ s2.ws ⟨0, 1⟩ = s1.ws ⟨0, 1⟩ ∧
    s2.cache ⟨⟨0, [104]⟩, 1⟩ = s1.cache ⟨⟨0, [104]⟩, 1⟩ := by
  decide

/-- the address is injective in (algorithm, hashed bytes, extension) -/
theorem C02_addr_injective (p q : Path) (d d' : Digest) :
    addrOf p d = addrOf q d' ↔ d = d' ∧ ext p = ext q := by
  simp [addrOf]

/-- the digest removes CR and LF exactly when the file is treated as text -/
theorem C02_digest_documented (algo : Nat) (t : Tob) (b : Bytes) :
    (digestOf algo t b).algo = algo ∧
    (asText t b = true → (digestOf algo t b).hash = strip b) ∧
    (asText t b = false → (digestOf algo t b).hash = b) := by
  refine ⟨rfl, ?_, ?_⟩ <;> intro h <;> simp [digestOf, h]

/-! ## the documented address format, over constants regenerated from the Rust source on every run -/

/-- **C02_addr_format_documented**: the source says: 64 hex digits split 3 / 3 / 58, file name `0.<ext>`,
    prefixes `b3 b2 s2 s3` (and the internal `a0`), pairwise distinct.  (`decide`/`rfl` on `Gen/Addr.lean`:
    an edit of `cache_dir`, of the strum attributes or of `XvcCachePath::new` breaks this theorem.) -/
theorem C02_addr_format_documented :
    Gen.split1 = 3 ∧ Gen.split2 = 3 ∧ 2 * Gen.digestLength = 64 ∧ 2 * Gen.digestLength - Gen.split1 - Gen.split2 = 58 ∧
    Gen.fileStemCodes = [48, 46] ∧ Gen.prefixCodes = [[97, 48], [98, 51], [98, 50], [115, 50], [115, 51]] ∧
    Gen.prefixCodes.Nodup := by
  decide

theorem C02_prefix_names_documented :
    Gen.prefixes = [("AsIs", "a0"), ("Blake3", "b3"), ("Blake2s", "b2"), ("SHA2_256", "s2"), ("SHA3_256", "s3")] ∧
    Gen.fileStem = "0." := ⟨rfl, rfl⟩

/-- **C02_addr_roundtrip**: the path of an object determines prefix, digest and extension (so two
    different (algorithm, digest, extension) triples never share a path), for every digest and extension. -/
theorem C02_addr_roundtrip (pfx hex ext : List Nat) : parseAddr (formatAddr pfx hex ext) = some (pfx, hex, ext) := by
  unfold parseAddr formatAddr
  have h1 : List.take Gen.split1 hex ++ (List.take Gen.split2 (List.drop Gen.split1 hex) ++
      List.drop Gen.split2 (List.drop Gen.split1 hex)) = hex := by
    rw [List.take_append_drop, List.take_append_drop]
  simp only [List.take_left', List.drop_left', List.take_append_of_le_length, List.length_take]
  simp
  rw [← List.drop_drop] at *
  first | exact h1 | (rw [List.drop_drop]; simpa [List.drop_drop] using h1)

theorem C02_addr_path_injective (p h e p' h' e' : List Nat) (heq : formatAddr p h e = formatAddr p' h' e') :
    p = p' ∧ h = h' ∧ e = e' := by
  have := congrArg parseAddr heq
  rw [C02_addr_roundtrip, C02_addr_roundtrip] at this
  simpa using this

/-- the three digest components have the documented lengths for a full-length digest -/
theorem C02_addr_component_lengths (pfx hex ext : List Nat) (hl : hex.length = 2 * Gen.digestLength) :
    (formatAddr pfx hex ext).map List.length = [pfx.length, 3, 3, 58, 2 + ext.length] := by
  have h64 : hex.length = 64 := by simpa [Gen.digestLength] using hl
  simp [formatAddr, Gen.split1, Gen.split2, Gen.fileStemCodes, h64]
  omega

/-! non-vacuity -/

example : SoundRun {} St.init [.write ⟨0, 1⟩ [104, 10], .track [⟨0, 1⟩] {}, .write ⟨0, 1⟩ [105],
    .track [⟨0, 1⟩] { method := some .symlink }, .recheck [⟨0, 1⟩] (some .copy) true, .remove [⟨0, 1⟩] .all false] := by
  simp [SoundRun, SoundStep]

example : Cmd.gentle (.track [⟨0, 1⟩] {}) = true ∧ Cmd.gentle (.recheck [⟨0, 1⟩] none true) = true := by
  simp [Cmd.gentle]

end Repo

open Repo in
#print axioms C02_new_objects_hash_their_bytes
open Repo in
#print axioms C02_content_addressed
open Repo in
#print axioms C02_objects_immutable
open Repo in
#print axioms C02_objects_immutable_run
open Repo in
#print axioms C02_dedup
open Repo in
#print axioms C02_addr_injective
open Repo in
#print axioms C02_digest_documented
open Repo in
#print axioms C02_addr_format_documented
open Repo in
#print axioms C02_prefix_names_documented
open Repo in
#print axioms C02_addr_roundtrip
open Repo in
#print axioms C02_addr_path_injective
open Repo in
#print axioms C02_addr_component_lengths
open Repo in
#print axioms C02_force_on_hard_link_keeps_object
open Repo in
#print axioms C02_force_on_hard_link_witness
