import XvcRepo.Props.C04
/-!
  # C04 — a link to the cached copy is recognised by what it RESOLVES to, not by how it is spelled

  A workspace entry `Entry.sym a` of the model is a symbolic link that resolves to the cache object at `a`.  On disk the
  same link has many spellings: the absolute cache path xvc writes, a relative path, a path through a second name of the
  repository directory (the directory was renamed and the old name is a link to it), a link to a link, a path with `/./`
  components.  `carry_in` asks "is the path a link to the cached copy itself?" (`links_to_cached_copy`, repair F31) by
  canonicalising both sides, so the answer - `St.linksTo` - does not depend on the spelling.  Comparing the TEXT of the
  link with the computed cache path (seeded change C04-6) recognises one spelling only; for every other one
  `carry-in --force` removes the object the link points to and then finds a dangling link: the committed version is gone.
-/
namespace Repo

/-- how the text of a symbolic link is written; every one of them resolves to the same file -/
inductive Spelling where
  | cachePath                 -- the absolute cache path as xvc computes it
  | relative                  -- `../.xvc/b3/…`
  | otherRootName             -- through another name of the repository directory
  | chain (hops : Nat)        -- a link to (a link to …) the object
  | dotted                    -- with `/./` or `//` components
  deriving DecidableEq, Repr

/-- `links_to_cached_copy` when it compares the text of the link with the computed cache path: a link that resolves to
    the object (`St.linksTo`) AND is spelled exactly like the computed path -/
def St.linksToTextual (s : St) (sp : Spelling) (p : Path) (a : Addr) : Bool :=
  s.linksTo p a && decide (sp = .cachePath)

/-- `copy_path_to_cache_and_recheck` of `carry_in` for a link spelled `sp`, with the recognition by resolution
    (`textual = false`: the code as it is; the spelling is not looked at) or by text (`textual = true`) -/
def St.carryOneSpelled (textual : Bool) (sp : Spelling) (s : St) (p : Path) (a : Addr) (m : Method) (force : Bool) : St × Out :=
  if (if textual then s.linksToTextual sp p a else s.linksTo p a) then
    (s.setWs p none).recheckFromCache p a m
  else if force && s.hardLinkOf p a then
    ({ s.setWs p none with dirRo := upd s.dirRo a.d true }).recheckFromCache p a m
  else s.carryOneMove p a m force

/-- recognition by resolution is `carryOne`, whatever the spelling -/
theorem carryOneSpelled_resolution (sp : Spelling) (s : St) (p : Path) (a : Addr) (m : Method) (force : Bool) :
    s.carryOneSpelled false sp p a m force = s.carryOne p a m force := by
  simp [St.carryOneSpelled, St.carryOne]

/-- **C04_link_to_object_recognised_by_resolution**: the path is a symbolic link that RESOLVES to the cached copy at the
    address (`Entry.sym a`, object present), spelled in any way whatever.  `carry-in`, with or without `--force`, leaves
    the whole cache as it was - the object is still there bit for bit -, succeeds, and the path reads as the committed
    bytes again. -/
theorem C04_link_to_object_recognised_by_resolution (sp : Spelling) (s : St) (p : Path) (a : Addr) (m : Method)
    (force : Bool) (o : Obj) (hl : s.ws p = some (.sym a)) (ho : s.cache a = some o) :
    (s.carryOneSpelled false sp p a m force).1.cache = s.cache ∧ (s.carryOneSpelled false sp p a m force).2 = .ok ∧
    ∃ k, (s.carryOneSpelled false sp p a m force).1.readThrough p = some (o.b, k) := by
  rw [carryOneSpelled_resolution]
  exact C04_force_on_link_keeps_object s p a m force o hl ho

/-- the textual comparison is right for the one spelling it knows … -/
theorem C04_textual_recognition_partial (s : St) (p : Path) (a : Addr) (m : Method) (force : Bool) :
    s.carryOneSpelled true .cachePath p a m force = s.carryOne p a m force := by
  simp [St.carryOneSpelled, St.carryOne, St.linksToTextual]

/-- **C04_textual_link_comparison_counterexample** … and loses the committed version for every other one: a file tracked
    with the symlink method, the link rewritten as a RELATIVE link to the same object, `carry-in --force`.  By resolution:
    the object stays.  By text: the link is not recognised, `--force` removes the object, the move into the cache finds
    a dangling link (panic) - the only copy of the committed bytes is gone. -/
theorem C04_textual_link_comparison_counterexample :
    let p : Path := ⟨0, 1⟩
    let s : St := ((St.init.userWrite p [104]).track {} { method := some .symlink } [p]).1
    let a : Addr := addrOf p ⟨0, [104]⟩
    s.ws p = some (.sym a) ∧ (s.cache a).map (·.b) = some [104] ∧
    ((s.carryOneSpelled false .relative p a .symlink true).1.cache a).map (·.b) = some [104] ∧
    (s.carryOneSpelled false .relative p a .symlink true).2 = .ok ∧
    (s.carryOneSpelled true .relative p a .symlink true).1.cache a = none ∧
    (s.carryOneSpelled true .relative p a .symlink true).2 = .panic ∧
    (s.carryOneSpelled true .relative p a .symlink true).1.readThrough p = none ∧
    (s.carryOneSpelled true (.chain 1) p a .symlink true).1.cache a = none ∧
    (s.carryOneSpelled true .otherRootName p a .symlink true).1.cache a = none := by
  decide

/-- non-vacuity of `C04_link_to_object_recognised_by_resolution`: the tracked link of the counterexample meets its hypotheses -/
example :
    let p : Path := ⟨0, 1⟩
    let s : St := ((St.init.userWrite p [104]).track {} { method := some .symlink } [p]).1
    s.ws p = some (.sym (addrOf p ⟨0, [104]⟩)) ∧ s.cache (addrOf p ⟨0, [104]⟩) = some ⟨[104], true, 1⟩ := by
  decide

end Repo

open Repo in
#print axioms C04_link_to_object_recognised_by_resolution
open Repo in
#print axioms C04_textual_recognition_partial
open Repo in
#print axioms C04_textual_link_comparison_counterexample
