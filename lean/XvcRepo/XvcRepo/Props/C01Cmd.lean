import XvcRepo.Materialise
/-!
  # C01 — whole commands

  Several committed files deleted from the workspace, one `xvc file recheck` over all of them.
-/
namespace Repo

/-- a deleted target: tracked, current version in the cache, nothing at the path -/
def DeletedPre (p : Path) (s : St) : Prop :=
  ∃ e r d o n, s.findEnt p = some e ∧ s.recs e = some r ∧ r.cur = some d ∧ r.md = .stamp n ∧
    s.cache (addrOf p d) = some o ∧ s.ws p = none

/-- a restored target: reading the path yields the bytes of the object of its (unchanged) current version -/
def RestoredPost (p : Path) (s : St) : Prop :=
  ∃ e r d o k, s.findEnt p = some e ∧ s.recs e = some r ∧ r.cur = some d ∧ s.cache (addrOf p d) = some o ∧
    s.readThrough p = some (o.b, k)

theorem deleted_step (c : Cfg) (m : Option Method) (s : St) (p : Path) (h : DeletedPre p s) :
    RestoredPost p (s.recheckOne c m false p).1 := by
  obtain ⟨e, r, d, o, n, hfe, hre, hcur, hmd, ho, hw⟩ := h
  obtain ⟨_, ⟨k, hr⟩, hrec, hc⟩ := C01_recheck_restores c s p e r d o n m false hfe hre hcur hmd ho (Or.inl hw)
  exact ⟨e, { r with method := m.getD r.method }, d, o, k, by rw [recheckOne_findEnt]; exact hfe, hrec, hcur,
    by rw [hc]; exact ho, hr⟩

theorem deleted_framePre (c : Cfg) (m : Option Method) (f : Bool) (s : St) (p q : Path) (hpq : p ≠ q)
    (h : DeletedPre p s) : DeletedPre p (s.recheckOne c m f q).1 := by
  obtain ⟨e, r, d, o, n, hfe, hre, hcur, hmd, ho, hw⟩ := h
  have hrec : (s.recheckOne c m f q).1.recs e = some r := by
    rcases recheckOne_recs c m f s q e with h | ⟨r', hr', hpath', _⟩
    · rw [h]; exact hre
    · rw [hre] at hr'; cases hr'
      obtain ⟨r0, hr0, hp0⟩ := findEnt_path hfe
      rw [hre] at hr0; cases hr0
      exact absurd (hp0.symm.trans hpath') hpq
  exact ⟨e, r, d, o, n, by rw [recheckOne_findEnt]; exact hfe, hrec, hcur, hmd,
    by rw [recheckOne_cache]; exact ho, by rw [recheckOne_ws_other c m f s q p hpq]; exact hw⟩

theorem restored_framePost (c : Cfg) (m : Option Method) (f : Bool) (s : St) (p q : Path) (hpq : p ≠ q)
    (h : RestoredPost p s) : RestoredPost p (s.recheckOne c m f q).1 := by
  obtain ⟨e, r, d, o, k, hfe, hre, hcur, ho, hr⟩ := h
  have hws := recheckOne_ws_other c m f s q p hpq
  have hc := recheckOne_cache c m f s q
  have hrt : (s.recheckOne c m f q).1.readThrough p = s.readThrough p := by simp [St.readThrough, hws, hc]
  rcases recheckOne_recs c m f s q e with h | ⟨r', hr', hpath', h⟩
  · exact ⟨e, r, d, o, k, by rw [recheckOne_findEnt]; exact hfe, by rw [h]; exact hre, hcur, by rw [hc]; exact ho,
      by rw [hrt]; exact hr⟩
  · rw [hre] at hr'; cases hr'
    obtain ⟨r0, hr0, hp0⟩ := findEnt_path hfe
    rw [hre] at hr0; cases hr0
    exact absurd (hp0.symm.trans hpath') hpq

/-- **C01_recheck_command_restores**: ANY number of committed files deleted from the workspace, one
    `xvc file recheck` (with or without an explicit method) over all of them: every one of them is back
    with exactly the bytes of its committed version, and still records that version. -/
theorem C01_recheck_command_restores (c : Cfg) (m : Option Method) (s : St) (ps : List Path) (hnd : ps.Nodup)
    (hpre : ∀ p ∈ ps, DeletedPre p s) (hok : (s.recheck c m false ps).2 ≠ .panic) :
    ∀ p ∈ ps, RestoredPost p (s.recheck c m false ps).1 :=
  forEach_post (St.recheckOne c m false) DeletedPre RestoredPost
    (fun s p h _ => deleted_step c m s p h)
    (fun s p q hpq h => deleted_framePre c m false s p q hpq h)
    (fun s p q hpq h => restored_framePost c m false s p q hpq h)
    ps hnd s hpre hok

/-- non-vacuity: two committed files (one as a symlink), both deleted, one recheck restores both -/
theorem C01_recheck_command_witness :
    let s0 := ((St.init.userWrite ⟨0, 1⟩ [104]).userWrite ⟨1, 1⟩ [105])
    let s1 := (s0.track {} {} [⟨0, 1⟩]).1
    let s2 := (s1.track {} { method := some .symlink } [⟨1, 1⟩]).1
    let s := (s2.userDelete ⟨0, 1⟩).userDelete ⟨1, 1⟩
    let s' := (s.recheck {} none false [⟨0, 1⟩, ⟨1, 1⟩]).1
    (s.recheck {} none false [⟨0, 1⟩, ⟨1, 1⟩]).2 = .ok ∧
    (s'.readThrough ⟨0, 1⟩).map (·.1) = some [104] ∧ s'.ws ⟨1, 1⟩ = some (.sym ⟨⟨0, [105]⟩, 1⟩) ∧
    (s'.readThrough ⟨1, 1⟩).map (·.1) = some [105] := by
  decide

example : DeletedPre ⟨0, 1⟩ (((St.init.userWrite ⟨0, 1⟩ [104]).track {} {} [⟨0, 1⟩]).1.userDelete ⟨0, 1⟩) :=
  ⟨1, { path := ⟨0, 1⟩, md := .stamp 1, digests := [⟨0, [104]⟩], method := .copy, tob := .auto }, ⟨0, [104]⟩, ⟨[104], true, 1⟩, 1,
    by decide, by decide, by decide, by decide, by decide, by decide⟩

end Repo

open Repo in
#print axioms C01_recheck_command_restores
open Repo in
#print axioms C01_recheck_command_witness
