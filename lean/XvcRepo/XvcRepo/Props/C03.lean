import XvcRepo.Cache
import XvcRepo.Props.C01
/-!
  # C03 — No xvc command destroys workspace data it has not saved

  For every per-file procedure of the non-`--force` commands: the bytes that could be read at the
  path before are afterwards still readable at the path, or are in the cache under the digest the
  command records for the path; and no other path of the workspace is touched.
-/
namespace Repo

/-- the bytes `b` that were at `p` are safe in `s`: still readable at `p`, or in the cache under the
    digest recorded for `p` at entity `e` -/
def Safe (s : St) (p : Path) (e : Ent) (b : Bytes) : Prop :=
  (∃ n, s.readThrough p = some (b, n)) ∨
  (∃ r d o, s.recs e = some r ∧ r.cur = some d ∧ s.cache (addrOf p d) = some o ∧ o.b = b)

/-- no CR/LF (or hash) collision at address `a` for content `b`: an object already there holds `b`.
    (K1: violated by two contents that differ only in line endings.) -/
def NoCollision (s : St) (a : Addr) (b : Bytes) : Prop := ∀ o, s.cache a = some o → o.b = b

/-! ## frame: a per-file procedure touches no other workspace path -/

theorem recheckFromCache_ws_other (s : St) (p q : Path) (a : Addr) (m : Method) (h : q ≠ p) :
    (s.recheckFromCache p a m).1.ws q = s.ws q := by
  unfold St.recheckFromCache
  have h0 : (if (s.readThrough p).isSome then s.setWs p none else s).ws q = s.ws q := by
    split
    · simp [upd_other _ _ h]
    · rfl
  generalize (if (s.readThrough p).isSome then s.setWs p none else s) = s0 at h0 ⊢
  simp only
  repeat' split
  all_goals simp [h0, upd_other _ _ h]

theorem moveToCache_ws_other (s : St) (p q : Path) (a : Addr) (h : q ≠ p) : (s.moveToCache p a).1.ws q = s.ws q := by
  unfold St.moveToCache
  repeat' split
  all_goals simp [upd_other _ _ h]

theorem carryOne_ws_other (s : St) (p q : Path) (a : Addr) (m : Method) (h : q ≠ p) :
    (s.carryOne p a m false).1.ws q = s.ws q := by
  unfold St.carryOne
  have h1 : (if (s.cache a).isSome then
      if false = true then St.moveToCache { (s.detach a).setCache a none with dirRo := upd s.dirRo a.d false } p a
      else (s, Out.ok)
    else s.moveToCache p a).1.ws q = s.ws q := by
    repeat' split
    all_goals first | rfl | exact moveToCache_ws_other s p q a h | simp_all
  generalize (if (s.cache a).isSome then
      if false = true then St.moveToCache { (s.detach a).setCache a none with dirRo := upd s.dirRo a.d false } p a
      else (s, Out.ok)
    else s.moveToCache p a) = res at h1
  obtain ⟨s1, o1⟩ := res
  cases o1 <;> simp only at h1 ⊢
  · rw [recheckFromCache_ws_other _ _ _ _ _ h]
    split
    · simp [upd_other _ _ h, h1]
    · exact h1
  · exact h1
  · exact h1

/-- **C03_other_paths_untouched (track)**: tracking `p` changes no other workspace entry. -/
theorem C03_track_other_paths_untouched (c : Cfg) (o : TrackOpts) (hf : o.force = false) (s : St) (p q : Path)
    (h : q ≠ p) : (s.trackOne c o p).1.ws q = s.ws q := by
  unfold St.trackOne
  split
  · rfl
  · unfold St.trackFile
    simp only [hf]
    repeat' split
    all_goals first | rfl | (rw [carryOne_ws_other _ _ _ _ _ h]; rfl)

/-- **C03_other_paths_untouched (carry-in)**. -/
theorem C03_carryIn_other_paths_untouched (c : Cfg) (tob : Option Tob) (s : St) (p q : Path) (h : q ≠ p) :
    (s.carryInOne c tob false p).1.ws q = s.ws q := by
  unfold St.carryInOne
  split
  · rfl
  · split
    · rfl
    · unfold St.carryInRec
      simp only
      repeat' split
      all_goals first | rfl | (simp only [setRec_ws]; exact carryOne_ws_other _ _ _ _ _ h)

/-- **C03_other_paths_untouched (recheck)**: also with `--force`. -/
theorem C03_recheck_other_paths_untouched (c : Cfg) (m : Option Method) (f : Bool) (s : St) (p q : Path) (h : q ≠ p) :
    (s.recheckOne c m f p).1.ws q = s.ws q := by
  unfold St.recheckOne
  split
  · rfl
  · split
    · rfl
    · unfold St.recheckRec
      simp only
      repeat' split
      all_goals first | rfl | (rw [recheckFromCache_ws_other _ _ _ _ _ h]; rfl)

/-! ## the targeted path -/

/-- committing `p` (regular file with bytes `b`) at address `a` without `--force`: afterwards the
    object at `a` holds `b` — moved there, or already there (`NoCollision`) — so `b` is in the cache
    whatever `recheck_from_cache` then does to the path. -/
theorem carryOne_saves (s : St) (p : Path) (a : Addr) (m : Method) (b : Bytes) (w : Bool) (st : Nat) (l : Option Addr)
    (hw : s.ws p = some (.file b w st l)) (hnc : NoCollision s a b) :
    ∃ o, (s.carryOne p a m false).1.cache a = some o ∧ o.b = b := by
  cases hc : s.cache a with
  | none => exact ⟨_, carryOne_moves s p a m b w st l hw hc, rfl⟩
  | some o => exact ⟨o, carryOne_keep s p a m a o hc, hnc o hc⟩

/-- **C03_track_saves**: `xvc file track p` (no `--force`, committing) on a regular file with bytes `b`
    never loses `b`: afterwards `b` is still at `p`, or it is in the cache under the digest recorded for
    `p` — unless a colliding object sat at the address (K1). -/
theorem C03_track_saves (c : Cfg) (o : TrackOpts) (hf : o.force = false) (hc : o.noCommit = false) (s : St) (p : Path)
    (b : Bytes) (w : Bool) (st : Nat) (l : Option Addr) (hw : s.ws p = some (.file b w st l))
    (hnc : NoCollision s (addrOf p (digestOf c.algo (o.tob.getD c.tob) b)) b)
    (hwf : ∀ e, s.findEnt p = some e → ∃ r, s.recs e = some r) :
    ∃ e, Safe (s.trackOne c o p).1 p e b := by
  have hr := readThrough_file hw
  have key : ∀ s1 : St, s1.ws = s.ws → s1.cache = s.cache →
      ∃ ob, (s1.carryOne p (addrOf p (digestOf c.algo (o.tob.getD c.tob) b)) (o.method.getD c.method) false).1.cache
        (addrOf p (digestOf c.algo (o.tob.getD c.tob) b)) = some ob ∧ ob.b = b := by
    intro s1 h1 h2
    exact carryOne_saves s1 p _ _ b w st l (by rw [h1]; exact hw) (by intro o' ho'; rw [h2] at ho'; exact hnc o' ho')
  unfold St.trackOne
  simp only [hr]
  unfold St.trackFile
  simp only [hf, hc, Bool.false_or]
  cases hfe : s.findEnt p with
  | none =>
    simp only [Bool.false_eq_true, if_false]
    refine ⟨s.next, Or.inr ?_⟩
    obtain ⟨ob, hob, hb⟩ := key ((s.setRec s.next (some (newRec p st (digestOf c.algo (o.tob.getD c.tob) b)
      (o.method.getD c.method) (o.tob.getD c.tob)))).bumpNext) rfl rfl
    refine ⟨newRec p st (digestOf c.algo (o.tob.getD c.tob) b) (o.method.getD c.method) (o.tob.getD c.tob),
      digestOf c.algo (o.tob.getD c.tob) b, ob, ?_, rfl, hob, hb⟩
    rw [carryOne_recs]; simp
  | some e =>
    obtain ⟨r, hre⟩ := hwf e hfe
    simp only [hre]
    split
    · exact ⟨e, Or.inl ⟨st, hr⟩⟩
    · split
      · -- digest unchanged: nothing is touched
        exact ⟨e, Or.inl ⟨st, by simpa [St.readThrough] using hr⟩⟩
      · rename_i hch
        refine ⟨e, Or.inr ?_⟩
        obtain ⟨ob, hob, hb⟩ := key (s.setRec e (some (updRec r st (digestOf c.algo (o.tob.getD c.tob) b)
          (o.method.getD c.method) (o.tob.getD c.tob)))) rfl rfl
        refine ⟨updRec r st (digestOf c.algo (o.tob.getD c.tob) b) (o.method.getD c.method) (o.tob.getD c.tob),
          digestOf c.algo (o.tob.getD c.tob) b, ob, ?_, ?_, hob, hb⟩
        · rw [carryOne_recs]; simp
        · have : r.cur ≠ some (digestOf c.algo (o.tob.getD c.tob) b) := by simpa using hch
          have h2 : ¬ r.digests.getLast? = some (digestOf c.algo (o.tob.getD c.tob) b) := this
          unfold updRec Rec.cur
          simp [h2]

/-- **C03_recheck_refuses_modified**: without `--force`, `recheck` does not touch a path whose content
    differs from the recorded version (digest diff `Different`): the state is returned unchanged. -/
theorem C03_recheck_refuses_modified (c : Cfg) (m : Option Method) (s : St) (p : Path) (e : Ent) (r : Rec) (a : Digest)
    (hd : s.digestDiff c r r.tob = .different a) : (s.recheckRec c m false p e r).1 = s := by
  unfold St.recheckRec
  have : s.recheckActs c r (m.getD r.method) false = false := by
    simp [St.recheckActs, hd]
  simp [this]

/-- **C03_recheck_replaces_only_saved**: when `recheck` (no `--force`) does replace an existing, readable
    entry, its bytes equal a digest-equal content of the recorded version — the digest diff is `same` —
    and the object for that version is in the cache (otherwise nothing is touched). -/
theorem C03_recheck_replaces_only_saved (c : Cfg) (m : Option Method) (s : St) (p : Path) (e : Ent) (r : Rec)
    (b : Bytes) (n : Nat) (hp : r.path = p) (hr : s.readThrough p = some (b, n))
    (hch : (s.recheckRec c m false p e r).1.ws p ≠ s.ws p) :
    s.digestDiff c r r.tob = .same ∧ ∃ d o, r.cur = some d ∧ s.cache (addrOf p d) = some o := by
  unfold St.recheckRec at hch
  simp only at hch
  split at hch
  · exact absurd rfl hch
  · rename_i hact
    have hact' : s.recheckActs c r (m.getD r.method) false = true := by simpa using hact
    have hsame : s.digestDiff c r r.tob = .same := by
      unfold St.recheckActs at hact'
      cases hdd : s.digestDiff c r r.tob with
      | same => rfl
      | actualMissing =>
        unfold St.digestDiff at hdd
        rw [hp, hr] at hdd
        simp only at hdd
        split at hdd
        · cases hdd
        · split at hdd <;> cases hdd
      | different a => simp [hdd] at hact'
    refine ⟨hsame, ?_⟩
    cases hcur : r.cur with
    | none => simp [hcur] at hch
    | some d =>
      simp only [hcur] at hch
      split at hch
      · rename_i hcache
        cases ho : s.cache (addrOf p d) with
        | none => simp [ho] at hcache
        | some o => exact ⟨d, o, rfl, ho⟩
      · exact absurd rfl hch

/-- **C03_copy_move_refuse_existing**: `copy` (without `--force`) and `move` never write over a
    workspace entry at a destination that is not tracked (F10 repaired): the state is unchanged. -/
theorem C03_copy_move_refuse_existing (c : Cfg) (o : CopyOpts) (s : St) (src dst : Path) (se : Ent) (r : Rec)
    (hs : s.findEnt src = some se) (hr : s.recs se = some r) (hd : s.findEnt dst = none)
    (hw : (s.ws dst).isSome) (hf : o.force = false) :
    (s.copy c o src dst).1 = s ∧ (s.move c o src dst).1 = s := by
  constructor
  · unfold St.copy; simp only [hs, hr, hd, hw, hf]; split <;> simp
  · unfold St.move; simp only [hs, hr, hd, hw, hf]; split <;> simp

/-- **C03_move_refuses_uncached**: `move` never deletes a source file whose content is not in the cache
    (never committed, or explicitly removed): unless the file is simply renamed, the command refuses
    and changes nothing. -/
theorem C03_move_refuses_uncached (c : Cfg) (o : CopyOpts) (s : St) (src dst : Path) (se : Ent) (r : Rec)
    (hs : s.findEnt src = some se) (hr : s.recs se = some r)
    (hb : s.moveBlocked r src (o.method.getD r.method) o.noRecheck = true) : (s.move c o src dst).1 = s := by
  unfold St.move
  simp only [hs, hr, hb]
  repeat' split
  all_goals first | rfl | simp_all

/-- K1: with a CR/LF collision the second file's bytes are lost (neither at the path nor in the cache) -/
theorem C03_crlf_loss_counterexample :
    let s0 := ((St.init.userWrite ⟨0, 1⟩ [108, 49, 10]).userWrite ⟨1, 1⟩ [108, 49, 13, 10])
    let s1 := (s0.track {} {} [⟨0, 1⟩, ⟨1, 1⟩]).1
    (s1.readThrough ⟨1, 1⟩).map (·.1) = some [108, 49, 10] ∧
    (s1.cache ⟨⟨0, [108, 49]⟩, 1⟩).map (·.b) = some [108, 49, 10] := by
  decide

example : ∃ s : St, ∃ b w st l, s.ws ⟨0, 1⟩ = some (.file b w st l) ∧ NoCollision s (addrOf ⟨0, 1⟩ (digestOf 0 .auto b)) b :=
  ⟨St.init.userWrite ⟨0, 1⟩ [104], [104], true, 1, none, by decide, by intro o h; cases h⟩

end Repo

open Repo in
#print axioms C03_track_other_paths_untouched
open Repo in
#print axioms C03_carryIn_other_paths_untouched
open Repo in
#print axioms C03_recheck_other_paths_untouched
open Repo in
#print axioms C03_track_saves
open Repo in
#print axioms C03_recheck_refuses_modified
open Repo in
#print axioms C03_recheck_replaces_only_saved
open Repo in
#print axioms C03_copy_move_refuse_existing
open Repo in
#print axioms C03_move_refuses_uncached
open Repo in
#print axioms C03_crlf_loss_counterexample
