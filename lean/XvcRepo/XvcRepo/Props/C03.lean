import XvcRepo.NoLoss
import XvcRepo.Fault
/-!
  # C03 — No xvc command destroys workspace data it has not saved

  For every per-file procedure of the non-`--force` commands: the bytes that could be read at the
  path before are afterwards still readable at the path, or are in the cache under the digest the
  command records for the path; and no other path of the workspace is touched.
-/
namespace Repo

/-- the bytes `b` that were at `p` are safe in `s`: still readable at `p`, or in the cache under the
    digest recorded for `p` at entity `e` -/
def Safe (s : St) (p : Path) (e : Ent) (b : Bytes) : Prop :=
  (∃ n, s.readThrough p = some (b, n)) ∨
  (∃ r d o, s.recs e = some r ∧ r.cur = some d ∧ s.cache (addrOf p d) = some o ∧ o.b = b)

/-- **C03_other_paths_untouched (track)**: tracking `p` changes no other workspace entry. -/
theorem C03_track_other_paths_untouched (c : Cfg) (o : TrackOpts) (hf : o.force = false) (s : St) (p q : Path)
    (h : q ≠ p) : (s.trackOne c o p).1.ws q = s.ws q := trackOne_ws_other c o hf s p q h

/-- **C03_other_paths_untouched (carry-in)**. -/
theorem C03_carryIn_other_paths_untouched (c : Cfg) (tob : Option Tob) (s : St) (p q : Path) (h : q ≠ p) :
    (s.carryInOne c tob false p).1.ws q = s.ws q := carryInOne_ws_other c tob s p q h

/-- **C03_other_paths_untouched (recheck)**: also with `--force`. -/
theorem C03_recheck_other_paths_untouched (c : Cfg) (m : Option Method) (f : Bool) (s : St) (p q : Path) (h : q ≠ p) :
    (s.recheckOne c m f p).1.ws q = s.ws q := recheckOne_ws_other c m f s p q h

/-! ## the targeted path -/

/-- committing `p` (regular file with bytes `b`) at address `a` without `--force`: afterwards the
    object at `a` holds `b` — moved there, or already there (`NoCollision`) — so `b` is in the cache
    whatever `recheck_from_cache` then does to the path. -/
theorem carryOne_saves (s : St) (p : Path) (a : Addr) (m : Method) (b : Bytes) (w : Bool) (st : Nat) (l : Option Addr)
    (hw : s.ws p = some (.file b w st l)) (hnc : NoCollision s a b) :
    ∃ o, (s.carryOne p a m false).1.cache a = some o ∧ o.b = b := by
  cases hc : s.cache a with
  | none => exact ⟨_, carryOne_moves s p a m b w st l hw hc, rfl⟩
  | some o => exact ⟨o, carryOne_keep s p a m a o hc, hnc o hc⟩

/-- **C03_track_saves**: `xvc file track p` (no `--force`, committing) on a regular file with bytes `b`
    never loses `b`: afterwards `b` is still at `p`, or it is in the cache under the digest recorded for
    `p` — unless a colliding object sat at the address (K1). -/
theorem C03_track_saves (c : Cfg) (o : TrackOpts) (hf : o.force = false) (hc : o.noCommit = false) (s : St) (p : Path)
    (b : Bytes) (w : Bool) (st : Nat) (l : Option Addr) (hw : s.ws p = some (.file b w st l))
    (hnc : NoCollision s (addrOf p (digestOf c.algo (o.tob.getD c.tob) b)) b)
    (hwf : ∀ e, s.findEnt p = some e → ∃ r, s.recs e = some r) :
    ∃ e, Safe (s.trackOne c o p).1 p e b := by
  have hr := readThrough_file hw
  have key : ∀ s1 : St, s1.ws = s.ws → s1.cache = s.cache →
      ∃ ob, (s1.carryOne p (addrOf p (digestOf c.algo (o.tob.getD c.tob) b)) (o.method.getD c.method) false).1.cache
        (addrOf p (digestOf c.algo (o.tob.getD c.tob) b)) = some ob ∧ ob.b = b := by
    intro s1 h1 h2
    exact carryOne_saves s1 p _ _ b w st l (by rw [h1]; exact hw) (by intro o' ho'; rw [h2] at ho'; exact hnc o' ho')
  unfold St.trackOne
  simp only [hr]
  unfold St.trackFile
  simp only [hf, hc, Bool.false_or]
  cases hfe : s.findEnt p with
  | none =>
    simp only [Bool.false_eq_true, if_false]
    refine ⟨s.next, Or.inr ?_⟩
    obtain ⟨ob, hob, hb⟩ := key ((s.setRec s.next (some (newRec p st (digestOf c.algo (o.tob.getD c.tob) b)
      (o.method.getD c.method) (o.tob.getD c.tob)))).bumpNext) rfl rfl
    refine ⟨newRec p st (digestOf c.algo (o.tob.getD c.tob) b) (o.method.getD c.method) (o.tob.getD c.tob),
      digestOf c.algo (o.tob.getD c.tob) b, ob, ?_, rfl, hob, hb⟩
    rw [carryOne_recs]; simp
  | some e =>
    obtain ⟨r, hre⟩ := hwf e hfe
    simp only [hre]
    split
    · exact ⟨e, Or.inl ⟨st, hr⟩⟩
    · split
      · -- digest unchanged: nothing is touched
        exact ⟨e, Or.inl ⟨st, by simpa [St.readThrough] using hr⟩⟩
      · rename_i hch
        refine ⟨e, Or.inr ?_⟩
        obtain ⟨ob, hob, hb⟩ := key (s.setRec e (some (updRec r st (digestOf c.algo (o.tob.getD c.tob) b)
          (o.method.getD c.method) (o.tob.getD c.tob)))) rfl rfl
        refine ⟨updRec r st (digestOf c.algo (o.tob.getD c.tob) b) (o.method.getD c.method) (o.tob.getD c.tob),
          digestOf c.algo (o.tob.getD c.tob) b, ob, ?_, ?_, hob, hb⟩
        · rw [carryOne_recs]; simp
        · have : r.cur ≠ some (digestOf c.algo (o.tob.getD c.tob) b) := by simpa using hch
          have h2 : ¬ r.digests.getLast? = some (digestOf c.algo (o.tob.getD c.tob) b) := this
          unfold updRec Rec.cur
          simp [h2]

/-- **C03_recheck_refuses_modified**: without `--force`, `recheck` does not touch a path whose content
    differs from the recorded version (digest diff `Different`): the state is returned unchanged. -/
theorem C03_recheck_refuses_modified (c : Cfg) (m : Option Method) (s : St) (p : Path) (e : Ent) (r : Rec) (a : Digest)
    (hd : s.digestDiff c r r.tob = .different a) : (s.recheckRec c m false p e r).1 = s := by
  unfold St.recheckRec
  have : s.recheckActs c r (m.getD r.method) false = false := by
    simp [St.recheckActs, hd]
  simp [this]

/-- **C03_recheck_replaces_only_saved**: when `recheck` (no `--force`) does replace an existing, readable
    entry, its bytes equal a digest-equal content of the recorded version — the digest diff is `same` —
    and the object for that version is in the cache (otherwise nothing is touched). -/
theorem C03_recheck_replaces_only_saved (c : Cfg) (m : Option Method) (s : St) (p : Path) (e : Ent) (r : Rec)
    (b : Bytes) (n : Nat) (hp : r.path = p) (hr : s.readThrough p = some (b, n))
    (hch : (s.recheckRec c m false p e r).1.ws p ≠ s.ws p) :
    s.digestDiff c r r.tob = .same ∧ ∃ d o, r.cur = some d ∧ s.cache (addrOf p d) = some o := by
  unfold St.recheckRec at hch
  simp only at hch
  split at hch
  · exact absurd rfl hch
  · rename_i hact
    have hact' : s.recheckActs c r (m.getD r.method) false = true := by simpa using hact
    have hsame : s.digestDiff c r r.tob = .same := by
      unfold St.recheckActs at hact'
      cases hdd : s.digestDiff c r r.tob with
      | same => rfl
      | actualMissing =>
        unfold St.digestDiff at hdd
        rw [hp, hr] at hdd
        simp only at hdd
        split at hdd
        · cases hdd
        · split at hdd <;> cases hdd
      | different a => simp [hdd] at hact'
    refine ⟨hsame, ?_⟩
    cases hcur : r.cur with
    | none => simp [hcur] at hch
    | some d =>
      simp only [hcur] at hch
      split at hch
      · rename_i hcache
        cases ho : s.cache (addrOf p d) with
        | none => simp [ho] at hcache
        | some o => exact ⟨d, o, rfl, ho⟩
      · exact absurd rfl hch

/-- **C03_copy_move_refuse_existing**: `copy` (without `--force`) and `move` never write over a
    workspace entry at a destination that is not tracked (F10 repaired): the state is unchanged. -/
theorem C03_copy_move_refuse_existing (c : Cfg) (o : CopyOpts) (s : St) (src dst : Path) (se : Ent) (r : Rec)
    (hs : s.findEnt src = some se) (hr : s.recs se = some r) (hd : s.findEnt dst = none)
    (hw : (s.ws dst).isSome) (hf : o.force = false) :
    (s.copy c o src dst).1 = s ∧ (s.move c o src dst).1 = s := by
  constructor
  · unfold St.copy; simp only [hs, hr, hd, hw, hf]; split <;> simp
  · unfold St.move; simp only [hs, hr, hd, hw, hf]; split <;> simp

/-- **C03_move_refuses_uncached**: `move` never deletes a source file whose content is not in the cache
    (never committed, or explicitly removed): unless the file is simply renamed, the command refuses
    and changes nothing. -/
theorem C03_move_refuses_uncached (c : Cfg) (o : CopyOpts) (s : St) (src dst : Path) (se : Ent) (r : Rec)
    (hs : s.findEnt src = some se) (hr : s.recs se = some r)
    (hb : s.moveBlocked r src (o.method.getD r.method) o.noRecheck = true) : (s.move c o src dst).1 = s := by
  unfold St.move
  simp only [hs, hr, hb]
  repeat' split
  all_goals first | rfl | simp_all

/-! ## a file that cannot be moved to the cache, a version that is not in the cache -/

/-- a `move_to_cache` that fails has changed nothing -/
theorem moveToCache_failed_unchanged (s : St) (p : Path) (a : Addr) (h : (s.moveToCache p a).2 ≠ .ok) :
    (s.moveToCache p a).1 = s := by
  unfold St.moveToCache St.deref at *
  cases hw : s.ws p with
  | none => simp [hw]
  | some en =>
    cases en with
    | file b w st l => simp [hw, St.setWs] at h
    | sym a' =>
      cases hc : s.cache a' with
      | none => simp [hw, hc]
      | some o => simp [hw, hc, St.setWs, St.tick, upd] at h

/-- **C03_failed_move_keeps_file**: when the file at `p` cannot be moved to the cache (no object at the
    address, `move_to_cache` fails — for any reason), the per-file closure of `carry_in` — used by
    `track` and by `carry-in`, with or without `--force` — ends with that failure, never with `ok`, and the
    repository is exactly what it was: the workspace file is still there (the closure does not reach its
    `if target_path.exists() { remove_file }`). -/
theorem C03_failed_move_keeps_file (s : St) (p : Path) (a : Addr) (m : Method) (force : Bool)
    (hc : s.cache a = none) (hf : (s.moveToCache p a).2 ≠ .ok) :
    s.carryOne p a m force = (s, (s.moveToCache p a).2) ∧ (s.carryOne p a m force).2 ≠ .ok ∧
    (s.carryOne p a m force).1.ws p = s.ws p := by
  have hl : s.linksTo p a = false := by simp [St.linksTo, hc]
  have hh : s.hardLinkOf p a = false := by simp [St.hardLinkOf, hc]
  have h1 := moveToCache_failed_unchanged s p a hf
  have key : s.carryOne p a m force = (s, (s.moveToCache p a).2) := by
    unfold St.carryOne St.carryOneMove
    simp only [hl, hh, hc, Option.isSome_none, Bool.false_eq_true, if_false, Bool.and_false]
    generalize hres : s.moveToCache p a = res at hf h1 ⊢
    obtain ⟨s1, o1⟩ := res
    simp only at hf h1 ⊢
    subst h1
    cases o1 with
    | ok => exact absurd rfl hf
    | refused => rfl
    | panic => rfl
  refine ⟨key, ?_, ?_⟩
  · rw [key]; exact hf
  · rw [key]

/-- **C03_blocked_command_not_ok**: the exit class the tie compares under the fault "nothing can be moved
    to the addresses of the digests `hs`": a command that would store an object at such an address does not
    end with `ok`, and the model keeps the state (`St.stepBlocked`); a command that stores nothing there
    behaves as without the fault. -/
theorem C03_blocked_command_not_ok (c : Cfg) (hs : List Bytes) (s : St) (cmd : Cmd) :
    (s.storesAt (s.step c cmd).1 hs = true → s.stepBlocked c hs cmd = (s, .panic)) ∧
    (s.storesAt (s.step c cmd).1 hs = false → s.stepBlocked c hs cmd = s.step c cmd) := by
  constructor <;> intro h <;> simp [St.stepBlocked, h]

/-- **C03_recheck_without_object_keeps_file**: `recheck` of a tracked path whose recorded version is NOT
    in the cache (after `track --no-commit`, `remove --from-cache`, a `track` killed before its rename
    into the cache) touches neither the workspace nor the cache — for every requested method, with and
    without `--force`: whatever is at the path stays there ("cannot found in cache"). -/
theorem C03_recheck_without_object_keeps_file (c : Cfg) (m : Option Method) (force : Bool) (s : St) (p : Path)
    (e : Ent) (r : Rec) (hno : ∀ d, r.cur = some d → s.cache (addrOf p d) = none) :
    (s.recheckRec c m force p e r).1.ws = s.ws ∧ (s.recheckRec c m force p e r).1.cache = s.cache ∧
    (s.recheckRec c m force p e r).2 ≠ .ok ∨ (s.recheckRec c m force p e r).1 = s := by
  unfold St.recheckRec
  simp only
  split
  · right; rfl
  · cases hcur : r.cur with
    | none => right; rfl
    | some d =>
      left
      have := hno d hcur
      simp [St.setRec, this]

/-- the same for the command on one target: the workspace and the cache are what they were -/
theorem C03_recheck_command_without_object_keeps_file (c : Cfg) (m : Option Method) (force : Bool) (s : St) (p : Path)
    (hno : ∀ e r d, s.findEnt p = some e → s.recs e = some r → r.cur = some d → s.cache (addrOf p d) = none) :
    (s.recheckOne c m force p).1.ws = s.ws ∧ (s.recheckOne c m force p).1.cache = s.cache := by
  unfold St.recheckOne
  cases hfe : s.findEnt p with
  | none => exact ⟨rfl, rfl⟩
  | some e =>
    cases hre : s.recs e with
    | none => simp [hre]
    | some r =>
      simp only [hre]
      rcases C03_recheck_without_object_keeps_file c m force s p e r (fun d hd => hno e r d hfe hre hd) with h | h
      · exact ⟨h.1, h.2.1⟩
      · rw [h]; exact ⟨rfl, rfl⟩

/-- non-vacuity: a file recorded with `--no-commit` is in the workspace, its version is not in the cache;
    `recheck --recheck-method symlink` and `recheck --force` leave the file alone -/
theorem C03_recheck_without_object_witness :
    let s := ((St.init.userWrite ⟨0, 1⟩ [104]).track {} { noCommit := true } [⟨0, 1⟩]).1
    (s.recheck {} (some .symlink) false [⟨0, 1⟩]).1.ws ⟨0, 1⟩ = s.ws ⟨0, 1⟩ ∧
    (s.recheck {} none true [⟨0, 1⟩]).1.ws ⟨0, 1⟩ = s.ws ⟨0, 1⟩ ∧ (s.ws ⟨0, 1⟩).isSome = true ∧
    (s.findEnt ⟨0, 1⟩).isSome = true := by
  decide

/-- non-vacuity of `C03_failed_move_keeps_file`: a move that fails in the model (the path is a dangling link) -/
example : ∃ (s : St) (p : Path) (a : Addr), s.cache a = none ∧ (s.moveToCache p a).2 ≠ .ok :=
  ⟨St.init.setWs ⟨0, 1⟩ (some (.sym ⟨⟨0, [1]⟩, 1⟩)), ⟨0, 1⟩, ⟨⟨0, [2]⟩, 1⟩, by decide, by decide⟩

/-- non-vacuity of `C03_blocked_command_not_ok`: tracking a new file stores an object at its digest -/
example : (St.init.userWrite ⟨0, 1⟩ [104]).storesAt (((St.init.userWrite ⟨0, 1⟩ [104]).step {} (.track [⟨0, 1⟩] {})).1)
    (blockedHashes [[104]]) = true := by decide

/-! ## whole commands, any number of targets -/

/-- xvc commands that are not allowed to destroy anything: everything except `remove`, `untrack` and
    the `--force` variants (`write`/`delete` are the user's own actions) -/
def Cmd.careful : Cmd → Bool
  | .track _ o => !o.force
  | .carryIn _ _ f => !f
  | .recheck _ _ f => !f
  | .copy _ _ o => !o.force
  | .move _ _ o => !o.force
  | _ => false

/-- at every state in which the command looks at a target, an object that already sits at the address
    the command is going to use for the target holds the target's bytes.  It fails in exactly two ways:
    two contents that differ only in line endings (K1), and an unsound metadata short-cut (equal size
    and mtime although the bytes differ, the hypothesis `SoundRun` of C02). -/
def SafeCmd (c : Cfg) (s : St) : Cmd → Prop
  | .track ps o => forEachP (St.trackOne c o) (TrackSafeAt c o) s ps
  | .carryIn ps t _ => forEachP (St.carryInOne c t false) (CarrySafeAt c t) s ps
  | .recheck ps m _ => forEachP (St.recheckOne c m false) (fun s p => RecheckSafeAt c s p) s ps
  | .move src _ _ => RecheckSafeAt c s src
  | _ => True

/-- what "nothing lost" means for a command: cache objects untouched, and whatever could be read at a
    path can still be read there — for `move`, at the destination — or is held by the cache -/
def NoLossCmd : Cmd → St → St → Prop
  | .move src dst _ => NoLossMove src dst
  | _ => NoLoss

/-- **C03_command_no_loss**: a command without `--force` other than `remove`/`untrack`, with any number
    of targets (tracked, modified, untracked, links, absent, duplicates — whatever the workspace holds),
    deletes or changes no cache object and destroys no bytes that could be read in the workspace before
    it: they can still be read at the same path, at the destination of the `move`, or are held by a
    cache object. -/
theorem C03_command_no_loss (c : Cfg) (s : St) (cmd : Cmd) (hc : cmd.careful = true) (hs : SafeCmd c s cmd) :
    NoLossCmd cmd s (s.step c cmd).1 := by
  cases cmd with
  | write p b => simp [Cmd.careful] at hc
  | delete p => simp [Cmd.careful] at hc
  | track ps o => exact track_noLoss c o (by simpa [Cmd.careful] using hc) s ps hs
  | carryIn ps t f =>
    have : f = false := by simpa [Cmd.careful] using hc
    subst this
    exact carryIn_noLoss c t s ps hs
  | recheck ps m f =>
    have : f = false := by simpa [Cmd.careful] using hc
    subst this
    exact recheck_noLoss c m s ps hs
  | remove ps a f => simp [Cmd.careful] at hc
  | untrack ps => simp [Cmd.careful] at hc
  | untrackRestore ps bl => simp [Cmd.careful] at hc
  | copy a b o => exact copy_noLoss c o (by simpa [Cmd.careful] using hc) s a b
  | move a b o => exact move_noLoss c o (by simpa [Cmd.careful] using hc) s a b hs

/-- bytes that exist somewhere: readable at some workspace path or held by a cache object -/
def Exists' (s : St) (b : Bytes) : Prop := (∃ q n, s.readThrough q = some (b, n)) ∨ InCache s b

theorem NoLossCmd.exists {cmd : Cmd} {s s' : St} (h : NoLossCmd cmd s s') (b : Bytes) (hb : Exists' s b) : Exists' s' b := by
  have hk : CacheKeep s s' := by
    cases cmd <;> first | exact h.1
  rcases hb with ⟨q, n, hr⟩ | ⟨a, o, ho, hob⟩
  · cases cmd
    case move src dst o =>
      rcases h.2 q b n hr with ⟨n', h'⟩ | ⟨_, n', h'⟩ | h'
      · exact Or.inl ⟨q, n', h'⟩
      · exact Or.inl ⟨dst, n', h'⟩
      · exact Or.inr h'
    all_goals
      rcases h.2 q b n hr with ⟨n', h'⟩ | h'
      · exact Or.inl ⟨q, n', h'⟩
      · exact Or.inr h'
  · exact Or.inr ⟨a, o, hk a o ho, hob⟩

/-- `SafeCmd` along a script -/
def SafeScript (c : Cfg) : St → List Cmd → Prop
  | _, [] => True
  | s, cmd :: cs => SafeCmd c s cmd ∧ SafeScript c (s.step c cmd).1 cs

/-- **C03_script_no_loss**: along any script of careful commands, of any length, no bytes that existed
    at the start — in the workspace or in the cache — cease to exist. -/
theorem C03_script_no_loss (c : Cfg) (s : St) (cs : List Cmd) (hc : ∀ cmd ∈ cs, cmd.careful = true)
    (hs : SafeScript c s cs) (b : Bytes) (hb : Exists' s b) : Exists' (s.run c cs) b := by
  induction cs generalizing s with
  | nil => exact hb
  | cons cmd cs ih =>
    have h1 := C03_command_no_loss c s cmd (hc cmd (by simp)) hs.1
    exact ih (s.step c cmd).1 (fun x hx => hc x (by simp [hx])) hs.2 (h1.exists b hb)

/-- non-vacuity: two files with different contents and an untracked third one; tracking both (hard
    links) is careful and safe, so `C03_command_no_loss` applies, and all three contents survive -/
example :
    let s := ((St.init.userWrite ⟨0, 1⟩ [104]).userWrite ⟨1, 1⟩ [105]).userWrite ⟨2, 1⟩ [106]
    let cmd := Cmd.track [⟨0, 1⟩, ⟨1, 1⟩] { method := some .hardlink }
    cmd.careful = true ∧ SafeCmd {} s cmd := by
  refine ⟨rfl, ?_⟩
  simp only [SafeCmd, forEachP]
  refine ⟨?_, ?_, trivial⟩
  · intro b n h o ho
    cases ho
  · intro b n h o ho
    have hb := h.symm.trans (show _ = some ([105], 2) by decide)
    cases hb
    have hn := ho.symm.trans (show _ = none by decide)
    cases hn

/-- K1: with a CR/LF collision the second file's bytes are lost (neither at the path nor in the cache) -/
theorem C03_crlf_loss_counterexample :
    let s0 := ((St.init.userWrite ⟨0, 1⟩ [108, 49, 10]).userWrite ⟨1, 1⟩ [108, 49, 13, 10])
    let s1 := (s0.track {} {} [⟨0, 1⟩, ⟨1, 1⟩]).1
    (s1.readThrough ⟨1, 1⟩).map (·.1) = some [108, 49, 10] ∧
    (s1.cache ⟨⟨0, [108, 49]⟩, 1⟩).map (·.b) = some [108, 49, 10] := by
  decide

example : ∃ s : St, ∃ b w st l, s.ws ⟨0, 1⟩ = some (.file b w st l) ∧ NoCollision s (addrOf ⟨0, 1⟩ (digestOf 0 .auto b)) b :=
  ⟨St.init.userWrite ⟨0, 1⟩ [104], [104], true, 1, none, by decide, by intro o h; cases h⟩

end Repo

open Repo in
#print axioms C03_track_other_paths_untouched
open Repo in
#print axioms C03_carryIn_other_paths_untouched
open Repo in
#print axioms C03_recheck_other_paths_untouched
open Repo in
#print axioms C03_track_saves
open Repo in
#print axioms C03_recheck_refuses_modified
open Repo in
#print axioms C03_recheck_replaces_only_saved
open Repo in
#print axioms C03_copy_move_refuse_existing
open Repo in
#print axioms C03_move_refuses_uncached
open Repo in
#print axioms C03_command_no_loss
open Repo in
#print axioms C03_script_no_loss
open Repo in
#print axioms C03_crlf_loss_counterexample
open Repo in
#print axioms C03_failed_move_keeps_file
open Repo in
#print axioms C03_blocked_command_not_ok
open Repo in
#print axioms C03_recheck_without_object_keeps_file
open Repo in
#print axioms C03_recheck_command_without_object_keeps_file
open Repo in
#print axioms C03_recheck_without_object_witness
