import XvcRepo.UserLink
import XvcRepo.Cache
/-!
  # C05 — `untrack` re-materialises a target from the cache only when the target IS a link of its recorded object

  The second sentence of C05: after `untrack` every targeted path that was present is a regular, writable file with
  unchanged bytes.  `untrack` therefore has to tell "a link into the cache that will break" (copy the object out) from
  "a file of the user's" (leave the bytes alone).  In the model - as in `cmd_untrack`, which compares inode and device
  of the workspace file with the cache object of the recorded digest - the decision depends on the entry being a link
  OF THAT OBJECT (`Entry.file … (some a)` with `a` the recorded address, or a symbolic link), never on how many names
  the inode has: the model has no link count at all (XvcRepo/UserLink.lean).  The scenarios with several workspace
  names of one inode (hard-linked duplicates whose object was removed; a hard link the user made to a file of their
  own) are therefore judged on the binary by the oracle (lib/c05.py, stream `untrack-links`), and by the tie as far as
  the abstraction sees them (kind, bytes, mode, link of which object).
-/
namespace Repo

/-- **C05_untrack_rematerialises_only_links_of_the_object**: a target that is a regular file and NOT a hard link of
    the object of its recorded current version - a plain file, a hard link of some other object, a detached former
    link, a path recorded with another method - is never rewritten from the cache: `untrack` leaves it alone or, when
    it is read-only, replaces it by a writable copy OF ITSELF. -/
theorem C05_untrack_rematerialises_only_links_of_the_object (s : St) (e : Ent) (r : Rec) (b : Bytes) (w : Bool) (st : Nat)
    (l : Option Addr) (hr : s.recs e = some r) (hw : s.ws r.path = some (.file b w st l))
    (hn : ¬ (r.method = .hardlink ∧ ∃ d, r.cur = some d ∧ l = some (addrOf r.path d))) :
    s.rematOne e = (s.selfCopy r.path, .ok) := by
  unfold St.rematOne
  simp only [hr, hw]
  cases l with
  | none => cases r.cur <;> rfl
  | some a =>
    cases hc : r.cur with
    | none => rfl
    | some d =>
      simp only
      split
      · rename_i h
        exact absurd ⟨h.1, d, hc, by rw [h.2]⟩ hn
      · rfl

/-- **C05_untrack_foreign_link_left_alone**: a writable regular file that is no link of any cache object - e.g. the
    user replaced the hard link by a (hard link to a) file of their own - is not touched at all, whatever method and
    versions are recorded for the path and whether or not its object is still in the cache. -/
theorem C05_untrack_foreign_link_left_alone (s : St) (e : Ent) (r : Rec) (b : Bytes) (st : Nat)
    (hr : s.recs e = some r) (hw : s.ws r.path = some (.file b true st none)) :
    s.rematOne e = (s, .ok) := by
  rw [C05_untrack_rematerialises_only_links_of_the_object s e r b true st none hr hw (by simp)]
  unfold St.selfCopy
  simp [hw]

/-- a hard link of ANOTHER object (the user linked the path to another tracked file), or of an object the path is
    not recorded to be a hard link of: the bytes stay, a read-only entry becomes a writable independent file -/
theorem C05_untrack_link_of_other_object_keeps_bytes (s : St) (e : Ent) (r : Rec) (b : Bytes) (w : Bool) (st : Nat) (a : Addr)
    (hr : s.recs e = some r) (hw : s.ws r.path = some (.file b w st (some a)))
    (hne : ∀ d, r.cur = some d → a ≠ addrOf r.path d) :
    (s.rematOne e).2 = .ok ∧ (s.rematOne e).1.cache = s.cache ∧
    (s.rematOne e).1.ws r.path = some (if w then .file b true st (some a) else .file b true s.clock none) := by
  rw [C05_untrack_rematerialises_only_links_of_the_object s e r b w st (some a) hr hw
    (by intro ⟨_, d, hc, hl⟩; exact hne d hc (by cases hl; rfl))]
  refine ⟨rfl, ?_, ?_⟩
  · unfold St.selfCopy
    rw [hw]; cases w <;> rfl
  · unfold St.selfCopy
    rw [hw]
    cases w
    · simp [St.setWs, St.tick, upd]
    · simp [hw]

/-- scenario 1 on the whole commands: two paths with identical content tracked as hard links (one object), the object
    removed from the cache with both paths as targets, then `untrack` of the first: it succeeds, the first path is a
    writable file with its bytes and no record, the second keeps its bytes and its record -/
theorem C05_untrack_detached_duplicates_witness :
    let s0 := ((St.init.userWrite ⟨0, 1⟩ [104]).userWrite ⟨1, 1⟩ [104])
    let s1 := (s0.track {} { method := some .hardlink } [⟨0, 1⟩, ⟨1, 1⟩]).1
    let s2 := (s1.remove [⟨0, 1⟩, ⟨1, 1⟩] .current false).1
    s1.ws ⟨0, 1⟩ = some (.file [104] false 1 (some ⟨⟨0, [104]⟩, 1⟩)) ∧ s1.ws ⟨1, 1⟩ = some (.file [104] false 1 (some ⟨⟨0, [104]⟩, 1⟩)) ∧
    s2.cache ⟨⟨0, [104]⟩, 1⟩ = none ∧ s2.ws ⟨0, 1⟩ = some (.file [104] false 1 none) ∧
    (s2.untrack [⟨0, 1⟩]).2 = .ok ∧ (s2.untrack [⟨0, 1⟩]).1.ws ⟨0, 1⟩ = some (.file [104] true 3 none) ∧
    (s2.untrack [⟨0, 1⟩]).1.ws ⟨1, 1⟩ = some (.file [104] false 1 none) ∧
    (s2.untrack [⟨0, 1⟩]).1.findEnt ⟨0, 1⟩ = none ∧ ((s2.untrack [⟨0, 1⟩]).1.findEnt ⟨1, 1⟩).isSome = true := by
  decide

/-- scenario 2 on the whole commands: a path tracked as hard link, replaced by the user with a hard link to a file
    of their own outside the repository (`[105]`), then `untrack`: the user's bytes stay, the record goes, and the
    object - no longer referred to by anything - is deleted -/
theorem C05_untrack_user_link_witness :
    let s1 := ((St.init.userWrite ⟨0, 1⟩ [104]).track {} { method := some .hardlink } [⟨0, 1⟩]).1
    let s2 := s1.userLinkOutside ⟨0, 1⟩ [105] true
    (s2.untrack [⟨0, 1⟩]).2 = .ok ∧ (s2.untrack [⟨0, 1⟩]).1.ws ⟨0, 1⟩ = some (.file [105] true 2 none) ∧
    (s2.untrack [⟨0, 1⟩]).1.findEnt ⟨0, 1⟩ = none ∧ (s2.untrack [⟨0, 1⟩]).1.cache ⟨⟨0, [104]⟩, 1⟩ = none := by
  decide

/-- …and a hard link to ANOTHER tracked file (itself a hard link of its own object `[105]`): the path is a link of
    that other object, `untrack` gives the user a writable copy with the bytes the path had, and the other file, its
    record and its object are untouched -/
theorem C05_untrack_link_to_tracked_witness :
    let s0 := ((St.init.userWrite ⟨0, 1⟩ [104]).userWrite ⟨1, 1⟩ [105])
    let s1 := (s0.track {} { method := some .hardlink } [⟨0, 1⟩, ⟨1, 1⟩]).1
    let s2 := s1.userLink ⟨0, 1⟩ ⟨1, 1⟩
    s2.ws ⟨0, 1⟩ = some (.file [105] false 2 (some ⟨⟨0, [105]⟩, 1⟩)) ∧
    (s2.untrack [⟨0, 1⟩]).2 = .ok ∧ (s2.untrack [⟨0, 1⟩]).1.ws ⟨0, 1⟩ = some (.file [105] true 3 none) ∧
    (s2.untrack [⟨0, 1⟩]).1.ws ⟨1, 1⟩ = some (.file [105] false 2 (some ⟨⟨0, [105]⟩, 1⟩)) ∧
    ((s2.untrack [⟨0, 1⟩]).1.cache ⟨⟨0, [105]⟩, 1⟩).isSome = true := by
  decide

end Repo

open Repo in
#print axioms C05_untrack_rematerialises_only_links_of_the_object
open Repo in
#print axioms C05_untrack_foreign_link_left_alone
open Repo in
#print axioms C05_untrack_link_of_other_object_keeps_bytes
open Repo in
#print axioms C05_untrack_detached_duplicates_witness
open Repo in
#print axioms C05_untrack_user_link_witness
open Repo in
#print axioms C05_untrack_link_to_tracked_witness
