import XvcRepo.Model
/-!
  Hard links made by the USER (`rm p; ln q p`), next to the user actions `write` / `delete` of `Model.lean`.

  The model keeps no inode aliasing between workspace names (DESIGN.md 9.5): two names of one inode are two entries
  with equal bytes, mode and stamp.  What the model does keep is everything the commands look at when they meet such a
  file: its bytes, its user-write bit, its modification stamp, and whether the inode is the one of a CACHE OBJECT
  (`Entry.file … (some a)`).  A link count does not exist in the model - no command may depend on one.
  Core only (imported by the driver).
-/
namespace Repo

/-- `rm p; ln q p`, `q` a regular file of the workspace: `p` becomes another name of `q`'s inode - a hard link of
    the cache object `a` when `q` is one (`q` was materialised with the hardlink method) -/
def St.userLink (s : St) (p q : Path) : St :=
  match s.ws q with
  | some (.file b w st l) => s.setWs p (some (.file b w st l))
  | _ => s

/-- `rm p; ln <a file outside the repository> p`: bytes `b`, user-write bit `w`, a modification time no record knows -/
def St.userLinkOutside (s : St) (p : Path) (b : Bytes) (w : Bool) : St :=
  (s.setWs p (some (.file b w s.clock none))).tick

end Repo
