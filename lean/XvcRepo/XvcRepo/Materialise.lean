import XvcRepo.NoLoss
import XvcRepo.Props.C17
/-!
  Lifting the per-file statement of C17 through the target loop of `recheck`: a post-condition that every
  target reaches on its turn and that the turns of the other targets leave alone.
-/
namespace Repo

/-- a condition about `x` that the turn of any other element leaves alone survives a loop over
    elements different from `x` -/
theorem forEach_frame {α : Type} (f : St → α → St × Out) (Q : α → St → Prop)
    (hframe : ∀ s x y, x ≠ y → Q x s → Q x (f s y).1)
    (x : α) (ys : List α) (hx : x ∉ ys) (s : St) (hq : Q x s) : Q x (forEach f s ys).1 := by
  induction ys generalizing s with
  | nil => exact hq
  | cons z zs ih =>
    unfold forEach
    have hxz : x ≠ z := fun h => hx (by simp [h])
    have hxzs : x ∉ zs := fun h => hx (by simp [h])
    have hq' := hframe s x z hxz hq
    generalize f s z = r2 at hq' ⊢
    obtain ⟨s2, o2⟩ := r2
    cases o2
    · exact ih hxzs s2 hq'
    · exact ih hxzs s2 hq'
    · exact hq'

/-- post-conditions through a target loop: `Pre` is what a target needs on its turn, `Q` what it has
    afterwards; both are untouched by the turn of any other target -/
theorem forEach_post {α : Type} (f : St → α → St × Out) (Pre Q : α → St → Prop)
    (hstep : ∀ s x, Pre x s → (f s x).2 ≠ .panic → Q x (f s x).1)
    (hframeP : ∀ s x y, x ≠ y → Pre x s → Pre x (f s y).1)
    (hframeQ : ∀ s x y, x ≠ y → Q x s → Q x (f s y).1)
    (xs : List α) (hnd : xs.Nodup) (s : St) (hpre : ∀ x ∈ xs, Pre x s) (hok : (forEach f s xs).2 ≠ .panic) :
    ∀ x ∈ xs, Q x (forEach f s xs).1 := by
  induction xs generalizing s with
  | nil => intro x hx; cases hx
  | cons y ys ih =>
    obtain ⟨hy, hnd'⟩ := List.nodup_cons.mp hnd
    have hQy : (f s y).2 ≠ .panic → Q y (f s y).1 := hstep s y (hpre y (by simp))
    have hPys : ∀ x ∈ ys, Pre x (f s y).1 := fun x hx =>
      hframeP s x y (fun h => hy (h ▸ hx)) (hpre x (by simp [hx]))
    unfold forEach at hok ⊢
    generalize f s y = res at hok hQy hPys ⊢
    obtain ⟨s', o⟩ := res
    have key : o ≠ .panic → (forEach f s' ys).2 ≠ .panic → ∀ x ∈ y :: ys, Q x (forEach f s' ys).1 := by
      intro hne hok' x hx
      rcases List.mem_cons.mp hx with rfl | hx'
      · exact forEach_frame f Q hframeQ x ys hy s' (hQy hne)
      · exact ih hnd' s' hPys hok' x hx'
    cases o
    · exact key (by simp) hok
    · exact key (by simp) hok
    · exact absurd rfl hok

/-! ## `recheck` -/

theorem findEnt_congr {s s' : St} (hn : s'.next = s.next)
    (hp : ∀ e, (s'.recs e).map (·.path) = (s.recs e).map (·.path)) (p : Path) : s'.findEnt p = s.findEnt p := by
  unfold St.findEnt
  rw [hn]
  congr 1
  funext e
  have := hp e
  cases h1 : s'.recs e <;> cases h2 : s.recs e <;> simp_all

/-- what `recheck` of `q` does to the records: nothing, or the method of the entity recorded at `q` -/
theorem recheckOne_recs (c : Cfg) (m : Option Method) (f : Bool) (s : St) (q : Path) (e : Ent) :
    (s.recheckOne c m f q).1.recs e = s.recs e ∨
    ∃ r, s.recs e = some r ∧ r.path = q ∧ (s.recheckOne c m f q).1.recs e = some { r with method := m.getD r.method } := by
  unfold St.recheckOne
  cases hfe : s.findEnt q with
  | none => exact Or.inl rfl
  | some eq =>
    simp only
    cases hre : s.recs eq with
    | none => exact Or.inl rfl
    | some r =>
      obtain ⟨r0, hr0, hpath⟩ := findEnt_path hfe
      rw [hre] at hr0; cases hr0
      simp only
      unfold St.recheckRec
      simp only
      split
      · exact Or.inl rfl
      · cases hc : r.cur with
        | none => exact Or.inl rfl
        | some d =>
          simp only
          have key : ∀ s2 : St, s2.recs = (s.setRec eq (some { r with method := m.getD r.method })).recs →
              s2.recs e = s.recs e ∨ ∃ r', s.recs e = some r' ∧ r'.path = q ∧ s2.recs e = some { r' with method := m.getD r'.method } := by
            intro s2 h2
            by_cases he : e = eq
            · subst he
              exact Or.inr ⟨r, hre, hpath, by rw [h2]; simp [upd]⟩
            · left; rw [h2]; simp [upd, he]
          split
          · exact key _ (recheckFromCache_recs _ _ _ _)
          · exact key _ rfl

theorem recheckRec_next (c : Cfg) (m : Option Method) (f : Bool) (s : St) (p : Path) (e : Ent) (r : Rec) :
    (s.recheckRec c m f p e r).1.next = s.next := by
  unfold St.recheckRec
  simp only
  split
  · rfl
  · cases r.cur with
    | none => rfl
    | some d =>
      simp only
      split
      · exact recheckFromCache_next _ _ _ _
      · rfl

theorem recheckOne_next (c : Cfg) (m : Option Method) (f : Bool) (s : St) (q : Path) :
    (s.recheckOne c m f q).1.next = s.next := by
  unfold St.recheckOne
  split
  · rfl
  · split
    · rfl
    · exact recheckRec_next c m f s q _ _

theorem recheckOne_findEnt (c : Cfg) (m : Option Method) (f : Bool) (s : St) (q p : Path) :
    (s.recheckOne c m f q).1.findEnt p = s.findEnt p := by
  apply findEnt_congr (recheckOne_next c m f s q)
  intro e
  rcases recheckOne_recs c m f s q e with h | ⟨r, hr, _, h⟩
  · rw [h]
  · rw [h, hr]; rfl

/-- what a target of a forced `recheck --recheck-method m` needs on its turn: it is tracked, its current
    version is in the cache, and the path is free or readable (not a dangling link) -/
def RecheckPre (p : Path) (s : St) : Prop :=
  ∃ e r d o, s.findEnt p = some e ∧ s.recs e = some r ∧ r.cur = some d ∧ s.cache (addrOf p d) = some o ∧
    ((s.ws p).isSome → (s.readThrough p).isSome)

/-- what it has afterwards: the entry is of kind `m` and yields the committed bytes, `m` is recorded -/
def RecheckPost (m : Method) (p : Path) (s : St) : Prop :=
  ∃ e r d o, s.findEnt p = some e ∧ s.recs e = some r ∧ r.method = m ∧ r.cur = some d ∧
    s.cache (addrOf p d) = some o ∧ Materialised s p (addrOf p d) o m ∧ ∃ n, s.readThrough p = some (o.b, n)

theorem recheckOne_step (c : Cfg) (m : Method) (s : St) (p : Path) (h : RecheckPre p s) :
    RecheckPost m p (s.recheckOne c (some m) true p).1 := by
  obtain ⟨e, r, d, o, hfe, hre, hcur, ho, hp⟩ := h
  have hfind := recheckOne_findEnt c (some m) true s p p
  unfold St.recheckOne at hfind ⊢
  simp only [hfe, hre] at hfind ⊢
  unfold St.recheckRec at hfind ⊢
  have hact : s.recheckActs c r m true = true := by simp [St.recheckActs]
  simp only [Option.getD_some, hact, Bool.not_true, Bool.false_eq_true, if_false, hcur] at hfind ⊢
  have ho1 : (s.setRec e (some { r with method := m })).cache (addrOf p d) = some o := ho
  simp only [ho1, Option.isSome_some, if_true] at hfind ⊢
  have hmat := C17_method_materialises (s.setRec e (some { r with method := m })) p (addrOf p d) o m ho1 hp
  obtain ⟨_, hm, hr, hc⟩ := hmat
  refine ⟨e, { r with method := m }, d, o, ?_, ?_, rfl, hcur, ?_, hm, hr⟩
  · rw [hfind]
  · rw [recheckFromCache_recs]; simp [upd]
  · rw [hc]; exact ho1

theorem recheckOne_framePre (c : Cfg) (m : Option Method) (f : Bool) (s : St) (p q : Path) (hpq : p ≠ q)
    (h : RecheckPre p s) : RecheckPre p (s.recheckOne c m f q).1 := by
  obtain ⟨e, r, d, o, hfe, hre, hcur, ho, hp⟩ := h
  have hws := recheckOne_ws_other c m f s q p hpq
  have hc := recheckOne_cache c m f s q
  have hrt : (s.recheckOne c m f q).1.readThrough p = s.readThrough p := by simp [St.readThrough, hws, hc]
  have hrec : (s.recheckOne c m f q).1.recs e = some r := by
    rcases recheckOne_recs c m f s q e with h | ⟨r', hr', hpath', _⟩
    · rw [h]; exact hre
    · rw [hre] at hr'; cases hr'
      obtain ⟨r0, hr0, hp0⟩ := findEnt_path hfe
      rw [hre] at hr0; cases hr0
      exact absurd (hp0.symm.trans hpath') hpq
  exact ⟨e, r, d, o, by rw [recheckOne_findEnt]; exact hfe, hrec, hcur, by rw [hc]; exact ho, by rw [hws, hrt]; exact hp⟩

theorem recheckOne_framePost (c : Cfg) (m' : Option Method) (f : Bool) (m : Method) (s : St) (p q : Path) (hpq : p ≠ q)
    (h : RecheckPost m p s) : RecheckPost m p (s.recheckOne c m' f q).1 := by
  obtain ⟨e, r, d, o, hfe, hre, hm, hcur, ho, hmat, n, hr⟩ := h
  have hws := recheckOne_ws_other c m' f s q p hpq
  have hc := recheckOne_cache c m' f s q
  have hrt : (s.recheckOne c m' f q).1.readThrough p = s.readThrough p := by simp [St.readThrough, hws, hc]
  have hrec : (s.recheckOne c m' f q).1.recs e = some r := by
    rcases recheckOne_recs c m' f s q e with h | ⟨r', hr', hpath', _⟩
    · rw [h]; exact hre
    · rw [hre] at hr'; cases hr'
      obtain ⟨r0, hr0, hp0⟩ := findEnt_path hfe
      rw [hre] at hr0; cases hr0
      exact absurd (hp0.symm.trans hpath') hpq
  refine ⟨e, r, d, o, by rw [recheckOne_findEnt]; exact hfe, hrec, hm, hcur, by rw [hc]; exact ho, ?_, n, by rw [hrt]; exact hr⟩
  cases m <;> simp only [Materialised] at hmat ⊢ <;> rw [hws] <;> exact hmat

end Repo
