import XvcRepo.CopyMany
import XvcRepo.Materialise
/-!
  Helper lemmas for the multi-source `copy` / `move` model (`CopyMany.lean`): what one pair's turn touches
  (frames), and the lifting of per-pair statements through the pair loop.
-/
namespace Repo

/-! ## `findEnt`, `select` -/

theorem findEnt_lt {s : St} {p : Path} {e : Ent} (h : s.findEnt p = some e) : e < s.next := by
  unfold St.findEnt at h
  exact List.mem_range.mp (List.mem_of_find?_eq_some h)

/-- a selected source is a recorded entity, found under its own path, and stems from a candidate pair -/
theorem select_mem {s : St} {pairs : List (Path × Path)} {x : Sel} (h : x ∈ s.select pairs) :
    s.recs x.se = some x.r ∧ s.findEnt x.r.path = some x.se ∧ (x.r.path, x.dst) ∈ pairs := by
  induction pairs with
  | nil => simp [St.select] at h
  | cons pq ps ih =>
    obtain ⟨src, dst⟩ := pq
    unfold St.select at h
    cases hf : s.findEnt src with
    | none =>
      simp only [hf] at h
      obtain ⟨h1, h2, h3⟩ := ih h
      exact ⟨h1, h2, List.mem_cons_of_mem _ h3⟩
    | some se =>
      simp only [hf] at h
      cases hr : s.recs se with
      | none =>
        simp only [hr] at h
        obtain ⟨h1, h2, h3⟩ := ih h
        exact ⟨h1, h2, List.mem_cons_of_mem _ h3⟩
      | some r =>
        simp only [hr] at h
        rcases List.mem_cons.mp h with rfl | h'
        · obtain ⟨r', hr', hp⟩ := findEnt_path hf
          have : r' = r := by rw [hr] at hr'; exact (Option.some.inj hr').symm
          subst this
          exact ⟨hr, by simpa [hp] using hf, by simp [hp]⟩
        · obtain ⟨h1, h2, h3⟩ := ih h'
          exact ⟨h1, h2, List.mem_cons_of_mem _ h3⟩

theorem select_se_lt {s : St} {pairs : List (Path × Path)} {x : Sel} (h : x ∈ s.select pairs) : x.se < s.next :=
  findEnt_lt (select_mem h).2.1

/-! ## the plan of `copy` -/

/-- what the plan says about one of its pairs: the source is selected; an overwritten entity is an old one;
    without `--force` nothing is overwritten and the destination is neither recorded nor present -/
theorem copyPlan_mem {s : St} {force : Bool} {sel : List Sel} {y : Sel × Dest} (h : y ∈ s.copyPlan force sel) :
    y.1 ∈ sel ∧ s.copyDecide force y.1 = some y.2 := by
  induction sel with
  | nil => simp [St.copyPlan] at h
  | cons x xs ih =>
    unfold St.copyPlan at h
    cases hd : s.copyDecide force x with
    | none =>
      simp only [hd] at h
      exact ⟨List.mem_cons_of_mem _ (ih h).1, (ih h).2⟩
    | some d =>
      simp only [hd] at h
      rcases List.mem_cons.mp h with rfl | h'
      · exact ⟨by simp, hd⟩
      · exact ⟨List.mem_cons_of_mem _ (ih h').1, (ih h').2⟩

theorem copyDecide_over {s : St} {force : Bool} {x : Sel} {de : Ent} (h : s.copyDecide force x = some (.over de)) :
    de < s.next ∧ force = true := by
  unfold St.copyDecide at h
  cases hf : s.findEnt x.dst with
  | none => simp only [hf] at h; split at h <;> cases h
  | some e =>
    simp only [hf] at h
    split at h
    · rename_i hforce
      cases h
      exact ⟨findEnt_lt hf, hforce⟩
    · cases h

theorem copyDecide_fresh_noforce {s : St} {x : Sel} {d : Dest} (h : s.copyDecide false x = some d) :
    d = .fresh ∧ s.findEnt x.dst = none ∧ s.ws x.dst = none := by
  unfold St.copyDecide at h
  cases hf : s.findEnt x.dst with
  | some e => simp [hf] at h
  | none =>
    simp only [hf] at h
    cases hw : s.ws x.dst with
    | none => simp [hw] at h; exact ⟨h.symm, rfl, rfl⟩
    | some en => simp [hw] at h

/-- a free destination (not recorded, nothing in the workspace) is always planned, as a new entity -/
theorem copyDecide_free {s : St} {force : Bool} {x : Sel} (hf : s.findEnt x.dst = none) (hw : s.ws x.dst = none) :
    s.copyDecide force x = some .fresh := by
  simp [St.copyDecide, hf, hw]

theorem copyPlan_of_mem {s : St} {force : Bool} {sel : List Sel} {x : Sel} {d : Dest} (hx : x ∈ sel)
    (hd : s.copyDecide force x = some d) : (x, d) ∈ s.copyPlan force sel := by
  induction sel with
  | nil => cases hx
  | cons z zs ih =>
    unfold St.copyPlan
    rcases List.mem_cons.mp hx with rfl | hx'
    · simp [hd]
    · cases hz : s.copyDecide force z with
      | none => simpa [hz] using ih hx'
      | some dz => exact List.mem_cons_of_mem _ (ih hx')

/-- the plan keeps the order of the selection: destinations that are pairwise distinct stay so -/
theorem copyPlan_pairwise {s : St} {force : Bool} {sel : List Sel} (R : Sel → Sel → Prop) (h : sel.Pairwise R) :
    (s.copyPlan force sel).Pairwise (fun a b => R a.1 b.1) := by
  induction sel with
  | nil => simp [St.copyPlan]
  | cons x xs ih =>
    obtain ⟨hx, hxs⟩ := List.pairwise_cons.mp h
    unfold St.copyPlan
    cases hd : s.copyDecide force x with
    | none => simpa [hd] using ih hxs
    | some d =>
      refine List.pairwise_cons.mpr ⟨?_, ih hxs⟩
      intro b hb
      exact hx b.1 (copyPlan_mem hb).1

/-! ## one pair of `copy`: what it touches -/

/-- the entity one planned pair writes -/
def St.copyTarget (s : St) (y : Sel × Dest) : Ent :=
  match y.2 with
  | .fresh => s.next
  | .over de => de

theorem copyOne_cache (o : CopyOpts) (s : St) (y : Sel × Dest) : (s.copyOne o y).1.cache = s.cache := by
  unfold St.copyOne
  simp only
  repeat' split
  all_goals simp [recheckFromCache_cache]

theorem copyOne_next (o : CopyOpts) (s : St) (y : Sel × Dest) :
    (s.copyOne o y).1.next = match y.2 with | .fresh => s.next + 1 | .over _ => s.next := by
  unfold St.copyOne
  simp only
  repeat' split
  all_goals simp_all [recheckFromCache_next]

theorem copyOne_next_le (o : CopyOpts) (s : St) (y : Sel × Dest) : s.next ≤ (s.copyOne o y).1.next := by
  rw [copyOne_next]; split
  · exact Nat.le_succ _
  · exact Nat.le_refl _

theorem copyOne_recs_other (o : CopyOpts) (s : St) (y : Sel × Dest) (e : Ent) (h : e ≠ s.copyTarget y) :
    (s.copyOne o y).1.recs e = s.recs e := by
  unfold St.copyTarget at h
  unfold St.copyOne
  simp only
  repeat' split
  all_goals simp_all [recheckFromCache_recs, upd]

theorem copyOne_ws_other (o : CopyOpts) (s : St) (y : Sel × Dest) (p : Path) (h : p ≠ y.1.dst) :
    (s.copyOne o y).1.ws p = s.ws p := by
  unfold St.copyOne
  simp only
  repeat' split
  all_goals first
    | rfl
    | (rw [recheckFromCache_ws_other _ _ _ _ _ h]; try rfl)
    | simp

/-- the record a pair writes for a NEW entity -/
theorem copyOne_fresh_rec (o : CopyOpts) (s : St) (x : Sel) :
    (s.copyOne o (x, .fresh)).1.recs s.next = some (copyRec o x) := by
  unfold St.copyOne
  simp only
  repeat' split
  all_goals simp [recheckFromCache_recs, upd]

/-! ## loops -/

/-- an invariant that every element's turn keeps (given a fact `P` about the element) survives the loop -/
theorem forEach_inv {α : Type} (f : St → α → St × Out) (I : St → Prop) (P : α → Prop)
    (h : ∀ s x, P x → I s → I (f s x).1) (xs : List α) (hP : ∀ x ∈ xs, P x) (s : St) (hI : I s) :
    I (forEach f s xs).1 := by
  induction xs generalizing s with
  | nil => exact hI
  | cons y ys ih =>
    unfold forEach
    have hy := h s y (hP y (by simp)) hI
    have hys : ∀ x ∈ ys, P x := fun x hx => hP x (by simp [hx])
    generalize f s y = r at hy ⊢
    obtain ⟨s', o⟩ := r
    cases o
    · exact ih hys s' hy
    · exact ih hys s' hy
    · exact hy

theorem forEachStop_inv {α : Type} (f : St → α → St × Out) (I : St → Prop) (P : α → Prop)
    (h : ∀ s x, P x → I s → I (f s x).1) (xs : List α) (hP : ∀ x ∈ xs, P x) (s : St) (hI : I s) :
    I (forEachStop f s xs).1 := by
  induction xs generalizing s with
  | nil => exact hI
  | cons y ys ih =>
    unfold forEachStop
    have hy := h s y (hP y (by simp)) hI
    have hys : ∀ x ∈ ys, P x := fun x hx => hP x (by simp [hx])
    generalize f s y = r at hy ⊢
    obtain ⟨s', o⟩ := r
    cases o
    · exact ih hys s' hy
    · exact hy
    · exact hy

/-- what concerns `x` survives the turns of elements that do not interfere with it (`R x y`) -/
theorem forEach_frame_pw {α : Type} (f : St → α → St × Out) (R : α → α → Prop) (Q : α → St → Prop)
    (hframe : ∀ s x y, R x y → Q x s → Q x (f s y).1)
    (x : α) (ys : List α) (hx : ∀ y ∈ ys, R x y) (s : St) (hq : Q x s) : Q x (forEach f s ys).1 :=
  forEach_inv f (Q x) (R x) (fun s y hr hq => hframe s x y hr hq) ys hx s hq

theorem forEachStop_frame_pw {α : Type} (f : St → α → St × Out) (R : α → α → Prop) (Q : α → St → Prop)
    (hframe : ∀ s x y, R x y → Q x s → Q x (f s y).1)
    (x : α) (ys : List α) (hx : ∀ y ∈ ys, R x y) (s : St) (hq : Q x s) : Q x (forEachStop f s ys).1 :=
  forEachStop_inv f (Q x) (R x) (fun s y hr hq => hframe s x y hr hq) ys hx s hq

/-- post-conditions through a loop whose elements do not interfere pairwise: an element that has `Pre`
    before the loop has `Q` after it -/
theorem forEach_post_pw {α : Type} (f : St → α → St × Out) (R : α → α → Prop) (Pre Q : α → St → Prop)
    (hstep : ∀ s x, Pre x s → (f s x).2 ≠ .panic → Q x (f s x).1)
    (hframeP : ∀ s x y, R x y → Pre x s → Pre x (f s y).1)
    (hframeQ : ∀ s x y, R x y → Q x s → Q x (f s y).1)
    (xs : List α) (hpw : xs.Pairwise (fun a b => R a b ∧ R b a)) (s : St)
    (hok : (forEach f s xs).2 ≠ .panic) :
    ∀ x ∈ xs, Pre x s → Q x (forEach f s xs).1 := by
  induction xs generalizing s with
  | nil => intro x hx; cases hx
  | cons y ys ih =>
    obtain ⟨hy, hpw'⟩ := List.pairwise_cons.mp hpw
    intro x hx hpre
    unfold forEach at hok ⊢
    have hQy : Pre y s → (f s y).2 ≠ .panic → Q y (f s y).1 := hstep s y
    have hPx : ∀ z ∈ ys, Pre z s → Pre z (f s y).1 := fun z hz hp => hframeP s z y (hy z hz).2 hp
    generalize f s y = res at hok hQy hPx ⊢
    obtain ⟨s', o⟩ := res
    have key : o ≠ .panic → (forEach f s' ys).2 ≠ .panic → Q x (forEach f s' ys).1 := by
      intro hne hok'
      rcases List.mem_cons.mp hx with rfl | hx'
      · exact forEach_frame_pw f R Q hframeQ x ys (fun z hz => (hy z hz).1) s' (hQy hpre hne)
      · exact ih hpw' s' hok' x hx' (hPx x hx' hpre)
    cases o
    · exact key (by simp) hok
    · exact key (by simp) hok
    · exact absurd rfl hok

theorem forEachStop_post_pw {α : Type} (f : St → α → St × Out) (R : α → α → Prop) (Pre Q : α → St → Prop)
    (hstep : ∀ s x, Pre x s → (f s x).2 = .ok → Q x (f s x).1)
    (hframeP : ∀ s x y, R x y → Pre x s → Pre x (f s y).1)
    (hframeQ : ∀ s x y, R x y → Q x s → Q x (f s y).1)
    (xs : List α) (hpw : xs.Pairwise (fun a b => R a b ∧ R b a)) (s : St)
    (hok : (forEachStop f s xs).2 = .ok) :
    ∀ x ∈ xs, Pre x s → Q x (forEachStop f s xs).1 := by
  induction xs generalizing s with
  | nil => intro x hx; cases hx
  | cons y ys ih =>
    obtain ⟨hy, hpw'⟩ := List.pairwise_cons.mp hpw
    intro x hx hpre
    unfold forEachStop at hok ⊢
    have hQy : Pre y s → (f s y).2 = .ok → Q y (f s y).1 := hstep s y
    have hPx : ∀ z ∈ ys, Pre z s → Pre z (f s y).1 := fun z hz hp => hframeP s z y (hy z hz).2 hp
    generalize f s y = res at hok hQy hPx ⊢
    obtain ⟨s', o⟩ := res
    cases o
    · simp only at hok ⊢
      rcases List.mem_cons.mp hx with rfl | hx'
      · exact forEachStop_frame_pw f R Q hframeQ x ys (fun z hz => (hy z hz).1) s' (hQy hpre rfl)
      · exact ih hpw' s' hok x hx' (hPx x hx' hpre)
    · simp at hok
    · simp at hok

theorem readThrough_congr {s s' : St} {p : Path} (hw : s'.ws p = s.ws p) (hc : s'.cache = s.cache) :
    s'.readThrough p = s.readThrough p := by
  unfold St.readThrough
  rw [hw, hc]

theorem hasDup_false_of_pairwise {α : Type} [DecidableEq α] {l : List α} (h : l.Pairwise (· ≠ ·)) : hasDup l = false := by
  induction l with
  | nil => rfl
  | cons x xs ih =>
    obtain ⟨hx, hxs⟩ := List.pairwise_cons.mp h
    unfold hasDup
    have hm : ¬ x ∈ xs := fun hm => absurd rfl (hx x hm)
    simp [hm, ih hxs]

/-! ## one pair of `move`: what it touches -/

theorem moveOne_cache (o : CopyOpts) (s : St) (x : Sel) : (s.moveOne o x).1.cache = s.cache := by
  unfold St.moveOne
  simp only
  repeat' split
  all_goals simp [recheckFromCache_cache]

theorem moveOne_next (o : CopyOpts) (s : St) (x : Sel) : (s.moveOne o x).1.next = s.next := by
  unfold St.moveOne
  simp only
  repeat' split
  all_goals simp [recheckFromCache_next]

theorem moveOne_recs (o : CopyOpts) (s : St) (x : Sel) :
    (s.moveOne o x).1.recs = upd s.recs x.se (some { x.r with path := x.dst, method := o.method.getD x.r.method }) := by
  unfold St.moveOne
  simp only
  repeat' split
  all_goals simp [recheckFromCache_recs]

theorem moveOne_ws_other (o : CopyOpts) (s : St) (x : Sel) (p : Path) (h1 : p ≠ x.r.path) (h2 : p ≠ x.dst) :
    (s.moveOne o x).1.ws p = s.ws p := by
  unfold St.moveOne
  simp only
  repeat' split
  all_goals first
    | rfl
    | (rw [recheckFromCache_ws_other _ _ _ _ _ h2]; simp [upd, h1])
    | simp [upd, h1, h2]

/-- after a turn that succeeded the source path is empty (it was renamed away, deleted, or absent already) -/
theorem moveOne_source_gone (o : CopyOpts) (s : St) (x : Sel) (hne : x.r.path ≠ x.dst)
    (hok : (s.moveOne o x).2 = .ok) : (s.moveOne o x).1.ws x.r.path = none := by
  unfold St.moveOne at hok ⊢
  simp only [hne, ↓reduceIte] at hok ⊢
  by_cases hb : (decide (x.r.method = Method.copy) && decide (o.method.getD x.r.method = Method.copy)) = true
  · simp only [hb, ↓reduceIte] at hok ⊢
    by_cases hnr : o.noRecheck = true
    · simp only [hnr, ↓reduceIte] at hok ⊢
      cases hw : s.ws x.r.path with
      | none => simp [hw] at hok
      | some en => simp [hw]
    · simp only [hnr] at hok ⊢
      cases hw : s.ws x.r.path with
      | none => simp [hw] at hok
      | some en => simp [hw, upd, hne]
  · have hb' : (decide (x.r.method = Method.copy) && decide (o.method.getD x.r.method = Method.copy)) = false := by
      simpa using hb
    simp only [hb', Bool.false_eq_true, ↓reduceIte] at hok ⊢
    have h0 : ∀ s1 : St, (if (s1.ws x.r.path).isSome then s1.setWs x.r.path none else s1).ws x.r.path = none := by
      intro s1
      split
      · simp
      · rename_i hn
        cases hw : s1.ws x.r.path with
        | none => rfl
        | some en => simp [hw] at hn
    cases hnr : o.noRecheck with
    | true =>
      simp only [↓reduceIte]
      exact h0 _
    | false =>
      simp only [hnr, Bool.false_eq_true, ↓reduceIte] at hok ⊢
      cases hc : x.r.cur with
      | none => simp [hc] at hok
      | some d =>
        simp only
        rw [recheckFromCache_ws_other _ _ _ _ _ hne]
        exact h0 _

/-! ## the single-pair `move` of the base model never creates or drops an entity -/

theorem move_isSome (c : Cfg) (o : CopyOpts) (s : St) (src dst : Path) :
    (s.move c o src dst).1.next = s.next ∧ ∀ e, ((s.move c o src dst).1.recs e).isSome = (s.recs e).isSome := by
  unfold St.move
  cases hf : s.findEnt src with
  | none => exact ⟨rfl, fun _ => rfl⟩
  | some se =>
    dsimp only
    cases hr : s.recs se with
    | none => exact ⟨rfl, fun _ => rfl⟩
    | some r =>
      have key : ∀ e r', ((upd s.recs se (some r')) e).isSome = (s.recs e).isSome := by
        intro e r'
        unfold upd
        by_cases h : e = se
        · simp [h, hr]
        · simp [h]
      dsimp only
      refine ⟨?_, fun e => ?_⟩
      · repeat' split
        all_goals simp [recheckFromCache_next]
      · repeat' split
        all_goals simp only [recheckFromCache_recs, setWs_recs, setRec_recs]
        all_goals first | rfl | exact key e _

/-- no two entities are recorded for one path -/
def PathInj (s : St) : Prop :=
  ∀ e e' r r', s.recs e = some r → s.recs e' = some r' → r.path = r'.path → e = e'


/-- what a turn of `move` that succeeded (with recheck) leaves at the destination: the source's own workspace
    entry when it was renamed (copy → copy), otherwise an entry that yields the bytes of the object -/
theorem moveOne_materialises (o : CopyOpts) (s : St) (x : Sel) (hne : x.r.path ≠ x.dst) (hnr : o.noRecheck = false)
    (hfree : s.ws x.dst = none) (hok : (s.moveOne o x).2 = .ok) :
    ((x.r.method = .copy ∧ o.method.getD x.r.method = .copy) → (s.moveOne o x).1.ws x.dst = s.ws x.r.path ∧ (s.ws x.r.path).isSome) ∧
    (¬(x.r.method = .copy ∧ o.method.getD x.r.method = .copy) → ∀ d ob, x.r.cur = some d →
      s.cache (addrOf x.dst d) = some ob → ∃ n, (s.moveOne o x).1.readThrough x.dst = some (ob.b, n)) := by
  unfold St.moveOne at hok ⊢
  simp only [hne, hnr, Bool.false_eq_true, ↓reduceIte] at hok ⊢
  by_cases hb : x.r.method = .copy ∧ o.method.getD x.r.method = .copy
  · have hb' : (decide (x.r.method = Method.copy) && decide (o.method.getD x.r.method = Method.copy)) = true := by
      rw [decide_eq_true hb.1, decide_eq_true hb.2]; rfl
    simp only [hb', ↓reduceIte] at hok ⊢
    refine ⟨fun _ => ?_, fun h => absurd hb h⟩
    cases hw : s.ws x.r.path with
    | none => simp [hw] at hok
    | some en => simp [hw, upd]
  · have hb' : (decide (x.r.method = Method.copy) && decide (o.method.getD x.r.method = Method.copy)) = false := by
      cases h1 : decide (x.r.method = Method.copy) <;> cases h2 : decide (o.method.getD x.r.method = Method.copy) <;> simp_all
    simp only [hb', Bool.false_eq_true, ↓reduceIte] at hok ⊢
    refine ⟨fun h => absurd h hb, fun _ d ob hcur hob => ?_⟩
    simp only [hcur] at hok ⊢
    have h0 : ∀ s1 : St, s1.ws x.dst = none → s1.cache = s.cache →
        (if (s1.ws x.r.path).isSome then s1.setWs x.r.path none else s1).ws x.dst = none ∧
        (if (s1.ws x.r.path).isSome then s1.setWs x.r.path none else s1).cache = s.cache := by
      intro s1 h1 h2
      split
      · exact ⟨by simp [upd, Ne.symm hne, h1], h2⟩
      · exact ⟨h1, h2⟩
    obtain ⟨hw2, hc2⟩ := h0 (s.setRec x.se (some { x.r with path := x.dst, method := o.method.getD x.r.method })) hfree rfl
    generalize (if ((s.setRec x.se (some { x.r with path := x.dst, method := o.method.getD x.r.method })).ws x.r.path).isSome
        then (s.setRec x.se (some { x.r with path := x.dst, method := o.method.getD x.r.method })).setWs x.r.path none
        else s.setRec x.se (some { x.r with path := x.dst, method := o.method.getD x.r.method })) = s2 at hw2 hc2 hok ⊢
    have hob' : s2.cache (addrOf x.dst d) = some ob := by rw [hc2]; exact hob
    exact (C17_method_materialises s2 x.dst (addrOf x.dst d) ob (o.method.getD x.r.method) hob'
      (by intro h; simp [hw2] at h)).2.2.1

end Repo
