def hello := "world"
