import XvcRepo.Model
/-! Helper lemmas for the repository model.  Property theorems are in `XvcRepo/Props*.lean`. -/
namespace Repo

@[simp] theorem upd_same {α β : Type} [DecidableEq α] (f : α → β) (a : α) (b : β) : upd f a b a = b := by
  simp [upd]

theorem upd_other {α β : Type} [DecidableEq α] (f : α → β) {a x : α} (b : β) (h : x ≠ a) :
    upd f a b x = f x := by
  simp [upd, h]

/-! ## projections of the state helpers -/

@[simp] theorem setWs_cache (s : St) (p : Path) (e : Option Entry) : (s.setWs p e).cache = s.cache := rfl
@[simp] theorem setWs_recs (s : St) (p : Path) (e : Option Entry) : (s.setWs p e).recs = s.recs := rfl
@[simp] theorem setWs_next (s : St) (p : Path) (e : Option Entry) : (s.setWs p e).next = s.next := rfl
@[simp] theorem setWs_clock (s : St) (p : Path) (e : Option Entry) : (s.setWs p e).clock = s.clock := rfl
@[simp] theorem setWs_dirRo (s : St) (p : Path) (e : Option Entry) : (s.setWs p e).dirRo = s.dirRo := rfl
@[simp] theorem setWs_ws (s : St) (p : Path) (e : Option Entry) : (s.setWs p e).ws = upd s.ws p e := rfl
@[simp] theorem setCache_cache (s : St) (a : Addr) (o : Option Obj) : (s.setCache a o).cache = upd s.cache a o := rfl
@[simp] theorem setCache_ws (s : St) (a : Addr) (o : Option Obj) : (s.setCache a o).ws = s.ws := rfl
@[simp] theorem setCache_recs (s : St) (a : Addr) (o : Option Obj) : (s.setCache a o).recs = s.recs := rfl
@[simp] theorem setCache_next (s : St) (a : Addr) (o : Option Obj) : (s.setCache a o).next = s.next := rfl
@[simp] theorem setCache_clock (s : St) (a : Addr) (o : Option Obj) : (s.setCache a o).clock = s.clock := rfl
@[simp] theorem tick_cache (s : St) : s.tick.cache = s.cache := rfl
@[simp] theorem tick_ws (s : St) : s.tick.ws = s.ws := rfl
@[simp] theorem tick_recs (s : St) : s.tick.recs = s.recs := rfl
@[simp] theorem tick_next (s : St) : s.tick.next = s.next := rfl
@[simp] theorem setRec_cache (s : St) (e : Ent) (r : Option Rec) : (s.setRec e r).cache = s.cache := rfl
@[simp] theorem setRec_ws (s : St) (e : Ent) (r : Option Rec) : (s.setRec e r).ws = s.ws := rfl
@[simp] theorem setRec_recs (s : St) (e : Ent) (r : Option Rec) : (s.setRec e r).recs = upd s.recs e r := rfl
@[simp] theorem setRec_next (s : St) (e : Ent) (r : Option Rec) : (s.setRec e r).next = s.next := rfl
@[simp] theorem bumpNext_cache (s : St) : s.bumpNext.cache = s.cache := rfl
@[simp] theorem bumpNext_ws (s : St) : s.bumpNext.ws = s.ws := rfl
@[simp] theorem bumpNext_recs (s : St) : s.bumpNext.recs = s.recs := rfl
@[simp] theorem bumpNext_next (s : St) : s.bumpNext.next = s.next + 1 := rfl
@[simp] theorem detach_cache (s : St) (a : Addr) : (s.detach a).cache = s.cache := rfl
@[simp] theorem detach_recs (s : St) (a : Addr) : (s.detach a).recs = s.recs := rfl
@[simp] theorem detach_next (s : St) (a : Addr) : (s.detach a).next = s.next := rfl

/-! ## relations between a state and its successor -/

/-- `a` is a legitimate address for content `b`: the digest is the (perfect) hash of the bytes, or of
    the bytes with CR/LF removed -/
def HashOf (d : Digest) (b : Bytes) : Prop := d.hash = b ∨ d.hash = strip b

theorem hashOf_digestOf (algo : Nat) (t : Tob) (b : Bytes) : HashOf (digestOf algo t b) b := by
  unfold HashOf digestOf
  by_cases h : asText t b <;> simp [h]

/-- an object that satisfies what C02 demands of it -/
def Valid (a : Addr) (o : Obj) : Prop := HashOf a.d o.b ∧ o.ro = true

/-- every object of `s'` is an object of `s` or a valid new one -/
def CacheFrom (s s' : St) : Prop := ∀ a o, s'.cache a = some o → s.cache a = some o ∨ Valid a o

/-- every object of `s` is still there, untouched -/
def CacheKeep (s s' : St) : Prop := ∀ a o, s.cache a = some o → s'.cache a = some o

theorem CacheFrom.refl (s : St) : CacheFrom s s := fun _ _ h => Or.inl h
theorem CacheFrom.trans {s s' s'' : St} (h1 : CacheFrom s s') (h2 : CacheFrom s' s'') : CacheFrom s s'' := by
  intro a o h
  rcases h2 a o h with h | h
  · exact h1 a o h
  · exact Or.inr h
theorem CacheKeep.refl (s : St) : CacheKeep s s := fun _ _ h => h
theorem CacheKeep.trans {s s' s'' : St} (h1 : CacheKeep s s') (h2 : CacheKeep s' s'') : CacheKeep s s'' :=
  fun a o h => h2 a o (h1 a o h)

theorem cacheFrom_of_eq {s s' : St} (h : s'.cache = s.cache) : CacheFrom s s' := by
  intro a o h1; rw [h] at h1; exact Or.inl h1
theorem cacheKeep_of_eq {s s' : St} (h : s'.cache = s.cache) : CacheKeep s s' := by
  intro a o h1; rw [h]; exact h1

/-- lifting a reflexive, transitive relation through `forEach` -/
theorem forEach_rel {α : Type} (R : St → St → Prop) (hrefl : ∀ s, R s s)
    (htrans : ∀ s s' s'', R s s' → R s' s'' → R s s'')
    (f : St → α → St × Out) (h : ∀ s x, R s (f s x).1) (s : St) (xs : List α) :
    R s (forEach f s xs).1 := by
  induction xs generalizing s with
  | nil => exact hrefl s
  | cons x xs ih =>
    unfold forEach
    have hx := h s x
    generalize f s x = r at hx
    obtain ⟨s', o⟩ := r
    cases o with
    | panic => exact hx
    | ok => exact htrans _ _ _ hx (ih s')
    | refused => exact htrans _ _ _ hx (ih s')

/-! ## `recheck_from_cache` never touches the cache -/

theorem recheckFromCache_cache (s : St) (p : Path) (a : Addr) (m : Method) :
    (s.recheckFromCache p a m).1.cache = s.cache := by
  unfold St.recheckFromCache
  have h0 : (if (s.readThrough p).isSome then s.setWs p none else s).cache = s.cache := by split <;> rfl
  generalize (if (s.readThrough p).isSome then s.setWs p none else s) = s0 at h0 ⊢
  simp only
  repeat' split
  all_goals simp [h0]

theorem recheckFromCache_recs (s : St) (p : Path) (a : Addr) (m : Method) :
    (s.recheckFromCache p a m).1.recs = s.recs := by
  unfold St.recheckFromCache
  have h0 : (if (s.readThrough p).isSome then s.setWs p none else s).recs = s.recs := by split <;> rfl
  generalize (if (s.readThrough p).isSome then s.setWs p none else s) = s0 at h0 ⊢
  simp only
  repeat' split
  all_goals simp [h0]

theorem recheckFromCache_next (s : St) (p : Path) (a : Addr) (m : Method) :
    (s.recheckFromCache p a m).1.next = s.next := by
  unfold St.recheckFromCache
  have h0 : (if (s.readThrough p).isSome then s.setWs p none else s).next = s.next := by split <;> rfl
  generalize (if (s.readThrough p).isSome then s.setWs p none else s) = s0 at h0 ⊢
  simp only
  repeat' split
  all_goals simp [h0]

/-! ## `move_to_cache` -/

theorem deref_cache (s : St) (p : Path) : (s.deref p).cache = s.cache := by
  unfold St.deref; split
  · split <;> rfl
  · rfl

theorem deref_recs (s : St) (p : Path) : (s.deref p).recs = s.recs := by
  unfold St.deref; split
  · split <;> rfl
  · rfl

theorem deref_next (s : St) (p : Path) : (s.deref p).next = s.next := by
  unfold St.deref; split
  · split <;> rfl
  · rfl

theorem deref_dirRo (s : St) (p : Path) : (s.deref p).dirRo = s.dirRo := by
  unfold St.deref; split
  · split <;> rfl
  · rfl

theorem deref_ws_other (s : St) (p q : Path) (h : q ≠ p) : (s.deref p).ws q = s.ws q := by
  unfold St.deref; split
  · split
    · show upd s.ws p _ q = s.ws q
      exact upd_other _ _ h
    · rfl
  · rfl

/-- what `deref` leaves at the path as a file is what could be read through the path before -/
theorem deref_file (s : St) (p : Path) (b : Bytes) (w : Bool) (st : Nat) (l : Option Addr)
    (h : (s.deref p).ws p = some (.file b w st l)) : ∃ n, s.readThrough p = some (b, n) := by
  unfold St.deref at h
  split at h
  · rename_i a' hs
    split at h
    · rename_i o ho
      have h' : upd s.ws p (some (Entry.file o.b true s.clock none)) p = some (.file b w st l) := h
      simp at h'
      refine ⟨o.stamp, ?_⟩
      simp [St.readThrough, hs, ho, h'.1]
    · rw [hs] at h; cases h
  · exact ⟨st, by simp [St.readThrough, h]⟩

theorem moveToCache_from (s : St) (p : Path) (a : Addr)
    (h : ∀ b n, s.readThrough p = some (b, n) → HashOf a.d b) :
    CacheFrom s (s.moveToCache p a).1 := by
  unfold St.moveToCache
  have hc := deref_cache s p
  have hf := deref_file s p
  generalize s.deref p = s0 at hc hf ⊢
  simp only
  split
  · rename_i b w st l hw
    intro a' o ho
    simp only [setCache_cache] at ho
    by_cases ha : a' = a
    · subst ha
      simp at ho; subst ho
      obtain ⟨n, hn⟩ := hf b w st l hw
      exact Or.inr ⟨h b n hn, rfl⟩
    · rw [upd_other _ _ ha] at ho
      have ho' : s0.cache a' = some o := ho
      rw [hc] at ho'
      exact Or.inl ho'
  · exact cacheFrom_of_eq hc
  · exact cacheFrom_of_eq hc

theorem moveToCache_keep (s : St) (p : Path) (a : Addr) (h : s.cache a = none) :
    CacheKeep s (s.moveToCache p a).1 := by
  unfold St.moveToCache
  have hc := deref_cache s p
  generalize s.deref p = s0 at hc ⊢
  simp only
  split
  · intro a' o ho
    simp only [setCache_cache]
    by_cases ha : a' = a
    · subst ha; rw [h] at ho; cases ho
    · rw [upd_other _ _ ha]
      show s0.cache a' = some o
      rw [hc]; exact ho
  · exact cacheKeep_of_eq hc
  · exact cacheKeep_of_eq hc

theorem moveToCache_recs (s : St) (p : Path) (a : Addr) : (s.moveToCache p a).1.recs = s.recs := by
  unfold St.moveToCache
  have hc := deref_recs s p
  generalize s.deref p = s0 at hc ⊢
  simp only
  split <;> exact hc

theorem moveToCache_next (s : St) (p : Path) (a : Addr) : (s.moveToCache p a).1.next = s.next := by
  unfold St.moveToCache
  have hc := deref_next s p
  generalize s.deref p = s0 at hc ⊢
  simp only
  split <;> exact hc

/-! ## `carry_in` for one entity -/

theorem readThrough_of_detached (s s1 : St) (p : Path) (a : Addr) (hw : s1.ws = (s.detach a).ws)
    (hc : s1.cache = upd s.cache a none) (b : Bytes) (n : Nat)
    (h : s1.readThrough p = some (b, n)) : s.readThrough p = some (b, n) := by
  cases hs : s.ws p with
  | none =>
    have h1 : s1.ws p = none := by rw [hw]; simp [St.detach, hs]
    simp [St.readThrough, h1] at h
  | some e =>
    cases e with
    | file b0 w0 st0 l0 =>
      have h1 : ∃ l', s1.ws p = some (.file b0 w0 st0 l') := by
        rw [hw]
        cases l0 with
        | none => exact ⟨none, by simp [St.detach, hs]⟩
        | some a0 =>
          by_cases ha : a0 = a
          · exact ⟨none, by simp [St.detach, hs, ha]⟩
          · exact ⟨some a0, by simp [St.detach, hs, ha]⟩
      obtain ⟨l', h1⟩ := h1
      simp [St.readThrough, h1] at h
      simp [St.readThrough, hs, h]
    | sym a' =>
      have h1 : s1.ws p = some (.sym a') := by rw [hw]; simp [St.detach, hs]
      simp only [St.readThrough, h1, hc] at h
      by_cases ha : a' = a
      · subst ha; simp at h
      · rw [upd_other _ _ ha] at h
        simp only [St.readThrough, hs]
        exact h

theorem readThrough_detach_remove (s : St) (p : Path) (a : Addr) (b : Bytes) (n : Nat)
    (h : St.readThrough { (s.detach a).setCache a none with dirRo := upd s.dirRo a.d false } p = some (b, n)) :
    s.readThrough p = some (b, n) :=
  readThrough_of_detached s { (s.detach a).setCache a none with dirRo := upd s.dirRo a.d false } p a rfl rfl b n h

theorem carryOneMove_from (s : St) (p : Path) (a : Addr) (m : Method) (force : Bool)
    (h : ∀ b n, s.readThrough p = some (b, n) → HashOf a.d b) :
    CacheFrom s (s.carryOneMove p a m force).1 := by
  unfold St.carryOneMove
  -- first phase
  have phase1 : CacheFrom s (if (s.cache a).isSome then
      if force then
        St.moveToCache { (s.detach a).setCache a none with dirRo := upd s.dirRo a.d false } p a
      else (s, Out.ok)
    else s.moveToCache p a).1 := by
    split
    · split
      · -- force: object removed, then moved in
        let s1 : St := { (s.detach a).setCache a none with dirRo := upd s.dirRo a.d false }
        have h1 : CacheFrom s s1 := by
          intro a' o ho
          have ho' : upd s.cache a none a' = some o := ho
          by_cases ha : a' = a
          · subst ha; simp at ho'
          · rw [upd_other _ _ ha] at ho'; exact Or.inl ho'
        have hws : ∀ b n, s1.readThrough p = some (b, n) → HashOf a.d b :=
          fun b n hr => h b n (readThrough_detach_remove s p a b n hr)
        exact h1.trans (moveToCache_from s1 p a hws)
      · exact CacheFrom.refl s
    · exact moveToCache_from s p a h
  generalize (if (s.cache a).isSome then
      if force then
        St.moveToCache { (s.detach a).setCache a none with dirRo := upd s.dirRo a.d false } p a
      else (s, Out.ok)
    else s.moveToCache p a) = r at phase1
  obtain ⟨s1, o1⟩ := r
  simp only
  cases o1 with
  | ok =>
    simp only
    apply phase1.trans
    apply cacheFrom_of_eq
    rw [recheckFromCache_cache]
    split <;> simp
  | refused => exact phase1
  | panic => exact phase1

theorem carryOneMove_keep (s : St) (p : Path) (a : Addr) (m : Method) :
    CacheKeep s (s.carryOneMove p a m false).1 := by
  unfold St.carryOneMove
  have phase1 : CacheKeep s (if (s.cache a).isSome then
      if false = true then
        St.moveToCache { (s.detach a).setCache a none with dirRo := upd s.dirRo a.d false } p a
      else (s, Out.ok)
    else s.moveToCache p a).1 := by
    split
    · simp; exact CacheKeep.refl s
    · rename_i hn
      apply moveToCache_keep
      cases hc : s.cache a with
      | none => rfl
      | some o => simp [hc] at hn
  generalize (if (s.cache a).isSome then
      if false = true then
        St.moveToCache { (s.detach a).setCache a none with dirRo := upd s.dirRo a.d false } p a
      else (s, Out.ok)
    else s.moveToCache p a) = r at phase1
  obtain ⟨s1, o1⟩ := r
  simp only
  cases o1 with
  | ok =>
    simp only
    apply phase1.trans
    apply cacheKeep_of_eq
    rw [recheckFromCache_cache]
    split <;> simp
  | refused => exact phase1
  | panic => exact phase1

theorem linksTo_spec {s : St} {p : Path} {a : Addr} (h : s.linksTo p a = true) :
    s.ws p = some (.sym a) ∧ (s.cache a).isSome = true := by
  unfold St.linksTo at h
  simp only [Bool.and_eq_true] at h
  obtain ⟨h1, h2⟩ := h
  refine ⟨?_, h2⟩
  split at h1
  · rename_i a' hs
    simp at h1; rw [hs, h1]
  · cases h1

theorem linksTo_readThrough {s : St} {p : Path} {a : Addr} (h : s.linksTo p a = true) :
    (s.readThrough p).isSome = true := by
  obtain ⟨h1, h2⟩ := linksTo_spec h
  cases hc : s.cache a with
  | none => simp [hc] at h2
  | some o => simp [St.readThrough, h1, hc]

theorem carryOne_from (s : St) (p : Path) (a : Addr) (m : Method) (force : Bool)
    (h : ∀ b n, s.readThrough p = some (b, n) → HashOf a.d b) :
    CacheFrom s (s.carryOne p a m force).1 := by
  unfold St.carryOne
  split
  · apply cacheFrom_of_eq; rw [recheckFromCache_cache]; rfl
  · split
    · apply cacheFrom_of_eq; rw [recheckFromCache_cache]; rfl
    · exact carryOneMove_from s p a m force h

/-- also with `--force`: nothing is removed when the path is a link to the object itself -/
theorem carryOne_keep (s : St) (p : Path) (a : Addr) (m : Method) :
    CacheKeep s (s.carryOne p a m false).1 := by
  unfold St.carryOne
  simp only [Bool.false_and, Bool.false_eq_true, if_false]
  split
  · apply cacheKeep_of_eq; rw [recheckFromCache_cache]; rfl
  · exact carryOneMove_keep s p a m

/-- reading through a regular file entry gives its bytes -/
theorem readThrough_file {s : St} {p : Path} {b : Bytes} {w : Bool} {st : Nat} {l : Option Addr}
    (h : s.ws p = some (.file b w st l)) : s.readThrough p = some (b, st) := by
  simp [St.readThrough, h]

end Repo
