import XvcRepo.Model
/-!
  `xvc file copy` / `xvc file move` with SEVERAL sources (`/repo/file/src/copy/mod.rs`
  `get_source_path_metadata`, `check_if_destination_is_a_directory`, `check_if_sources_have_changed`,
  `get_copy_source_dest_store`, `cmd_copy`; `/repo/file/src/mv/mod.rs` `get_move_source_dest_store`,
  `cmd_move`).  Core only (imports the model and nothing else): the driver `repomodel` links it.

  What is a parameter and what is modelled
  * The command line has ONE source argument (file, `dir/`, glob) and one destination.  Which recorded
    paths the source argument selects is the business of property C18 (`filter_targets_from_store`);
    here the command receives the candidate list already.  Model paths are numbers `⟨id, ext⟩`, so
    the pairing *source path ↦ destination path* under a directory destination (`out/<source path>`, or
    `out/<file name>` with `--name-only`: `XvcPath::join` / `join_file_name`) is computed from the path
    STRINGS by the driver (`Main.lean`, commands `copym` / `movem`) and handed over as a list of
    `(source, destination)` pairs.  Everything after that is modelled: which candidates are tracked
    files (`St.select`), the checks made over ALL pairs before anything is written, and the effects.
  * `dir = some p`: the destination argument ends with `/`; `p` is that directory's own path (it must
    not be recorded as a file).  `dir = none`: a file destination (every pair carries it).
  * The real code runs in phases over the whole pair list (all path+metadata records, all digests, all
    text/binary modes, all methods, then all rechecks; `move`: all path records, then per pair method +
    unlink/rename, then all rechecks) and iterates `HStore`s in hash order.  Each phase of a pair touches
    only the records of that pair's destination (copy) or source (move) entity and the workspace at
    that pair's source and destination paths, so with pairwise distinct destinations — and no pair
    whose destination entity is another pair's source, `St.overlap` — the phases of different pairs
    commute and the result does not depend on the order: the model carries the pairs out one after
    the other (`St.copyOne`, `St.moveOne`) in list order.  Where destinations coincide (`--name-only`
    with equal file names) the real result depends on the hash order and on the recheck thread; the
    model keeps list order there, the theorems about that region only use what is order independent
    (two entities recorded for one path).
-/
namespace Repo

/-- one selected source: its entity, its record BEFORE the command, and the destination paired with it -/
structure Sel where
  se : Ent
  r : Rec
  dst : Path
  deriving DecidableEq, Repr

/-- `get_source_path_metadata`: of the candidates the source argument matches, the ones recorded as
    files (`filter_targets_from_store` runs over the path store; `md.is_file()`). -/
def St.select (s : St) : List (Path × Path) → List Sel
  | [] => []
  | (src, dst) :: ps =>
    match s.findEnt src with
    | some se =>
      match s.recs se with
      | some r => ⟨se, r, dst⟩ :: s.select ps
      | none => s.select ps
    | none => s.select ps

/-- where the copy of one selected source goes: a new entity (`xvc_root.new_entity()`) or, with
    `--force`, the entity already recorded for the destination path -/
inductive Dest where
  | fresh
  | over (de : Ent)
  deriving DecidableEq, Repr

/-- the `match stored_xvc_path_store.entities_for(&dest_path)` in the directory branch of
    `get_copy_source_dest_store`, evaluated for every pair against the stores loaded BEFORE the
    command: `none` = the pair is skipped with an error message (`continue`) -/
def St.copyDecide (s : St) (force : Bool) (x : Sel) : Option Dest :=
  match s.findEnt x.dst with
  | some de => if force then some (.over de) else none          -- "already exists. Use --force"
  | none =>
    if !force && (s.ws x.dst).isSome then none                  -- "exists in the workspace and is not tracked"
    else some .fresh

/-- `source_dest_store` of `get_copy_source_dest_store` (directory branch) -/
def St.copyPlan (s : St) (force : Bool) : List Sel → List (Sel × Dest)
  | [] => []
  | x :: xs =>
    match s.copyDecide force x with
    | some d => (x, d) :: s.copyPlan force xs
    | none => s.copyPlan force xs

/-- the record a copy writes for the destination (`cmd_copy`: path, the SOURCE's metadata, digest,
    text/binary mode; method = `--recheck-method` or the source's) -/
def copyRec (o : CopyOpts) (x : Sel) : Rec :=
  { path := x.dst, md := x.r.md, digests := x.r.cur.toList, method := o.method.getD x.r.method, tob := x.r.tob }

/-- `cmd_copy` for one planned pair: the destination's records, then `recheck_destination` (unless
    `--no-recheck`).  Same effect as the tail of `St.copy`. -/
def St.copyOne (o : CopyOpts) (s : St) (y : Sel × Dest) : St × Out :=
  let x := y.1
  let s1 : St :=
    match y.2 with
    | .fresh => (s.setRec s.next (some (copyRec o x))).bumpNext
    | .over de =>
      match s.recs de with
      | some old => s.setRec de (some { old with md := x.r.md, tob := x.r.tob, method := o.method.getD x.r.method,
                                                 digests := old.digests ++ x.r.cur.toList })
      | none => s.setRec de (some (copyRec o x))
  if o.noRecheck then (s1, .ok)
  else
    match x.r.cur with
    | none => (s1, .panic)                                    -- `stored_content_digests.get(&xe).unwrap()`
    | some d => s1.recheckFromCache x.dst (addrOf x.dst d) (o.method.getD x.r.method)

/-- does a list contain an element twice? -/
def hasDup {α : Type} [DecidableEq α] : List α → Bool
  | [] => false
  | x :: xs => xs.contains x || hasDup xs

/-- a planned pair overwrites (with `--force`) the entity of another selected source: the real result
    then depends on the `HStore` iteration order (the digest / mode / method of a source are read from
    the stores while they are being written); outside the model, the driver answers `unmodelled` -/
def St.overlap (plan : List (Sel × Dest)) (sel : List Sel) : Bool :=
  plan.any (fun y => match y.2 with
    | .over de => sel.any (fun x => x.se = de)
    | .fresh => false)

/-- `cmd_copy` with any number of selected sources.
    `collisionsRefused = false` is the code up to `57353a5e`: with `--name-only` two sources with the same
    file name get the same destination path, each is given its own new entity and both are written
    (finding F28).  `collisionsRefused = true` is the code since `6bdf9b9d`
    (`patches/F28-copy-name-only-collision.patch`): the command fails before anything is written.
    The harness reads the variant from the source text (`lib/c19.py collisions_refused`). -/
def St.copyMany (c : Cfg) (o : CopyOpts) (collisionsRefused : Bool) (dir : Option Path) (s : St)
    (pairs : List (Path × Path)) : St × Out :=
  let sel := s.select pairs
  match dir with
  | none =>
    match sel with
    | [] => (s, .panic)                                       -- `source_xvc_paths.keys().next().unwrap()`
    | [x] => s.copy c o x.r.path x.dst
    | _ => (s, .refused)                                      -- "Target must be a directory if multiple sources are given"
  | some dp =>
    if (s.findEnt dp).isSome then (s, .refused)               -- `check_if_destination_is_a_directory`
    else if sel.any (fun x => s.sourceChanged c x.r) then (s, .refused)     -- `check_if_sources_have_changed`
    else if collisionsRefused && hasDup (sel.map (·.dst)) then (s, .refused)
    else forEach (St.copyOne o) s (s.copyPlan o.force sel)

/-- `cmd_move` for one pair after all checks: the path (and method) of the SAME entity is updated, the
    workspace file is renamed (copy → copy) or deleted and rechecked.  Same effect as the tail of `St.move`. -/
def St.moveOne (o : CopyOpts) (s : St) (x : Sel) : St × Out :=
  let src := x.r.path
  let dst := x.dst
  let m := o.method.getD x.r.method
  let bothCopy := (x.r.method = .copy) && (m = .copy)
  let s := s.setRec x.se (some { x.r with path := dst, method := m })
  if bothCopy then
    if src = dst then (s, .ok)
    else if o.noRecheck then
      match s.ws src with
      | some _ => (s.setWs src none, .ok)
      | none => (s, .refused)                     -- `fs::remove_file` fails (K9)
    else
      match s.ws src with
      | some en => ((s.setWs src none).setWs dst (some en), .ok)      -- `fs::rename`
      | none => (s, .refused)                     -- `fs::rename` fails: half-done move (K9)
  else
    let s := if (s.ws src).isSome then s.setWs src none else s        -- `symlink_metadata().is_ok()`
    if o.noRecheck then (s, .ok)
    else
      match x.r.cur with
      | none => (s, .panic)
      | some d => s.recheckFromCache dst (addrOf dst d) m

/-- a loop that ends with the first element that does not succeed (`?` inside the closure of
    `with_store_mut`, or a panic) -/
def forEachStop {α : Type} (f : St → α → St × Out) : St → List α → St × Out
  | s, [] => (s, .ok)
  | s, x :: xs =>
    match f s x with
    | (s', .ok) => forEachStop f s' xs
    | r => r

/-- the three refusals `get_move_source_dest_store` (directory branch) and `cmd_move` make over ALL
    pairs before anything is written: a source has uncommitted changes; a destination is recorded or
    present in the workspace (`error_paths`); a source file would be deleted while its content is not
    in the cache (`St.moveBlocked`) -/
def St.moveRefused (c : Cfg) (o : CopyOpts) (s : St) (sel : List Sel) : Bool :=
  sel.any (fun x => s.sourceChanged c x.r) ||
  sel.any (fun x => (s.findEnt x.dst).isSome || (s.ws x.dst).isSome) ||
  sel.any (fun x => s.moveBlocked x.r x.r.path (o.method.getD x.r.method) o.noRecheck)

/-- `cmd_move` with any number of selected sources (there is no `--name-only` and no `--force`). -/
def St.moveMany (c : Cfg) (o : CopyOpts) (dir : Option Path) (s : St) (pairs : List (Path × Path)) : St × Out :=
  let sel := s.select pairs
  match dir with
  | none =>
    match sel with
    | [] => (s, .panic)
    | [x] => s.move c o x.r.path x.dst
    | _ => (s, .refused)
  | some dp =>
    if (s.findEnt dp).isSome then (s, .refused)               -- `check_if_destination_is_a_directory`
    else if s.moveRefused c o sel then (s, .refused)
    else forEachStop (St.moveOne o) s sel

end Repo
