import XvcRepo.Model
namespace Repo
end Repo
