import XvcRepo.Model
/-!
  Crash model for C07: the per-file procedures of `track`, `carry-in` and `recheck` decomposed into
  their file-system visible micro-steps (one system call or one atomic group each, in the order the
  code issues them — see the `strace` traces in the C07 evidence).  A kill between two system calls
  leaves the repository in the state reached by a *prefix* of the micro-step list.

  The five stores of an entity are one record here: the non-atomic saving of the five store files is
  known finding K3b1 and is outside this model.
-/
namespace Repo

abbrev Micro := St → St

def runMicro (s : St) (l : List Micro) : St := l.foldl (fun s f => f s) s

/-- first phase of `carry_in` for one file without `--force`: `rename` into the cache when the address
    is free (`[EXISTS]` otherwise) -/
def mMoveIn (p : Path) (a : Addr) : Micro := fun s =>
  if (s.cache a).isSome then s else (s.moveToCache p a).1

/-- `if target_path.exists() { remove_file }` -/
def mUnlinkWs (p : Path) : Micro := fun s => if (s.readThrough p).isSome then s.setWs p none else s

/-- `recheck_from_cache`: one atomic appearance at the path — copy: written under a hidden temporary name
    next to the path and renamed into place (since the repair b89c0fee; before it the file was created,
    written and chmod-ed in place, which is what the crash harness found); hard link; symlink -/
def mMaterialise (p : Path) (a : Addr) (m : Method) : Micro := fun s => (s.recheckFromCache p a m).1

/-- saving the records of one entity -/
def mSaveRec (e : Ent) (r : Rec) : Micro := fun s => s.setRec e (some r)

def mSaveNewRec (r : Rec) : Micro := fun s => (s.setRec s.next (some r)).bumpNext

/-- `carry_in` of one file, no `--force` -/
def carryMicro (p : Path) (a : Addr) (m : Method) : List Micro := [mMoveIn p a, mUnlinkWs p, mMaterialise p a m]

/-- `xvc file track` of a new file: all records first, then the content (K3b2) -/
def trackNewMicro (p : Path) (r : Rec) (a : Addr) : List Micro := mSaveNewRec r :: carryMicro p a r.method

/-- `xvc file carry-in` of a changed file: the content first, then the records (K3d) -/
def carryInMicro (p : Path) (e : Ent) (r' : Rec) (a : Addr) (m : Method) : List Micro := carryMicro p a m ++ [mSaveRec e r']

/-- `xvc file recheck`: unlink, materialise, then save the method -/
def recheckMicro (p : Path) (e : Ent) (r' : Rec) (a : Addr) : List Micro :=
  [mUnlinkWs p, mMaterialise p a r'.method, mSaveRec e r']

/-! ## atomic appearance of store files (after the K3a repair) -/

/-- a directory of event files: name, hidden?, complete? -/
structure DirEntry where
  name : Nat
  hidden : Bool
  complete : Bool
  deriving DecidableEq, Repr

/-- `EventLog::to_dir` after the repair: create the hidden temp file, write it, rename it -/
def saveFileMicro (n : Nat) : List (List DirEntry → List DirEntry) :=
  [fun d => d ++ [⟨n, true, false⟩],
   fun d => d.map (fun x => if x.name = n ∧ x.hidden then { x with complete := true } else x),
   fun d => d.map (fun x => if x.name = n ∧ x.hidden then { x with hidden := false } else x)]

/-- what `sorted_files` returns: hidden files are skipped -/
def visible (d : List DirEntry) : List DirEntry := d.filter (fun x => !x.hidden)

end Repo
