import XvcRepo.Model
import XvcRepo.Gen.CopyStores
/-!
  Crash model for C07: the per-file procedures of `track`, `carry-in` and `recheck` decomposed into
  their file-system visible micro-steps (one system call or one atomic group each, in the order the
  code issues them — see the `strace` traces in the C07 evidence).  A kill between two system calls
  leaves the repository in the state reached by a *prefix* of the micro-step list.

  In `mSaveRec` the five stores of an entity are one record; the non-atomic saving of the five store files is modelled
  separately below (`Stores`, `runSaves`: a LIST of per-store saves, known findings K3b1a-g name the orders that are
  not safe).  `copy_via_temp_file` is decomposed call by call at the end (`COp`, `copyViaTemp`).
-/
namespace Repo

abbrev Micro := St → St

def runMicro (s : St) (l : List Micro) : St := l.foldl (fun s f => f s) s

/-- first phase of `carry_in` for one file without `--force`: `rename` into the cache when the address
    is free (`[EXISTS]` otherwise) -/
def mMoveIn (p : Path) (a : Addr) : Micro := fun s =>
  if (s.cache a).isSome then s else (s.moveToCache p a).1

/-- `if target_path.exists() { remove_file }` -/
def mUnlinkWs (p : Path) : Micro := fun s => if (s.readThrough p).isSome then s.setWs p none else s

/-- `recheck_from_cache`: one atomic appearance at the path — copy: written under a hidden temporary name
    next to the path and renamed into place (since the repair b89c0fee; before it the file was created,
    written and chmod-ed in place, which is what the crash harness found); hard link; symlink -/
def mMaterialise (p : Path) (a : Addr) (m : Method) : Micro := fun s => (s.recheckFromCache p a m).1

/-- saving the records of one entity -/
def mSaveRec (e : Ent) (r : Rec) : Micro := fun s => s.setRec e (some r)

def mSaveNewRec (r : Rec) : Micro := fun s => (s.setRec s.next (some r)).bumpNext

/-- `carry_in` of one file, no `--force` -/
def carryMicro (p : Path) (a : Addr) (m : Method) : List Micro := [mMoveIn p a, mUnlinkWs p, mMaterialise p a m]

/-- `xvc file track` of a new file: all records first, then the content (K3b2) -/
def trackNewMicro (p : Path) (r : Rec) (a : Addr) : List Micro := mSaveNewRec r :: carryMicro p a r.method

/-- `xvc file carry-in` of a changed file: the content first, then the records (K3d) -/
def carryInMicro (p : Path) (e : Ent) (r' : Rec) (a : Addr) (m : Method) : List Micro := carryMicro p a m ++ [mSaveRec e r']

/-- `xvc file recheck`: unlink, materialise, then save the method -/
def recheckMicro (p : Path) (e : Ent) (r' : Rec) (a : Addr) : List Micro :=
  [mUnlinkWs p, mMaterialise p a r'.method, mSaveRec e r']

/-! ## `move_to_cache` of a SYMBOLIC LINK: the data copy at system-call granularity

  A regular file is `rename`d into the cache (`mMoveIn`, one call).  A symbolic link is not content (repair F31):
  `move_to_cache` copies the bytes the link points to — an object of the cache for the symlink recheck method, a data
  file outside of the repository for a link the user made — and that copy is MANY calls: `open(O_CREAT|O_TRUNC)`,
  then one `copy_file_range` / `sendfile` / `write` per chunk (one chunk below 1 GiB where the kernel copies, one
  per 8 KiB where `std` falls back to read + write).  The closure `copy_to_cache` writes them to the hidden
  temporary name `.0.<ext>.xvc-tmp` NEXT TO the address, renames it onto the address and unlinks the link.  The
  same closure is the cross-device branch (`bring` with `TMPDIR` on another file system). -/

/-- the repository plus the hidden temporary file next to each cache address (`cache_dir.join(".0.<ext>.xvc-tmp")`):
    its bytes so far, `none` when there is no such file -/
structure FS where
  st : St
  tmp : Addr → Option Bytes

abbrev FMicro := FS → FS

def runF (x : FS) (l : List FMicro) : FS := l.foldl (fun x f => f x) x

/-- a micro-step of the coarse model seen on the refined state -/
def liftF (f : Micro) : FMicro := fun x => { x with st := f x.st }

/-- `File::create(temp_cache_path)` inside `fs::copy`: `open(O_WRONLY|O_CREAT|O_TRUNC)` -/
def fCreateTmp (a : Addr) : FMicro := fun x => { x with tmp := upd x.tmp a (some []) }

/-- one `copy_file_range` / `sendfile` / `write` call of `fs::copy(path, temp_cache_path)`: one more chunk -/
def fAppendTmp (a : Addr) (c : Bytes) : FMicro := fun x => { x with tmp := upd x.tmp a ((x.tmp a).map (· ++ c)) }

/-- `fs::rename(temp_cache_path, cache_path)`: the object appears at its address with all the bytes of the temporary file -/
def fRenameTmp (a : Addr) (stamp : Nat) : FMicro := fun x =>
  match x.tmp a with
  | some b => { st := x.st.setCache a (some ⟨b, false, stamp⟩), tmp := upd x.tmp a none }
  | none => x

/-- `fs::remove_file(path)`: the link is taken away, what it points to stays -/
def fUnlinkLink (p : Path) : FMicro := fun x => { x with st := x.st.setWs p none }

/-- `file_perm.set_readonly(true); fs::set_permissions(cache_path, …)` -/
def fChmodObj (a : Addr) : FMicro := fun x =>
  match x.st.cache a with
  | some o => { x with st := x.st.setCache a (some { o with ro := true }) }
  | none => x

/-- `dir_perm.set_readonly(true); fs::set_permissions(cache_dir, …)` -/
def fChmodDir (a : Addr) : FMicro := fun x => { x with st := { x.st with dirRo := upd x.st.dirRo a.d true } }

/-- the calls of `fs::copy(path, temp_cache_path)` for a source that is delivered in the chunks `cs` -/
def copyToTmp (a : Addr) (cs : List Bytes) : List FMicro := fCreateTmp a :: cs.map (fAppendTmp a)

/-- what `move_to_cache` does after the copy: rename onto the address, unlink the link, object and directory read-only -/
def afterCopy (p : Path) (a : Addr) (stamp : Nat) : List FMicro :=
  [fRenameTmp a stamp, fUnlinkLink p, fChmodObj a, fChmodDir a]

/-- `move_to_cache(path, cache_path)` for a `path` that is a symbolic link (address free): `copy_to_cache()` and the
    two `set_permissions`.  `cs` is ANY division of the bytes the link points to into the chunks of the single calls. -/
def moveLinkMicro (p : Path) (a : Addr) (cs : List Bytes) (stamp : Nat) : List FMicro :=
  copyToTmp a cs ++ afterCopy p a stamp

/-- `carry_in` of one path that is a symbolic link, no `--force`, address free: `moveLinkMicro`, then the two steps
    of `carryMicro` that bring the path back (`if target_path.exists() { remove_file }`, `recheck_from_cache`) -/
def carryLinkMicro (p : Path) (a : Addr) (m : Method) (cs : List Bytes) (stamp : Nat) : List FMicro :=
  moveLinkMicro p a cs stamp ++ [liftF (mUnlinkWs p), liftF (mMaterialise p a m)]

/-! the variant that copies IN PLACE (`fs::copy(path, cache_path)`): what `move_to_cache` must not do -/

/-- `File::create(cache_path)`: an empty, writable file AT the address -/
def fCreateObj (a : Addr) (stamp : Nat) : FMicro := fun x => { x with st := x.st.setCache a (some ⟨[], false, stamp⟩) }

/-- one data-copy call with the address itself as destination -/
def fAppendObj (a : Addr) (c : Bytes) : FMicro := fun x =>
  match x.st.cache a with
  | some o => { x with st := x.st.setCache a (some { o with b := o.b ++ c }) }
  | none => x

/-- `fs::copy(path, cache_path).and_then(|_| fs::remove_file(path))`, then the two `set_permissions` -/
def moveLinkInPlaceMicro (p : Path) (a : Addr) (cs : List Bytes) (stamp : Nat) : List FMicro :=
  (fCreateObj a stamp :: cs.map (fAppendObj a)) ++ [fUnlinkLink p, fChmodObj a, fChmodDir a]

/-! ## atomic appearance of store files (after the K3a repair) -/

/-- a directory of event files: name, hidden?, complete? -/
structure DirEntry where
  name : Nat
  hidden : Bool
  complete : Bool
  deriving DecidableEq, Repr

/-- `EventLog::to_dir` after the repair: create the hidden temp file, write it, rename it -/
def saveFileMicro (n : Nat) : List (List DirEntry → List DirEntry) :=
  [fun d => d ++ [⟨n, true, false⟩],
   fun d => d.map (fun x => if x.name = n ∧ x.hidden then { x with complete := true } else x),
   fun d => d.map (fun x => if x.name = n ∧ x.hidden then { x with hidden := false } else x)]

/-- what `sorted_files` returns: hidden files are skipped -/
def visible (d : List DirEntry) : List DirEntry := d.filter (fun x => !x.hidden)

open Gen (StoreId)

/-! ## the store saves of one command as a LIST of per-store saves -/

/-- which entities each of the five stores (as loaded from its event files) has a component for -/
structure Stores where
  has : StoreId → Ent → Bool

/-- `XvcStore::save` of one store after the command inserted the component of entity `e`: the event file is renamed
    into place (atomic, `C07_store_file_atomic`); the other stores on disk are as they were -/
def saveStore (e : Ent) (i : StoreId) (s : Stores) : Stores :=
  ⟨fun j x => if j = i ∧ x = e then true else s.has j x⟩

/-- the saves of a command for its new entity `e`, in the order `l`; a kill leaves the result of a prefix of `l` -/
def runSaves (s : Stores) (e : Ent) (l : List StoreId) : Stores := l.foldl (fun s i => saveStore e i s) s

/-- what every reader of the stores relies on (`xvc file list`, `recheck`, `carry-in`: `compare.rs` unwraps the digest
    and the recheck method of every entity that has a path): a path is never on record without them -/
def PathsComplete (s : Stores) : Prop :=
  ∀ e, s.has .xvcPath e = true →
    s.has .contentDigest e = true ∧ s.has .textOrBinary e = true ∧ s.has .recheckMethod e = true

/-- decidable condition on an ORDER of saves: in every prefix that contains the path store, the digest, the
    text-or-binary and the method store are there already -/
def pathAfterContent (l : List StoreId) : Bool :=
  (List.range (l.length + 1)).all fun k =>
    !(l.take k).contains .xvcPath ||
      ((l.take k).contains .contentDigest && (l.take k).contains .textOrBinary && (l.take k).contains .recheckMethod)

/-! ## `copy_via_temp_file(source, temp_path, path)` (file/src/common/mod.rs) call by call -/

/-- a regular file: bytes and the owner's write bit -/
structure CFile where
  b : Bytes
  w : Bool
  deriving DecidableEq, Repr

/-- the two directory entries the procedure touches: the workspace path and the temporary name `.xvc/tmp/<pid>-<k>` -/
structure CS where
  path : Option CFile
  tmp : Option CFile
  deriving DecidableEq, Repr

/-- the system calls of `copy_via_temp_file` (strace: `openat(O_CREAT|O_EXCL)`, `openat(O_TRUNC)` + `fchmod(0444)` - `fs::copy`
    carries the read-only mode of the cache object over BEFORE the data -, one `copy_file_range`/`write` per chunk,
    `chmod(temp, 0644)` = `set_writable`, `rename(temp, path)`); `chmodPathW` = `set_writable(path)` is what the
    procedure must NOT need -/
inductive COp where | createTmp | fchmodRo | append (c : Bytes) | chmodTmpW | rename | chmodPathW
  deriving DecidableEq, Repr

def COp.apply : COp → CS → CS
  | .createTmp, x => { x with tmp := some ⟨[], true⟩ }
  | .fchmodRo, x => { x with tmp := x.tmp.map fun f => { f with w := false } }
  | .append c, x => { x with tmp := x.tmp.map fun f => { f with b := f.b ++ c } }
  | .chmodTmpW, x => { x with tmp := x.tmp.map fun f => { f with w := true } }
  | .rename, x => match x.tmp with
      | some f => ⟨some f, none⟩
      | none => x
  | .chmodPathW, x => { x with path := x.path.map fun f => { f with w := true } }

def runC (x : CS) (l : List COp) : CS := l.foldl (fun x o => o.apply x) x

/-- the calls before the rename: everything happens to the temporary file -/
def copyViaTempPre (cs : List Bytes) : List COp := [.createTmp, .fchmodRo] ++ cs.map .append ++ [.chmodTmpW]

/-- `fs::copy(source, temp).and_then(set_writable(temp)).and_then(fs::rename(temp, path))` for a source delivered in
    the chunks `cs` -/
def copyViaTemp (cs : List Bytes) : List COp := copyViaTempPre cs ++ [.rename]

/-- the forbidden order: rename first, `set_writable(path)` afterwards -/
def copyViaTempRenameFirst (cs : List Bytes) : List COp :=
  [.createTmp, .fchmodRo] ++ cs.map .append ++ [.rename, .chmodPathW]

end Repo
