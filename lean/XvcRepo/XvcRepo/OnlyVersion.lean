import XvcRepo.Model
import XvcRepo.Gen.Addr
/-!
  String-level model of `xvc file remove --only-version V` (`file/src/remove/mod.rs`, the closure `version_cmp`).

  In `Model.lean` the selection `RemoveSel.only d` is keyed by a digest (hashes are perfect there, the hex spelling of a
  digest does not exist).  What the user types is a *string*: a prefix of the hexadecimal digest, with optional dashes.
  This file models that string: character codes (`List Nat`; kernel-decidable, unlike `String`), the transcription
  `selectsCode` of the comparison xvc makes on the spelling of the cache path, the specification `selects` (prefix of the
  digest, compared on the first `window` digits), the selection over the recorded versions of the targets, and the
  command `St.removeByPrefix` that puts the string-level selection in the place of `RemoveSel.only`.
  Core only (imported by the driver).
-/
namespace Repo

/-- `'-'` -/
def dashCode : Nat := 45

/-- `.replace('-', "")` -/
def dedash (s : List Nat) : List Nat := s.filter (fun c => c != dashCode)

/-- `XvcCachePath::digest_string(len)`: the first `len` characters of the cache path `<prefix>/<3>/<3>/<58>/0.<ext>`
    with `/` replaced by `-` (the model stops at the digest directory: `len` is `DIGEST_LENGTH`, far less than the
    2 + 3 + 64 characters before the file name) -/
def digestString (pfx hex : List Nat) (len : Nat) : List Nat :=
  (pfx ++ dashCode :: (hex.take Gen.split1 ++ dashCode :: ((hex.drop Gen.split1).take Gen.split2 ++
    dashCode :: (hex.drop Gen.split1).drop Gen.split2))).take len

/-- the closure `version_cmp` of `cmd_remove`, transcribed:
    `let version_cmp_str = version.replace('-', "");`
    `let digest_str = v.digest_string(DIGEST_LENGTH).replace('-', ""); digest_str[2..].starts_with(&version_cmp_str)`.
    The two characters of the algorithm identifier are dropped from the spelling of the CACHE PATH, by position;
    nothing is ever removed from what the user typed except dashes. -/
def selectsCode (pfx hex version : List Nat) : Bool :=
  (dedash version).isPrefixOf ((dedash (digestString pfx hex Gen.digestLength)).drop 2)

/-- number of hex digits of a digest that `--only-version` compares: `DIGEST_LENGTH` characters of the path spelling
    minus the algorithm identifier and the three separators -/
def window : Nat := Gen.digestLength - 2 - 3

/-- specification: `version` (dashes ignored) names the digest spelled `hex` when it is a prefix of its first
    `window` digits -/
def selects (version hex : List Nat) : Bool := (dedash version).isPrefixOf (hex.take window)

/-- `strip_prefix`: what a variant of the comparison would do that also accepts the spelling `b3-123-456…` by cutting a
    leading algorithm identifier off the user's string (the identifiers `b3`, `b2` are hex digits themselves) -/
def stripPrefix (p s : List Nat) : List Nat := if p.isPrefixOf s then s.drop p.length else s

/-- the variant: identifier stripped from the user's string before the prefix comparison -/
def selectsStripping (pfx hex version : List Nat) : Bool :=
  (stripPrefix pfx (dedash version)).isPrefixOf (hex.take window)

/-- indices of the digests (recorded versions of the targets, in any fixed order) named by `version` -/
def selectIdx (pfx version : List Nat) (hexes : List (List Nat)) : List Nat :=
  (List.range hexes.length).filter (fun i => selectsCode pfx (hexes.getD i []) version)

/-- what `cmd_remove` does with the selection: nothing named, exactly one (target, version) pair named, or
    "Version prefix is not unique" -/
inductive Verdict where
  | nothing
  | one (i : Nat)
  | ambiguous
  deriving DecidableEq, Repr

def verdict : List Nat → Verdict
  | [] => .nothing
  | [i] => .one i
  | _ => .ambiguous

/-- `cmd_remove --from-cache --only-version` with an arbitrary way `named` of designating digests: the candidates
    are the (target, version) pairs that are named; more than one: the command refuses; otherwise as `St.remove`. -/
def St.removeWhere (s : St) (ps : List Path) (named : Digest → Bool) (force : Bool) : St × Out :=
  let ts := s.targetEnts ps
  let cands := ts.flatMap (fun e => (s.versionsOf e).filter (fun a => named a.d))
  if 1 < cands.length then (s, .refused)
  else ((cands.filter (fun a => force || (s.otherReferrers ts a).isEmpty)).foldl St.removeObj s, .ok)

/-- `xvc file remove --from-cache --only-version <version>`: `hexOf` spells a digest in hexadecimal (the hash
    functions are parameters of the model, so is their spelling), `pfx` is the algorithm identifier of the cache -/
def St.removeByPrefix (s : St) (pfx : List Nat) (hexOf : Digest → List Nat) (ps : List Path) (version : List Nat)
    (force : Bool) : St × Out :=
  s.removeWhere ps (fun d => selectsCode pfx (hexOf d) version) force

end Repo
