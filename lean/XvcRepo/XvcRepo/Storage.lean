import XvcRepo.Model
/-!
  Model of `xvc file send` / `xvc file bring` through a storage
  (`file/src/{send,bring}/mod.rs`, `storage/src/storage/{local,generic}.rs`).

  A storage is a map from `(repository guid, cache address)` to bytes: objects are stored under
  `<repository guid>/<cache path>`.  The outcome of every upload / download command of a generic
  (shell command) storage is a parameter, so every fault pattern is a value of the model.
-/
namespace Repo

abbrev Guid := Nat

structure Storage where
  objs : Guid × Addr → Option Bytes

/-- outcome of one upload command -/
inductive Ul where
  | ok
  | fail            -- non-zero exit, nothing (or garbage under another name) written
  deriving DecidableEq, Repr

/-- outcome of one download command -/
inductive Dl where
  | ok                             -- exit 0, the temp file holds the stored bytes
  | failClean                      -- non-zero exit, no temp file
  | failPartial (junk : Bytes)     -- non-zero exit, a partial / wrong temp file is left behind
  deriving DecidableEq, Repr

/-- the cache addresses of the targets (`XvcCachePath::new(path, current digest)`) -/
def St.targetAddrs (s : St) (ps : List Path) : List Addr :=
  (s.targetEnts ps).filterMap (fun e => match s.recs e with
    | some r => r.cur.map (addrOf r.path)
    | none => none)

/-- `storage.send` for one cache path: copy the object to `<guid>/<cache path>`
    (local storage: `fs::copy`, always `Ul.ok`; generic storage: the upload command) -/
def sendOne (g : Guid) (s : St) (st : Storage) (x : Addr × Ul) : Storage :=
  match s.cache x.1, x.2 with
  | some o, .ok => { objs := upd st.objs (g, x.1) (some o.b) }
  | _, _ => st

def send (g : Guid) (s : St) (st : Storage) (l : List (Addr × Ul)) : Storage := l.foldl (sendOne g s) st

/-- the temporary directory of `receive`: what the download command left for address `a` -/
def tempFile (g : Guid) (st : Storage) (a : Addr) : Dl → Option Bytes
  | .ok => st.objs (g, a)
  | .failClean => none
  | .failPartial junk => some junk

/-- is the path reported as received (`XvcStorageReceiveEvent.paths`)? -/
def received (g : Guid) (st : Storage) (a : Addr) : Dl → Bool
  | .ok => (st.objs (g, a)).isSome
  | _ => false

/-- moving a temp file into the cache: `rename`, or — temporary directory on another file system —
    copy to a hidden name next to the cache path, `rename` from there, remove the temp file -/
def moveIn (tmpSameFs : Bool) (s : St) (a : Addr) (b : Bytes) : St :=
  if tmpSameFs then (s.setCache a (some ⟨b, true, s.clock⟩)).tick
  else
    let hidden : Option Bytes := some b            -- `.0.ext.xvc-tmp` in the cache directory
    match hidden with
    | some b' => (s.setCache a (some ⟨b', true, s.clock⟩)).tick
    | none => s

/-- `fetch` for one cache path (after the F9 repairs): paths already in the cache are not requested;
    a temp file is moved only when the storage reported the path as received -/
def fetchOne (tmpSameFs : Bool) (g : Guid) (st : Storage) (s : St) (x : Addr × Dl) : St :=
  if (s.cache x.1).isSome then s
  else
    match received g st x.1 x.2, tempFile g st x.1 x.2 with
    | true, some b => moveIn tmpSameFs s x.1 b
    | _, _ => s

def fetch (tmpSameFs : Bool) (g : Guid) (st : Storage) (s : St) (l : List (Addr × Dl)) : St :=
  l.foldl (fetchOne tmpSameFs g st) s

/-- `XvcLocalStorage::delete`: the storage files of the given cache paths are removed one after the
    other; the first one that is not there ends the command with an error (`fs::remove_file(..)?`) -/
def storageDelete (g : Guid) (st : Storage) : List Addr → Storage × Out
  | [] => (st, .ok)
  | a :: as =>
    match st.objs (g, a) with
    | none => (st, .refused)
    | some _ => storageDelete g { objs := upd st.objs (g, a) none } as

/-- `xvc file remove --from-storage`: the same `deletable_paths` as for the cache, sorted
    (`sort_unstable` on the cache path strings — `order` stands for that permutation, the model does
    not know the hex strings), deleted from `<guid>/…` of the storage -/
def St.removeFromStorage (s : St) (g : Guid) (st : Storage) (ps : List Path) (sel : RemoveSel) (force : Bool)
    (order : List Addr → List Addr) : Storage × Out :=
  match s.removeDeletable ps sel force with
  | none => (st, .refused)
  | some l => storageDelete g st (order l)

end Repo
