import XvcRepo.Model
/-!
  Model of `xvc file send` / `xvc file bring` through a storage
  (`file/src/{send,bring}/mod.rs`, `storage/src/storage/{local,generic}.rs`).

  A storage is a map from `(repository guid, cache address)` to bytes: objects are stored under
  `<repository guid>/<cache path>`.  The outcome of every upload / download command of a generic
  (shell command) storage is a parameter, so every fault pattern is a value of the model.
-/
namespace Repo

abbrev Guid := Nat

structure Storage where
  objs : Guid × Addr → Option Bytes

/-- outcome of one upload command -/
inductive Ul where
  | ok
  | fail            -- non-zero exit, nothing (or garbage under another name) written
  deriving DecidableEq, Repr

/-- outcome of one download command -/
inductive Dl where
  | ok                             -- exit 0, the temp file holds the stored bytes
  | failClean                      -- non-zero exit, no temp file
  | failPartial (junk : Bytes)     -- non-zero exit, a partial / wrong temp file is left behind
  deriving DecidableEq, Repr

/-- the cache addresses of the targets (`XvcCachePath::new(path, current digest)`) -/
def St.targetAddrs (s : St) (ps : List Path) : List Addr :=
  (s.targetEnts ps).filterMap (fun e => match s.recs e with
    | some r => r.cur.map (addrOf r.path)
    | none => none)

/-- `storage.send` for one cache path: copy the object to `<guid>/<cache path>`
    (local storage: `fs::copy`, always `Ul.ok`; generic storage: the upload command) -/
def sendOne (g : Guid) (s : St) (st : Storage) (x : Addr × Ul) : Storage :=
  match s.cache x.1, x.2 with
  | some o, .ok => { objs := upd st.objs (g, x.1) (some o.b) }
  | _, _ => st

def send (g : Guid) (s : St) (st : Storage) (l : List (Addr × Ul)) : Storage := l.foldl (sendOne g s) st

/-- the temporary directory of `receive`: what the download command left for address `a` -/
def tempFile (g : Guid) (st : Storage) (a : Addr) : Dl → Option Bytes
  | .ok => st.objs (g, a)
  | .failClean => none
  | .failPartial junk => some junk

/-- is the path reported as received (`XvcStorageReceiveEvent.paths`)? -/
def received (g : Guid) (st : Storage) (a : Addr) : Dl → Bool
  | .ok => (st.objs (g, a)).isSome
  | _ => false

/-- moving a temp file into the cache: `rename`, or — temporary directory on another file system —
    copy to a hidden name next to the cache path, `rename` from there, remove the temp file -/
def moveIn (tmpSameFs : Bool) (s : St) (a : Addr) (b : Bytes) : St :=
  if tmpSameFs then (s.setCache a (some ⟨b, true, s.clock⟩)).tick
  else
    let hidden : Option Bytes := some b            -- `.0.ext.xvc-tmp` in the cache directory
    match hidden with
    | some b' => (s.setCache a (some ⟨b', true, s.clock⟩)).tick
    | none => s

/-- `fetch` for one cache path (after the F9 repairs): paths already in the cache are not requested;
    a temp file is moved only when the storage reported the path as received -/
def fetchOne (tmpSameFs : Bool) (g : Guid) (st : Storage) (s : St) (x : Addr × Dl) : St :=
  if (s.cache x.1).isSome then s
  else
    match received g st x.1 x.2, tempFile g st x.1 x.2 with
    | true, some b => moveIn tmpSameFs s x.1 b
    | _, _ => s

def fetch (tmpSameFs : Bool) (g : Guid) (st : Storage) (s : St) (l : List (Addr × Dl)) : St :=
  l.foldl (fetchOne tmpSameFs g st) s

/-- `XvcLocalStorage::delete`: the storage files of the given cache paths are removed one after the
    other; the first one that is not there ends the command with an error (`fs::remove_file(..)?`) -/
def storageDelete (g : Guid) (st : Storage) : List Addr → Storage × Out
  | [] => (st, .ok)
  | a :: as =>
    match st.objs (g, a) with
    | none => (st, .refused)
    | some _ => storageDelete g { objs := upd st.objs (g, a) none } as

/-- `xvc file remove --from-storage`: the same `deletable_paths` as for the cache, sorted
    (`sort_unstable` on the cache path strings — `order` stands for that permutation, the model does
    not know the hex strings), deleted from `<guid>/…` of the storage -/
def St.removeFromStorage (s : St) (g : Guid) (st : Storage) (ps : List Path) (sel : RemoveSel) (force : Bool)
    (order : List Addr → List Addr) : Storage × Out :=
  match s.removeDeletable ps sel force with
  | none => (st, .refused)
  | some l => storageDelete g st (order l)

/-! ## the final step of `fetch` under a fault: the move from the temporary directory into the cache

  `move_to_cache(temp file, cache path)` may fail or be cut short like every other write: disk full,
  quota, file size limit (`ENOSPC`, `EDQUOT`, `EFBIG`), or the process is killed.  The outcome of the
  step is a parameter, like the outcome of a download command. -/

/-- outcome of the final step for one downloaded object -/
inductive Mv where
  | ok
  | fails (written : Nat)   -- the step fails or the process dies; where bytes were being copied, after `written` of them
  deriving DecidableEq, Repr

/-- what the step leaves: the repository state (the cache maps ADDRESSES to objects), the file under
    the hidden name `.0.<ext>.xvc-tmp` next to the cache path (NOT a cache address, so not part of the
    state), and whether the step completed -/
structure Moved where
  st : St
  hidden : Option Bytes
  done : Bool

/-- `move_to_cache` as the code does it.  Same file system: `rename`, which happens as a whole or not
    at all.  Another file system: copy to the hidden name in the cache directory, `rename` from there;
    a fault during the copy leaves a partial HIDDEN file and no object.  Either way the object appears
    at its address atomically or not at all. -/
def moveInF (tmpSameFs : Bool) (s : St) (a : Addr) (b : Bytes) : Mv → Moved
  | .ok => ⟨moveIn tmpSameFs s a b, none, true⟩
  | .fails n => ⟨s, if tmpSameFs then none else some (b.take n), false⟩

/-- the variant that is NOT the code: on another file system copy straight ONTO the cache path
    (`fs::copy(temp file, cache path)`); a fault leaves the copied prefix at the address, still writable -/
def moveInPlace (tmpSameFs : Bool) (s : St) (a : Addr) (b : Bytes) : Mv → Moved
  | .ok => ⟨moveIn tmpSameFs s a b, none, true⟩
  | .fails n =>
    if tmpSameFs then ⟨s, none, false⟩
    else ⟨(s.setCache a (some ⟨b.take n, false, s.clock⟩)).tick, none, false⟩

/-- `fetch` with a fault parameter for the final step.  The downloaded objects are moved one after the
    other in the order of the list (the code iterates a `BTreeSet` of cache paths: the driver passes
    that order); the first move that fails ends the command (`uwr!` panics, or the process is dead):
    later objects are not moved and nothing is rechecked. -/
def fetchWith (mv : Bool → St → Addr → Bytes → Mv → Moved) (tmpSameFs : Bool) (g : Guid) (st : Storage) :
    St → List (Addr × Dl × Mv) → St × Out
  | s, [] => (s, .ok)
  | s, x :: l =>
    if (s.cache x.1).isSome then fetchWith mv tmpSameFs g st s l
    else
      match received g st x.1 x.2.1, tempFile g st x.1 x.2.1 with
      | true, some b =>
        let r := mv tmpSameFs s x.1 b x.2.2
        if r.done then fetchWith mv tmpSameFs g st r.st l else (r.st, .panic)
      | _, _ => fetchWith mv tmpSameFs g st s l

/-- the code -/
def fetchF := fetchWith moveInF
/-- the in-place variant (not the code) -/
def fetchInPlace := fetchWith moveInPlace

end Repo
