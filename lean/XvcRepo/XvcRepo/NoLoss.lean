import XvcRepo.Cache
import XvcRepo.Props.C01
/-!
  Helper lemmas for C03: frame lemmas of the per-file procedures and the relation "nothing that could
  be read before is lost" (`NoLoss`), proved for every per-file procedure and lifted through the
  target loop (`forEach`) to whole commands.
-/
namespace Repo

/-- no CR/LF (or hash) collision at address `a` for content `b`: an object already there holds `b`.
    (K1: violated by two contents that differ only in line endings.) -/
def NoCollision (s : St) (a : Addr) (b : Bytes) : Prop := ∀ o, s.cache a = some o → o.b = b

/-! ## frame: a per-file procedure touches no other workspace path -/

theorem recheckFromCache_ws_other (s : St) (p q : Path) (a : Addr) (m : Method) (h : q ≠ p) :
    (s.recheckFromCache p a m).1.ws q = s.ws q := by
  unfold St.recheckFromCache
  have h0 : (if (s.readThrough p).isSome then s.setWs p none else s).ws q = s.ws q := by
    split
    · simp [upd_other _ _ h]
    · rfl
  generalize (if (s.readThrough p).isSome then s.setWs p none else s) = s0 at h0 ⊢
  simp only
  repeat' split
  all_goals simp [h0, upd_other _ _ h]

theorem moveToCache_ws_other (s : St) (p q : Path) (a : Addr) (h : q ≠ p) : (s.moveToCache p a).1.ws q = s.ws q := by
  unfold St.moveToCache
  have hd := deref_ws_other s p q h
  generalize s.deref p = s0 at hd ⊢
  simp only
  repeat' split
  all_goals simp [upd_other _ _ h, hd]

theorem carryOneMove_ws_other (s : St) (p q : Path) (a : Addr) (m : Method) (h : q ≠ p) :
    (s.carryOneMove p a m false).1.ws q = s.ws q := by
  unfold St.carryOneMove
  have h1 : (if (s.cache a).isSome then
      if false = true then St.moveToCache { (s.detach a).setCache a none with dirRo := upd s.dirRo a.d false } p a
      else (s, Out.ok)
    else s.moveToCache p a).1.ws q = s.ws q := by
    repeat' split
    all_goals first | rfl | exact moveToCache_ws_other s p q a h | simp_all
  generalize (if (s.cache a).isSome then
      if false = true then St.moveToCache { (s.detach a).setCache a none with dirRo := upd s.dirRo a.d false } p a
      else (s, Out.ok)
    else s.moveToCache p a) = res at h1
  obtain ⟨s1, o1⟩ := res
  cases o1 <;> simp only at h1 ⊢
  · rw [recheckFromCache_ws_other _ _ _ _ _ h]
    split
    · simp [upd_other _ _ h, h1]
    · exact h1
  · exact h1
  · exact h1

theorem carryOne_ws_other (s : St) (p q : Path) (a : Addr) (m : Method) (h : q ≠ p) :
    (s.carryOne p a m false).1.ws q = s.ws q := by
  unfold St.carryOne
  split
  · rw [recheckFromCache_ws_other _ _ _ _ _ h]
    simp [upd_other _ _ h]
  · exact carryOneMove_ws_other s p q a m h

theorem trackOne_ws_other (c : Cfg) (o : TrackOpts) (hf : o.force = false) (s : St) (p q : Path)
    (h : q ≠ p) : (s.trackOne c o p).1.ws q = s.ws q := by
  unfold St.trackOne
  split
  · rfl
  · unfold St.trackFile
    simp only [hf]
    repeat' split
    all_goals first | rfl | (rw [carryOne_ws_other _ _ _ _ _ h]; rfl)

theorem carryInOne_ws_other (c : Cfg) (tob : Option Tob) (s : St) (p q : Path) (h : q ≠ p) :
    (s.carryInOne c tob false p).1.ws q = s.ws q := by
  unfold St.carryInOne
  split
  · rfl
  · split
    · rfl
    · unfold St.carryInRec
      simp only
      repeat' split
      all_goals first | rfl | (simp only [setRec_ws]; exact carryOne_ws_other _ _ _ _ _ h)

theorem recheckOne_ws_other (c : Cfg) (m : Option Method) (f : Bool) (s : St) (p q : Path) (h : q ≠ p) :
    (s.recheckOne c m f p).1.ws q = s.ws q := by
  unfold St.recheckOne
  split
  · rfl
  · split
    · rfl
    · unfold St.recheckRec
      simp only
      repeat' split
      all_goals first | rfl | (rw [recheckFromCache_ws_other _ _ _ _ _ h]; rfl)


/-! ## nothing readable is lost -/

/-- the bytes `b` are held by some cache object of `s` -/
def InCache (s : St) (b : Bytes) : Prop := ∃ a o, s.cache a = some o ∧ o.b = b

/-- `s'` has lost nothing of `s`: every cache object is still there untouched, and whatever could be
    read at a workspace path `q` can still be read at `q` or is held by the cache -/
def NoLoss (s s' : St) : Prop :=
  CacheKeep s s' ∧ ∀ q b n, s.readThrough q = some (b, n) → (∃ n', s'.readThrough q = some (b, n')) ∨ InCache s' b

theorem NoLoss.refl (s : St) : NoLoss s s := ⟨CacheKeep.refl s, fun _ _ n h => Or.inl ⟨n, h⟩⟩

theorem NoLoss.trans {s s' s'' : St} (h1 : NoLoss s s') (h2 : NoLoss s' s'') : NoLoss s s'' := by
  refine ⟨h1.1.trans h2.1, ?_⟩
  intro q b n h
  rcases h1.2 q b n h with ⟨n', h'⟩ | ⟨a, o, ho, hb⟩
  · exact h2.2 q b n' h'
  · exact Or.inr ⟨a, o, h2.1 a o ho, hb⟩

/-- reading through an entry gives the same result when the entry is the same and the cache kept its objects -/
theorem readThrough_keep {s s' : St} {q : Path} (hws : s'.ws q = s.ws q) (hk : CacheKeep s s') {x : Bytes × Nat}
    (h : s.readThrough q = some x) : s'.readThrough q = some x := by
  unfold St.readThrough at h ⊢
  rw [hws]
  cases hw : s.ws q with
  | none => simp [hw] at h
  | some en =>
    cases en with
    | file b w st l => simpa [hw] using h
    | sym a =>
      simp only [hw] at h ⊢
      cases ho : s.cache a with
      | none => simp [ho] at h
      | some o => rw [hk a o ho]; simpa [ho] using h

/-- same workspace and same cache: nothing lost -/
theorem noLoss_of_eq {s s' : St} (hws : s'.ws = s.ws) (hc : s'.cache = s.cache) : NoLoss s s' := by
  have hk : CacheKeep s s' := fun a o h => by rw [hc]; exact h
  exact ⟨hk, fun q b n h => Or.inl ⟨n, readThrough_keep (by rw [hws]) hk h⟩⟩

/-- a per-file procedure that keeps the cache, touches no other path and keeps the target's bytes loses nothing -/
theorem noLoss_of_frame {s s' : St} (p : Path) (hk : CacheKeep s s') (hframe : ∀ q, q ≠ p → s'.ws q = s.ws q)
    (htarget : ∀ b n, s.readThrough p = some (b, n) → (∃ n', s'.readThrough p = some (b, n')) ∨ InCache s' b) :
    NoLoss s s' := by
  refine ⟨hk, ?_⟩
  intro q b n h
  by_cases hq : q = p
  · subst hq; exact htarget b n h
  · exact Or.inl ⟨n, readThrough_keep (hframe q hq) hk h⟩

/-- what can be read at `p` is in the cache after `p` was committed at `a` (no `--force`), provided an
    object that already sits at `a` holds the same bytes -/
theorem carryOne_target_kept (s : St) (p : Path) (a : Addr) (m : Method)
    (hnc : ∀ b n, s.readThrough p = some (b, n) → NoCollision s a b) :
    ∀ b n, s.readThrough p = some (b, n) → InCache (s.carryOne p a m false).1 b := by
  intro b n h
  cases hw : s.ws p with
  | none => simp [St.readThrough, hw] at h
  | some en =>
    cases en with
    | file b' w st l =>
      have : b' = b := by simp [St.readThrough, hw] at h; exact h.1
      subst this
      cases hc : s.cache a with
      | none => exact ⟨a, _, carryOne_moves s p a m b' w st l hw hc, rfl⟩
      | some o => exact ⟨a, o, carryOne_keep s p a m a o hc, hnc b' n h o hc⟩
    | sym a' =>
      simp only [St.readThrough, hw] at h
      cases ho : s.cache a' with
      | none => simp [ho] at h
      | some o =>
        have : o.b = b := by simp [ho] at h; exact h.1
        exact ⟨a', o, carryOne_keep s p a m a' o ho, this⟩

theorem carryOne_noLoss (s : St) (p : Path) (a : Addr) (m : Method)
    (hnc : ∀ b n, s.readThrough p = some (b, n) → NoCollision s a b) : NoLoss s (s.carryOne p a m false).1 :=
  noLoss_of_frame p (carryOne_keep s p a m) (fun q hq => carryOne_ws_other s p q a m hq)
    (fun b n h => Or.inr (carryOne_target_kept s p a m hnc b n h))

/-- the same after a change of records only -/
theorem carryOne_noLoss' (s s1 : St) (p : Path) (a : Addr) (m : Method) (hws : s1.ws = s.ws) (hc : s1.cache = s.cache)
    (hnc : ∀ b n, s.readThrough p = some (b, n) → NoCollision s a b) : NoLoss s (s1.carryOne p a m false).1 := by
  refine (noLoss_of_eq hws hc).trans (carryOne_noLoss s1 p a m ?_)
  intro b n h o ho
  have h' : s.readThrough p = some (b, n) := by
    simpa [St.readThrough, hws, hc] using h
  exact hnc b n h' o (by rw [← hc]; exact ho)

/-- `recheck_from_cache` loses nothing when what can be read at the path is held by the cache -/
theorem recheckFromCache_noLoss (s : St) (p : Path) (a : Addr) (m : Method)
    (h : ∀ b n, s.readThrough p = some (b, n) → InCache s b) : NoLoss s (s.recheckFromCache p a m).1 := by
  have hc := recheckFromCache_cache s p a m
  have hk : CacheKeep s (s.recheckFromCache p a m).1 := fun a' o ho => by rw [hc]; exact ho
  refine noLoss_of_frame p hk (fun q hq => recheckFromCache_ws_other s p q a m hq) ?_
  intro b n hr
  obtain ⟨a', o, ho, hb⟩ := h b n hr
  exact Or.inr ⟨a', o, hk a' o ho, hb⟩

/-! ## per-target procedures -/

/-- `track p` is safe at `s`: an object that already sits at the address computed from `p`'s bytes
    holds those bytes (fails only for K1, two contents that differ in line endings) -/
def TrackSafeAt (c : Cfg) (o : TrackOpts) (s : St) (p : Path) : Prop :=
  ∀ b n, s.readThrough p = some (b, n) → NoCollision s (addrOf p (digestOf c.algo (o.tob.getD c.tob) b)) b

theorem trackOne_noLoss (c : Cfg) (o : TrackOpts) (hf : o.force = false) (s : St) (p : Path)
    (hs : TrackSafeAt c o s p) : NoLoss s (s.trackOne c o p).1 := by
  unfold St.trackOne
  cases hr : s.readThrough p with
  | none => exact NoLoss.refl s
  | some x =>
    obtain ⟨b, stamp⟩ := x
    simp only
    have hnc : ∀ b' n', s.readThrough p = some (b', n') →
        NoCollision s (addrOf p (digestOf c.algo (o.tob.getD c.tob) b)) b' := by
      intro b' n' h'
      rw [hr] at h'
      cases h'
      exact hs b stamp hr
    unfold St.trackFile
    simp only [hf]
    repeat' split
    all_goals first
      | exact NoLoss.refl s
      | exact noLoss_of_eq rfl rfl
      | exact carryOne_noLoss' s _ p _ _ rfl rfl hnc

/-- `carry-in p` is safe at `s`: an object that already sits at the address carry-in is going to use —
    the digest of the present bytes, or the recorded digest when the comparison says "unchanged" —
    holds the bytes readable at `p` (fails for K1 and when the metadata short-cut is unsound) -/
def CarrySafeAt (c : Cfg) (tob : Option Tob) (s : St) (p : Path) : Prop :=
  ∀ e r b n d, s.findEnt p = some e → s.recs e = some r → s.readThrough p = some (b, n) →
    (s.carryDiff c r (tob.getD c.tob) = .different d ∨ (s.carryDiff c r (tob.getD c.tob) = .same ∧ r.cur = some d)) →
    NoCollision s (addrOf p d) b

theorem carryInOne_noLoss (c : Cfg) (tob : Option Tob) (s : St) (p : Path) (hs : CarrySafeAt c tob s p) :
    NoLoss s (s.carryInOne c tob false p).1 := by
  unfold St.carryInOne
  cases hfe : s.findEnt p with
  | none => exact NoLoss.refl s
  | some e =>
    simp only
    cases hre : s.recs e with
    | none => exact NoLoss.refl s
    | some r =>
      simp only
      have hsafe := fun b n d => hs e r b n d hfe hre
      unfold St.carryInRec
      simp only
      split
      · exact noLoss_of_eq rfl rfl
      · cases hdd : s.carryDiff c r (tob.getD c.tob) with
        | actualMissing => exact NoLoss.refl s
        | different a =>
          simp only
          exact (carryOne_noLoss s p _ _ (fun b n h => hsafe b n a h (Or.inl hdd))).trans (noLoss_of_eq rfl rfl)
        | same =>
          cases hcur : r.cur with
          | none => exact NoLoss.refl s
          | some d =>
            simp only
            exact (carryOne_noLoss s p _ _ (fun b n h => hsafe b n d h (Or.inr ⟨hdd, hcur⟩))).trans (noLoss_of_eq rfl rfl)

/-- `recheck p` (no `--force`) is safe at `s`: when the comparison says "unchanged", the object of the
    recorded version holds the bytes readable at `p` -/
def RecheckSafeAt (c : Cfg) (s : St) (p : Path) : Prop :=
  ∀ e r b n d, s.findEnt p = some e → s.recs e = some r → s.readThrough p = some (b, n) →
    s.digestDiff c r r.tob = .same → r.cur = some d → NoCollision s (addrOf p d) b

theorem recheckOne_noLoss (c : Cfg) (m : Option Method) (s : St) (p : Path) (hs : RecheckSafeAt c s p) :
    NoLoss s (s.recheckOne c m false p).1 := by
  unfold St.recheckOne
  cases hfe : s.findEnt p with
  | none => exact NoLoss.refl s
  | some e =>
    simp only
    cases hre : s.recs e with
    | none => exact NoLoss.refl s
    | some r =>
      simp only
      obtain ⟨r0, hr0, hpath⟩ := findEnt_path hfe
      rw [hre] at hr0
      cases hr0
      unfold St.recheckRec
      simp only
      split
      · exact NoLoss.refl s
      · rename_i hact
        have hact' : s.recheckActs c r (m.getD r.method) false = true := by simpa using hact
        cases hcur : r.cur with
        | none => exact NoLoss.refl s
        | some d =>
          simp only
          split
          · rename_i hcache
            refine (noLoss_of_eq (s' := s.setRec e (some { r with method := m.getD r.method })) rfl rfl).trans ?_
            apply recheckFromCache_noLoss
            intro b n hrd
            have hrd' : s.readThrough p = some (b, n) := hrd
            -- the path is readable, so the comparison is not `actualMissing`; it acts, so it is not `different`
            have hsame : s.digestDiff c r r.tob = .same := by
              unfold St.recheckActs at hact'
              cases hdd : s.digestDiff c r r.tob with
              | same => rfl
              | actualMissing =>
                unfold St.digestDiff at hdd
                rw [hpath, hrd'] at hdd
                simp only at hdd
                split at hdd
                · cases hdd
                · split at hdd <;> cases hdd
              | different a => simp [hdd] at hact'
            cases ho : s.cache (addrOf p d) with
            | none =>
              have : (s.setRec e (some { r with method := m.getD r.method })).cache (addrOf p d) = s.cache (addrOf p d) := rfl
              rw [this, ho] at hcache
              simp at hcache
            | some ob => exact ⟨addrOf p d, ob, ho, hs e r b n d hfe hre hrd' hsame hcur ob ho⟩
          · exact noLoss_of_eq rfl rfl

/-! ## copy and move -/

theorem copy_noLoss (c : Cfg) (o : CopyOpts) (hf : o.force = false) (s : St) (src dst : Path) :
    NoLoss s (s.copy c o src dst).1 := by
  unfold St.copy
  cases hfe : s.findEnt src with
  | none => exact NoLoss.refl s
  | some se =>
    simp only
    cases hre : s.recs se with
    | none => exact NoLoss.refl s
    | some r =>
      simp only [hf]
      split
      · exact NoLoss.refl s
      · split
        · exact NoLoss.refl s
        · split
          · exact NoLoss.refl s
          · rename_i h1 h2
            -- the destination is neither tracked nor present in the workspace
            have hde : s.findEnt dst = none := by
              cases hd : s.findEnt dst with
              | none => rfl
              | some x => simp [hd] at h1
            have hwd : s.ws dst = none := by
              cases hw : s.ws dst with
              | none => rfl
              | some x => simp [hde, hw] at h2
            have key : ∀ s2 : St, s2.ws = s.ws → s2.cache = s.cache → ∀ a m, NoLoss s (s2.recheckFromCache dst a m).1 := by
              intro s2 h2w h2c a m
              refine (noLoss_of_eq h2w h2c).trans (recheckFromCache_noLoss s2 dst a m ?_)
              intro b n hr
              simp [St.readThrough, h2w, hwd] at hr
            simp only [hde, Option.isSome_none, Bool.false_eq_true, if_false]
            split
            · exact noLoss_of_eq rfl rfl
            · split
              · exact noLoss_of_eq rfl rfl
              · refine key _ ?_ ?_ _ _ <;> rfl

/-- removing a workspace entry whose bytes are held by the cache loses nothing -/
theorem setWs_none_noLoss (s : St) (p : Path) (h : ∀ b n, s.readThrough p = some (b, n) → InCache s b) :
    NoLoss s (s.setWs p none) := by
  refine noLoss_of_frame p (fun _ _ ho => ho) (fun q hq => by simp [St.setWs, upd_other _ _ hq]) ?_
  intro b n hr
  exact Or.inr (h b n hr)

/-- `move` (no `--force`): nothing is lost, where the bytes of the source may now be read at the destination -/
def NoLossMove (src dst : Path) (s s' : St) : Prop :=
  CacheKeep s s' ∧ ∀ q b n, s.readThrough q = some (b, n) →
    (∃ n', s'.readThrough q = some (b, n')) ∨ (q = src ∧ ∃ n', s'.readThrough dst = some (b, n')) ∨ InCache s' b

theorem NoLoss.toMove {s s' : St} (src dst : Path) (h : NoLoss s s') : NoLossMove src dst s s' :=
  ⟨h.1, fun q b n hr => match h.2 q b n hr with
    | Or.inl x => Or.inl x
    | Or.inr x => Or.inr (Or.inr x)⟩

theorem move_noLoss (c : Cfg) (o : CopyOpts) (hf : o.force = false) (s : St) (src dst : Path)
    (hs : RecheckSafeAt c s src) : NoLossMove src dst s (s.move c o src dst).1 := by
  unfold St.move
  cases hfe : s.findEnt src with
  | none => exact (NoLoss.refl s).toMove _ _
  | some se =>
    simp only
    cases hre : s.recs se with
    | none => exact (NoLoss.refl s).toMove _ _
    | some r =>
      obtain ⟨r0, hr0, hpath⟩ := findEnt_path hfe
      rw [hre] at hr0
      cases hr0
      simp only [hf]
      split
      · exact (NoLoss.refl s).toMove _ _
      · rename_i hsc
        split
        · exact (NoLoss.refl s).toMove _ _
        · rename_i hdt
          split
          · exact (NoLoss.refl s).toMove _ _
          · rename_i hdw
            have hwd : s.ws dst = none := by
              cases hw : s.ws dst with
              | none => rfl
              | some x => simp [hw] at hdw
            split
            · exact (NoLoss.refl s).toMove _ _
            · rename_i hblk
              -- when the source is readable and is not simply renamed, its bytes are in the cache
              have hsaved : ∀ b n, s.readThrough src = some (b, n) →
                  ((r.method = .copy) && (o.method.getD r.method = .copy) && !o.noRecheck) = false → InCache s b := by
                intro b n hrd hnr
                have hws : (s.ws src).isSome = true := by
                  cases hw : s.ws src with
                  | none => simp [St.readThrough, hw] at hrd
                  | some x => rfl
                have hb : s.moveBlocked r src (o.method.getD r.method) o.noRecheck = false := by simpa using hblk
                unfold St.moveBlocked at hb
                simp only [hws, hnr, Bool.not_false, Bool.true_and, Bool.not_eq_false'] at hb
                have hsame : s.digestDiff c r r.tob = .same := by
                  cases hdd : s.digestDiff c r r.tob with
                  | same => rfl
                  | actualMissing =>
                    unfold St.digestDiff at hdd
                    rw [hpath, hrd] at hdd
                    simp only at hdd
                    split at hdd
                    · cases hdd
                    · split at hdd <;> cases hdd
                  | different a => simp [St.sourceChanged, hdd] at hsc
                cases hcur : r.cur with
                | none => simp [hcur] at hb
                | some d =>
                  simp only [hcur] at hb
                  cases ho : s.cache (addrOf src d) with
                  | none => simp [ho] at hb
                  | some ob => exact ⟨_, ob, ho, hs se r b n d hfe hre hrd hsame hcur ob ho⟩
              generalize hs1 : s.setRec se (some { r with path := dst, method := o.method.getD r.method }) = s1
              have h1ws : s1.ws = s.ws := by rw [← hs1]; rfl
              have h1c : s1.cache = s.cache := by rw [← hs1]; rfl
              have h01 : NoLoss s s1 := noLoss_of_eq h1ws h1c
              have hrd1 : ∀ q, s1.readThrough q = s.readThrough q := by
                intro q; simp [St.readThrough, h1ws, h1c]
              have hin1 : ∀ b, InCache s b → InCache s1 b := fun b ⟨a, ob, ho, hb⟩ => ⟨a, ob, by rw [h1c]; exact ho, hb⟩
              split
              · rename_i hbc
                split
                · exact h01.toMove _ _
                · rename_i hne
                  split
                  · rename_i hnr
                    -- `--no-recheck`: the source file is deleted
                    split
                    · refine (h01.trans (setWs_none_noLoss s1 src ?_)).toMove _ _
                      intro b n hr
                      rw [hrd1] at hr
                      exact hin1 b (hsaved b n hr (by simp [hnr]))
                    · exact h01.toMove _ _
                  · -- `fs::rename`
                    split
                    · rename_i en hen
                      have hk : CacheKeep s ((s1.setWs src none).setWs dst (some en)) := fun a ob ho => by
                        show s1.cache a = some ob
                        rw [h1c]; exact ho
                      refine ⟨hk, ?_⟩
                      intro q b n hr
                      by_cases hq : q = src
                      · subst hq
                        refine Or.inr (Or.inl ⟨rfl, n, ?_⟩)
                        have hen' : s.ws q = some en := by rw [← h1ws]; exact hen
                        unfold St.readThrough at hr ⊢
                        have : ((s1.setWs q none).setWs dst (some en)).ws dst = some en := by simp [St.setWs]
                        rw [this]
                        rw [hen'] at hr
                        cases en with
                        | file b' w st l => exact hr
                        | sym a =>
                          simp only at hr ⊢
                          show Option.map _ (s1.cache a) = _
                          rw [h1c]; exact hr
                      · by_cases hq2 : q = dst
                        · subst hq2
                          simp [St.readThrough, hwd] at hr
                        · refine Or.inl ⟨n, readThrough_keep ?_ hk hr⟩
                          simp [St.setWs, upd_other _ _ hq, upd_other _ _ hq2, h1ws]
                    · exact h01.toMove _ _
              · rename_i hbc
                have hnb : ((r.method = .copy) && (o.method.getD r.method = .copy) && !o.noRecheck) = false := by
                  have : ((r.method = .copy) && (o.method.getD r.method = .copy)) = false := by simpa using hbc
                  simp [this]
                -- the source entry is removed, then the destination is materialised from the cache
                have h02 : NoLoss s (if (s1.ws src).isSome then s1.setWs src none else s1) := by
                  split
                  · refine h01.trans (setWs_none_noLoss s1 src ?_)
                    intro b n hr
                    rw [hrd1] at hr
                    exact hin1 b (hsaved b n hr hnb)
                  · exact h01
                -- the destination is not the source (it is not tracked) and is absent from the workspace
                have hne : dst ≠ src := by
                  intro h; subst h
                  simp [hfe] at hdt
                have h2d : (if (s1.ws src).isSome then s1.setWs src none else s1).ws dst = none := by
                  split
                  · simp [St.setWs, upd_other _ _ hne, h1ws, hwd]
                  · rw [h1ws]; exact hwd
                generalize (if (s1.ws src).isSome then s1.setWs src none else s1) = s2 at h02 h2d ⊢
                split
                · exact h02.toMove _ _
                · split
                  · exact h02.toMove _ _
                  · refine (h02.trans (recheckFromCache_noLoss s2 dst _ _ ?_)).toMove _ _
                    intro b n hr
                    simp [St.readThrough, h2d] at hr

/-! ## whole commands -/

theorem track_noLoss (c : Cfg) (o : TrackOpts) (hf : o.force = false) (s : St) (ps : List Path)
    (hs : forEachP (St.trackOne c o) (TrackSafeAt c o) s ps) : NoLoss s (s.track c o ps).1 :=
  forEach_rel_P NoLoss NoLoss.refl (fun _ _ _ => NoLoss.trans) _ _ (fun s p h => trackOne_noLoss c o hf s p h) s ps hs

theorem carryIn_noLoss (c : Cfg) (tob : Option Tob) (s : St) (ps : List Path)
    (hs : forEachP (St.carryInOne c tob false) (CarrySafeAt c tob) s ps) : NoLoss s (s.carryIn c tob false ps).1 :=
  forEach_rel_P NoLoss NoLoss.refl (fun _ _ _ => NoLoss.trans) _ _ (fun s p h => carryInOne_noLoss c tob s p h) s ps hs

theorem recheck_noLoss (c : Cfg) (m : Option Method) (s : St) (ps : List Path)
    (hs : forEachP (St.recheckOne c m false) (fun s p => RecheckSafeAt c s p) s ps) : NoLoss s (s.recheck c m false ps).1 :=
  forEach_rel_P NoLoss NoLoss.refl (fun _ _ _ => NoLoss.trans) _ _ (fun s p h => recheckOne_noLoss c m s p h) s ps hs

/-! ## `untrack`: what can be read in the workspace stays readable at its path -/

/-- whatever could be read at a workspace path can still be read there -/
def WsKeep (s s' : St) : Prop := ∀ q b n, s.readThrough q = some (b, n) → ∃ n', s'.readThrough q = some (b, n')

theorem WsKeep.refl (s : St) : WsKeep s s := fun _ _ n h => ⟨n, h⟩
theorem WsKeep.trans {s s' s'' : St} (h1 : WsKeep s s') (h2 : WsKeep s' s'') : WsKeep s s'' := by
  intro q b n h
  obtain ⟨n', h'⟩ := h1 q b n h
  exact h2 q b n' h'

theorem wsKeep_of_eq {s s' : St} (hws : s'.ws = s.ws) (hc : s'.cache = s.cache) : WsKeep s s' := by
  intro q b n h
  exact ⟨n, by simpa [St.readThrough, hws, hc] using h⟩

/-- replacing the entry at `p` by a copy of object `a` keeps the bytes when `p` read as that object's bytes -/
theorem recheckFromCache_copy_wsKeep (s : St) (p : Path) (a : Addr)
    (h : ∀ b n, s.readThrough p = some (b, n) → ∃ o, s.cache a = some o ∧ o.b = b) :
    WsKeep s (s.recheckFromCache p a .copy).1 := by
  intro q b n hr
  by_cases hq : q = p
  · subst hq
    obtain ⟨o, ho, hb⟩ := h b n hr
    refine ⟨s.clock, ?_⟩
    unfold St.recheckFromCache
    have hsome : (s.readThrough q).isSome = true := by simp [hr]
    simp only [hsome, if_true]
    have h1 : (s.setWs q none).ws q = none := by simp [St.setWs]
    have h2 : (s.setWs q none).cache a = some o := ho
    simp only [h1, h2]
    simp [St.readThrough, St.setWs, St.tick, hb]
  · have hk : CacheKeep s (s.recheckFromCache p a .copy).1 := fun a' o ho => by
      rw [recheckFromCache_cache]; exact ho
    exact ⟨n, readThrough_keep (recheckFromCache_ws_other s p q a .copy hq) hk hr⟩

/-- the link at the path of entity `e` is faithful: a symbolic link points at the object of the current
    version, and an entry that is a hard link of a cache object carries that object's bytes -/
def LinkOkAt (s : St) (e : Ent) : Prop :=
  ∀ r, s.recs e = some r →
    (∀ a' d, s.ws r.path = some (.sym a') → r.cur = some d → a' = addrOf r.path d) ∧
    (∀ b w st a, s.ws r.path = some (.file b w st (some a)) → ∃ o, s.cache a = some o ∧ o.b = b)

theorem selfCopy_wsKeep (s : St) (p : Path) : WsKeep s (s.selfCopy p) := by
  unfold St.selfCopy
  split
  · rename_i b st l hw
    intro q b' n hr
    by_cases hq : q = p
    · subst hq
      refine ⟨s.clock, ?_⟩
      have : b' = b := by simp [St.readThrough, hw] at hr; exact hr.1.symm
      subst this
      simp [St.readThrough, St.setWs, St.tick]
    · refine ⟨n, ?_⟩
      simpa [St.readThrough, St.setWs, St.tick, upd_other _ _ hq] using hr
  · exact WsKeep.refl s

theorem rematOne_wsKeep (s : St) (e : Ent) (h : LinkOkAt s e) : WsKeep s (s.rematOne e).1 := by
  unfold St.rematOne
  cases hre : s.recs e with
  | none => exact WsKeep.refl s
  | some r =>
    obtain ⟨hsym, hlink⟩ := h r hre
    simp only
    cases hw : s.ws r.path with
    | none =>
      cases hc : r.cur with
      | none => exact WsKeep.refl s
      | some d =>
        simp only
        apply recheckFromCache_copy_wsKeep
        intro b n hr
        simp [St.readThrough, hw] at hr
    | some en =>
      cases en with
      | sym a' =>
        cases hc : r.cur with
        | none => exact selfCopy_wsKeep s _
        | some d =>
          simp only
          apply recheckFromCache_copy_wsKeep
          intro b n hr
          have ha := hsym a' d hw hc
          subst ha
          simp only [St.readThrough, hw] at hr
          cases ho : s.cache (addrOf r.path d) with
          | none => simp [ho] at hr
          | some o => exact ⟨o, rfl, by simp [ho] at hr; exact hr.1⟩
      | file b w st l =>
        cases l with
        | none => cases r.cur <;> exact selfCopy_wsKeep s _
        | some a =>
          cases hc : r.cur with
          | none => exact selfCopy_wsKeep s _
          | some d =>
            simp only
            split
            · rename_i hcond
              apply recheckFromCache_copy_wsKeep
              intro b' n hr
              obtain ⟨o, ho, hb⟩ := hlink b w st a hw
              have : b' = b := by simp [St.readThrough, hw] at hr; exact hr.1.symm
              subst this
              rw [← hcond.2]
              exact ⟨o, ho, hb⟩
            · exact selfCopy_wsKeep s _

theorem rematerialise_wsKeep (s : St) (ts : List Ent) (h : forEachP St.rematOne LinkOkAt s ts) :
    WsKeep s (s.rematerialise ts).1 :=
  forEach_rel_P WsKeep WsKeep.refl (fun _ _ _ => WsKeep.trans) _ _ rematOne_wsKeep s ts h

/-- unlinking a cache object no workspace symlink points at keeps every readable workspace entry
    (hard links of it become independent files with the same bytes) -/
theorem removeObj_wsKeep (s : St) (a : Addr) (h : ∀ q, s.ws q ≠ some (.sym a)) : WsKeep s (s.removeObj a) := by
  unfold St.removeObj
  split
  · intro q b n hr
    refine ⟨n, ?_⟩
    unfold St.readThrough at hr ⊢
    cases hw : s.ws q with
    | none => simp [hw] at hr
    | some en =>
      cases en with
      | file b' w st l =>
        have : ((s.detach a).setCache a none).ws q = some (.file b' w st (match l with | some a' => if a' = a then none else some a' | none => none)) := by
          simp only [St.setCache, St.detach, hw]
          cases l with
          | none => rfl
          | some a' => by_cases ha : a' = a <;> simp [ha]
        rw [this]; simpa [hw] using hr
      | sym a' =>
        have hne : a' ≠ a := fun hc => h q (by rw [hw, hc])
        have : ((s.detach a).setCache a none).ws q = some (.sym a') := by simp [St.setCache, St.detach, hw]
        rw [this]
        simp only [hw] at hr ⊢
        show Option.map _ (upd s.cache a none a') = _
        rw [upd_other _ _ hne]; exact hr
  · exact WsKeep.refl s

theorem removeObj_ws_sym (s : St) (a : Addr) (q : Path) (a' : Addr) :
    (s.removeObj a).ws q = some (.sym a') ↔ s.ws q = some (.sym a') := by
  unfold St.removeObj
  split
  · simp only [St.setCache, St.detach]
    cases hw : s.ws q with
    | none => simp
    | some en =>
      cases en with
      | sym x => simp
      | file b w st l =>
        cases l with
        | none => simp
        | some x => by_cases hx : x = a <;> simp [hx]
  · rfl

theorem foldl_removeObj_wsKeep (l : List Addr) (s : St) (h : ∀ a ∈ l, ∀ q, s.ws q ≠ some (.sym a)) :
    WsKeep s (l.foldl St.removeObj s) := by
  induction l generalizing s with
  | nil => exact WsKeep.refl s
  | cons a l ih =>
    simp only [List.foldl_cons]
    refine (removeObj_wsKeep s a (h a (by simp))).trans (ih _ ?_)
    intro a' ha' q hq
    exact h a' (by simp [ha']) q ((removeObj_ws_sym s a q a').mp hq)

/-- **`untrack` keeps the workspace**: whatever could be read at a workspace path before — target or not,
    link or file — can be read there afterwards, provided the links of the targets are faithful when
    they are re-materialised and no workspace symlink that remains points at an object `untrack` deletes -/
theorem untrack_wsKeep (s : St) (ps : List Path)
    (h1 : forEachP St.rematOne LinkOkAt s (s.targetEnts ps))
    (h2 : ∀ a ∈ s.untrackDeletable (s.targetEnts ps), ∀ q, (s.rematerialise (s.targetEnts ps)).1.ws q ≠ some (.sym a)) :
    WsKeep s (s.untrack ps).1 := by
  have hk := rematerialise_wsKeep s (s.targetEnts ps) h1
  unfold St.untrack
  simp only
  generalize s.rematerialise (s.targetEnts ps) = res at hk h2
  obtain ⟨s1, o⟩ := res
  have key : WsKeep s ((s.untrackDeletable (s.targetEnts ps)).foldl St.removeObj (s1.dropRecs (s.targetEnts ps))) :=
    hk.trans ((wsKeep_of_eq (s' := s1.dropRecs (s.targetEnts ps)) rfl rfl).trans
      (foldl_removeObj_wsKeep _ _ (fun a ha q => h2 a ha q)))
  cases o <;> simp only
  · exact key
  · exact key
  · exact hk

end Repo
