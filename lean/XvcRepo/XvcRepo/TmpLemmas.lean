import XvcRepo.TmpName
/-! Helper lemmas for Props/C17Tmp.lean: commuting directory operations and schedules. -/
namespace XvcRepo.Tmp

variable {δ : Type} [DecidableEq δ]

/-- Two operations commute on every tree. -/
def Comm (o₁ o₂ : FsOp δ) : Prop := ∀ s : Tree δ, o₁.apply (o₂.apply s) = o₂.apply (o₁.apply s)

/-- The two operations touch no common entry. -/
def Apart (o₁ o₂ : FsOp δ) : Prop := ∀ e, e ∈ o₁.touches → e ∉ o₂.touches

theorem apply_untouched (o : FsOp δ) (s : Tree δ) (x : Entry δ) (h : x ∉ o.touches) : o.apply s x = s x := by
  cases o with
  | createNew e => simp [FsOp.touches] at h; simp [FsOp.apply, h]
  | unlink e => simp [FsOp.touches] at h; simp [FsOp.apply, h]
  | write e b => simp [FsOp.touches] at h; simp [FsOp.apply, h]
  | rename a b =>
    simp [FsOp.touches] at h
    simp only [FsOp.apply]
    cases s a with
    | none => rfl
    | some v => simp [h.1, h.2]

/-- What an operation leaves at the entries it touches depends on those entries only. -/
theorem apply_congr (o : FsOp δ) (s s' : Tree δ) (h : ∀ e ∈ o.touches, s e = s' e) (x : Entry δ)
    (hx : x ∈ o.touches) : o.apply s x = o.apply s' x := by
  cases o with
  | createNew e =>
    simp [FsOp.touches] at hx
    have he : s e = s' e := h e (by simp [FsOp.touches])
    simp [FsOp.apply, hx, he]
  | unlink e => simp [FsOp.touches] at hx; simp [FsOp.apply, hx]
  | write e b => simp [FsOp.touches] at hx; simp [FsOp.apply, hx]
  | rename a b =>
    have ha : s a = s' a := h a (by simp [FsOp.touches])
    have hxx : s x = s' x := h x hx
    simp only [FsOp.apply, ← ha]
    cases s a with
    | none => exact hxx
    | some v =>
      simp only []
      by_cases hxb : x = b
      · simp [hxb]
      · by_cases hxa : x = a
        · simp [hxa]
        · simp [hxa, hxb, hxx]

theorem comm_of_apart (o₁ o₂ : FsOp δ) (h : Apart o₁ o₂) : Comm o₁ o₂ := by
  intro s
  funext x
  by_cases h1 : x ∈ o₁.touches
  · have h2 : x ∉ o₂.touches := h x h1
    rw [apply_untouched o₂ _ x h2]
    exact apply_congr o₁ _ _ (fun e he => apply_untouched o₂ s e (h e he)) x h1
  · rw [apply_untouched o₁ _ x h1]
    by_cases h2 : x ∈ o₂.touches
    · exact (apply_congr o₂ _ _ (fun e he => apply_untouched o₁ s e (fun he1 => h e he1 he)) x h2).symm
    · rw [apply_untouched o₂ _ x h2, apply_untouched o₂ _ x h2, apply_untouched o₁ _ x h1]

theorem run_nil (s : Tree δ) : run ([] : List (FsOp δ)) s = s := rfl
theorem run_cons (o : FsOp δ) (os : List (FsOp δ)) (s : Tree δ) : run (o :: os) s = run os (o.apply s) := rfl

theorem run_comm_one (xs : List (FsOp δ)) (y : FsOp δ) (h : ∀ x ∈ xs, Comm x y) (s : Tree δ) :
    run xs (y.apply s) = y.apply (run xs s) := by
  induction xs generalizing s with
  | nil => rfl
  | cons x xs ih =>
    rw [run_cons, run_cons, h x (by simp) s]
    exact ih (fun x' hx' => h x' (by simp [hx'])) _

theorem interleave_run {xs ys zs : List (FsOp δ)} (hi : Interleave xs ys zs)
    (hc : ∀ x ∈ xs, ∀ y ∈ ys, Comm x y) (s : Tree δ) : run zs s = run ys (run xs s) := by
  induction hi generalizing s with
  | nil => rfl
  | left _ ih =>
    rw [run_cons, run_cons]
    exact ih (fun x hx y hy => hc x (by simp [hx]) y hy) _
  | @right y xs ys zs _ ih =>
    rw [run_cons, run_cons, ih (fun x hx y' hy' => hc x hx y' (by simp [hy'])) _]
    rw [run_comm_one xs y (fun x hx => hc x hx y (by simp)) s]

end XvcRepo.Tmp

namespace XvcRepo.Tmp
variable {δ : Type} [DecidableEq δ]

theorem run_append (as bs : List (FsOp δ)) (s : Tree δ) : run (as ++ bs) s = run bs (run as s) := by
  simp [run, List.foldl_append]

theorem Comm.symm {o₁ o₂ : FsOp δ} (h : Comm o₁ o₂) : Comm o₂ o₁ := fun s => (h s).symm

/-- moving an operation that commutes with everything before it to the front -/
theorem run_hoist (as bs : List (FsOp δ)) (x : FsOp δ) (h : ∀ a ∈ as, Comm a x) (s : Tree δ) :
    run (as ++ x :: bs) s = run (as ++ bs) (x.apply s) := by
  rw [run_append, run_cons, run_append, run_comm_one as x h s]

/-- `zs` is a schedule of any number of threads: repeatedly some thread executes its next operation. -/
inductive Schedule {α : Type} : List (List α) → List α → Prop
  | done {ts : List (List α)} : (∀ t ∈ ts, t = []) → Schedule ts []
  | step {pre post : List (List α)} {x : α} {t zs : List α} :
      Schedule (pre ++ t :: post) zs → Schedule (pre ++ (x :: t) :: post) (x :: zs)

/-- operations of different threads commute -/
def ThreadsComm (ts : List (List (FsOp δ))) : Prop :=
  ts.Pairwise (fun t u => ∀ x ∈ t, ∀ y ∈ u, Comm x y)

theorem flatten_all_nil {α : Type} (ts : List (List α)) (h : ∀ t ∈ ts, t = []) : ts.flatten = [] := by
  induction ts with
  | nil => rfl
  | cons t ts ih =>
    simp only [List.flatten_cons]
    rw [h t (by simp), ih (fun u hu => h u (by simp [hu]))]; rfl

theorem threadsComm_drop_head {pre post : List (List (FsOp δ))} {x : FsOp δ} {t : List (FsOp δ)}
    (h : ThreadsComm (pre ++ (x :: t) :: post)) : ThreadsComm (pre ++ t :: post) := by
  unfold ThreadsComm at *
  rw [List.pairwise_append] at h ⊢
  obtain ⟨h1, h2, h3⟩ := h
  rw [List.pairwise_cons] at h2
  refine ⟨h1, ?_, ?_⟩
  · rw [List.pairwise_cons]
    exact ⟨fun u hu a ha y hy => h2.1 u hu a (by simp [ha]) y hy, h2.2⟩
  · intro u hu v hv a ha y hy
    rcases List.mem_cons.mp hv with hv | hv
    · subst hv
      exact h3 u hu (x :: v) (by simp) a ha y (by simp [hy])
    · exact h3 u hu v (by simp [hv]) a ha y hy

theorem threadsComm_head_comm {pre post : List (List (FsOp δ))} {x : FsOp δ} {t : List (FsOp δ)}
    (h : ThreadsComm (pre ++ (x :: t) :: post)) : ∀ a ∈ pre.flatten, Comm a x := by
  unfold ThreadsComm at h
  rw [List.pairwise_append] at h
  intro a ha
  obtain ⟨u, hu, hau⟩ := List.mem_flatten.mp ha
  exact h.2.2 u hu (x :: t) (by simp) a hau x (by simp)

/-- Any schedule of threads whose operations commute across threads ends in the state of running the threads one
    after the other. -/
theorem schedule_run {ts : List (List (FsOp δ))} {zs : List (FsOp δ)} (hs : Schedule ts zs)
    (hc : ThreadsComm ts) (s : Tree δ) : run zs s = run ts.flatten s := by
  induction hs generalizing s with
  | done h => rw [flatten_all_nil _ h]
  | @step pre post x t zs _ ih =>
    rw [run_cons, ih (threadsComm_drop_head hc)]
    have := run_hoist pre.flatten (t ++ post.flatten) x (threadsComm_head_comm hc) s
    simp only [List.flatten_append, List.flatten_cons, List.cons_append] at this ⊢
    exact this.symm

end XvcRepo.Tmp
