/-
  Executable model of the `xvc file` commands (`/repo/file/src/{track,carry_in,recheck,copy,mv,remove,
  untrack}/mod.rs`, `file/src/common/{mod,compare}.rs`, `core/src/types/{diff,xvcpath}.rs`).

  Core only (no imports), so the driver links as a `lean_exe`.
  State components are functions (`Path → Option Entry`, …) with monotone ghost key lists next to
  them so that the driver can enumerate and print states (DESIGN.md Appendix D).

  Hash functions are modelled as *perfect*: the digest of a byte string under algorithm `a` is the
  pair `(a, hashed bytes)` where the hashed bytes are the content with CR and LF removed when the
  file is treated as text (`XvcDigest::from_text_file`) and the content itself otherwise.  Collision
  freedom of BLAKE3/BLAKE2s/SHA2/SHA3 is therefore an assumption of every theorem (trusted base).
-/
namespace Repo

/-- A workspace path.  Only its identity and its extension matter to the commands modelled here, so it
    is a pair of numbers (the driver interns path strings and extensions); this keeps every concrete
    witness kernel-decidable. -/
structure Path where
  id : Nat
  ext : Nat          -- interned extension; `0` = no extension
  deriving DecidableEq, Repr

abbrev Bytes := List Nat
abbrev Ent := Nat

inductive Method where | copy | symlink | hardlink | reflink
  deriving DecidableEq, Repr, Inhabited

inductive Tob where | auto | text | binary
  deriving DecidableEq, Repr, Inhabited

/-- `content.retain(|c| !(*c == 0x0D || *c == 0x0A))` in `XvcDigest::from_text_file`. -/
def strip : Bytes → Bytes
  | [] => []
  | x :: b => if x = 10 ∨ x = 13 then strip b else x :: strip b

/-- `is_text_file`: no NUL among the first 8000 bytes (empty files are text). -/
def isText (b : Bytes) : Bool := !((b.take 8000).contains 0)

/-- the `match text_or_binary` of `ContentDigest::new`. -/
def asText (t : Tob) (b : Bytes) : Bool :=
  match t with
  | .auto => isText b
  | .text => true
  | .binary => false

structure Digest where
  algo : Nat
  hash : Bytes
  deriving DecidableEq, Repr

/-- `ContentDigest::new(path, algorithm, text_or_binary)` with a perfect hash. -/
def digestOf (algo : Nat) (t : Tob) (b : Bytes) : Digest :=
  ⟨algo, if asText t b then strip b else b⟩

/-- `XvcCachePath::new(xvc_path, digest)`: algorithm prefix / digest split 3-3-58 / `0.<ext>`. -/
structure Addr where
  d : Digest
  ext : Nat
  deriving DecidableEq, Repr

/-- extension of a path (what `XvcCachePath::new` takes from the path) -/
def ext (p : Path) : Nat := p.ext

def addrOf (p : Path) (d : Digest) : Addr := ⟨d, ext p⟩

/-- A workspace entry.  `file b w stamp link`: regular file with bytes `b`, user-write bit `w`,
    modification stamp, and `link = some a` when it is a hard link of cache object `a`.
    `sym a`: symbolic link to cache object `a`. -/
inductive Entry where
  | file (b : Bytes) (w : Bool) (stamp : Nat) (link : Option Addr)
  | sym (a : Addr)
  deriving DecidableEq, Repr

/-- A cache object: bytes, read-only bit of the file, modification stamp (kept by `rename`). -/
structure Obj where
  b : Bytes
  ro : Bool
  stamp : Nat
  deriving DecidableEq, Repr

/-- recorded `XvcMetadata` of a path, reduced to what decisions depend on -/
inductive MetaRec where
  | stamp (n : Nat)     -- a regular file with this modification stamp (size follows from content)
  | missing             -- `XvcFileType::Missing`
  deriving DecidableEq, Repr

/-- the five records xvc keeps for one file entity -/
structure Rec where
  path : Path
  md : MetaRec
  digests : List Digest          -- all `Add` events of the content-digest store, oldest first
  method : Method
  tob : Tob
  deriving DecidableEq, Repr

def Rec.cur (r : Rec) : Option Digest := r.digests.getLast?

structure Cfg where
  algo : Nat := 0
  method : Method := .copy
  tob : Tob := .auto
  deriving Repr

/-- function update -/
def upd {α β : Type} [DecidableEq α] (f : α → β) (a : α) (b : β) : α → β :=
  fun x => if x = a then b else f x

structure St where
  ws : Path → Option Entry
  cache : Addr → Option Obj           -- objects by ADDRESS (digest + extension): a digest directory that exists on disk
                                      -- without the file `0.<ext>` - empty, or holding the digest under another
                                      -- extension only - is no object of that address (`move_to_cache` tests the file)
  dirRo : Digest → Bool               -- read-only bit of the object's directory (`…/<58 hex>/`)
  recs : Ent → Option Rec
  next : Ent                          -- entity counter
  clock : Nat                         -- source of fresh modification stamps
  -- ghost key lists (monotone): every key that ever was in `ws` / `cache`
  paths : List Path
  addrs : List Addr

def St.init : St :=
  { ws := fun _ => none, cache := fun _ => none, dirRo := fun _ => true, recs := fun _ => none,
    next := 1, clock := 1, paths := [], addrs := [] }

inductive Out where
  | ok
  | refused       -- the command reported an error and did (part of) nothing
  | panic         -- the process panicked (rc 101)
  deriving DecidableEq, Repr

/-! ## file system helpers -/

/-- bytes and stamp seen when reading *through* the entry (`fs::read`, `metadata()` follow links) -/
def St.readThrough (s : St) (p : Path) : Option (Bytes × Nat) :=
  match s.ws p with
  | some (.file b _ st _) => some (b, st)
  | some (.sym a) => (s.cache a).map (fun o => (o.b, o.stamp))
  | none => none

def St.setWs (s : St) (p : Path) (e : Option Entry) : St :=
  { s with ws := upd s.ws p e, paths := if p ∈ s.paths then s.paths else s.paths ++ [p] }

def St.setCache (s : St) (a : Addr) (o : Option Obj) : St :=
  { s with cache := upd s.cache a o, addrs := if a ∈ s.addrs then s.addrs else s.addrs ++ [a] }

def St.tick (s : St) : St := { s with clock := s.clock + 1 }

/-- one record written (all five stores of the entity at once) -/
def St.setRec (s : St) (e : Ent) (r : Option Rec) : St := { s with recs := upd s.recs e r }

/-- `xvc_root.new_entity()` -/
def St.bumpNext (s : St) : St := { s with next := s.next + 1 }

/-- entity recorded for path `p` (`entity_by_value` on the path store) -/
def St.findEnt (s : St) (p : Path) : Option Ent :=
  (List.range s.next).find? (fun e => match s.recs e with | some r => r.path = p | none => false)

/-- all tracked file entities -/
def St.ents (s : St) : List Ent := (List.range s.next).filter (fun e => (s.recs e).isSome)

/-! ## user actions -/

/-- the user replaces (or creates) a file: unlink + create with fresh modification time -/
def St.userWrite (s : St) (p : Path) (b : Bytes) : St :=
  (s.setWs p (some (.file b true s.clock none))).tick

def St.userDelete (s : St) (p : Path) : St := s.setWs p none

/-! ## `recheck_from_cache` and `move_to_cache` -/

/-- `recheck_from_cache` (`file/src/common/mod.rs`): remove what is at the path (`exists()` follows
    links, so a dangling symlink stays — then `fs::copy`/`link`/`symlink` fail), then materialise. -/
def St.recheckFromCache (s : St) (p : Path) (a : Addr) (m : Method) : St × Out :=
  let s := if (s.readThrough p).isSome then s.setWs p none else s
  match s.ws p with
  | some _ => (s, .panic)                               -- dangling symlink left in place
  | none =>
    match s.cache a, m with
    | _, .symlink => (s.setWs p (some (.sym a)), .ok)   -- `symlink()` does not need the object to exist
    | none, _ => (s, .panic)                            -- `fs::copy`/`hard_link` fail; `uwr!` panics
    | some o, .hardlink => (s.setWs p (some (.file o.b false o.stamp (some a))), .ok)
    | some o, _ => ((s.setWs p (some (.file o.b true s.clock none))).tick, .ok)

/-- A symbolic link is not content: `move_to_cache` carries the bytes it points to (repair F31).  In the model the
    link is first replaced by an independent file with those bytes (`fs::copy(path, temp)` follows the link; the new
    object gets a fresh modification time); a dangling link stays (the copy fails, nothing changed). -/
def St.deref (s : St) (p : Path) : St :=
  match s.ws p with
  | some (.sym a') =>
    match s.cache a' with
    | some o => (s.setWs p (some (.file o.b true s.clock none))).tick
    | none => s
  | _ => s

/-- `move_to_cache`: mkdir, directory writable, `rename` (for a link: copy of the bytes it points to, then
    unlink), file read-only, directory read-only. -/
def St.moveToCache (s : St) (p : Path) (a : Addr) : St × Out :=
  let s := s.deref p
  match s.ws p with
  | some (.file b _ st _) =>
    let s := (s.setWs p none).setCache a (some ⟨b, true, st⟩)
    ({ s with dirRo := upd s.dirRo a.d true }, .ok)
  | some (.sym _) => (s, .panic)                        -- dangling link: `fs::copy` fails, nothing changed
  | none => (s, .panic)

/-- unlinking a cache object (`XvcCachePath::remove`; on unix the file's mode is left alone, a `chmod`
    would act on the inode and so on every other hard link of it): every workspace hard link of the
    object becomes an independent regular file, still read-only -/
def St.detach (s : St) (a : Addr) : St :=
  { s with ws := fun p => match s.ws p with
      | some (.file b w st (some a')) => if a' = a then some (.file b w st none) else some (.file b w st (some a'))
      | e => e }

/-- the closure `copy_path_to_cache_and_recheck` of `carry_in` for one entity, when the path is not a link to the
    object at the address itself -/
def St.carryOneMove (s : St) (p : Path) (a : Addr) (m : Method) (force : Bool) : St × Out :=
  let (s, o1) :=
    if (s.cache a).isSome then
      if force then
        let s := { (s.detach a).setCache a none with dirRo := upd s.dirRo a.d false }
        s.moveToCache p a
      else (s, .ok)                                                   -- `[EXISTS]`
    else s.moveToCache p a
  match o1 with
  | .ok =>
    let s := if (s.readThrough p).isSome then s.setWs p none else s   -- `if target_path.exists() remove_file`
    s.recheckFromCache p a m
  | o => (s, o)

/-- the path is a symbolic link to the cached copy at `a` itself (`links_to_cached_copy`, repair F31) -/
def St.linksTo (s : St) (p : Path) (a : Addr) : Bool :=
  (match s.ws p with | some (.sym a') => decide (a' = a) | _ => false) && (s.cache a).isSome

/-- the path is a hard link of the cached copy at `a` itself (the same inode under two names) -/
def St.hardLinkOf (s : St) (p : Path) (a : Addr) : Bool :=
  (match s.ws p with | some (.file _ _ _ (some a')) => decide (a' = a) | _ => false) && (s.cache a).isSome

/-- the closure `copy_path_to_cache_and_recheck` of `carry_in` for one entity: a link to the cached copy itself is
    only re-materialised, also with `--force` (there is nothing to replace; removing the object would remove the
    content) -/
def St.carryOne (s : St) (p : Path) (a : Addr) (m : Method) (force : Bool) : St × Out :=
  if s.linksTo p a then
    (s.setWs p none).recheckFromCache p a m
  else if force && s.hardLinkOf p a then
    -- `--force` on a HARD link of the cached copy: the cached copy is unlinked and the link is renamed onto its address.
    -- It is the same inode: the object - and every other hard link of it - is what it was; the path is re-materialised.
    ({ s.setWs p none with dirRo := upd s.dirRo a.d true }).recheckFromCache p a m
  else s.carryOneMove p a m force

/-! ## `track` -/

structure TrackOpts where
  method : Option Method := none
  tob : Option Tob := none
  noCommit : Bool := false
  force : Bool := false
  deriving Repr

/-- the records written for a path tracked for the first time -/
def newRec (p : Path) (stamp : Nat) (actual : Digest) (m : Method) (t : Tob) : Rec :=
  { path := p, md := .stamp stamp, digests := [actual], method := m, tob := t }

/-- the records of an already tracked path after `track` saw changed metadata -/
def updRec (r : Rec) (stamp : Nat) (actual : Digest) (m : Method) (t : Tob) : Rec :=
  { r with md := .stamp stamp, method := m, tob := t,
           digests := if r.cur ≠ some actual then r.digests ++ [actual] else r.digests }

/-- `cmd_track` for one explicit file target that reads as bytes `b` with modification stamp `stamp`. -/
def St.trackFile (c : Cfg) (o : TrackOpts) (s : St) (p : Path) (b : Bytes) (stamp : Nat) : St × Out :=
  let reqM := o.method.getD c.method          -- `update_from_conf`: CLI or the configured default
  let reqT := o.tob.getD c.tob
  let actual := digestOf c.algo reqT b
  match s.findEnt p with
  | none =>
    -- path, metadata, method, tob and digest diffs are all `RecordMissing`
    let s1 := (s.setRec s.next (some (newRec p stamp actual reqM reqT))).bumpNext
    if o.noCommit then (s1, .ok) else s1.carryOne p (addrOf p actual) reqM o.force
  | some e =>
    match s.recs e with
    | none => (s, .ok)
    | some r =>
      if r.md = .stamp stamp then (s, .ok)            -- nothing changed: every diff is `Skipped`
      else
        let s1 := s.setRec e (some (updRec r stamp actual reqM reqT))
        if o.noCommit || !(decide (r.cur ≠ some actual)) then (s1, .ok)
        else s1.carryOne p (addrOf p actual) reqM o.force

/-- `cmd_track` restricted to one explicit file target (targets come from disk: a target that is not
    readable there is silently skipped). -/
def St.trackOne (c : Cfg) (o : TrackOpts) (s : St) (p : Path) : St × Out :=
  match s.readThrough p with
  | none => (s, .ok)
  | some (b, stamp) => s.trackFile c o p b stamp

/-- run a per-target procedure over a target list; the first panic ends the process -/
def forEach {α : Type} (f : St → α → St × Out) : St → List α → St × Out
  | s, [] => (s, .ok)
  | s, x :: xs =>
    match f s x with
    | (s', .panic) => (s', .panic)
    | (s', _) => forEach f s' xs

def St.track (c : Cfg) (o : TrackOpts) (s : St) (ps : List Path) : St × Out :=
  forEach (St.trackOne c o) s ps

/-! ## `carry-in` -/

inductive DDiff where      -- `Diff<ContentDigest>` as far as the commands look at it
  | same                   -- `Identical` or `Skipped`
  | actualMissing
  | different (actual : Digest)
  deriving DecidableEq, Repr

/-- `diff_file_content_digest` for a recorded entity: metadata short-cut, then hashing with `t`. -/
def St.digestDiff (c : Cfg) (s : St) (r : Rec) (t : Tob) : DDiff :=
  match s.readThrough r.path with
  | none => if r.md = .missing then .same else .actualMissing
  | some (b, stamp) =>
    if r.md = .stamp stamp then .same
    else if r.cur = some (digestOf c.algo t b) then .same else .different (digestOf c.algo t b)

/-- the comparison `carry-in` makes, with the requested mode `t`: the digest depends on the mode, so
    when `t` differs from the recorded mode the file is hashed even if its metadata is unchanged (since
    the repair of `cmd_carry_in`; before it the metadata short-cut applied here too and the new mode
    was recorded next to the old digest) -/
def St.carryDiff (c : Cfg) (s : St) (r : Rec) (t : Tob) : DDiff :=
  if r.tob = t then s.digestDiff c r t
  else
    match s.readThrough r.path with
    | none => if r.md = .missing then .same else .actualMissing
    | some (b, _) => if r.cur = some (digestOf c.algo t b) then .same else .different (digestOf c.algo t b)

def St.actualMeta (s : St) (p : Path) : MetaRec :=
  match s.readThrough p with
  | some (_, stamp) => .stamp stamp
  | none => .missing

/-- `cmd_carry_in` for one tracked target with record `r` at entity `e` (`tob` is the CLI option or
    the configured default — never the stored one). -/
def St.carryInRec (c : Cfg) (tob : Option Tob) (force : Bool) (s : St) (p : Path) (e : Ent) (r : Rec) : St × Out :=
  let reqT := tob.getD c.tob
  let dd := s.carryDiff c r reqT
  let tobChanged := r.tob ≠ reqT
  let toCarry := force || dd ≠ .same || tobChanged
  let r' : Rec := { r with md := s.actualMeta p, tob := reqT,
                           digests := match dd with
                             | .different a => r.digests ++ [a]
                             | _ => r.digests }
  if !toCarry then (s.setRec e (some r'), .ok)
  else
    match dd, r.cur with
    | .actualMissing, _ => (s, .panic)             -- dropped from the address map: length assertion
    | .different a, _ =>
      (((s.carryOne p (addrOf p a) r.method force).1).setRec e (some r'), (s.carryOne p (addrOf p a) r.method force).2)
    | .same, some d =>
      (((s.carryOne p (addrOf p d) r.method force).1).setRec e (some r'), (s.carryOne p (addrOf p d) r.method force).2)
    | .same, none => (s, .panic)

def St.carryInOne (c : Cfg) (tob : Option Tob) (force : Bool) (s : St) (p : Path) : St × Out :=
  match s.findEnt p with
  | none => (s, .ok)                                   -- not in the store: not a target
  | some e =>
    match s.recs e with
    | none => (s, .ok)
    | some r => s.carryInRec c tob force p e r

def St.carryIn (c : Cfg) (tob : Option Tob) (force : Bool) (s : St) (ps : List Path) : St × Out :=
  forEach (St.carryInOne c tob force) s ps

/-! ## `recheck` -/

/-- does `recheck` act on the entity?  `--force`, or a changed method on a file that has no
    uncommitted changes (`recheck_method_targets` after the `retain`), or a file missing on disk -/
def St.recheckActs (c : Cfg) (s : St) (r : Rec) (eff : Method) (force : Bool) : Bool :=
  force ||
  (decide (eff ≠ r.method) && (match s.digestDiff c r r.tob with | .different _ => false | _ => true)) ||
  decide (s.digestDiff c r r.tob = .actualMissing)

/-- `cmd_recheck` for one tracked target with record `r` (after the F1 repair: the digest store is
    never touched). -/
def St.recheckRec (c : Cfg) (m : Option Method) (force : Bool) (s : St) (p : Path) (e : Ent) (r : Rec) : St × Out :=
  let eff := m.getD r.method                     -- requested, else stored (`diff_recheck_method`)
  if !(s.recheckActs c r eff force) then
    (s, if eff ≠ r.method then .refused else .ok)   -- "has changed on disk": reported, nothing done
  else
    match r.cur with
    | none => (s, .panic)
    | some d =>
      let s1 := s.setRec e (some { r with method := eff })
      if (s1.cache (addrOf p d)).isSome then s1.recheckFromCache p (addrOf p d) eff
      else (s1, .refused)                          -- "cannot found in cache"

def St.recheckOne (c : Cfg) (m : Option Method) (force : Bool) (s : St) (p : Path) : St × Out :=
  match s.findEnt p with
  | none => (s, .ok)
  | some e =>
    match s.recs e with
    | none => (s, .ok)
    | some r => s.recheckRec c m force p e r

def St.recheck (c : Cfg) (m : Option Method) (force : Bool) (s : St) (ps : List Path) : St × Out :=
  forEach (St.recheckOne c m force) s ps

/-! ## `remove --from-cache` and `untrack` -/

/-- `cache_paths_for_xvc_paths`: every `Add` event of the entity's digest log, addressed with the
    extension of the path the record is attached to *now*. -/
def St.versionsOf (s : St) (e : Ent) : List Addr :=
  match s.recs e with
  | some r => r.digests.map (addrOf r.path)
  | none => []

/-- entities (other than the targets) that refer to address `a` in any version -/
def St.otherReferrers (s : St) (targets : List Ent) (a : Addr) : List Ent :=
  s.ents.filter (fun e => e ∉ targets ∧ a ∈ s.versionsOf e)

/-- `XvcCachePath::remove`: directory and file writable, unlink, directory read-only again when
    another extension still lives in it, empty directories pruned. -/
def St.removeObj (s : St) (a : Addr) : St :=
  if (s.cache a).isSome then (s.detach a).setCache a none else s

def St.targetEnts (s : St) (ps : List Path) : List Ent := ps.filterMap s.findEnt

/-- which versions of the targets `xvc file remove` is about: the current one (default), all
    (`--all-versions`) or the one whose digest starts with the given prefix (`--only-version`; digests are
    perfect hashes in the model, so a prefix designates one digest) -/
inductive RemoveSel where
  | current
  | all
  | only (d : Digest)
  deriving DecidableEq, Repr

/-- `candidate_paths` of `cmd_remove`, one entry per (target entity, version) pair -/
def St.removeCandidates (s : St) (ts : List Ent) (sel : RemoveSel) : List Addr :=
  ts.flatMap (fun e =>
    match sel with
    | .all => s.versionsOf e
    | .current =>
      match s.recs e with
      | some r => (r.cur.map (addrOf r.path)).toList
      | none => []
    | .only d => (s.versionsOf e).filter (fun a => a.d = d))

def RemoveSel.isOnly : RemoveSel → Bool
  | .only _ => true
  | _ => false

/-- `deletable_paths` of `cmd_remove`: the candidates no entity outside the targets refers to (all of
    them with `--force`).  `none`: "Version prefix is not unique" — more than one (entity, version) pair
    matches `--only-version` — the command fails before doing anything. -/
def St.removeDeletable (s : St) (ps : List Path) (sel : RemoveSel) (force : Bool) : Option (List Addr) :=
  let ts := s.targetEnts ps
  let cands := s.removeCandidates ts sel
  if sel.isOnly && decide (1 < cands.length) then none
  else some (cands.filter (fun a => force || (s.otherReferrers ts a).isEmpty))

/-- `cmd_remove --from-cache`. -/
def St.remove (s : St) (ps : List Path) (sel : RemoveSel) (force : Bool) : St × Out :=
  match s.removeDeletable ps sel force with
  | none => (s, .refused)
  | some l => (l.foldl St.removeObj s, .ok)

/-- a read-only regular file that is no link of the current object (e.g. a hard link whose object was
    removed from the cache before) is replaced by a writable copy of itself -/
def St.selfCopy (s : St) (p : Path) : St :=
  match s.ws p with
  | some (.file b false _ _) => (s.setWs p (some (.file b true s.clock none))).tick
  | _ => s

/-- `untrack`, first phase: re-materialise as copies the entries that are links into the cache:
    symlinks, and files recorded as hard links that still are the cache object's inode
    (`is_same_file`; a file the user put in its place is left alone); a target that is missing from the
    workspace is restored from the cache as well (`all_content_digests[xe]` panics when nothing was
    ever committed for it) -/
def St.rematOne (s : St) (e : Ent) : St × Out :=
  match s.recs e with
  | some r =>
    match s.ws r.path, r.cur with
    | some (.sym _), some d => s.recheckFromCache r.path (addrOf r.path d) .copy
    | some (.file _ _ _ (some a)), some d =>
      if r.method = .hardlink ∧ a = addrOf r.path d then s.recheckFromCache r.path (addrOf r.path d) .copy
      else (s.selfCopy r.path, .ok)
    | none, some d => s.recheckFromCache r.path (addrOf r.path d) .copy
    | none, none => (s, .panic)
    | _, _ => (s.selfCopy r.path, .ok)
  | none => (s, .ok)

def St.rematerialise (s : St) (ts : List Ent) : St × Out := forEach St.rematOne s ts

/-- the five records of the target entities are removed -/
def St.dropRecs (s : St) (ts : List Ent) : St := { s with recs := fun e => if e ∈ ts then none else s.recs e }

/-- objects `untrack` may delete: every version of a target that no other tracked entity refers to -/
def St.untrackDeletable (s : St) (ts : List Ent) : List Addr :=
  (ts.flatMap s.versionsOf).filter (fun a => (s.otherReferrers ts a).isEmpty)

/-- `cmd_untrack`. -/
def St.untrack (s : St) (ps : List Path) : St × Out :=
  let ts := s.targetEnts ps
  match s.rematerialise ts with
  | (s1, .panic) => (s1, .panic)
  | (s1, _) => ((s.untrackDeletable ts).foldl St.removeObj (s1.dropRecs ts), .ok)

/-- what `untrack --restore-versions DIR` copies out: one file per target path and recorded version,
    `DIR/<parent of the path>/<stem>-<address prefix>.<ext>` -/
def St.restoreItems (s : St) (ts : List Ent) : List (Path × Addr) :=
  ts.flatMap (fun e =>
    match s.recs e with
    | some r => r.digests.map (fun d => (r.path, addrOf r.path d))
    | none => [])

/-- the copy loop of `untrack --restore-versions DIR`: the versions of the targets are copied out one
    after the other (`fs::copy(cache object, destination)`).  `blocked` lists the copies that fail for
    a reason outside xvc (something in the way at the destination name, name too long, disk full …); a
    version whose object is not in the cache fails too.  The first failure aborts the whole command
    (`uwr!`).  Result: what was written, and whether every copy succeeded. -/
def St.restoreCopies (s : St) (blocked : List (Path × Addr)) : List (Path × Addr) → List (Path × Addr × Bytes) × Bool
  | [] => ([], true)
  | x :: xs =>
    match s.cache x.2 with
    | none => ([], false)
    | some o =>
      if x ∈ blocked then ([], false)
      else ((x.1, x.2, o.b) :: (s.restoreCopies blocked xs).1, (s.restoreCopies blocked xs).2)

/-- `cmd_untrack` with `--restore-versions`: links are re-materialised, every recorded version of every
    target is written out, and only then records and objects are removed, exactly as in `untrack`. -/
def St.untrackRestore (s : St) (ps : List Path) (blocked : List (Path × Addr)) :
    (St × Out) × List (Path × Addr × Bytes) :=
  let ts := s.targetEnts ps
  match s.rematerialise ts with
  | (s1, .panic) => ((s1, .panic), [])
  | (s1, _) =>
    match s1.restoreCopies blocked (s.restoreItems ts) with
    | (w, false) => ((s1, .panic), w)
    | (w, true) => (((s.untrackDeletable ts).foldl St.removeObj (s1.dropRecs ts), .ok), w)

/-! ## `copy` and `move` (single file source, file destination, from the root) -/

structure CopyOpts where
  method : Option Method := none
  noRecheck : Bool := false
  force : Bool := false
  deriving Repr

/-- `check_if_sources_have_changed`: digest diff with the stored tob is `Different`. -/
def St.sourceChanged (c : Cfg) (s : St) (r : Rec) : Bool :=
  match s.digestDiff c r r.tob with
  | .different _ => true
  | _ => false

/-- `cmd_copy`. -/
def St.copy (c : Cfg) (o : CopyOpts) (s : St) (src dst : Path) : St × Out :=
  match s.findEnt src with
  | none => (s, .panic)                                -- no source matched: `keys().next().unwrap()`
  | some se =>
    match s.recs se with
    | none => (s, .ok)
    | some r =>
      if s.sourceChanged c r then (s, .refused)
      else
        let destEnt := s.findEnt dst
        if destEnt.isSome && !o.force then (s, .refused)
        else if destEnt.isNone && (s.ws dst).isSome && !o.force then (s, .refused)   -- F10 repair
        else
          let de := destEnt.getD s.next
          let m := o.method.getD r.method
          let r' : Rec := match destEnt.bind s.recs with
            | some old => { old with md := r.md, tob := r.tob, method := m,
                                     digests := old.digests ++ r.cur.toList }
            | none => { path := dst, md := r.md, digests := r.cur.toList, method := m, tob := r.tob }
          let s := if destEnt.isSome then s.setRec de (some r') else (s.setRec de (some r')).bumpNext
          if o.noRecheck then (s, .ok)
          else
            match r.cur with
            | none => (s, .panic)
            | some d => s.recheckFromCache dst (addrOf dst d) m

/-- `move` deletes the source file unless it is renamed (copy → copy with recheck): it refuses when a
    source file is present whose content is not in the cache -/
def St.moveBlocked (s : St) (r : Rec) (src : Path) (m : Method) (noRecheck : Bool) : Bool :=
  (s.ws src).isSome && !((r.method = .copy) && (m = .copy) && !noRecheck) &&
  !(match r.cur with
    | some d => (s.cache (addrOf src d)).isSome
    | none => false)

/-- `cmd_move`. -/
def St.move (c : Cfg) (o : CopyOpts) (s : St) (src dst : Path) : St × Out :=
  match s.findEnt src with
  | none => (s, .panic)                                -- no source matched: `keys().next().unwrap()`
  | some se =>
    match s.recs se with
    | none => (s, .ok)
    | some r =>
      if s.sourceChanged c r then (s, .refused)
      else if (s.findEnt dst).isSome then (s, .refused)
      else if (s.ws dst).isSome && !o.force then (s, .refused)                        -- F10 repair
      else
        let m := o.method.getD r.method
        let bothCopy := (r.method = .copy) && (m = .copy)
        if s.moveBlocked r src m o.noRecheck then (s, .refused)
        else
        let s := s.setRec se (some { r with path := dst, method := m })
        if bothCopy then
          if src = dst then (s, .ok)
          else if o.noRecheck then
            match s.ws src with
            | some _ => (s.setWs src none, .ok)
            | none => (s, .refused)                     -- `fs::remove_file` fails (K9)
          else
            match s.ws src with
            | some en => ((s.setWs src none).setWs dst (some en), .ok)      -- `fs::rename`
            | none => (s, .refused)                     -- `fs::rename` fails: half-done move (K9)
        else
          let s := if (s.ws src).isSome then s.setWs src none else s      -- `symlink_metadata().is_ok()`
          if o.noRecheck then (s, .ok)
          else
            match r.cur with
            | none => (s, .panic)
            | some d => s.recheckFromCache dst (addrOf dst d) m

/-! ## commands -/

inductive Cmd where
  | write (p : Path) (b : Bytes)
  | delete (p : Path)
  | track (ps : List Path) (o : TrackOpts)
  | carryIn (ps : List Path) (tob : Option Tob) (force : Bool)
  | recheck (ps : List Path) (m : Option Method) (force : Bool)
  | remove (ps : List Path) (sel : RemoveSel) (force : Bool)
  | untrack (ps : List Path)
  | untrackRestore (ps : List Path) (blocked : List (Path × Addr))
  | copy (src dst : Path) (o : CopyOpts)
  | move (src dst : Path) (o : CopyOpts)
  deriving Repr

def St.step (c : Cfg) (s : St) : Cmd → St × Out
  | .write p b => (s.userWrite p b, .ok)
  | .delete p => (s.userDelete p, .ok)
  | .track ps o => s.track c o ps
  | .carryIn ps t f => s.carryIn c t f ps
  | .recheck ps m f => s.recheck c m f ps
  | .remove ps a f => s.remove ps a f
  | .untrack ps => s.untrack ps
  | .untrackRestore ps bl => (s.untrackRestore ps bl).1
  | .copy a b o => s.copy c o a b
  | .move a b o => s.move c o a b

def St.run (c : Cfg) (s : St) (cs : List Cmd) : St := cs.foldl (fun s cmd => (s.step c cmd).1) s

end Repo
