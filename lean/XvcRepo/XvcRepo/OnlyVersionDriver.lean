import XvcRepo.OnlyVersion
/-!
  Driver side of `XvcRepo/OnlyVersion.lean`: strings to character codes, the answer line of the `onlyver` command,
  the spelling table of the `removepfx` command.  Core only.
-/
namespace Repo

def codes (s : String) : List Nat := s.toList.map Char.toNat

/-- `onlyver <algorithm identifier> <version string> <hex digest>…`: which of the digests the string names, and what
    `cmd_remove` does with that -/
def onlyverAnswer (algo version : String) (hexes : List String) : String :=
  let sel := selectIdx (codes algo) (codes version) (hexes.map codes)
  let v := match verdict sel with
    | .nothing => "nothing"
    | .one i => s!"one:{i}"
    | .ambiguous => "ambiguous"
  s!"sel=[{",".intercalate (sel.map toString)}] verdict={v}"

/-- hex spelling of the recorded digests, as told by the harness (the model's hashes have no spelling) -/
def hexOfTable (tbl : List (Digest × List Nat)) (d : Digest) : List Nat :=
  match tbl.find? (fun x => x.1 == d) with
  | some x => x.2
  | none => []

end Repo
