import XvcRepo.Model
/-!
  An I/O fault at the move into the cache (`move_to_cache` returns an error: a non-directory in the way
  of `create_dir_all`, a cache directory the user cannot write, a full or read-only cache file system).

  The model of the commands has no I/O errors.  What it can say about this fault — and what the tie
  compares (`blocked` lines of the driver, `cache_blocked` of `lib/repo_harness.py`) — is the exit class:
  every object enters the cache through `moveToCache`, so a command stores (or replaces) an object at an
  address exactly when it calls `moveToCache` for it; when that call fails the per-file closure of
  `carry_in` stops with the failure (`| o => (s, o)` in `St.carryOneMove`; `uwr!` in the code: the
  process panics) — it does not go on to `if target_path.exists() { remove_file }`.
  Theorems: `C03_failed_move_keeps_file`, `C03_blocked_command_not_ok` (Props/C03.lean).

  Core only (imported by the driver).
-/
namespace Repo

/-- the hashes a content can be addressed by: of the bytes as they are (binary) and without CR/LF (text) -/
def blockedHashes (bs : List Bytes) : List Bytes := bs.flatMap (fun b => [b, strip b])

/-- going from `s` to `s'` an object was stored (or replaced) at an address whose digest is one of `hs` -/
def St.storesAt (s s' : St) (hs : List Bytes) : Bool :=
  s'.addrs.any (fun a => hs.contains a.d.hash && (s'.cache a).isSome && decide (s'.cache a ≠ s.cache a))

/-- a command while nothing can be moved to the addresses of the digests `hs`: if the command would
    store an object there, its move into the cache fails and the process ends with that failure (the
    partially written records are not part of the comparison); otherwise the fault is not met. -/
def St.stepBlocked (c : Cfg) (hs : List Bytes) (s : St) (cmd : Cmd) : St × Out :=
  if s.storesAt (s.step c cmd).1 hs then (s, .panic) else s.step c cmd

end Repo
