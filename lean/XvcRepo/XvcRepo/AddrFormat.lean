import XvcRepo.Gen.Addr
/-!
  The on-disk form of a cache address (`XvcDigest::cache_dir`, `XvcCachePath::new`), over the constants
  regenerated from the Rust source (`Gen/Addr.lean`): prefix / first `split1` hex digits / next `split2`
  / the rest / `0.<ext>`.
-/
namespace Repo

/-- components of `<prefix>/<hex[..s1]>/<hex[s1..s1+s2]>/<hex[s1+s2..]>/0.<ext>` -/
def formatAddr (pfx hex ext : List Nat) : List (List Nat) :=
  [pfx, hex.take Gen.split1, (hex.drop Gen.split1).take Gen.split2, (hex.drop Gen.split1).drop Gen.split2,
   Gen.fileStemCodes ++ ext]

def parseAddr : List (List Nat) → Option (List Nat × List Nat × List Nat)
  | [pfx, a, b, c, f] =>
    if f.take Gen.fileStemCodes.length = Gen.fileStemCodes then some (pfx, a ++ b ++ c, f.drop Gen.fileStemCodes.length) else none
  | _ => none

end Repo
