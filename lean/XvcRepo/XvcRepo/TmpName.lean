/-
  The temporary entry through which `copy_to_workspace` (file/src/common/mod.rs; repairs F21 and F29) writes a
  workspace copy: `.xvc/tmp/<pid>-<counter>`, created exclusively (`create_new`), filled from the object, renamed to
  the path.  The counter is a process-wide `AtomicUsize` (`fetch_add`), so every copy of one command gets its own
  temporary entry, and the entry lives in xvc's own directory: no file name of the workspace is reserved.

  `track`, `carry-in` and `recheck --no-parallel` run the per-file procedure of several targets on rayon threads at the
  same time.  The repository model runs the targets one after the other (`forEach`); that is only faithful when the
  per-file procedures of two different targets touch different directory entries.  This file states the footprint of
  the copy step and Props/C17Tmp.lean proves that the footprints of different targets are disjoint and that therefore
  every schedule ends in the state of the sequential run.

  File contents and workspace file names are byte strings (`List Nat`, one element per byte).
-/
namespace XvcRepo.Tmp

abbrev Name := List Nat

/-- A directory entry: a workspace path (directory in any representation, file name), or a temporary entry of xvc's
    own directory `.xvc/tmp`, named by process id and counter value. -/
inductive Entry (δ : Type) where
  | ws  (dir : δ) (name : Name)
  | tmp (pid k : Nat)
  deriving DecidableEq, Repr

def Entry.isWs {δ : Type} : Entry δ → Bool
  | .ws _ _ => true
  | .tmp _ _ => false

/-- how the code spells the temporary entry (`format!("{}-{}", pid, counter)`); used by the driver only -/
def render (pid k : Nat) : String := s!"{pid}-{k}"

/-- The directory entries the copy step creates, replaces or removes for a path. -/
def footprint {δ : Type} (pid k : Nat) (p : Entry δ) : List (Entry δ) := [p, .tmp pid k]

/-! ### The copy step as directory operations, and schedules of several copies -/

inductive FsOp (δ : Type) where
  | createNew (e : Entry δ)            -- `OpenOptions::create_new`: an empty file, only if no entry is there
  | unlink (e : Entry δ)               -- `remove_file` if the entry exists
  | write  (e : Entry δ) (b : Name)    -- `fs::copy(object, e)`: creates or truncates `e`
  | rename (a b : Entry δ)             -- `fs::rename(a, b)`; fails (no effect) when `a` does not exist

/-- A directory tree as far as this model needs it: entry ↦ bytes. -/
abbrev Tree (δ : Type) := Entry δ → Option Name

def FsOp.touches {δ : Type} : FsOp δ → List (Entry δ)
  | .createNew e => [e]
  | .unlink e => [e]
  | .write e _ => [e]
  | .rename a b => [a, b]

def FsOp.apply {δ : Type} [DecidableEq δ] (o : FsOp δ) (s : Tree δ) : Tree δ :=
  match o with
  | .createNew e => fun x => if x = e then (match s e with | none => some [] | some v => some v) else s x
  | .unlink e => fun x => if x = e then none else s x
  | .write e b => fun x => if x = e then some b else s x
  | .rename a b =>
    match s a with
    | none => s
    | some v => fun x => if x = b then some v else if x = a then none else s x

def run {δ : Type} [DecidableEq δ] (ops : List (FsOp δ)) (s : Tree δ) : Tree δ :=
  ops.foldl (fun s o => o.apply s) s

/-- What `copy_to_workspace` does for the path `p` with the object bytes `b`, as the `k`-th copy of process `pid`.
    (`set_writable` changes the mode of the temporary entry; modes are not part of this small model.  When
    `create_new` fails the real procedure stops with an error, see `copyGuarded`; in the schedules below the
    temporary entries are fresh.) -/
def copyProc {δ : Type} (pid k : Nat) (p : Entry δ) (b : Name) : List (FsOp δ) :=
  [.createNew (.tmp pid k), .write (.tmp pid k) b, .rename (.tmp pid k) p]

/-- The whole procedure with its guard: when the temporary entry exists already, nothing is touched and the copy
    fails; otherwise the three operations run. -/
def copyGuarded {δ : Type} [DecidableEq δ] (pid k : Nat) (p : Entry δ) (b : Name) (s : Tree δ) : Option (Tree δ) :=
  match s (.tmp pid k) with
  | some _ => none
  | none => some (run (copyProc pid k p b) s)

/-! Two schemes that are NOT the code, kept for the negative witnesses: the temporary entry next to the path, removed
    first when it exists (the code before repair F29), with the name `.<name>.xvc-tmp` or — seeded change C17-3 —
    `path.with_extension("xvc-tmp")`. -/

/-- `.` -/
def dot : Nat := 46

/-- the bytes of `.xvc-tmp` -/
def suffix : Name := [46, 120, 118, 99, 45, 116, 109, 112]

/-- `format!(".{}.xvc-tmp", name)` -/
def siblingTmpName (n : Name) : Name := dot :: (n ++ suffix)

/-- index-free `file_stem`: the bytes before the last dot; a name without a dot, or whose only dot is the first byte,
    is its own stem (Rust `Path::file_stem`). -/
def stem (n : Name) : Name :=
  match n with
  | [] => []
  | c :: r =>
    let rr := r.reverse
    match rr.dropWhile (· != dot) with
    | [] => n                                  -- no dot after the first byte
    | _ :: beforeDotRev => c :: beforeDotRev.reverse

def tmpNameWithExtension (n : Name) : Name := stem n ++ suffix

/-- the copy step before F29 with a given naming of the sibling temporary entry -/
def copyProcSibling {δ : Type} (naming : Name → Name) (dir : δ) (name : Name) (b : Name) : List (FsOp δ) :=
  [.unlink (.ws dir (naming name)), .write (.ws dir (naming name)) b, .rename (.ws dir (naming name)) (.ws dir name)]

/-- `zs` is a schedule of the two threads `xs` and `ys`: each thread's operations in its own order. -/
inductive Interleave {α : Type} : List α → List α → List α → Prop
  | nil : Interleave [] [] []
  | left  {x xs ys zs} : Interleave xs ys zs → Interleave (x :: xs) ys (x :: zs)
  | right {y xs ys zs} : Interleave xs ys zs → Interleave xs (y :: ys) (y :: zs)

end XvcRepo.Tmp
