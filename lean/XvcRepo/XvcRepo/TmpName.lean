/-
  The temporary name under which `copy_file` (file/src/common/mod.rs) writes a workspace copy before renaming it to
  the path (repair F21): `path.with_file_name(format!(".{}.xvc-tmp", file_name))`.

  `track`, `carry-in` and `recheck --no-parallel` run the per-file procedure of several targets on rayon threads at the
  same time.  The repository model runs the targets one after the other (`forEach`); that is only faithful when the
  per-file procedures of two different targets touch different directory entries.  The entries `copy_file` touches for a
  path `(dir, name)` are `(dir, name)` itself and `(dir, tmpName name)`.  This file states that footprint and proves that
  the footprints of two different paths are disjoint (Props/C17Tmp.lean), under the one reservation the scheme makes:
  no target's own name has the shape of a temporary name.

  Names are byte strings (`List Nat`, one element per byte), the same representation the driver reads in hex.
-/
namespace XvcRepo.Tmp

abbrev Name := List Nat

/-- `.` -/
def dot : Nat := 46

/-- the bytes of `.xvc-tmp` -/
def suffix : Name := [46, 120, 118, 99, 45, 116, 109, 112]

/-- `format!(".{}.xvc-tmp", name)` -/
def tmpName (n : Name) : Name := dot :: (n ++ suffix)

/-- A workspace path: directory (any representation) and file name. -/
structure WPath (δ : Type) where
  dir  : δ
  name : Name
  deriving DecidableEq, Repr

/-- `path.with_file_name(tmpName name)` -/
def tmpPath {δ : Type} (p : WPath δ) : WPath δ := { dir := p.dir, name := tmpName p.name }

/-- The name has the shape of a temporary name (the reserved shape). -/
def IsTmp (n : Name) : Prop := ∃ m, n = tmpName m

/-- decidable version of `IsTmp`, used by the driver and the examples -/
def isTmpB (n : Name) : Bool :=
  match n with
  | [] => false
  | c :: r => c == dot && suffix.length ≤ r.length && r.drop (r.length - suffix.length) == suffix

/-- The directory entries `copy_file` creates, replaces or removes for a path. -/
def footprint {δ : Type} (p : WPath δ) : List (WPath δ) := [p, tmpPath p]

/-! A variant that is NOT the code: `path.with_extension("xvc-tmp")` (the last extension is replaced).  It is here for
    the negative witness only (seeded change C17-3). -/

/-- index-free `file_stem`: the bytes before the last dot; a name without a dot, or whose only dot is the first byte,
    is its own stem (Rust `Path::file_stem`). -/
def stem (n : Name) : Name :=
  match n with
  | [] => []
  | c :: r =>
    let rr := r.reverse
    match rr.dropWhile (· != dot) with
    | [] => n                                  -- no dot after the first byte
    | _ :: beforeDotRev => c :: beforeDotRev.reverse

def tmpNameWithExtension (n : Name) : Name := stem n ++ suffix

end XvcRepo.Tmp

/-! ### The copy step as directory operations, and schedules of two copies

    `copy_file` for a path `p` with object bytes `b`: remove a stale temporary entry, copy the object to the temporary
    entry, rename it to the path.  (`set_writable` changes the mode of the temporary entry; modes are not part of this
    small model.) -/
namespace XvcRepo.Tmp

inductive FsOp (δ : Type) where
  | unlink (e : WPath δ)                 -- `remove_file` if the entry exists
  | write  (e : WPath δ) (b : Name)      -- `fs::copy(cache_path, e)`: creates or truncates `e`
  | rename (a b : WPath δ)               -- `fs::rename(a, b)`; fails (no effect) when `a` does not exist

/-- A directory tree as far as this model needs it: entry ↦ bytes. -/
abbrev Tree (δ : Type) := WPath δ → Option Name

def FsOp.touches {δ : Type} : FsOp δ → List (WPath δ)
  | .unlink e => [e]
  | .write e _ => [e]
  | .rename a b => [a, b]

def FsOp.apply {δ : Type} [DecidableEq δ] (o : FsOp δ) (s : Tree δ) : Tree δ :=
  match o with
  | .unlink e => fun x => if x = e then none else s x
  | .write e b => fun x => if x = e then some b else s x
  | .rename a b =>
    match s a with
    | none => s
    | some v => fun x => if x = b then some v else if x = a then none else s x

def run {δ : Type} [DecidableEq δ] (ops : List (FsOp δ)) (s : Tree δ) : Tree δ :=
  ops.foldl (fun s o => o.apply s) s

/-- what `copy_file` does -/
def copyProc {δ : Type} (p : WPath δ) (b : Name) : List (FsOp δ) :=
  [.unlink (tmpPath p), .write (tmpPath p) b, .rename (tmpPath p) p]

/-- the same with the `with_extension` temporary name (not the code) -/
def copyProcWithExtension {δ : Type} (p : WPath δ) (b : Name) : List (FsOp δ) :=
  let t : WPath δ := { dir := p.dir, name := tmpNameWithExtension p.name }
  [.unlink t, .write t b, .rename t p]

/-- `zs` is a schedule of the two threads `xs` and `ys`: each thread's operations in its own order. -/
inductive Interleave {α : Type} : List α → List α → List α → Prop
  | nil : Interleave [] [] []
  | left  {x xs ys zs} : Interleave xs ys zs → Interleave (x :: xs) ys (x :: zs)
  | right {y xs ys zs} : Interleave xs ys zs → Interleave xs (y :: ys) (y :: zs)

end XvcRepo.Tmp
