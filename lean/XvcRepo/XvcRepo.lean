import XvcRepo.Model
import XvcRepo.Lemmas
import XvcRepo.Cache
import XvcRepo.Props.C02
import XvcRepo.Props.C17
import XvcRepo.Props.C01
