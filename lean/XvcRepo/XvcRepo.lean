import XvcRepo.Model
