import XvcRepo.TmpName
/-! Line-protocol driver for the temporary-name model (lib/c17.py, stream `tmp-name`).
    `tmpname <hex of the file name bytes>` answers the hex of `tmpName`; `istmp <hex>` answers 0/1. -/
open XvcRepo.Tmp

def hexVal (c : Char) : Option Nat :=
  if '0' ≤ c ∧ c ≤ '9' then some (c.toNat - '0'.toNat)
  else if 'a' ≤ c ∧ c ≤ 'f' then some (c.toNat - 'a'.toNat + 10)
  else none

def unhex : List Char → Option (List Nat)
  | [] => some []
  | a :: b :: r => do
    let x ← hexVal a; let y ← hexVal b; let t ← unhex r
    pure ((16 * x + y) :: t)
  | _ => none

def hexDigit (n : Nat) : Char := if n < 10 then Char.ofNat (48 + n) else Char.ofNat (87 + n)
def hex (l : List Nat) : String := String.ofList (l.flatMap (fun b => [hexDigit (b / 16), hexDigit (b % 16)]))

def answer (line : String) : String :=
  match line.trimAscii.toString.splitOn " " with
  | ["tmpname", h] => match unhex h.toList with
    | some n => hex (tmpName n)
    | none => "bad-op"
  | ["istmp", h] => match unhex h.toList with
    | some n => if isTmpB n then "1" else "0"
    | none => "bad-op"
  | ["tmpname"] => hex (tmpName [])
  | _ => "bad-op"

partial def loop (h : IO.FS.Stream) (out : IO.FS.Stream) : IO Unit := do
  let line ← h.getLine
  if line.isEmpty then return ()
  out.putStrLn (answer line)
  loop h out

def main : IO Unit := do
  loop (← IO.getStdin) (← IO.getStdout)
