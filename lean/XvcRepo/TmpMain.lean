import XvcRepo.TmpName
/-! Line-protocol driver for the temporary-entry model (lib/c17.py, stream `tmp-name`).
    `tmpentry <pid> <k>` answers the spelling of the temporary entry of the `k`-th copy of process `pid` below
    `.xvc/tmp/`; `alloc <pid> <k0> <n>` answers the entries a command with `n` copies uses, in counter order. -/
open XvcRepo.Tmp

def answer (line : String) : String :=
  match line.trimAscii.toString.splitOn " " with
  | ["tmpentry", p, k] => match p.toNat?, k.toNat? with
    | some p, some k => render p k
    | _, _ => "bad-op"
  | ["alloc", p, k0, n] => match p.toNat?, k0.toNat?, n.toNat? with
    | some p, some k0, some n => " ".intercalate ((List.range n).map (fun i => render p (k0 + i)))
    | _, _, _ => "bad-op"
  | _ => "bad-op"

partial def loop (h : IO.FS.Stream) (out : IO.FS.Stream) : IO Unit := do
  let line ← h.getLine
  if line.isEmpty then return ()
  out.putStrLn (answer line)
  loop h out

def main : IO Unit := do
  loop (← IO.getStdin) (← IO.getStdout)
