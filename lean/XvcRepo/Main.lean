import XvcRepo.Model
import XvcRepo.Storage
import XvcRepo.CopyMany
import XvcRepo.OnlyVersionDriver
import XvcRepo.UserLink
import XvcRepo.Fault
/-!
  Line-protocol driver for the repository model (`repomodel`).  One tab-separated command per line,
  one canonical abstraction of the resulting state per line.  `lib/repo_harness.py` sends the same
  command history to the rebuilt `xvc` binary and computes the same abstraction from the real
  repository; the two are diffed.
-/
open Repo

def fp (b : Bytes) : String :=
  let (acc, _) := b.foldl (fun (p : Nat × Nat) x => ((p.1 + (p.2 + 1) * (x + 1)) % 1000000007, p.2 + 1)) (0, 0)
  s!"{b.length}.{acc}"

def hexVal (c : Char) : Nat :=
  if c.isDigit then c.toNat - '0'.toNat else if 'a' ≤ c ∧ c ≤ 'f' then c.toNat - 'a'.toNat + 10 else 0

def parseHex (s : String) : Bytes :=
  let rec go : List Char → Bytes
    | a :: b :: rest => (hexVal a * 16 + hexVal b) :: go rest
    | _ => []
  go s.toList

def parseMethod : String → Option Method
  | "copy" => some .copy | "symlink" => some .symlink | "hardlink" => some .hardlink | "reflink" => some .reflink
  | _ => none

def parseTob : String → Option Tob
  | "auto" => some .auto | "text" => some .text | "binary" => some .binary | _ => none

def showMethod : Method → String
  | .copy => "copy" | .symlink => "symlink" | .hardlink => "hardlink" | .reflink => "reflink"

def showTob : Tob → String
  | .auto => "auto" | .text => "text" | .binary => "binary"

def showDigest (d : Digest) : String := s!"{d.algo}:{fp d.hash}"

/-- interning tables of the driver: path strings and extensions -/
structure Tab where
  paths : Array String := #[]
  exts : Array String := #[""]

def extStr (p : String) : String :=
  let file := (p.splitOn "/").getLast!
  match (file.splitOn ".").reverse with
  | e :: _ :: _ => if file.startsWith "." && (file.splitOn ".").length = 2 then "" else e
  | _ => ""

def Tab.internExt (t : Tab) (e : String) : Tab × Nat :=
  match t.exts.idxOf? e with
  | some i => (t, i)
  | none => ({ t with exts := t.exts.push e }, t.exts.size)

def Tab.intern (t : Tab) (p : String) : Tab × Path :=
  let (t, ei) := t.internExt (extStr p)
  match t.paths.idxOf? p with
  | some i => (t, ⟨i, ei⟩)
  | none => ({ t with paths := t.paths.push p }, ⟨t.paths.size, ei⟩)

def Tab.interns (t : Tab) : List String → Tab × List Path
  | [] => (t, [])
  | p :: ps => let (t, x) := t.intern p; let (t, xs) := t.interns ps; (t, x :: xs)

def Tab.path (t : Tab) (p : Path) : String := t.paths.getD p.id "?"
def showAddr (t : Tab) (a : Addr) : String := s!"{showDigest a.d}:{t.exts.getD a.ext "?"}"

def showEntry (t : Tab) : Entry → String
  | .file b w _ l => s!"file:{fp b}:{if w then "w" else "r"}:{match l with | some a => showAddr t a | none => "-"}"
  | .sym a => s!"sym:{showAddr t a}"

def insSorted (x : String) : List String → List String
  | [] => [x]
  | y :: ys => if x < y then x :: y :: ys else y :: insSorted x ys
def sortStrs (l : List String) : List String := l.foldr insSorted []

def showState (t : Tab) (s : St) : String :=
  let ws := s.paths.filterMap (fun p => (s.ws p).map (fun e => s!"{t.path p}={showEntry t e}"))
  let cache := s.addrs.filterMap (fun a => (s.cache a).map (fun o =>
    s!"{showAddr t a}={fp o.b}:{if o.ro then "ro" else "rw"}:{if s.dirRo a.d then "dro" else "drw"}"))
  let recs := s.ents.filterMap (fun e => (s.recs e).map (fun r =>
    s!"{t.path r.path}={match r.cur with | some d => showDigest d | none => "-"}:[{",".intercalate (r.digests.map showDigest)}]:{showMethod r.method}:{showTob r.tob}"))
  s!"ws=\{{";".intercalate (sortStrs ws)}} cache=\{{";".intercalate (sortStrs cache)}} rec=\{{";".intercalate (sortStrs recs)}}"

def showOut : Out → String | .ok => "ok" | .refused => "refused" | .panic => "panic"

def b01 (s : String) : Bool := s == "1"

/-- `XvcPath::join` / `join_file_name` on path strings: the destination of one source under the destination
    argument `dest` (`out/` + `d/a.txt` = `out/d/a.txt`; with `--name-only` `out/a.txt`); a destination that is
    not a directory is taken as it is -/
def manyDest (dest : String) (nameOnly : Bool) (src : String) : String :=
  if dest.endsWith "/" then dest ++ (if nameOnly then (src.splitOn "/").getLast! else src) else dest

/-- `destination.strip_suffix('/')` -/
def dirOf (dest : String) : String := "/".intercalate ((dest.splitOn "/").dropLast)

structure D where
  cfg : Cfg := {}
  st : St := St.init
  tab : Tab := {}
  -- C06: other repository slots, the storage and the keys ever written to it
  slots : List (String × St) := []
  cur : String := "A"
  storage : Storage := { objs := fun _ => none }
  skeys : List (Guid × Addr) := []
  -- I/O fault of the current command (`blocked` lines): hashes whose cache addresses cannot be written
  blocked : List Bytes := []

def exec (d : D) (cmd : Cmd) : D × String :=
  let (s, o) := if d.blocked.isEmpty then d.st.step d.cfg cmd else d.st.stepBlocked d.cfg d.blocked cmd
  ({ d with st := s }, s!"rc={showOut o} {showState d.tab s}")

def stepLineCore (d : D) (line : String) : D × String :=
  match (line.dropEndWhile (· == '\n')).toString.splitOn "\t" with
  | ["cfg", a, m, t] =>
    match a.toNat?, parseMethod m, parseTob t with
    | some a, some m, some t => ({ d with cfg := { algo := a, method := m, tob := t } }, "ok")
    | _, _, _ => (d, "bad-op")
  | ["write", p, h] => let (t, p) := d.tab.intern p; exec { d with tab := t } (.write p (parseHex h))
  -- a rewrite with other bytes of the same size whose mtime stays in the same whole second as the recorded one (only the
  -- nanoseconds differ): for the model an edit like any other, it gets a new modification stamp
  | ["writess", p, h] => let (t, p) := d.tab.intern p; exec { d with tab := t } (.write p (parseHex h))
  -- an EMPTY digest directory `.xvc/<algo>/<3>/<3>/<58>/` for the bytes at the path (left by a command that failed or was
  -- killed between mkdir and rename): an empty directory is not an object, the state is what it was
  | ["emptydir", _] => (d, s!"rc=ok {showState d.tab d.st}")
  | ["delete", p] => let (t, p) := d.tab.intern p; exec { d with tab := t } (.delete p)
  -- the user writes the symbolic link at the path again with ANOTHER SPELLING of the same target (relative, through a second
  -- name of the repository directory, through an intermediate link, with a `/./` component): the model's `Entry.sym a` is what
  -- the link resolves to, so the state is what it was (XvcRepo/Props/C04Resolve.lean)
  | "relink" :: _ => (d, s!"rc=ok {showState d.tab d.st}")
  | "track" :: m :: t :: nc :: f :: ps =>
    let (tb, ps) := d.tab.interns ps
    exec { d with tab := tb } (.track ps { method := parseMethod m, tob := parseTob t, noCommit := b01 nc, force := b01 f })
  | "carryin" :: t :: f :: ps => let (tb, ps) := d.tab.interns ps; exec { d with tab := tb } (.carryIn ps (parseTob t) (b01 f))
  | "recheck" :: m :: f :: ps => let (tb, ps) := d.tab.interns ps; exec { d with tab := tb } (.recheck ps (parseMethod m) (b01 f))
  | "remove" :: a :: f :: ps =>
    -- selection: `0` current version, `1` all versions, `only:<path>:<k>` the k-th recorded version of <path>
    let (tb, ps) := d.tab.interns ps
    let (tb, sel) : Tab × RemoveSel :=
      match a.splitOn ":" with
      | ["only", p, k] =>
        let (t, p) := tb.intern p
        let dg : Option Digest := (d.st.findEnt p).bind (fun e => (d.st.recs e).bind (fun r => r.digests[k.toNat?.getD 0]?))
        (t, .only (dg.getD ⟨999, []⟩))          -- a version index out of range designates nothing
      | _ => (tb, if b01 a then .all else .current)
    exec { d with tab := tb } (.remove ps sel (b01 f))
  | "untrack" :: ps => let (tb, ps) := d.tab.interns ps; exec { d with tab := tb } (.untrack ps)
  -- `remove --only-version <string>` with the selection made on the STRING (XvcRepo/OnlyVersion.lean): algorithm identifier,
  -- the string as typed, force, then `n` triples (path, version index, hex digest) spelling every recorded version of the
  -- targets (the model's hashes have no spelling), then the targets
  | "removepfx" :: algo :: v :: f :: n :: rest =>
    match n.toNat? with
    | some n =>
      let (tb, ps) := d.tab.interns (rest.drop (3 * n))
      let rec triples (tb : Tab) : List String → Tab × List (Digest × List Nat)
        | p :: k :: h :: r =>
          let (t, p) := tb.intern p
          let dg : Option Digest := (d.st.findEnt p).bind (fun e => (d.st.recs e).bind (fun r => r.digests[k.toNat?.getD 0]?))
          let (t, l) := triples t r
          (t, (dg.map (fun x => (x, codes h))).toList ++ l)
        | _ => (tb, [])
      let (tb, tbl) := triples tb (rest.take (3 * n))
      let (s, o) := d.st.removeByPrefix (codes algo) (hexOfTable tbl) ps (codes v) (b01 f)
      ({ d with tab := tb, st := s }, s!"rc={showOut o} {showState tb s}")
    | none => (d, "bad-op")
  -- the string-level selection alone: which of the digests the string names
  | "onlyver" :: algo :: v :: hexes => (d, onlyverAnswer algo v hexes)
  -- hard links made by the user (XvcRepo/UserLink.lean): `rm p; ln q p` inside the workspace / to a file outside (bytes, write bit)
  | ["link", p, q] =>
    let (tb, ps) := d.tab.interns [p, q]
    match ps with
    | [p, q] => let s := d.st.userLink p q; ({ d with tab := tb, st := s }, s!"rc=ok {showState tb s}")
    | _ => (d, "bad-op")
  | ["linkout", p, h, w] =>
    let (tb, p) := d.tab.intern p
    let s := d.st.userLinkOutside p (parseHex h) (b01 w)
    ({ d with tab := tb, st := s }, s!"rc=ok {showState tb s}")
  | "untrackr" :: nb :: rest =>
    -- untrack --restore-versions; `nb` blocked copies follow as (path, version index) pairs, then the targets
    match nb.toNat? with
    | some nb =>
      let bl := rest.take (2 * nb)
      let (tb, ps) := d.tab.interns (rest.drop (2 * nb))
      let rec pairs : List String → List (String × Nat)
        | p :: k :: r => (p, k.toNat?.getD 0) :: pairs r
        | _ => []
      let (tb, blocked) := (pairs bl).foldl (fun (acc : Tab × List (Path × Addr)) (x : String × Nat) =>
        let (t, p) := acc.1.intern x.1
        match d.st.findEnt p with
        | some e =>
          match d.st.recs e with
          | some r => (match r.digests[x.2]? with
            | some dg => (t, acc.2 ++ [(r.path, addrOf r.path dg)])
            | none => (t, acc.2))
          | none => (t, acc.2)
        | none => (t, acc.2)) (tb, [])
      let ((s, o), w) := d.st.untrackRestore ps blocked
      let ws := w.map (fun x => s!"{tb.path x.1}@{showDigest x.2.1.d}={fp x.2.2}")
      ({ d with tab := tb, st := s }, s!"rc={showOut o} {showState tb s} restored=\{{";".intercalate (sortStrs ws)}}")
    | none => (d, "bad-op")
  | ["copy", m, nr, f, a, b] =>
    let (tb, ps) := d.tab.interns [a, b]
    match ps with
    | [a, b] => exec { d with tab := tb } (.copy a b { method := parseMethod m, noRecheck := b01 nr, force := b01 f })
    | _ => (d, "bad-op")
  | ["move", m, nr, a, b] =>
    let (tb, ps) := d.tab.interns [a, b]
    match ps with
    | [a, b] => exec { d with tab := tb } (.move a b { method := parseMethod m, noRecheck := b01 nr, force := false })
    | _ => (d, "bad-op")
  | "copym" :: m :: nr :: f :: no :: fx :: dest :: srcs =>
    -- copy with any number of sources: options, `--name-only`, which code variant (see `St.copyMany`), the
    -- destination argument as typed (a trailing `/` makes it a directory) and the candidate paths the source
    -- argument matches.  The pairing source -> destination is computed HERE, from the path strings.
    let isDir := dest.endsWith "/"
    let (tb, ss) := d.tab.interns srcs
    let (tb, ds) := tb.interns (srcs.map (manyDest dest (b01 no)))
    let (tb, dir) : Tab × Option Path :=
      if isDir then (let (t, p) := tb.intern (dirOf dest); (t, some p)) else (tb, none)
    let o : CopyOpts := { method := parseMethod m, noRecheck := b01 nr, force := b01 f }
    let pairs := ss.zip ds
    let sel := d.st.select pairs
    if isDir && St.overlap (d.st.copyPlan o.force sel) sel then ({ d with tab := tb }, "unmodelled")
    else
      let (s, out) := d.st.copyMany d.cfg o (b01 fx) dir pairs
      ({ d with tab := tb, st := s }, s!"rc={showOut out} {showState tb s}")
  | "movem" :: m :: nr :: dest :: srcs =>
    let isDir := dest.endsWith "/"
    let (tb, ss) := d.tab.interns srcs
    let (tb, ds) := tb.interns (srcs.map (manyDest dest false))
    let (tb, dir) : Tab × Option Path :=
      if isDir then (let (t, p) := tb.intern (dirOf dest); (t, some p)) else (tb, none)
    let o : CopyOpts := { method := parseMethod m, noRecheck := b01 nr, force := false }
    let (s, out) := d.st.moveMany d.cfg o dir (ss.zip ds)
    ({ d with tab := tb, st := s }, s!"rc={showOut out} {showState tb s}")
  | ["state"] => (d, showState d.tab d.st)
  | ["use", n] =>
    -- switch the current repository slot (the state of the current one is parked)
    let slots := (d.slots.filter (·.1 != d.cur)) ++ [(d.cur, d.st)]
    let st := match slots.find? (·.1 == n) with | some (_, s) => s | none => St.init
    ({ d with slots := slots, cur := n, st := st }, "ok")
  | ["clone", n] =>
    -- a clone of the current repository (same records, empty cache and workspace) becomes slot `n`
    let c : St := { d.st with ws := fun _ => none, cache := fun _ => none }
    ({ d with slots := (d.slots.filter (·.1 != n)) ++ [(n, c)] }, "ok")
  | ["dropcache"] =>
    ({ d with st := { d.st with cache := fun _ => none } }, s!"rc=ok {showState d.tab { d.st with cache := fun _ => none }}")
  | "send" :: g :: rest =>
    match g.toNat? with
    | some g =>
      let pairs := rest.map (fun x => match x.splitOn "=" with | [p, o] => (p, o) | _ => (x, "ok"))
      let (tb, ps) := d.tab.interns (pairs.map (·.1))
      let l : List (Addr × Ul) := (ps.zip (pairs.map (·.2))).filterMap (fun (p, o) =>
        match d.st.targetAddrs [p] with
        | a :: _ => some (a, if o == "ok" then Ul.ok else Ul.fail)
        | [] => none)
      let st' := send g d.st d.storage l
      let keys := l.foldl (fun ks x => if ks.contains (g, x.1) then ks else ks ++ [(g, x.1)]) d.skeys
      let listing := keys.filterMap (fun k => (st'.objs k).map (fun b => s!"{k.1}:{showAddr tb k.2}={fp b}"))
      ({ d with tab := tb, storage := st', skeys := keys }, "st={" ++ ";".intercalate (sortStrs listing) ++ "}")
    | none => (d, "bad-op")
  | "sremove" :: g :: a :: f :: nh :: rest =>
    -- remove --from-storage: selection and force as for `remove`; `nh` (path, version index) pairs give the order
    -- of the cache path strings (which the model does not know); then the targets
    match g.toNat?, nh.toNat? with
    | some g, some nh =>
      let hint := rest.take (2 * nh)
      let (tb, ps) := d.tab.interns (rest.drop (2 * nh))
      let resolve (tb : Tab) (p : String) (k : String) : Tab × Option Addr :=
        let (t, p) := tb.intern p
        (t, (d.st.findEnt p).bind (fun e => (d.st.recs e).bind (fun r => (r.digests[k.toNat?.getD 0]?).map (addrOf r.path))))
      let rec hints (tb : Tab) : List String → Tab × List Addr
        | p :: k :: r => let (t, a) := resolve tb p k; let (t, as) := hints t r; (t, a.toList ++ as)
        | _ => (tb, [])
      let (tb, order) := hints tb hint
      let (tb, sel) : Tab × RemoveSel :=
        match a.splitOn ":" with
        | ["only", p, k] =>
          let (t, p) := tb.intern p
          let dg : Option Digest := (d.st.findEnt p).bind (fun e => (d.st.recs e).bind (fun r => r.digests[k.toNat?.getD 0]?))
          (t, .only (dg.getD ⟨999, []⟩))
        | _ => (tb, if b01 a then .all else .current)
      -- sort the deletable paths by their position in the hint (stable; unknown ones last)
      let pos (x : Addr) : Nat := (order.idxOf? x).getD order.length
      let sortBy (l : List Addr) : List Addr :=
        l.foldr (fun x acc => let (lo, hi) := acc.partition (fun y => pos y < pos x); lo ++ [x] ++ hi) []
      let (st', o) := d.st.removeFromStorage g d.storage ps sel (b01 f) sortBy
      let listing := d.skeys.filterMap (fun k => (st'.objs k).map (fun b => s!"{k.1}:{showAddr tb k.2}={fp b}"))
      ({ d with tab := tb, storage := st' }, s!"rc={showOut o} st=\{" ++ ";".intercalate (sortStrs listing) ++ "}")
    | _, _ => (d, "bad-op")
  | "bring" :: tmp :: g :: m :: rest =>
    match g.toNat? with
    | some g =>
      let pairs := rest.map (fun x => match x.splitOn "=" with | [p, o] => (p, o) | _ => (x, "ok"))
      let (tb, ps) := d.tab.interns (pairs.map (·.1))
      -- per-path outcome: `ok` | `fc` | `fp` (download command) | `mf` (download ok, the final move into the cache
      -- fails); the pairs come in the order in which the code moves the objects (cache path strings, which the model
      -- does not know).  Without `mf` this is `fetch` (theorem `fetchF_all_ok`).
      let l : List (Addr × Dl × Mv) := (ps.zip (pairs.map (·.2))).filterMap (fun (p, o) =>
        match d.st.targetAddrs [p] with
        | a :: _ => some (a, (if o == "ok" || o == "mf" then Dl.ok else if o == "fc" then Dl.failClean else Dl.failPartial [1, 2, 3]),
                          (if o == "mf" then Mv.fails 0 else Mv.ok))
        | [] => none)
      match fetchF (tmp == "same") g d.storage d.st l with
      | (s1, .ok) =>
        let (s2, o) := s1.recheck d.cfg (parseMethod m) false ps
        ({ d with tab := tb, st := s2 }, s!"rc={showOut o} {showState tb s2}")
      | (s1, o) => ({ d with tab := tb, st := s1 }, s!"rc={showOut o} {showState tb s1}")      -- nothing is rechecked
    | none => (d, "bad-op")
  | [""] => (d, "")
  | _ => (d, "bad-op")

/-- `blocked <k> <path>*k <command line>`: the command runs while nothing can be moved to the cache addresses of the
    bytes now at the k paths (`St.stepBlocked`, XvcRepo/Fault.lean) -/
def stepLine (d : D) (line : String) : D × String :=
  match (line.dropEndWhile (· == '\n')).toString.splitOn "\t" with
  | "blocked" :: k :: rest =>
    match k.toNat? with
    | some k =>
      let (tb, ps) := d.tab.interns (rest.take k)
      let bs := ps.filterMap (fun p => (d.st.readThrough p).map (·.1))
      let (d', out) := stepLineCore { d with tab := tb, blocked := blockedHashes bs } ("\t".intercalate (rest.drop k))
      ({ d' with blocked := [] }, out)
    | none => (d, "bad-op")
  | _ => stepLineCore d line

partial def loop (h : IO.FS.Stream) (out : IO.FS.Stream) (d : D) : IO Unit := do
  let line ← h.getLine
  if line.isEmpty then return ()
  if line.trimAscii.toString == "reset" then
    out.putStrLn "ok"
    loop h out {}
  else
    let (d', o) := stepLine d line
    out.putStrLn o
    loop h out d'

def main : IO Unit := do
  loop (← IO.getStdin) (← IO.getStdout) {}
