import XvcRepo.Model
/-!
  Line-protocol driver for the repository model (`repomodel`).  One tab-separated command per line,
  one canonical abstraction of the resulting state per line.  `lib/repo_harness.py` sends the same
  command history to the rebuilt `xvc` binary and computes the same abstraction from the real
  repository; the two are diffed.
-/
open Repo

def fp (b : Bytes) : String :=
  let (acc, _) := b.foldl (fun (p : Nat × Nat) x => ((p.1 + (p.2 + 1) * (x + 1)) % 1000000007, p.2 + 1)) (0, 0)
  s!"{b.length}.{acc}"

def hexVal (c : Char) : Nat :=
  if c.isDigit then c.toNat - '0'.toNat else if 'a' ≤ c ∧ c ≤ 'f' then c.toNat - 'a'.toNat + 10 else 0

def parseHex (s : String) : Bytes :=
  let rec go : List Char → Bytes
    | a :: b :: rest => (hexVal a * 16 + hexVal b) :: go rest
    | _ => []
  go s.toList

def parseMethod : String → Option Method
  | "copy" => some .copy | "symlink" => some .symlink | "hardlink" => some .hardlink | "reflink" => some .reflink
  | _ => none

def parseTob : String → Option Tob
  | "auto" => some .auto | "text" => some .text | "binary" => some .binary | _ => none

def showMethod : Method → String
  | .copy => "copy" | .symlink => "symlink" | .hardlink => "hardlink" | .reflink => "reflink"

def showTob : Tob → String
  | .auto => "auto" | .text => "text" | .binary => "binary"

def showDigest (d : Digest) : String := s!"{d.algo}:{fp d.hash}"
def showAddr (a : Addr) : String := s!"{showDigest a.d}:{a.ext}"

def showEntry : Entry → String
  | .file b w _ l => s!"file:{fp b}:{if w then "w" else "r"}:{match l with | some a => showAddr a | none => "-"}"
  | .sym a => s!"sym:{showAddr a}"

def insSorted (x : String) : List String → List String
  | [] => [x]
  | y :: ys => if x < y then x :: y :: ys else y :: insSorted x ys
def sortStrs (l : List String) : List String := l.foldr insSorted []

def showState (s : St) : String :=
  let ws := s.paths.filterMap (fun p => (s.ws p).map (fun e => s!"{p}={showEntry e}"))
  let cache := s.addrs.filterMap (fun a => (s.cache a).map (fun o =>
    s!"{showAddr a}={fp o.b}:{if o.ro then "ro" else "rw"}:{if s.dirRo a.d then "dro" else "drw"}"))
  let recs := s.ents.filterMap (fun e => (s.recs e).map (fun r =>
    s!"{r.path}={match r.cur with | some d => showDigest d | none => "-"}:[{",".intercalate (r.digests.map showDigest)}]:{showMethod r.method}:{showTob r.tob}"))
  s!"ws=\{{";".intercalate (sortStrs ws)}} cache=\{{";".intercalate (sortStrs cache)}} rec=\{{";".intercalate (sortStrs recs)}}"

def showOut : Out → String | .ok => "ok" | .refused => "refused" | .panic => "panic"

def b01 (s : String) : Bool := s == "1"

structure D where
  cfg : Cfg := {}
  st : St := St.init

def exec (d : D) (cmd : Cmd) : D × String :=
  let (s, o) := d.st.step d.cfg cmd
  ({ d with st := s }, s!"rc={showOut o} {showState s}")

def stepLine (d : D) (line : String) : D × String :=
  match (line.dropEndWhile (· == '\n')).toString.splitOn "\t" with
  | ["cfg", a, m, t] =>
    match a.toNat?, parseMethod m, parseTob t with
    | some a, some m, some t => ({ d with cfg := { algo := a, method := m, tob := t } }, "ok")
    | _, _, _ => (d, "bad-op")
  | ["write", p, h] => exec d (.write p (parseHex h))
  | ["delete", p] => exec d (.delete p)
  | "track" :: m :: t :: nc :: f :: ps =>
    exec d (.track ps { method := parseMethod m, tob := parseTob t, noCommit := b01 nc, force := b01 f })
  | "carryin" :: t :: f :: ps => exec d (.carryIn ps (parseTob t) (b01 f))
  | "recheck" :: m :: f :: ps => exec d (.recheck ps (parseMethod m) (b01 f))
  | "remove" :: a :: f :: ps => exec d (.remove ps (b01 a) (b01 f))
  | "untrack" :: ps => exec d (.untrack ps)
  | ["copy", m, nr, f, a, b] => exec d (.copy a b { method := parseMethod m, noRecheck := b01 nr, force := b01 f })
  | ["move", m, nr, a, b] => exec d (.move a b { method := parseMethod m, noRecheck := b01 nr, force := false })
  | ["state"] => (d, showState d.st)
  | [""] => (d, "")
  | _ => (d, "bad-op")

partial def loop (h : IO.FS.Stream) (out : IO.FS.Stream) (d : D) : IO Unit := do
  let line ← h.getLine
  if line.isEmpty then return ()
  if line.trimAscii.toString == "reset" then
    out.putStrLn "ok"
    loop h out {}
  else
    let (d', o) := stepLine d line
    out.putStrLn o
    loop h out d'

def main : IO Unit := do
  loop (← IO.getStdin) (← IO.getStdout) {}
