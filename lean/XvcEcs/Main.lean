import XvcEcs.Model
/-!
  Line-protocol driver for the ECS model: one request per line on stdin, one canonical answer per
  line on stdout.  The Rust harness (`harness/src/bin/ecs_harness.rs`) answers the same requests
  with the real `xvc-ecs` code; the two streams are diffed by `lib/c08.py`.
-/
open Ecs

structure DState where
  store : Store String := Store.new
  dirs : List (String × Dir String) := []
  cur : String := "A"
  clock : Nat := 1
  r1n : R1N String Nat := R1N.new
  rdirs : Dir String × Dir Nat × Dir Ent := ([], [], [])
  gdir : GenDir := []

def getDir (st : DState) (n : String) : Dir String := (Map.find? st.dirs n).getD []
def setDir (st : DState) (n : String) (d : Dir String) : DState := { st with dirs := Map.set st.dirs n d }

def showOpt (o : Option String) : String := match o with | none => "none" | some v => s!"some({v})"

def insStr (x : String × Nat) : List (String × Nat) → List (String × Nat)
  | [] => [x]
  | y :: ys => if x.1 < y.1 then x :: y :: ys else y :: insStr x ys

def showList (l : List String) : String := "[" ++ ",".intercalate l ++ "]"

def step (st : DState) (line : String) : DState × String :=
  match line.trimAscii.toString.splitOn " " with
  | ["new"] => ({ st with store := Store.new }, "ok")
  | ["ins", e, v] =>
    match e.toNat? with
    | some e => let (s, r) := st.store.insert e v; ({ st with store := s }, "ret=" ++ showOpt r)
    | none => (st, "bad-op")
  | ["upd", e, v] =>
    match e.toNat? with
    | some e => let (s, r) := st.store.update e v; ({ st with store := s }, "ret=" ++ showOpt r)
    | none => (st, "bad-op")
  | ["rem", e] =>
    match e.toNat? with
    | some e => let (s, r) := st.store.remove e; ({ st with store := s }, "ret=" ++ showOpt r)
    | none => (st, "bad-op")
  | ["save"] =>
    let d := st.store.toDir st.clock (getDir st st.cur)
    ({ setDir st st.cur d with clock := st.clock + 1 }, s!"files={d.length}")
  | ["load"] => ({ st with store := Store.fromDir (getDir st st.cur) }, "ok")
  | ["dir", n] => ({ st with cur := n }, "ok")
  | ["cpdir", a, b] => (setDir st b (getDir st a), "ok")
  | ["merge", a, b] =>
    let da := getDir st a
    let extra := (getDir st b).filter (fun f => !(da.any (fun g => g.1 == f.1)))
    (setDir st a (da ++ extra), s!"files={(da ++ extra).length}")
  | ["q", "map"] =>
    (st, "{" ++ ",".intercalate ((sortDir st.store.map).map (fun p => s!"{p.1}:{p.2}")) ++ "}")
  | ["q", "entfor", v] =>
    (st, match st.store.entitiesFor v with
      | none => "none"
      | some l => showList (l.map toString))
  | ["q", "ebyval", v] =>
    (st, match st.store.entityByValue v with | none => "none" | some e => toString e)
  | ["q", "indexmap"] =>
    (st, match st.store.indexMap with
      | none => "panic"
      | some l => "{" ++ ",".intercalate ((l.foldr insStr []).map (fun p => s!"{p.1}:{p.2}")) ++ "}")
  | ["q", "log", e] =>
    match e.toNat? with
    | some e =>
      let evs := (st.store.previous ++ st.store.current).filter (fun ev => ev.ent == e)
      (st, showList (evs.map (fun ev => match ev with | .add _ v => s!"+{v}" | .remove _ => "-")))
    | none => (st, "bad-op")
  | ["r1n-new"] => ({ st with r1n := R1N.new }, "ok")
  | ["r1n-ins", pe, pc, ce, cc] =>
    match pe.toNat?, ce.toNat?, cc.toNat? with
    | some pe, some ce, some cc =>
      let prev := st.r1n.childParents.map.find? ce
      ({ st with r1n := st.r1n.insert pe pc ce cc }, "ret=" ++ showOpt (prev.map toString))
    | _, _, _ => (st, "bad-op")
  | ["r1n-children", pe] =>
    match pe.toNat? with
    | some pe => (st, showList ((sortDir (st.r1n.childrenOf pe)).map (fun p => s!"{p.1}:{p.2}")))
    | none => (st, "bad-op")
  | ["r1n-parent", ce] =>
    match ce.toNat? with
    | some ce => (st, match st.r1n.parentOf ce with | none => "none" | some (pe, pc) => s!"{pe}:{pc}")
    | none => (st, "bad-op")
  | ["r1n-rmchild", ce] =>
    match ce.toNat? with
    | some ce => ({ st with r1n := st.r1n.removeChild ce }, "ok")
    | none => (st, "bad-op")
  | ["r1n-save"] =>
    let (dp, dc, dcp) := st.rdirs
    let r := st.r1n
    ({ st with rdirs := (r.parents.toDir st.clock dp, r.children.toDir (st.clock + 1) dc,
                          r.childParents.toDir (st.clock + 2) dcp), clock := st.clock + 3 }, "ok")
  | ["r1n-load"] =>
    let (dp, dc, dcp) := st.rdirs
    ({ st with r1n := { parents := Store.fromDir dp, children := Store.fromDir dc,
                        childParents := Store.fromDir dcp } }, "ok")
  | ["r1n-q"] =>
    let f := fun {α} [ToString α] (m : Map Ent α) => "{" ++ ",".intercalate ((sortDir m).map (fun p => s!"{p.1}:{p.2}")) ++ "}"
    (st, s!"parents={f st.r1n.parents.map} children={f st.r1n.children.map} cp={f st.r1n.childParents.map}")
  | ["gen-session", k] =>
    match k.toNat? with
    | some k =>
      -- the first session on an empty directory is `init_generator()` (counter 1, dirty)
      let g := match Gen.load st.gdir with | some g => g | none => Gen.init 1
      let (g1, es) := g.nexts k
      let (_, d1) := g1.save st.clock st.gdir
      ({ st with gdir := d1, clock := st.clock + 1 }, s!"{showList (es.map toString)} files={d1.length}")
    | none => (st, "bad-op")
  | [""] => (st, "")
  | _ => (st, "bad-op")

partial def loop (h : IO.FS.Stream) (out : IO.FS.Stream) (st : DState) : IO Unit := do
  let line ← h.getLine
  if line.isEmpty then return ()
  if line.trimAscii.toString == "reset" then
    out.putStrLn "ok"
    loop h out {}
  else
    let (st', o) := step st line
    out.putStrLn o
    loop h out st'

def main : IO Unit := do
  loop (← IO.getStdin) (← IO.getStdout) {}
