import XvcEcs.Model
import XvcEcs.Rel
/-!
  Line-protocol driver for the ECS model: one request per line on stdin, one canonical answer per
  line on stdout.  The Rust harness (`harness/src/bin/ecs_harness.rs`) answers the same requests
  with the real `xvc-ecs` code; the two streams are diffed by `lib/c08.py`.
-/
open Ecs

structure DState where
  store : Store String := Store.new
  dirs : List (String × Dir String) := []
  cur : String := "A"
  clock : Nat := 1
  r1n : R1N String Nat := R1N.new
  rdirs : Dir String × Dir Nat × Dir Ent := ([], [], [])
  gdir : GenDir := []
  r11 : R11 String Nat := R11.new
  r11dirs : Dir String × Dir Nat := ([], [])

def getDir (st : DState) (n : String) : Dir String := (Map.find? st.dirs n).getD []
def setDir (st : DState) (n : String) (d : Dir String) : DState := { st with dirs := Map.set st.dirs n d }

def showOpt (o : Option String) : String := match o with | none => "none" | some v => s!"some({v})"

def insStr (x : String × Nat) : List (String × Nat) → List (String × Nat)
  | [] => [x]
  | y :: ys => if x.1 < y.1 then x :: y :: ys else y :: insStr x ys

def showList (l : List String) : String := "[" ++ ",".intercalate l ++ "]"


/-- `e:v,e:v` (or `-` for nothing) -/
def parsePairs (s : String) : Option (List (Ent × String)) :=
  if s == "-" then some [] else
  (s.splitOn ",").foldr (fun item acc =>
    match acc, item.splitOn ":" with
    | some l, [e, v] => (e.toNat?).map (fun e => (e, v) :: l)
    | _, _ => none) (some [])

def parseEnts (s : String) : Option (List Ent) :=
  if s == "-" then some [] else
  (s.splitOn ",").foldr (fun item acc =>
    match acc, item.toNat? with
    | some l, some e => some (e :: l)
    | _, _ => none) (some [])

/-- `e=I`, `e=S`, `e=RM:a`, `e=AM:r`, `e=D:r:a` -/
def parseDiffs (s : String) : Option (List (Ent × Diff String)) :=
  if s == "-" then some [] else
  (s.splitOn ",").foldr (fun item acc =>
    match acc, item.splitOn "=" with
    | some l, [e, d] =>
      match e.toNat?, d.splitOn ":" with
      | some e, ["I"] => some ((e, Diff.identical) :: l)
      | some e, ["S"] => some ((e, Diff.skipped) :: l)
      | some e, ["RM", a] => some ((e, Diff.recordMissing a) :: l)
      | some e, ["AM", r] => some ((e, Diff.actualMissing r) :: l)
      | some e, ["D", r, a] => some ((e, Diff.different r a) :: l)
      | _, _ => none
    | _, _ => none) (some [])

def showDiff : Diff String → String
  | .identical => "I"
  | .skipped => "S"
  | .recordMissing a => s!"RM:{a}"
  | .actualMissing r => s!"AM:{r}"
  | .different r a => s!"D:{r}:{a}"

def parseBool (s : String) : Option Bool :=
  if s == "1" then some true else if s == "0" then some false else none

/-- last binding of a key wins, as in building a `HashMap` by successive inserts -/
def dedupPairs {α} (l : List (Ent × α)) : Map Ent α := l.foldl (fun m p => Map.set m p.1 p.2) []

def showMap {α} [ToString α] (m : Map Ent α) : String :=
  "{" ++ ",".intercalate ((sortDir m).map (fun p => s!"{p.1}:{p.2}")) ++ "}"

def insNat (x : Nat) : List Nat → List Nat
  | [] => [x]
  | y :: ys => if x < y then x :: y :: ys else y :: insNat x ys

def step (st : DState) (line : String) : DState × String :=
  match line.trimAscii.toString.splitOn " " with
  | ["new"] => ({ st with store := Store.new }, "ok")
  | ["ins", e, v] =>
    match e.toNat? with
    | some e => let (s, r) := st.store.insert e v; ({ st with store := s }, "ret=" ++ showOpt r)
    | none => (st, "bad-op")
  | ["upd", e, v] =>
    match e.toNat? with
    | some e => let (s, r) := st.store.update e v; ({ st with store := s }, "ret=" ++ showOpt r)
    | none => (st, "bad-op")
  | ["rem", e] =>
    match e.toNat? with
    | some e => let (s, r) := st.store.remove e; ({ st with store := s }, "ret=" ++ showOpt r)
    | none => (st, "bad-op")
  | ["save"] =>
    let d := st.store.toDir st.clock (getDir st st.cur)
    ({ setDir st st.cur d with clock := st.clock + 1 }, s!"files={d.length}")
  | ["load"] => ({ st with store := Store.fromDir (getDir st st.cur) }, "ok")
  | ["dir", n] => ({ st with cur := n }, "ok")
  | ["cpdir", a, b] => (setDir st b (getDir st a), "ok")
  | ["merge", a, b] =>
    let da := getDir st a
    let extra := (getDir st b).filter (fun f => !(da.any (fun g => g.1 == f.1)))
    (setDir st a (da ++ extra), s!"files={(da ++ extra).length}")
  | ["q", "map"] =>
    (st, "{" ++ ",".intercalate ((sortDir st.store.map).map (fun p => s!"{p.1}:{p.2}")) ++ "}")
  | ["q", "entfor", v] =>
    (st, match st.store.entitiesFor v with
      | none => "none"
      | some l => showList (l.map toString))
  | ["q", "ebyval", v] =>
    (st, match st.store.entityByValue v with | none => "none" | some e => toString e)
  | ["q", "indexmap"] =>
    (st, match st.store.indexMap with
      | none => "panic"
      | some l => "{" ++ ",".intercalate ((l.foldr insStr []).map (fun p => s!"{p.1}:{p.2}")) ++ "}")
  | ["q", "log", e] =>
    match e.toNat? with
    | some e =>
      let evs := (st.store.previous ++ st.store.current).filter (fun ev => ev.ent == e)
      (st, showList (evs.map (fun ev => match ev with | .add _ v => s!"+{v}" | .remove _ => "-")))
    | none => (st, "bad-op")
  | ["q", "sentfor", v] =>
    (st, match st.store.entitiesFor v with
      | none => "none"
      | some l => showList ((l.foldr insNat []).map toString))
  | ["diff", acts, sub] =>
    match parsePairs acts, (if sub == "all" then some none else (parseEnts sub).map some) with
    | some a, some sub =>
      let actuals := dedupPairs a
      let ents := match sub with | some l => l | none => allEnts st.store actuals
      let d := diffStore st.store actuals ents
      (st, showList ((sortDir d).map (fun p => s!"{p.1}={showDiff p.2}")))
    | _, _ => (st, "bad-op")
  | [op, an, rm, acts] =>
    if op == "adiff" || op == "uwa" then
      match parseBool an, parseBool rm, parsePairs acts with
      | some an, some rm, some a =>
        let actuals := dedupPairs a
        let d := diffStore st.store actuals (allEnts st.store actuals)
        ({ st with store := applyDiff st.store d an rm }, "ok")
      | _, _, _ => (st, "bad-op")
    else if op == "adiffx" || op == "uwax" then
      match parseBool an, parseBool rm, parseDiffs acts with
      | some an, some rm, some d => ({ st with store := applyDiff st.store (dedupPairs d) an rm }, "ok")
      | _, _, _ => (st, "bad-op")
    else if op == "r11-ins" then
      match an.toNat?, acts.toNat? with
      | some e, some x => ({ st with r11 := st.r11.insert e rm x }, "ok")
      | _, _ => (st, "bad-op")
    else (st, "bad-op")
  | ["r11-new"] => ({ st with r11 := R11.new }, "ok")
  | ["r11-rem", e] =>
    match e.toNat? with
    | some e => ({ st with r11 := st.r11.remove e }, "ok")
    | none => (st, "bad-op")
  | ["r11-save"] =>
    let (dl, dr) := st.r11dirs
    ({ st with r11dirs := (st.r11.left.toDir st.clock dl, st.r11.right.toDir (st.clock + 1) dr), clock := st.clock + 2 }, "ok")
  | ["r11-load"] => ({ st with r11 := R11.fromDirs st.r11dirs.1 st.r11dirs.2 }, "ok")
  | ["r11-q"] => (st, s!"left={showMap st.r11.left.map} right={showMap st.r11.right.map}")
  | ["r11-tuple", e] =>
    match e.toNat? with
    | some e =>
      let (l, x) := st.r11.tuple e
      (st, s!"{showOpt l}|{showOpt (x.map toString)}")
    | none => (st, "bad-op")
  | ["r11-l2r", e] =>
    match e.toNat? with
    | some e => (st, match st.r11.leftToRight e with | none => "none" | some (e, x) => s!"{e}:{x}")
    | none => (st, "bad-op")
  | ["r11-r2l", e] =>
    match e.toNat? with
    | some e => (st, match st.r11.rightToLeft e with | none => "none" | some (e, l) => s!"{e}:{l}")
    | none => (st, "bad-op")
  | ["r11-ebl", l] =>
    (st, match st.r11.entityByLeft l with | .panic => "panic" | .ok none => "none" | .ok (some e) => toString e)
  | ["r11-ebr", x] =>
    match x.toNat? with
    | some x => (st, match st.r11.entityByRight x with | none => "none" | some e => toString e)
    | none => (st, "bad-op")
  | ["r11-lbl", l] => (st, showOpt ((st.r11.lookupByLeft l).map toString))
  | ["r11-lbr", x] =>
    match x.toNat? with
    | some x => (st, showOpt (st.r11.lookupByRight x))
    | none => (st, "bad-op")
  | ["r11-filter", k] =>
    match k.toNat? with
    | some k =>
      let f := st.r11.filter (fun _ x => decide (k ≤ x))
      (st, s!"left={showMap f.left.map} right={showMap f.right.map}")
    | none => (st, "bad-op")
  | ["r1n-new"] => ({ st with r1n := R1N.new }, "ok")
  | ["r1n-ins", pe, pc, ce, cc] =>
    match pe.toNat?, ce.toNat?, cc.toNat? with
    | some pe, some ce, some cc =>
      let prev := st.r1n.childParents.map.find? ce
      ({ st with r1n := st.r1n.insert pe pc ce cc }, "ret=" ++ showOpt (prev.map toString))
    | _, _, _ => (st, "bad-op")
  | ["r1n-children", pe] =>
    match pe.toNat? with
    | some pe => (st, showList ((sortDir (st.r1n.childrenOf pe)).map (fun p => s!"{p.1}:{p.2}")))
    | none => (st, "bad-op")
  | ["r1n-parent", ce] =>
    match ce.toNat? with
    | some ce => (st, match st.r1n.parentOf ce with | none => "none" | some (pe, pc) => s!"{pe}:{pc}")
    | none => (st, "bad-op")
  | ["r1n-rmchild", ce] =>
    match ce.toNat? with
    | some ce => ({ st with r1n := st.r1n.removeChild ce }, "ok")
    | none => (st, "bad-op")
  | ["r1n-save"] =>
    let (dp, dc, dcp) := st.rdirs
    let r := st.r1n
    ({ st with rdirs := (r.parents.toDir st.clock dp, r.children.toDir (st.clock + 1) dc,
                          r.childParents.toDir (st.clock + 2) dcp), clock := st.clock + 3 }, "ok")
  | ["r1n-load"] =>
    let (dp, dc, dcp) := st.rdirs
    ({ st with r1n := { parents := Store.fromDir dp, children := Store.fromDir dc,
                        childParents := Store.fromDir dcp } }, "ok")
  | ["r1n-q"] =>
    let f := fun {α} [ToString α] (m : Map Ent α) => "{" ++ ",".intercalate ((sortDir m).map (fun p => s!"{p.1}:{p.2}")) ++ "}"
    (st, s!"parents={f st.r1n.parents.map} children={f st.r1n.children.map} cp={f st.r1n.childParents.map}")
  | ["gen-session", k] =>
    match k.toNat? with
    | some k =>
      -- the first session on an empty directory is `init_generator()` (counter 1, dirty)
      let g := match Gen.load st.gdir with | some g => g | none => Gen.init 1
      let (g1, es) := g.nexts k
      let (_, d1) := g1.save st.clock st.gdir
      ({ st with gdir := d1, clock := st.clock + 1 }, s!"{showList (es.map toString)} files={d1.length}")
    | none => (st, "bad-op")
  | [""] => (st, "")
  | _ => (st, "bad-op")

partial def loop (h : IO.FS.Stream) (out : IO.FS.Stream) (st : DState) : IO Unit := do
  let line ← h.getLine
  if line.isEmpty then return ()
  if line.trimAscii.toString == "reset" then
    out.putStrLn "ok"
    loop h out {}
  else
    let (st', o) := step st line
    out.putStrLn o
    loop h out st'

def main : IO Unit := do
  loop (← IO.getStdin) (← IO.getStdout) {}
