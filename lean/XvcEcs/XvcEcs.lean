import XvcEcs.Model
import XvcEcs.Lemmas
import XvcEcs.Props
import XvcEcs.Rel
import XvcEcs.PropsRel
