import XvcEcs.Model
import XvcEcs.Lemmas
import XvcEcs.Props
