def hello := "world"
