/-
  Executable model of xvc-ecs (`/repo/ecs/src/ecs/{xvcstore,event,mod,r1nstore,r11store}.rs`).

  Import-free (core only) so that the driver links as a `lean_exe`.
  Every definition is a transcription of the Rust function named in its comment.
-/
namespace Ecs

/-- Entities.  The Rust type is `(u64, u64)`; the harness maps the entities it uses to `Nat`. -/
abbrev Ent := Nat

/-! ## Association-list maps (`BTreeMap` in the Rust code) -/

abbrev Map (K V : Type) := List (K × V)

namespace Map
variable {K V : Type} [DecidableEq K]

def find? : Map K V → K → Option V
  | [], _ => none
  | (k', v) :: m, k => if k' = k then some v else find? m k

def del : Map K V → K → Map K V
  | [], _ => []
  | (k', v) :: m, k => if k' = k then del m k else (k', v) :: del m k

def set (m : Map K V) (k : K) (v : V) : Map K V := (k, v) :: del m k

def keys (m : Map K V) : List K := m.map (·.1)

end Map

/-! ## Events and event logs (`event.rs`) -/

inductive Event (V : Type) where
  | add (e : Ent) (v : V)
  | remove (e : Ent)
  deriving Repr, DecidableEq

def Event.ent {V} : Event V → Ent
  | .add e _ => e
  | .remove e => e

/-- One step of `XvcStore::build_map`. -/
def applyEvent {V} (m : Map Ent V) : Event V → Map Ent V
  | .add e v => m.set e v
  | .remove e => m.del e

/-- `XvcStore::build_map` on one log (a fold over the events). -/
def replay {V} (m : Map Ent V) (evs : List (Event V)) : Map Ent V := evs.foldl applyEvent m

/-! ## insertion sort by `Nat` key (`sorted_files`, `BTreeMap` iteration order) -/

def insertSorted {α} (x : Nat × α) : List (Nat × α) → List (Nat × α)
  | [] => [x]
  | y :: ys => if x.1 ≤ y.1 then x :: y :: ys else y :: insertSorted x ys

/-- `sorted_files`. -/
def sortDir {α} (d : List (Nat × α)) : List (Nat × α) := d.foldr insertSorted []

/-! ## `XvcStore<T>` (`xvcstore.rs`) -/

structure Store (V : Type) where
  map : Map Ent V
  index : Map V (List Ent)
  previous : List (Event V)
  current : List (Event V)
  deriving Repr

variable {V : Type} [DecidableEq V]

/-- bucket push used by `build_index` and `insert`: `get_mut(v).push(e)` or `insert(v, vec![e])`. -/
def indexPush (ix : Map V (List Ent)) (v : V) (e : Ent) : Map V (List Ent) :=
  match ix.find? v with
  | some l => ix.set v (l ++ [e])
  | none => ix.set v [e]

/-- `vec.retain(|x| *x != e)`. -/
def dropEnt : List Ent → Ent → List Ent
  | [], _ => []
  | x :: l, e => if x = e then dropEnt l e else x :: dropEnt l e

/-- `retain(|x| x != e)` on the bucket of `v`, dropping the bucket when it becomes empty. -/
def indexDrop (ix : Map V (List Ent)) (v : V) (e : Ent) : Map V (List Ent) :=
  match ix.find? v with
  | some l =>
    let l' := dropEnt l e
    if l' = [] then ix.del v else ix.set v l'
  | none => ix

/-- `XvcStore::build_index`. -/
def buildIndex (m : Map Ent V) : Map V (List Ent) :=
  m.foldl (fun ix p => indexPush ix p.2 p.1) []

/-- `XvcStore::from_event_logs`.  The Rust map is a `BTreeMap`, so `build_index` sees the entries in
    entity order; the assoc-list is sorted to give the same bucket order. -/
def sortMap (m : Map Ent V) : Map Ent V := sortDir m

def Store.fromEventLogs (previous current : List (Event V)) : Store V :=
  let map := replay (replay [] previous) current
  { map := map, index := buildIndex (sortMap map), previous := previous, current := current }

def Store.new : Store V := Store.fromEventLogs [] []

/-- `XvcStore::insert` (after the F2 repair: the entity leaves the bucket of its previous value). -/
def Store.insert (s : Store V) (e : Ent) (v : V) : Store V × Option V :=
  let previous := s.map.find? e
  let ix := match previous with
    | some pv => indexDrop s.index pv e
    | none => s.index
  ({ s with current := s.current ++ [.add e v], map := s.map.set e v, index := indexPush ix v e },
   previous)

/-- `XvcStore::remove`. -/
def Store.remove (s : Store V) (e : Ent) : Store V × Option V :=
  match s.map.find? e with
  | some v =>
    match s.index.find? v with
    | some _ =>
      ({ s with map := s.map.del e, current := s.current ++ [.remove e], index := indexDrop s.index v e },
       some v)
    | none => ({ s with map := s.map.del e }, none)
  | none => (s, none)

/-- `XvcStore::update`. -/
def Store.update (s : Store V) (e : Ent) (v : V) : Store V × Option V :=
  let s1 := if (s.map.find? e).isSome then (s.remove e).1 else s
  s1.insert e v

/-- `XvcStore::entities_for`. -/
def Store.entitiesFor (s : Store V) (v : V) : Option (List Ent) := s.index.find? v

/-- `XvcStore::entity_by_value`. -/
def Store.entityByValue (s : Store V) (v : V) : Option Ent :=
  match s.entitiesFor v with
  | some l => l.head?
  | none => none

/-- `XvcStore::index_map`: `none` models the panic on `vec_e[0]` of an empty bucket. -/
def Store.indexMap (s : Store V) : Option (List (V × Ent)) :=
  s.index.foldr (fun p acc =>
    match acc, p.2.head? with
    | some l, some e => some ((p.1, e) :: l)
    | _, _ => none) (some [])

/-! ## Directories of event files (`EventLog::to_dir`, `EventLog::from_dir`, `sorted_files`) -/

/-- A directory: file stamp (the `timestamp()` in the file name) and the events of the file. -/
abbrev Dir (V : Type) := List (Nat × List (Event V))

/-- `EventLog::from_dir`: concatenate the files in file-name order. -/
def loadEvents (d : Dir V) : List (Event V) := ((sortDir d).map (·.2)).flatten

/-- `XvcStore::from_dir`. -/
def Store.fromDir (d : Dir V) : Store V := Store.fromEventLogs (loadEvents d) []

/-- `XvcStore::to_dir` at time `now`: one new file holding `current`, nothing when `current` is empty. -/
def Store.toDir (s : Store V) (now : Nat) (d : Dir V) : Dir V :=
  if s.current = [] then d else d ++ [(now, s.current)]

/-! ## Entity generator (`XvcEntityGenerator`) -/

structure Gen where
  counter : Nat
  dirty : Bool
  deriving Repr, DecidableEq

/-- Directory of counter files: stamp ↦ saved counter. -/
abbrev GenDir := List (Nat × Nat)

/-- `XvcEntityGenerator::new(start)` (used by `init_generator` with `start = 1`). -/
def Gen.init (start : Nat) : Gen := { counter := start, dirty := true }

/-- `XvcEntityGenerator::load`: the most recent file. -/
def Gen.load (d : GenDir) : Option Gen :=
  match (sortDir d).getLast? with
  | some (_, c) => some { counter := c, dirty := false }
  | none => none

/-- `next_element`. -/
def Gen.next (g : Gen) : Gen × Ent := ({ counter := g.counter + 1, dirty := true }, g.counter)

/-- `save`: writes only when dirty. -/
def Gen.save (g : Gen) (now : Nat) (d : GenDir) : Gen × GenDir :=
  if g.dirty then ({ g with dirty := false }, d ++ [(now, g.counter)]) else (g, d)

/-- `k` allocations. -/
def Gen.nexts : Gen → Nat → Gen × List Ent
  | g, 0 => (g, [])
  | g, k + 1 =>
    let (g1, e) := g.next
    let (g2, es) := Gen.nexts g1 k
    (g2, e :: es)

/-- A run of sessions `load · k×next · save`, session `i` saving at stamp `stamps i`.
    Returns all entities handed out, in order. -/
def genSessions : GenDir → List (Nat × Nat) → Option (GenDir × List Ent)
  | d, [] => some (d, [])
  | d, (k, now) :: rest =>
    match Gen.load d with
    | none => none
    | some g =>
      let (g1, es) := g.nexts k
      let (_, d1) := g1.save now d
      match genSessions d1 rest with
      | none => none
      | some (d2, es2) => some (d2, es ++ es2)

/-! ## `R1NStore` (`r1nstore.rs`) -/

structure R1N (P C : Type) where
  parents : Store P
  children : Store C
  childParents : Store Ent

variable {P C : Type} [DecidableEq P] [DecidableEq C]

def R1N.new : R1N P C := { parents := Store.new, children := Store.new, childParents := Store.new }

/-- `R1NStore::insert`. -/
def R1N.insert (r : R1N P C) (pe : Ent) (pc : P) (ce : Ent) (cc : C) : R1N P C :=
  let parents := match r.parents.map.find? pe with
    | none => (r.parents.insert pe pc).1
    | some v => if v ≠ pc then (r.parents.update pe pc).1 else r.parents
  { parents := parents
    children := (r.children.insert ce cc).1
    childParents := (r.childParents.insert ce pe).1 }

/-- `R1NStore::children_of` (the child entities; the components are looked up in `children`). -/
def R1N.childrenOf (r : R1N P C) (pe : Ent) : List (Ent × C) :=
  (r.childParents.map.filter (fun p => p.2 = pe)).filterMap
    (fun p => (r.children.map.find? p.1).map (fun c => (p.1, c)))

/-- `R1NStore::parent_of`. -/
def R1N.parentOf (r : R1N P C) (ce : Ent) : Option (Ent × P) :=
  match r.childParents.map.find? ce with
  | none => none
  | some pe => (r.parents.map.find? pe).map (fun v => (pe, v))

/-- `R1NStore::remove_child`. -/
def R1N.removeChild (r : R1N P C) (ce : Ent) : R1N P C :=
  { r with childParents := (r.childParents.remove ce).1, children := (r.children.remove ce).1 }

end Ecs
