import XvcEcs.Rel
import XvcEcs.Props
/-!
  # C08 for 1-1 stores and for the diff layer through which every xvc command writes records

  Property theorems only.  `R11Store` (`ecs/src/ecs/r11store.rs`) and `diff_store` / `apply_diff` /
  `update_with_actual` (`core/src/types/diff.rs`) are the remaining anchored files of C08; the plain store,
  the generator and the 1-N store are in `Props.lean`.  Everything quantifies over all operation
  sequences, all diff stores and all iteration orders of the `HashMap` behind a diff store.
-/
namespace Ecs
open Map

variable {V : Type} [DecidableEq V]

/-! ## the diff layer -/

/-- What "an ordinary in-memory map" does with one diff entry. -/
def specApply (addNew removeMissing : Bool) (cur : Option V) : Diff V → Option V
  | .identical => cur
  | .skipped => cur
  | .recordMissing a => if addNew then some a else cur
  | .actualMissing _ => if removeMissing then none else cur
  | .different _ a => some a

theorem inv_applyOne {s : Store V} (h : Inv s) (an rm : Bool) (e : Ent) (d : Diff V) :
    Inv (applyOne an rm s e d) := by
  cases d with
  | identical => exact h
  | skipped => exact h
  | recordMissing a => simp only [applyOne]; split; exact inv_insert h _ _; exact h
  | actualMissing r => simp only [applyOne]; split; exact inv_remove h _; exact h
  | different r a => exact inv_insert h _ _

theorem inv_applyDiff {s : Store V} (h : Inv s) (diffs : List (Ent × Diff V)) (an rm : Bool) :
    Inv (applyDiff s diffs an rm) := by
  unfold applyDiff
  induction diffs generalizing s with
  | nil => exact h
  | cons p rest ih => exact ih (inv_applyOne h an rm p.1 p.2)

theorem find?_applyOne {s : Store V} (h : Inv s) (an rm : Bool) (e : Ent) (d : Diff V) (x : Ent) :
    (applyOne an rm s e d).map.find? x =
      if e = x then specApply an rm (s.map.find? x) d else s.map.find? x := by
  have hi : ∀ a, ((s.insert e a).1).map.find? x = if e = x then some a else s.map.find? x :=
    fun a => find?_step h (.ins e a) x
  have hr : ((s.remove e).1).map.find? x = if e = x then none else s.map.find? x :=
    find?_step h (.rem e) x
  cases d with
  | identical => simp [applyOne, specApply]
  | skipped => simp [applyOne, specApply]
  | recordMissing a => cases an <;> simp [applyOne, specApply, hi]
  | actualMissing r => cases rm <;> simp [applyOne, specApply, hr]
  | different r a => simp [applyOne, specApply, hi]

/-- **C08_apply_diff_refines_map**: `apply_diff` / `update_with_actual` with any diff store (a key occurs
    once: `WF`), any flags, on any reachable store, changes the entity→component map exactly as a
    plain map would: entities without a diff are untouched, the others get `specApply`. -/
theorem C08_apply_diff_refines_map {s : Store V} (h : Inv s) (diffs : List (Ent × Diff V)) (hwf : WF diffs)
    (an rm : Bool) (x : Ent) :
    (applyDiff s diffs an rm).map.find? x =
      match Map.find? diffs x with
      | some d => specApply an rm (s.map.find? x) d
      | none => s.map.find? x := by
  induction diffs generalizing s with
  | nil => rfl
  | cons p rest ih =>
    obtain ⟨e, d⟩ := p
    have hwf' : WF rest := by
      unfold WF at *; simp only [List.map_cons, List.nodup_cons] at hwf; exact hwf.2
    have hnot : e ∉ rest.map (·.1) := by
      unfold WF at hwf; simp only [List.map_cons, List.nodup_cons] at hwf; exact hwf.1
    show (applyDiff (applyOne an rm s e d) rest an rm).map.find? x = _
    rw [ih (inv_applyOne h an rm e d) hwf', find?_applyOne h]
    by_cases hex : e = x
    · subst hex
      simp [Map.find?, find?_eq_none_of_not_mem rest e hnot]
    · simp [Map.find?, hex]

/-- lookups in a duplicate-free association list do not depend on its order -/
theorem find?_perm {K W : Type} [DecidableEq K] {a b : Map K W} (hp : a.Perm b) (hwf : WF a) (k : K) :
    Map.find? a k = Map.find? b k := by
  have hwfb : WF b := by unfold WF at *; exact (hp.map _).nodup_iff.mp hwf
  cases hb : Map.find? b k with
  | none =>
    cases ha : Map.find? a k with
    | none => rfl
    | some v =>
      have := (mem_iff_find? hwfb k v).mp (hp.subset ((mem_iff_find? hwf k v).mpr ha))
      rw [hb] at this; cases this
  | some v => exact (mem_iff_find? hwf k v).mp (hp.symm.subset ((mem_iff_find? hwfb k v).mpr hb))

/-- **C08_apply_diff_order_irrelevant**: a diff store is a `HashMap`, so `apply_diff` visits it in an
    arbitrary order; every order yields the same entity→component map. -/
theorem C08_apply_diff_order_irrelevant {s : Store V} (h : Inv s) (d1 d2 : List (Ent × Diff V))
    (hp : d1.Perm d2) (hwf : WF d1) (an rm : Bool) (x : Ent) :
    (applyDiff s d1 an rm).map.find? x = (applyDiff s d2 an rm).map.find? x := by
  have hwf2 : WF d2 := by unfold WF at *; exact (hp.map _).nodup_iff.mp hwf
  rw [C08_apply_diff_refines_map h d1 hwf, C08_apply_diff_refines_map h d2 hwf2, find?_perm hp hwf x]

/-- **C08_apply_diff_index_exact**: after `apply_diff` the lookups by value are exact again
    (the place where the stale reverse index F2 used to show). -/
theorem C08_apply_diff_index_exact {s : Store V} (h : Inv s) (diffs : List (Ent × Diff V)) (an rm : Bool)
    (v : V) (e : Ent) :
    (∃ l, (applyDiff s diffs an rm).entitiesFor v = some l ∧ e ∈ l) ↔
      (applyDiff s diffs an rm).map.find? e = some v :=
  (C08_index_exact (inv_applyDiff h diffs an rm) v).1 e

theorem find?_foldl_diffStep (records : Store V) (actuals : Map Ent V) (ents : List Ent) (x : Ent)
    (acc : Map Ent (Diff V)) :
    Map.find? (ents.foldl (diffStep records actuals) acc) x =
      if x ∈ ents then (diffOne (records.map.find? x) (actuals.find? x)).or (Map.find? acc x)
      else Map.find? acc x := by
  induction ents generalizing acc with
  | nil => simp
  | cons e rest ih =>
    simp only [List.foldl_cons, List.mem_cons]
    rw [ih]
    by_cases hex : x = e
    · subst hex
      unfold diffStep
      cases hd : diffOne (records.map.find? x) (actuals.find? x) with
      | none => simp
      | some d => by_cases hx : x ∈ rest <;> simp [hx]
    · have hacc : Map.find? (diffStep records actuals acc e) x = Map.find? acc x := by
        unfold diffStep
        cases diffOne (records.map.find? e) (actuals.find? e) with
        | none => rfl
        | some d => simp [find?_set, Ne.symm hex]
      rw [hacc]
      simp [hex]

/-- `diff_store` classifies one entity by what the two sides hold. -/
theorem find?_diffStore (records : Store V) (actuals : Map Ent V) (ents : List Ent) (x : Ent) :
    Map.find? (diffStore records actuals ents) x =
      if x ∈ ents then diffOne (records.map.find? x) (actuals.find? x) else none := by
  unfold diffStore
  rw [find?_foldl_diffStep]
  simp

theorem wf_diffStore (records : Store V) (actuals : Map Ent V) (ents : List Ent) :
    WF (diffStore records actuals ents) := by
  unfold diffStore
  suffices h : ∀ acc : Map Ent (Diff V), WF acc → WF (ents.foldl (diffStep records actuals) acc) from h [] wf_nil
  intro acc hacc
  induction ents generalizing acc with
  | nil => exact hacc
  | cons e rest ih =>
    apply ih
    unfold diffStep
    split
    · exact wf_set hacc _ _
    · exact hacc

theorem mem_keys_of_find? {K W : Type} [DecidableEq K] (m : Map K W) (k : K) (v : W)
    (h : Map.find? m k = some v) : k ∈ m.keys := by
  induction m with
  | nil => cases h
  | cons p m ih =>
    obtain ⟨pk, pv⟩ := p
    by_cases hk : pk = k
    · subst hk; simp [Map.keys]
    · simp only [Map.find?, hk, if_false] at h
      have := ih h
      simp only [Map.keys, List.map_cons, List.mem_cons] at *
      exact Or.inr this

/-- **C08_diff_then_apply_syncs**: the way every command writes its records — `diff_store` of the
    records against the actual values, then `apply_diff` with both flags — leaves exactly the actual
    values: for every store, every actual map, every entity. -/
theorem C08_diff_then_apply_syncs {s : Store V} (h : Inv s) (actuals : Map Ent V) (x : Ent) :
    (applyDiff s (diffStore s actuals (allEnts s actuals)) true true).map.find? x = actuals.find? x := by
  rw [C08_apply_diff_refines_map h _ (wf_diffStore s actuals _), find?_diffStore]
  by_cases hx : x ∈ allEnts s actuals
  · simp only [hx, if_true]
    cases hr : s.map.find? x <;> cases ha : actuals.find? x <;> simp [diffOne, specApply]
    · rename_i r a
      by_cases hra : r = a <;> simp [hra, specApply]
  · simp only [hx, if_false]
    have h1 : s.map.find? x = none := by
      cases hr : s.map.find? x with
      | none => rfl
      | some r => exact absurd (List.mem_append.mpr (Or.inl (mem_keys_of_find? _ _ _ hr))) hx
    have h2 : actuals.find? x = none := by
      cases ha : actuals.find? x with
      | none => rfl
      | some a => exact absurd (List.mem_append.mpr (Or.inr (mem_keys_of_find? _ _ _ ha))) hx
    rw [h1, h2]

/-- **C08_apply_diff_flags**: without `add_new` no entity appears, without `remove_missing` no entity
    disappears (whatever the diff store says). -/
theorem C08_apply_diff_flags {s : Store V} (h : Inv s) (diffs : List (Ent × Diff V)) (hwf : WF diffs) (x : Ent) :
    (s.map.find? x = none → (∀ r a, Map.find? diffs x ≠ some (.different r a)) →
        (applyDiff s diffs false true).map.find? x = none) ∧
    ((s.map.find? x).isSome → ((applyDiff s diffs true false).map.find? x).isSome) := by
  constructor
  · intro hn hd
    rw [C08_apply_diff_refines_map h diffs hwf]
    cases hf : Map.find? diffs x with
    | none => exact hn
    | some d =>
      cases d with
      | different r a => exact absurd hf (hd r a)
      | _ => simp [specApply, hn]
  · intro hs
    rw [C08_apply_diff_refines_map h diffs hwf]
    cases hf : Map.find? diffs x with
    | none => exact hs
    | some d => cases d <;> simp [specApply, hs]

/-! ## 1-1 stores -/

variable {L R : Type} [DecidableEq L] [DecidableEq R]

inductive Op11 (L R : Type) where
  | ins (e : Ent) (l : L) (r : R)
  | rem (e : Ent)

def R11.step (r : R11 L R) : Op11 L R → R11 L R
  | .ins e l x => r.insert e l x
  | .rem e => r.remove e

def R11.run (r : R11 L R) (ops : List (Op11 L R)) : R11 L R := ops.foldl R11.step r

/-- the specification: an ordinary map from entities to PAIRS -/
def spec11Step (f : Ent → Option (L × R)) : Op11 L R → Ent → Option (L × R)
  | .ins e l x => fun y => if e = y then some (l, x) else f y
  | .rem e => fun y => if e = y then none else f y

def spec11Run (f : Ent → Option (L × R)) (ops : List (Op11 L R)) : Ent → Option (L × R) := ops.foldl spec11Step f

/-- the pair view of a 1-1 store -/
def R11.pair (r : R11 L R) (e : Ent) : Option (L × R) :=
  match r.left.map.find? e, r.right.map.find? e with
  | some l, some x => some (l, x)
  | _, _ => none

structure Inv11 (r : R11 L R) : Prop where
  left : Inv r.left
  right : Inv r.right
  /-- both sides hold the same entities -/
  dom : ∀ e, (r.left.map.find? e).isSome = (r.right.map.find? e).isSome

theorem inv11_new : Inv11 (R11.new : R11 L R) :=
  { left := inv_fromEventLogs _ _, right := inv_fromEventLogs _ _, dom := fun _ => rfl }

theorem inv11_step {r : R11 L R} (h : Inv11 r) (op : Op11 L R) : Inv11 (r.step op) := by
  cases op with
  | ins e l x =>
    refine { left := inv_insert h.left _ _, right := inv_insert h.right _ _, dom := ?_ }
    intro y
    show ((r.left.insert e l).1.map.find? y).isSome = ((r.right.insert e x).1.map.find? y).isSome
    rw [show (r.left.insert e l).1.map.find? y = _ from find?_step h.left (.ins e l) y,
        show (r.right.insert e x).1.map.find? y = _ from find?_step h.right (.ins e x) y]
    by_cases hey : e = y <;> simp [specStep, hey, h.dom y]
  | rem e =>
    refine { left := inv_remove h.left _, right := inv_remove h.right _, dom := ?_ }
    intro y
    show ((r.left.remove e).1.map.find? y).isSome = ((r.right.remove e).1.map.find? y).isSome
    rw [show (r.left.remove e).1.map.find? y = _ from find?_step h.left (.rem e) y,
        show (r.right.remove e).1.map.find? y = _ from find?_step h.right (.rem e) y]
    by_cases hey : e = y <;> simp [specStep, hey, h.dom y]

theorem inv11_run {r : R11 L R} (h : Inv11 r) (ops : List (Op11 L R)) : Inv11 (r.run ops) := by
  unfold R11.run
  induction ops generalizing r with
  | nil => exact h
  | cons op ops ih => exact ih (inv11_step h op)

theorem pair_step {r : R11 L R} (h : Inv11 r) (op : Op11 L R) (y : Ent) :
    (r.step op).pair y = spec11Step r.pair op y := by
  cases op with
  | ins e l x =>
    unfold R11.pair
    show (match (r.left.insert e l).1.map.find? y, (r.right.insert e x).1.map.find? y with
      | some l, some x => some (l, x) | _, _ => none) = _
    rw [show (r.left.insert e l).1.map.find? y = _ from find?_step h.left (.ins e l) y,
        show (r.right.insert e x).1.map.find? y = _ from find?_step h.right (.ins e x) y]
    by_cases hey : e = y <;> simp [specStep, spec11Step, hey, R11.pair]
  | rem e =>
    unfold R11.pair
    show (match (r.left.remove e).1.map.find? y, (r.right.remove e).1.map.find? y with
      | some l, some x => some (l, x) | _, _ => none) = _
    rw [show (r.left.remove e).1.map.find? y = _ from find?_step h.left (.rem e) y,
        show (r.right.remove e).1.map.find? y = _ from find?_step h.right (.rem e) y]
    by_cases hey : e = y <;> simp [specStep, spec11Step, hey, R11.pair]

/-- **C08_r11_refines_map**: a 1-1 store behaves, under any sequence of inserts and removes, as one
    ordinary map from entities to pairs. -/
theorem C08_r11_refines_map {r : R11 L R} (h : Inv11 r) (ops : List (Op11 L R)) (y : Ent) :
    (r.run ops).pair y = spec11Run r.pair ops y := by
  unfold R11.run spec11Run
  induction ops generalizing r with
  | nil => rfl
  | cons op ops ih =>
    simp only [List.foldl_cons]
    rw [ih (inv11_step h op)]
    have : (r.step op).pair = spec11Step r.pair op := funext (pair_step h op)
    rw [this]

/-- **C08_r11_sides_agree**: in every reachable 1-1 store both sides hold exactly the same entities, and
    `tuple`, `left_to_right`, `right_to_left` are the two halves of the pair. -/
theorem C08_r11_sides_agree {r : R11 L R} (h : Inv11 r) (e : Ent) :
    ((r.left.map.find? e).isSome = (r.right.map.find? e).isSome) ∧
    (r.tuple e = ((r.pair e).map (·.1), (r.pair e).map (·.2))) ∧
    (r.leftToRight e = (r.pair e).map (fun p => (e, p.2))) ∧
    (r.rightToLeft e = (r.pair e).map (fun p => (e, p.1))) := by
  have hd := h.dom e
  refine ⟨hd, ?_, ?_, ?_⟩ <;>
    (simp only [R11.tuple, R11.leftToRight, R11.rightToLeft, R11.pair]
     cases hl : r.left.map.find? e <;> cases hr : r.right.map.find? e <;> simp_all)

theorem C08_r11_sides_agree_reachable (ops : List (Op11 L R)) (e : Ent) :
    (((R11.new : R11 L R).run ops).left.map.find? e).isSome =
      (((R11.new : R11 L R).run ops).right.map.find? e).isSome :=
  (C08_r11_sides_agree (inv11_run inv11_new ops) e).1

/-- **C08_r11_lookup_by_left**: `lookup_by_left l` returns the right component of an entity that
    currently holds `l` on the left, and `None` exactly when nobody holds `l`. -/
theorem C08_r11_lookup_by_left {r : R11 L R} (hinv : Inv11 r) (l : L) :
    (∀ x, r.lookupByLeft l = some x → ∃ e, r.pair e = some (l, x)) ∧
    (r.lookupByLeft l = none ↔ ∀ e, r.left.map.find? e ≠ some l) := by
  have hix := C08_index_exact hinv.left l
  constructor
  · intro x hx
    cases he : r.left.entityByValue l with
    | none => simp [R11.lookupByLeft, he] at hx
    | some e =>
      simp only [R11.lookupByLeft, he] at hx
      refine ⟨e, ?_⟩
      have hl := hix.2.2.1 e he
      simp [R11.pair, hl, hx]
  · cases he : r.left.entityByValue l with
    | none => simp only [R11.lookupByLeft, he, true_iff]; exact hix.2.2.2.mp he
    | some e =>
      have hl := hix.2.2.1 e he
      have hd := hinv.dom e
      rw [hl] at hd
      simp only [R11.lookupByLeft, he]
      constructor
      · intro hn; rw [hn] at hd; cases hd
      · intro hall; exact absurd hl (hall e)

/-- **C08_r11_lookup_by_right**: the mirror image. -/
theorem C08_r11_lookup_by_right {r : R11 L R} (hinv : Inv11 r) (x : R) :
    (∀ l, r.lookupByRight x = some l → ∃ e, r.pair e = some (l, x)) ∧
    (r.lookupByRight x = none ↔ ∀ e, r.right.map.find? e ≠ some x) := by
  have hix := C08_index_exact hinv.right x
  constructor
  · intro l hl
    cases he : r.right.entityByValue x with
    | none => simp [R11.lookupByRight, he] at hl
    | some e =>
      simp only [R11.lookupByRight, he] at hl
      refine ⟨e, ?_⟩
      have hr := hix.2.2.1 e he
      simp [R11.pair, hl, hr]
  · cases he : r.right.entityByValue x with
    | none => simp only [R11.lookupByRight, he, true_iff]; exact hix.2.2.2.mp he
    | some e =>
      have hr := hix.2.2.1 e he
      have hd := hinv.dom e
      rw [hr] at hd
      simp only [R11.lookupByRight, he]
      constructor
      · intro hn; rw [hn] at hd; cases hd
      · intro hall; exact absurd hr (hall e)

/-- **C08_r11_entity_by_left**: when `entity_by_left` answers, it answers with the ONLY entity that holds
    the value; it answers `None` exactly when nobody does. -/
theorem C08_r11_entity_by_left {r : R11 L R} (h : Inv r.left) (l : L) :
    (∀ e, r.entityByLeft l = .ok (some e) → r.left.map.find? e = some l ∧ ∀ e', r.left.map.find? e' = some l → e' = e) ∧
    (r.entityByLeft l = .ok none ↔ ∀ e, r.left.map.find? e ≠ some l) := by
  have hx := h.exact l
  have hne := h.noEmpty l
  unfold R11.entityByLeft Store.entitiesFor
  unfold bucket at hx
  cases hf : r.left.index.find? l with
  | none =>
    simp only [hf, Option.getD_none, List.not_mem_nil, false_iff] at hx
    refine ⟨fun e he => (by cases he), ?_⟩
    simp only [true_iff]
    intro e; exact hx e
  | some b =>
    simp only [hf, Option.getD_some] at hx
    have hb := hne b hf
    cases b with
    | nil => exact absurd rfl hb
    | cons a b' =>
      cases b' with
      | nil =>
        simp only [List.mem_singleton] at hx
        refine ⟨?_, ?_⟩
        · intro e he
          simp only [Res.ok.injEq, Option.some.injEq] at he
          subst he
          exact ⟨(hx a).mp rfl, fun e' he' => (hx e').mpr he'⟩
        · constructor
          · intro hc; simp at hc
          · intro hall; exact absurd ((hx a).mp rfl) (hall a)
      | cons a' rest =>
        refine ⟨fun e he => (by cases he), ?_⟩
        constructor
        · intro hc; cases hc
        · intro hall; exact absurd ((hx a).mp (by simp)) (hall a)

/-- the left side of a run of a 1-1 store is a run of the plain left store -/
def leftOps : List (Op11 L R) → List (Op L)
  | [] => []
  | .ins e l _ :: rest => .ins e l :: leftOps rest
  | .rem e :: rest => .rem e :: leftOps rest

def rightOps : List (Op11 L R) → List (Op R)
  | [] => []
  | .ins e _ x :: rest => .ins e x :: rightOps rest
  | .rem e :: rest => .rem e :: rightOps rest

theorem run_left (r0 : R11 L R) (ops : List (Op11 L R)) : (r0.run ops).left = r0.left.run (leftOps ops) := by
  unfold R11.run Store.run
  induction ops generalizing r0 with
  | nil => rfl
  | cons op ops ih =>
    cases op <;> (simp only [List.foldl_cons, leftOps]; rw [ih]; rfl)

theorem run_right (r0 : R11 L R) (ops : List (Op11 L R)) : (r0.run ops).right = r0.right.run (rightOps ops) := by
  unfold R11.run Store.run
  induction ops generalizing r0 with
  | nil => rfl
  | cons op ops ih =>
    cases op <;> (simp only [List.foldl_cons, rightOps]; rw [ih]; rfl)

/-- **C08_r11_reload**: a session on a 1-1 store - load both sides, any inserts and removes, save both
    sides - reloads to exactly the pairs held in memory. -/
theorem C08_r11_reload (dl : Dir L) (dr : Dir R) (ops : List (Op11 L R)) (now : Nat)
    (hsl : DirSorted dl) (hnl : ∀ y ∈ dl, y.1 < now) (hsr : DirSorted dr) (hnr : ∀ y ∈ dr, y.1 < now) (e : Ent) :
    (R11.fromDirs (((R11.fromDirs dl dr).run ops).toDirs now dl dr).1
        (((R11.fromDirs dl dr).run ops).toDirs now dl dr).2).pair e =
      ((R11.fromDirs dl dr).run ops).pair e := by
  have h1 := session_load dl (leftOps ops) now hsl hnl
  have h2 := session_load dr (rightOps ops) now hsr hnr
  unfold session at h1 h2
  simp only [R11.toDirs, R11.pair, R11.fromDirs, run_left, run_right] at *
  rw [h1, h2]

/-! ## non-vacuity and witnesses -/

example : Inv11 ((R11.new : R11 String Nat).run [.ins 1 "a" 10, .ins 2 "b" 20, .rem 1, .ins 2 "c" 30]) :=
  inv11_run inv11_new _

/-- the 1-1 lookup panics on a left value held twice: the code relies on callers keeping left values unique -/
theorem C08_r11_entity_by_left_duplicate_panics :
    ((R11.new : R11 Nat Nat).run [.ins 1 7 10, .ins 2 7 20]).entityByLeft 7 = .panic := by decide

example : WF (diffStore (Store.fromEventLogs [Event.add 1 5, .add 2 6] []) [(2, 7), (3, 8)] [1, 2, 3]) ∧
    diffStore (Store.fromEventLogs [Event.add 1 5, .add 2 6] []) [(2, 7), (3, 8)] [1, 2, 3] =
      [(3, .recordMissing 8), (2, .different 6 7), (1, .actualMissing 5)] := by
  constructor
  · exact wf_diffStore _ _ _
  · decide

example : ((applyDiff (Store.fromEventLogs [Event.add 1 5, .add 2 6] [])
    [(3, .recordMissing 8), (2, .different 6 7), (1, .actualMissing 5)] true true).map.find? 1,
    (applyDiff (Store.fromEventLogs [Event.add 1 5, .add 2 6] [])
    [(3, .recordMissing 8), (2, .different 6 7), (1, .actualMissing 5)] false false).map.find? 1) = (none, some 5) := by
  decide

end Ecs

open Ecs in
#print axioms C08_apply_diff_refines_map
open Ecs in
#print axioms C08_apply_diff_order_irrelevant
open Ecs in
#print axioms C08_apply_diff_index_exact
open Ecs in
#print axioms C08_diff_then_apply_syncs
open Ecs in
#print axioms C08_apply_diff_flags
open Ecs in
#print axioms C08_r11_refines_map
open Ecs in
#print axioms C08_r11_sides_agree
open Ecs in
#print axioms C08_r11_lookup_by_left
open Ecs in
#print axioms C08_r11_lookup_by_right
open Ecs in
#print axioms C08_r11_sides_agree_reachable
open Ecs in
#print axioms C08_r11_entity_by_left
open Ecs in
#print axioms C08_r11_reload
open Ecs in
#print axioms C08_r11_entity_by_left_duplicate_panics
