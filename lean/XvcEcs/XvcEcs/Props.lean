import XvcEcs.Model
import XvcEcs.Lemmas
/-!
  # C08 — Metadata stores replay to exactly what was written

  Property theorems only (helper lemmas are in `Lemmas.lean`).  All statements quantify over every
  operation sequence, every placement of save/load boundaries, every interleaving of divergent
  branches and every number of allocations; nothing is bounded.
-/
namespace Ecs
open Map

variable {V : Type} [DecidableEq V]

/-! ## operations and the specification -/

inductive Op (V : Type) where
  | ins (e : Ent) (v : V)
  | upd (e : Ent) (v : V)
  | rem (e : Ent)
  deriving Repr

def Store.step (s : Store V) : Op V → Store V
  | .ins e v => (s.insert e v).1
  | .upd e v => (s.update e v).1
  | .rem e => (s.remove e).1

def Store.run (s : Store V) (ops : List (Op V)) : Store V := ops.foldl Store.step s

/-- The specification: "an ordinary in-memory map". -/
def specStep (f : Ent → Option V) : Op V → Ent → Option V
  | .ins e v => fun x => if e = x then some v else f x
  | .upd e v => fun x => if e = x then some v else f x
  | .rem e => fun x => if e = x then none else f x

def specRun (f : Ent → Option V) (ops : List (Op V)) : Ent → Option V := ops.foldl specStep f

/-! ## the store invariant -/

/-- What every reachable store satisfies: the map is literally the replay of its two logs,
    the reverse index is exact and has no empty bucket. -/
structure Inv (s : Store V) : Prop where
  replayed : s.map = replay [] (s.previous ++ s.current)
  wf : WF s.map
  exact : IndexExact s.map s.index
  noEmpty : NoEmpty s.index

theorem inv_fromEventLogs (p c : List (Event V)) : Inv (Store.fromEventLogs p c) := by
  have hwf : WF (replay (replay ([] : Map Ent V) p) c) := replay_wf (replay_wf wf_nil p) c
  exact {
    replayed := by simp [Store.fromEventLogs, replay_append]
    wf := hwf
    exact := buildIndex_exact hwf
    noEmpty := buildIndex_noEmpty _ }

theorem inv_insert {s : Store V} (h : Inv s) (e : Ent) (v : V) : Inv (s.insert e v).1 := by
  refine { replayed := ?_, wf := ?_, exact := ?_, noEmpty := ?_ }
  · simp only [Store.insert]
    rw [← List.append_assoc, replay_append, ← h.replayed]; rfl
  · exact wf_set h.wf e v
  · intro v' e'
    simp only [Store.insert]
    rw [bucket_indexPush, find?_set]
    have hx := h.exact
    cases hp : s.map.find? e with
    | none =>
      simp only
      by_cases hv : v = v' <;> by_cases he : e = e'
      · subst hv; subst he; simp
      · subst hv; simp [he, hx v e', Ne.symm he]
      · subst he; simp [hv, hx v' e, hp]
      · simp [hv, he, hx v' e']
    | some pv =>
      simp only
      by_cases hv : v = v' <;> by_cases he : e = e'
      · subst hv; subst he; simp
      · subst hv
        simp only [if_true, he, if_false, List.mem_append, List.mem_singleton, Ne.symm he, or_false]
        rw [bucket_indexDrop]; split
        · rw [mem_dropEnt]; simp [hx v e', Ne.symm he]
        · exact hx v e'
      · subst he
        simp only [hv, if_false, if_true, Option.some.injEq]
        rw [bucket_indexDrop]; split
        · rw [mem_dropEnt]; simp
        · rename_i hne; rw [hx v' e, hp]; simp; exact hne
      · simp only [hv, he, if_false]
        rw [bucket_indexDrop]; split
        · rw [mem_dropEnt]; simp [hx v' e', Ne.symm he]
        · exact hx v' e'
  · simp only [Store.insert]
    apply noEmpty_indexPush
    cases s.map.find? e with
    | none => exact h.noEmpty
    | some pv => exact noEmpty_indexDrop h.noEmpty pv e

/-- In a store satisfying the invariant the "value in map but no bucket" branch of `remove` is dead. -/
theorem bucket_exists {s : Store V} (h : Inv s) {e : Ent} {v : V} (hm : s.map.find? e = some v) :
    ∃ l, s.index.find? v = some l := by
  have := (h.exact v e).mpr hm
  unfold bucket at this
  cases hf : s.index.find? v with
  | none => simp [hf] at this
  | some l => exact ⟨l, rfl⟩

theorem inv_remove {s : Store V} (h : Inv s) (e : Ent) : Inv (s.remove e).1 := by
  unfold Store.remove
  cases hm : s.map.find? e with
  | none => exact h
  | some v =>
    obtain ⟨l, hl⟩ := bucket_exists h hm
    simp only [hl]
    refine { replayed := ?_, wf := wf_del h.wf e, exact := ?_, noEmpty := noEmpty_indexDrop h.noEmpty v e }
    · simp only
      rw [← List.append_assoc, replay_append, ← h.replayed]; rfl
    · intro v' e'
      simp only
      rw [find?_del, bucket_indexDrop]
      have hx := h.exact
      by_cases hv : v = v' <;> by_cases he : e = e'
      · subst hv; subst he; simp [mem_dropEnt]
      · subst hv; simp [he, mem_dropEnt, hx v e', Ne.symm he]
      · subst he; simp [hv, hx v' e, hm]
      · simp [hv, he, hx v' e']

theorem inv_update {s : Store V} (h : Inv s) (e : Ent) (v : V) : Inv (s.update e v).1 := by
  unfold Store.update
  split
  · exact inv_insert (inv_remove h e) e v
  · exact inv_insert h e v

theorem inv_step {s : Store V} (h : Inv s) (op : Op V) : Inv (s.step op) := by
  cases op with
  | ins e v => exact inv_insert h e v
  | upd e v => exact inv_update h e v
  | rem e => exact inv_remove h e

theorem inv_run {s : Store V} (h : Inv s) (ops : List (Op V)) : Inv (s.run ops) := by
  induction ops generalizing s with
  | nil => exact h
  | cons op ops ih => exact ih (inv_step h op)

/-! ## C08.1  the store refines a plain map -/

theorem find?_step {s : Store V} (h : Inv s) (op : Op V) (x : Ent) :
    (s.step op).map.find? x = specStep (fun y => s.map.find? y) op x := by
  cases op with
  | ins e v => simp [Store.step, Store.insert, specStep, find?_set]
  | upd e v =>
    simp only [Store.step, Store.update, specStep]
    split
    · simp only [Store.insert, find?_set]
      split
      · rfl
      · rename_i hne
        unfold Store.remove
        cases hm : s.map.find? e with
        | none => rfl
        | some v0 =>
          obtain ⟨l, hl⟩ := bucket_exists h hm
          simp [hl, find?_del, hne]
    · simp [Store.insert, find?_set]
  | rem e =>
    simp only [Store.step, specStep]
    unfold Store.remove
    cases hm : s.map.find? e with
    | none => simp only; split <;> simp_all
    | some v0 =>
      obtain ⟨l, hl⟩ := bucket_exists h hm
      simp [hl, find?_del]

/-- **C08_refines_map**: after any operation sequence on any reachable store the entity→component
    map is the one a plain map would hold. -/
theorem C08_refines_map {s : Store V} (h : Inv s) (ops : List (Op V)) (x : Ent) :
    (s.run ops).map.find? x = specRun (fun y => s.map.find? y) ops x := by
  induction ops generalizing s with
  | nil => rfl
  | cons op ops ih =>
    show ((s.step op).run ops).map.find? x = specRun (specStep (fun y => s.map.find? y) op) ops x
    rw [ih (inv_step h op)]
    congr 1
    funext y
    exact find?_step h op y

/-! ## C08.2  reload after any split into save/load sessions -/

/-- One session: load the directory, run the operations, save at stamp `now`. -/
def session (d : Dir V) (ops : List (Op V)) (now : Nat) : Dir V :=
  ((Store.fromDir d).run ops).toDir now d

/-- A history of sessions `(ops, stamp)`. -/
def sessions (d : Dir V) : List (List (Op V) × Nat) → Dir V
  | [] => d
  | (ops, now) :: rest => sessions (session d ops now) rest

/-- stamps are strictly increasing and larger than everything already in the directory -/
def StampsOK (hi : Nat) : List (List (Op V) × Nat) → Prop
  | [] => True
  | (_, now) :: rest => hi < now ∧ StampsOK now rest

theorem run_previous (s : Store V) (ops : List (Op V)) : (s.run ops).previous = s.previous := by
  induction ops generalizing s with
  | nil => rfl
  | cons op ops ih =>
    show ((s.step op).run ops).previous = _
    rw [ih]
    cases op with
    | ins e v => rfl
    | upd e v => simp only [Store.step, Store.update, Store.insert]; split <;> (try rfl); unfold Store.remove; split <;> (try split) <;> rfl
    | rem e => simp only [Store.step]; unfold Store.remove; split <;> (try split) <;> rfl

/-- what a session leaves on disk replays to the in-memory map of that session -/
theorem session_load (d : Dir V) (ops : List (Op V)) (now : Nat)
    (hs : DirSorted d) (hn : ∀ y ∈ d, y.1 < now) :
    (Store.fromDir (session d ops now)).map = ((Store.fromDir d).run ops).map := by
  have hinv : Inv ((Store.fromDir d).run ops) := inv_run (inv_fromEventLogs _ _) ops
  have hprev : ((Store.fromDir d).run ops).previous = loadEvents d := by
    rw [run_previous]; rfl
  unfold session Store.toDir
  split
  · rename_i hc
    rw [hinv.replayed, hc, hprev]
    simp [Store.fromDir, Store.fromEventLogs, replay]
  · rw [hinv.replayed, hprev]
    simp only [Store.fromDir, Store.fromEventLogs]
    rw [loadEvents_append_sorted d now _ hs hn]
    simp [replay]

theorem session_sorted (d : Dir V) (ops : List (Op V)) (now : Nat)
    (hs : DirSorted d) (hn : ∀ y ∈ d, y.1 < now) :
    DirSorted (session d ops now) ∧ ∀ y ∈ session d ops now, y.1 ≤ now := by
  unfold session Store.toDir
  split
  · exact ⟨hs, fun y hy => Nat.le_of_lt (hn y hy)⟩
  · refine ⟨dirSorted_append d _ hs hn, ?_⟩
    intro y hy
    simp only [List.mem_append, List.mem_singleton] at hy
    rcases hy with hy | hy
    · exact Nat.le_of_lt (hn y hy)
    · subst hy; exact Nat.le_refl _

/-- **C08_reload**: for every history of sessions — any operations, any placement of the
    save/reload boundaries — with increasing file stamps, loading the directory yields exactly the
    map a plain in-memory map would hold after all operations of all sessions. -/
theorem C08_reload (d : Dir V) (ss : List (List (Op V) × Nat)) (hi : Nat)
    (hs : DirSorted d) (hn : ∀ y ∈ d, y.1 ≤ hi) (hst : StampsOK hi ss) (x : Ent) :
    (Store.fromDir (sessions d ss)).map.find? x =
      specRun (fun y => (Store.fromDir d).map.find? y) (ss.map (·.1)).flatten x := by
  induction ss generalizing d hi with
  | nil => rfl
  | cons s rest ih =>
    obtain ⟨ops, now⟩ := s
    obtain ⟨h1, h2⟩ := hst
    have hn' : ∀ y ∈ d, y.1 < now := fun y hy => Nat.lt_of_le_of_lt (hn y hy) h1
    obtain ⟨hs', hle⟩ := session_sorted d ops now hs hn'
    show (Store.fromDir (sessions (session d ops now) rest)).map.find? x = _
    rw [ih (session d ops now) now hs' hle h2]
    have hf : (fun y => (Store.fromDir (session d ops now)).map.find? y) =
        specRun (fun y => (Store.fromDir d).map.find? y) ops := by
      funext y
      rw [session_load d ops now hs hn']
      exact C08_refines_map (inv_fromEventLogs _ _) ops y
    rw [hf]
    simp only [List.map_cons, List.flatten_cons]
    unfold specRun
    rw [List.foldl_append]

/-! ## C08.3  lookups by value -/

/-- **C08_index_exact**: in every reachable store, `entities_for v` lists exactly the entities whose
    current component is `v`; it is `None` exactly when nobody holds `v`; `entity_by_value` returns a
    current holder; `index_map` does not panic. -/
theorem C08_index_exact {s : Store V} (h : Inv s) (v : V) :
    (∀ e, (∃ l, s.entitiesFor v = some l ∧ e ∈ l) ↔ s.map.find? e = some v) ∧
    (s.entitiesFor v = none ↔ ∀ e, s.map.find? e ≠ some v) ∧
    (∀ e, s.entityByValue v = some e → s.map.find? e = some v) ∧
    (s.entityByValue v = none ↔ ∀ e, s.map.find? e ≠ some v) := by
  have hx := h.exact v
  have hne := h.noEmpty v
  unfold Store.entityByValue Store.entitiesFor bucket at *
  cases hf : s.index.find? v with
  | none =>
    simp only [hf, Option.getD_none, List.not_mem_nil, false_iff] at hx
    simp [hx]
  | some l =>
    simp only [hf, Option.getD_some] at hx
    have hl := hne l hf
    obtain ⟨a, ha⟩ : ∃ a, a ∈ l := by
      cases l with
      | nil => exact absurd rfl hl
      | cons a l => exact ⟨a, by simp⟩
    refine ⟨by simpa using hx, ?_, ?_, ?_⟩
    · constructor
      · intro h; cases h
      · intro h; exact absurd ((hx a).mp ha) (h a)
    · intro e he
      cases l with
      | nil => simp at he
      | cons b l => simp at he; subst he; exact (hx b).mp (by simp)
    · constructor
      · intro h
        cases l with
        | nil => exact absurd rfl hl
        | cons b l => simp at h
      · intro h; exact absurd ((hx a).mp ha) (h a)

/-- reachable = obtained from a load (of anything) by any operations -/
theorem C08_index_exact_reachable (p c : List (Event V)) (ops : List (Op V)) (v : V) (e : Ent) :
    let s := (Store.fromEventLogs p c).run ops
    (∃ l, s.entitiesFor v = some l ∧ e ∈ l) ↔ s.map.find? e = some v :=
  (C08_index_exact (inv_run (inv_fromEventLogs p c) ops) v).1 e

theorem indexMap_isSome_of_noEmpty (ix : Map V (List Ent)) (h : ∀ p ∈ ix, p.2 ≠ []) :
    (ix.foldr (fun p acc =>
      match acc, p.2.head? with
      | some l, some e => some ((p.1, e) :: l)
      | _, _ => none) (some [])).isSome := by
  induction ix with
  | nil => rfl
  | cons p ix ih =>
    simp only [List.foldr_cons]
    have h1 := ih (fun q hq => h q (by simp [hq]))
    have h2 := h p (by simp)
    cases hacc : List.foldr _ _ ix with
    | none => simp [hacc] at h1
    | some l =>
      cases hp : p.2 with
      | nil => exact absurd hp h2
      | cons a t => simp

/-! ## C08.4  saving is append-only -/

/-- **C08_save_append_only**: a save keeps every existing file (same name, same content, same
    position) and adds at most one; a store that was only loaded writes nothing. -/
theorem C08_save_append_only (s : Store V) (now : Nat) (d : Dir V) :
    d <+: s.toDir now d ∧ (s.toDir now d).length ≤ d.length + 1 ∧
    (s.current = [] → s.toDir now d = d) := by
  unfold Store.toDir
  split
  · simp
  · rename_i h; simp [h]

theorem C08_load_then_save_writes_nothing (d : Dir V) (now : Nat) :
    (Store.fromDir d).toDir now d = d := by
  simp [Store.toDir, Store.fromDir, Store.fromEventLogs]

/-! ## C08.5  divergent branches on disjoint entities merge in any order -/

/-- `l` is an interleaving of `a` and `b` (both keep their own relative order). -/
inductive Interleave {α : Type} : List α → List α → List α → Prop where
  | nil : Interleave [] [] []
  | left (x : α) {a b l : List α} : Interleave a b l → Interleave (x :: a) b (x :: l)
  | right (x : α) {a b l : List α} : Interleave a b l → Interleave a (x :: b) (x :: l)

theorem Interleave.filter_left {α : Type} {a b l : List α} (p : α → Bool) (h : Interleave a b l)
    (hb : ∀ x ∈ b, p x = false) : l.filter p = a.filter p := by
  induction h with
  | nil => rfl
  | left x _ ih => simp only [List.filter_cons]; rw [ih hb]
  | right x _ ih =>
    have hx : p x = false := hb x (by simp)
    simp only [List.filter_cons, hx]
    exact ih (fun y hy => hb y (by simp [hy]))

theorem Interleave.symm {α : Type} {a b l : List α} (h : Interleave a b l) : Interleave b a l := by
  induction h with
  | nil => exact .nil
  | left x _ ih => exact .right x ih
  | right x _ ih => exact .left x ih

/-- files of two branches merged in any stamp order give an interleaving of the event lists -/
theorem Interleave.flatten {α : Type} {a b l : List (List α)} (h : Interleave a b l) :
    Interleave a.flatten b.flatten l.flatten := by
  induction h with
  | nil => exact .nil
  | left x _ ih =>
    simp only [List.flatten_cons]
    induction x with
    | nil => simpa using ih
    | cons y ys ihy => exact .left y ihy
  | right x _ ih =>
    simp only [List.flatten_cons]
    induction x with
    | nil => simpa using ih
    | cons y ys ihy => exact .right y ihy

/-- **C08_merge_disjoint**: if branches `A` and `B` (event lists written after a common ancestor
    `base`) touch disjoint entities, then for **every** interleaving `l` of their events the loaded
    map is the union: an entity not touched by `B` has the value branch `A` gave it, and vice versa. -/
theorem C08_merge_disjoint (base : Map Ent V) (A B l : List (Event V)) (h : Interleave A B l)
    (hdis : ∀ a ∈ A, ∀ b ∈ B, a.ent ≠ b.ent) (e : Ent) :
    ((∀ b ∈ B, b.ent ≠ e) → (replay base l).find? e = (replay base A).find? e) ∧
    ((∀ a ∈ A, a.ent ≠ e) → (replay base l).find? e = (replay base B).find? e) ∧
    ((∀ a ∈ A, a.ent ≠ e) → (∀ b ∈ B, b.ent ≠ e) → (replay base l).find? e = base.find? e) := by
  have key : ∀ (A B l : List (Event V)), Interleave A B l → (∀ b ∈ B, b.ent ≠ e) →
      (replay base l).find? e = (replay base A).find? e := by
    intro A B l h hB
    rw [replay_projection base l e, replay_projection base A e,
      h.filter_left (fun ev => decide (ev.ent = e)) (by intro x hx; simpa using hB x hx)]
  refine ⟨key A B l h, key B A l h.symm, ?_⟩
  intro hA hB
  rw [key A B l h hB, replay_projection base A e]
  have : A.filter (fun ev => decide (ev.ent = e)) = [] := by
    rw [List.filter_eq_nil_iff]; intro a ha; simpa using hA a ha
  rw [this]; rfl

/-- every entity is covered by one of the three cases of `C08_merge_disjoint` -/
theorem C08_merge_cases (A B : List (Event V)) (hdis : ∀ a ∈ A, ∀ b ∈ B, a.ent ≠ b.ent) (e : Ent) :
    (∀ b ∈ B, b.ent ≠ e) ∨ (∀ a ∈ A, a.ent ≠ e) := by
  by_cases h : ∃ b ∈ B, b.ent = e
  · obtain ⟨b, hb, hbe⟩ := h
    right; intro a ha hae; exact hdis a ha b hb (by rw [hae, hbe])
  · left; intro b hb hbe; exact h ⟨b, hb, hbe⟩

/-! ## C08.6  entity identifiers are never handed out twice -/

theorem nexts_spec (g : Gen) (k : Nat) :
    (g.nexts k).2 = List.range' g.counter k ∧ (g.nexts k).1.counter = g.counter + k ∧
    ((g.nexts k).1.dirty = (g.dirty || decide (0 < k))) := by
  induction k generalizing g with
  | zero => simp [Gen.nexts]
  | succ k ih =>
    obtain ⟨h1, h2, h3⟩ := ih ⟨g.counter + 1, true⟩
    simp only [Gen.nexts, Gen.next]
    refine ⟨?_, ?_, ?_⟩
    · rw [h1]; rfl
    · rw [h2]; simp only; omega
    · rw [h3]; simp

theorem gen_load_append (d : GenDir) (now c : Nat) (hs : DirSorted d) (hn : ∀ y ∈ d, y.1 < now) :
    Gen.load (d ++ [(now, c)]) = some { counter := c, dirty := false } := by
  unfold Gen.load
  rw [sortDir_sorted _ (dirSorted_append d (now, c) hs hn)]
  simp

def GenStampsOK (hi : Nat) : List (Nat × Nat) → Prop
  | [] => True
  | (_, now) :: rest => hi < now ∧ GenStampsOK now rest

/-- **C08_gen_unique**: over any number of sessions `load · k×next · save` with increasing file
    stamps, the identifiers handed out are exactly `c, c+1, c+2, …` where `c` is the counter first
    loaded: strictly increasing, so none is ever handed out twice, in that or any later session. -/
theorem C08_gen_unique (d : GenDir) (ss : List (Nat × Nat)) (hi c : Nat)
    (hs : DirSorted d) (hn : ∀ y ∈ d, y.1 ≤ hi) (hst : GenStampsOK hi ss)
    (hload : Gen.load d = some { counter := c, dirty := false })
    (d' : GenDir) (es : List Ent) (hrun : genSessions d ss = some (d', es)) :
    es = List.range' c es.length := by
  induction ss generalizing d hi c d' es with
  | nil =>
    simp [genSessions] at hrun
    obtain ⟨_, h⟩ := hrun
    subst h; rfl
  | cons s rest ih =>
    obtain ⟨k, now⟩ := s
    obtain ⟨h1, h2⟩ := hst
    have hn' : ∀ y ∈ d, y.1 < now := fun y hy => Nat.lt_of_le_of_lt (hn y hy) h1
    simp only [genSessions, hload] at hrun
    obtain ⟨n1, n2, n3⟩ := nexts_spec { counter := c, dirty := false } k
    generalize hg : Gen.nexts { counter := c, dirty := false } k = gk at *
    obtain ⟨g1, es1⟩ := gk
    simp only at n1 n2 n3 hrun
    by_cases hk : k = 0
    · -- nothing allocated: not dirty, nothing written
      subst hk
      have hd : g1.dirty = false := by simpa using n3
      simp only [Gen.save, hd, Bool.false_eq_true, if_false] at hrun
      cases hrest : genSessions d rest with
      | none => simp [hrest] at hrun
      | some r =>
        obtain ⟨d2, es2⟩ := r
        simp only [hrest, Option.some.injEq, Prod.mk.injEq] at hrun
        have := ih d now c hs (fun y hy => Nat.le_of_lt (hn' y hy)) h2 hload d2 es2 hrest
        rw [← hrun.2, n1]
        simp only [List.range'_zero, List.nil_append]
        exact this
    · have hd : g1.dirty = true := by simp [n3]; omega
      simp only [Gen.save, hd, if_true] at hrun
      cases hrest : genSessions (d ++ [(now, g1.counter)]) rest with
      | none => simp [hrest] at hrun
      | some r =>
        obtain ⟨d2, es2⟩ := r
        simp only [hrest, Option.some.injEq, Prod.mk.injEq] at hrun
        have hle : ∀ y ∈ d ++ [(now, g1.counter)], y.1 ≤ now := by
          intro y hy
          simp only [List.mem_append, List.mem_singleton] at hy
          rcases hy with hy | hy
          · exact Nat.le_of_lt (hn' y hy)
          · subst hy; exact Nat.le_refl _
        have := ih (d ++ [(now, g1.counter)]) now g1.counter
          (dirSorted_append d (now, g1.counter) hs hn') hle h2 (gen_load_append d now _ hs hn') d2 es2 hrest
        rw [← hrun.2, n1, List.length_append, List.length_range', ← List.range'_append_1, ← n2, ← this]

/-- consequence in the words of the property: no identifier is handed out twice -/
theorem C08_gen_nodup (d : GenDir) (ss : List (Nat × Nat)) (hi c : Nat)
    (hs : DirSorted d) (hn : ∀ y ∈ d, y.1 ≤ hi) (hst : GenStampsOK hi ss)
    (hload : Gen.load d = some { counter := c, dirty := false })
    (d' : GenDir) (es : List Ent) (hrun : genSessions d ss = some (d', es)) : es.Nodup := by
  rw [C08_gen_unique d ss hi c hs hn hst hload d' es hrun]
  exact List.nodup_range'

/-- a session that allocates nothing writes no counter file (issue 185) -/
theorem C08_gen_no_alloc_no_file (d : GenDir) (g : Gen) (now : Nat) (h : Gen.load d = some g) :
    (g.save now d).2 = d := by
  unfold Gen.load at h
  split at h <;> simp at h
  subst h; rfl

/-! ## C08.7  1-N stores -/

variable {P C : Type} [DecidableEq P] [DecidableEq C]

/-- **C08_r1n_children**: `children_of p` is exactly the set of children whose recorded parent is `p`
    (with their components). -/
theorem C08_r1n_children (r : R1N P C) (hwf : WF r.childParents.map) (pe ce : Ent) (c : C) :
    (ce, c) ∈ r.childrenOf pe ↔ r.childParents.map.find? ce = some pe ∧ r.children.map.find? ce = some c := by
  unfold R1N.childrenOf
  simp only [List.mem_filterMap, List.mem_filter, decide_eq_true_eq, Option.map_eq_some_iff,
    Prod.mk.injEq]
  constructor
  · rintro ⟨⟨a, b⟩, ⟨hm, hb⟩, c', hc, ha, hcc⟩
    simp only at hb ha hc; subst hb; subst ha; subst hcc
    exact ⟨(mem_iff_find? hwf _ _).mp hm, hc⟩
  · rintro ⟨h1, h2⟩
    exact ⟨(ce, pe), ⟨(mem_iff_find? hwf _ _).mpr h1, rfl⟩, c, h2, rfl, rfl⟩

/-- **C08_r1n_parent**: after `insert p … c …`, `parent_of c` is `p` with the component just given. -/
theorem C08_r1n_parent (r : R1N P C) (pe : Ent) (pc : P) (ce : Ent) (cc : C) :
    (r.insert pe pc ce cc).parentOf ce = some (pe, pc) := by
  unfold R1N.parentOf R1N.insert
  simp only [Store.insert, find?_set_same]
  cases hp : r.parents.map.find? pe with
  | none => simp [Store.insert]
  | some v =>
    simp only
    by_cases hv : v = pc
    · subst hv; simp [hp]
    · simp only [ne_eq, hv, not_false_eq_true, if_true, Store.update, hp, Option.isSome_some,
        Store.insert, find?_set_same, Option.map_some]

/-! ## non-vacuity: concrete non-trivial instances of the hypotheses -/

example : Inv ((Store.fromEventLogs [Event.add 1 "a", .add 2 "a"] []).run [.ins 1 "b", .rem 2, .upd 3 "a"]) :=
  inv_run (inv_fromEventLogs _ _) _

example : DirSorted ([(3, [Event.add 1 "a"]), (7, [.remove 1])] : Dir String) ∧
    StampsOK 7 ([([Op.ins 1 "x"], 9), ([.rem 1], 12)] : List (List (Op String) × Nat)) := by
  simp [DirSorted, StampsOK]

example : Interleave [Event.add 1 "a", .remove 1] [Event.add 2 "b"] [.add 1 "a", .add 2 "b", .remove 1] :=
  .left _ (.right _ (.left _ .nil))

example : Gen.load [(5, 10)] = some { counter := 10, dirty := false } ∧
    genSessions [(5, 10)] [(2, 6), (0, 7), (3, 8)] = some ([(5, 10), (6, 12), (8, 15)], [10, 11, 12, 13, 14]) := by
  decide

end Ecs

open Ecs in
#print axioms C08_refines_map
open Ecs in
#print axioms C08_reload
open Ecs in
#print axioms C08_index_exact
open Ecs in
#print axioms C08_index_exact_reachable
open Ecs in
#print axioms indexMap_isSome_of_noEmpty
open Ecs in
#print axioms C08_save_append_only
open Ecs in
#print axioms C08_load_then_save_writes_nothing
open Ecs in
#print axioms C08_merge_disjoint
open Ecs in
#print axioms C08_merge_cases
open Ecs in
#print axioms Interleave.flatten
open Ecs in
#print axioms C08_gen_unique
open Ecs in
#print axioms C08_gen_nodup
open Ecs in
#print axioms C08_gen_no_alloc_no_file
open Ecs in
#print axioms C08_r1n_children
open Ecs in
#print axioms C08_r1n_parent
