import XvcEcs.Model
/-! Helper lemmas for the ECS model.  Property theorems live in `XvcEcs/Props.lean`. -/
namespace Ecs

namespace Map
variable {K V : Type} [DecidableEq K]

@[simp] theorem find?_nil (k : K) : find? ([] : Map K V) k = none := rfl

theorem find?_del_same (m : Map K V) (k : K) : find? (del m k) k = none := by
  induction m with
  | nil => rfl
  | cons p m ih =>
    obtain ⟨pk, pv⟩ := p
    by_cases h : pk = k <;> simp [del, find?, h, ih]

theorem find?_del_other (m : Map K V) {k k' : K} (h : k ≠ k') : find? (del m k) k' = find? m k' := by
  induction m with
  | nil => rfl
  | cons p m ih =>
    obtain ⟨pk, pv⟩ := p
    by_cases h1 : pk = k
    · have : pk ≠ k' := by rw [h1]; exact h
      simp [del, find?, h1, ih, h]
    · by_cases h2 : pk = k'
      · subst h2; simp [del, find?, h1]
      · simp [del, find?, h1, h2, ih]

@[simp] theorem find?_set_same (m : Map K V) (k : K) (v : V) : find? (set m k v) k = some v := by
  simp [set, find?]

theorem find?_set_other (m : Map K V) {k k' : K} (v : V) (h : k ≠ k') :
    find? (set m k v) k' = find? m k' := by
  simp [set, find?, h, find?_del_other m h]

theorem find?_set (m : Map K V) (k k' : K) (v : V) :
    find? (set m k v) k' = if k = k' then some v else find? m k' := by
  by_cases h : k = k'
  · subst h; simp
  · simp [h, find?_set_other m v h]

theorem find?_del (m : Map K V) (k k' : K) :
    find? (del m k) k' = if k = k' then none else find? m k' := by
  by_cases h : k = k'
  · subst h; simp [find?_del_same]
  · simp [h, find?_del_other m h]

/-- keys are pairwise distinct -/
def WF (m : Map K V) : Prop := (m.map (·.1)).Nodup

theorem wf_nil : WF ([] : Map K V) := by simp [WF]

theorem keys_del_sublist (m : Map K V) (k : K) : ((del m k).map (·.1)).Sublist (m.map (·.1)) := by
  induction m with
  | nil => simp [del]
  | cons p m ih =>
    obtain ⟨pk, pv⟩ := p
    by_cases h : pk = k
    · simp only [del, h, if_true, List.map_cons]; exact List.Sublist.cons _ ih
    · simp only [del, h, if_false, List.map_cons]; exact List.Sublist.cons₂ _ ih

theorem wf_del {m : Map K V} (h : WF m) (k : K) : WF (del m k) :=
  List.Nodup.sublist (keys_del_sublist m k) h

theorem not_mem_keys_del (m : Map K V) (k : K) : k ∉ (del m k).map (·.1) := by
  induction m with
  | nil => simp [del]
  | cons p m ih =>
    obtain ⟨pk, pv⟩ := p
    by_cases h : pk = k
    · simpa [del, h] using ih
    · simp only [del, h, if_false, List.map_cons, List.mem_cons, not_or]
      exact ⟨Ne.symm h, ih⟩

theorem wf_set {m : Map K V} (h : WF m) (k : K) (v : V) : WF (set m k v) := by
  unfold WF set
  simp only [List.map_cons, List.nodup_cons]
  exact ⟨not_mem_keys_del m k, wf_del h k⟩

theorem find?_eq_none_of_not_mem (m : Map K V) (k : K) (h : k ∉ m.map (·.1)) : find? m k = none := by
  induction m with
  | nil => rfl
  | cons p m ih =>
    simp only [List.map_cons, List.mem_cons, not_or] at h
    simp [find?, Ne.symm h.1, ih h.2]

theorem mem_iff_find? {m : Map K V} (h : WF m) (k : K) (v : V) : (k, v) ∈ m ↔ find? m k = some v := by
  induction m with
  | nil => simp
  | cons p m ih =>
    obtain ⟨pk, pv⟩ := p
    unfold WF at h
    simp only [List.map_cons, List.nodup_cons] at h
    have ih := ih h.2
    by_cases hk : pk = k
    · subst hk
      simp only [find?, if_true, List.mem_cons, Prod.mk.injEq, true_and, Option.some.injEq]
      constructor
      · rintro (h1 | h1)
        · exact h1.symm
        · exact absurd (List.mem_map_of_mem (f := (·.1)) h1) h.1
      · intro h1; exact Or.inl h1.symm
    · simp only [find?, hk, if_false, List.mem_cons, Prod.mk.injEq]
      constructor
      · rintro (h1 | h1)
        · exact absurd h1.1.symm hk
        · exact ih.mp h1
      · intro h1; exact Or.inr (ih.mpr h1)

end Map

open Map

/-! ## replay -/

variable {V : Type}

theorem replay_append (m : Map Ent V) (a b : List (Event V)) :
    replay m (a ++ b) = replay (replay m a) b := by
  simp [replay, List.foldl_append]

theorem find?_applyEvent (m : Map Ent V) (ev : Event V) (e : Ent) :
    find? (applyEvent m ev) e =
      match ev with
      | .add e' v => if e' = e then some v else find? m e
      | .remove e' => if e' = e then none else find? m e := by
  cases ev <;> simp [applyEvent, find?_set, find?_del]

theorem applyEvent_wf {m : Map Ent V} (h : WF m) (ev : Event V) : WF (applyEvent m ev) := by
  cases ev <;> simp [applyEvent, wf_set h, wf_del h]

theorem replay_wf {m : Map Ent V} (h : WF m) (evs : List (Event V)) : WF (replay m evs) := by
  induction evs generalizing m with
  | nil => exact h
  | cons ev evs ih => exact ih (applyEvent_wf h ev)

/-- lookups after a replay depend on the starting map only through its lookups -/
theorem replay_congr (m m' : Map Ent V) (evs : List (Event V)) (e : Ent)
    (h : find? m e = find? m' e) : find? (replay m evs) e = find? (replay m' evs) e := by
  induction evs generalizing m m' with
  | nil => exact h
  | cons ev evs ih =>
    apply ih
    rw [find?_applyEvent, find?_applyEvent]
    cases ev <;> simp [h]

/-- an event on another entity does not change the lookup of `e` -/
theorem replay_skip (m : Map Ent V) (ev : Event V) (evs : List (Event V)) (e : Ent)
    (h : ev.ent ≠ e) : find? (replay m (ev :: evs)) e = find? (replay m evs) e := by
  show find? (replay (applyEvent m ev) evs) e = _
  apply replay_congr
  rw [find?_applyEvent]
  cases ev <;> simp_all [Event.ent]

/-- **Projection**: the value of `e` after a replay is determined by the events that mention `e`. -/
theorem replay_projection (m : Map Ent V) (evs : List (Event V)) (e : Ent) :
    find? (replay m evs) e = find? (replay m (evs.filter (fun ev => ev.ent = e))) e := by
  induction evs generalizing m with
  | nil => rfl
  | cons ev evs ih =>
    by_cases h : ev.ent = e
    · simp only [List.filter, h, decide_true]
      exact ih (applyEvent m ev)
    · simp only [List.filter, h, decide_false]
      rw [replay_skip m ev evs e h]
      exact ih m

/-! ## directories -/

def DirSorted {α} (d : List (Nat × α)) : Prop := d.Pairwise (fun a b => a.1 < b.1)

theorem insertSorted_of_le {α} (x : Nat × α) (d : List (Nat × α))
    (h : ∀ y ∈ d, x.1 ≤ y.1) : insertSorted x d = x :: d := by
  cases d with
  | nil => rfl
  | cons y ys => simp [insertSorted, h y (by simp)]

theorem sortDir_sorted {α} (d : List (Nat × α)) (h : DirSorted d) : sortDir d = d := by
  induction d with
  | nil => rfl
  | cons x xs ih =>
    unfold DirSorted at h
    rw [List.pairwise_cons] at h
    show insertSorted x (sortDir xs) = x :: xs
    rw [ih h.2]
    exact insertSorted_of_le x xs (fun y hy => Nat.le_of_lt (h.1 y hy))

theorem dirSorted_append {α} (d : List (Nat × α)) (x : Nat × α) (h : DirSorted d)
    (hx : ∀ y ∈ d, y.1 < x.1) : DirSorted (d ++ [x]) := by
  unfold DirSorted at *
  rw [List.pairwise_append]
  refine ⟨h, by simp, ?_⟩
  intro a ha b hb
  simp at hb; subst hb; exact hx a ha

theorem mem_insertSorted {α} (x y : Nat × α) (d : List (Nat × α)) :
    y ∈ insertSorted x d ↔ y = x ∨ y ∈ d := by
  induction d with
  | nil => simp [insertSorted]
  | cons z zs ih =>
    unfold insertSorted
    split
    · simp
    · simp [ih]; grind

theorem mem_sortDir {α} (y : Nat × α) (d : List (Nat × α)) : y ∈ sortDir d ↔ y ∈ d := by
  induction d with
  | nil => simp [sortDir]
  | cons x xs ih =>
    show y ∈ insertSorted x (sortDir xs) ↔ _
    rw [mem_insertSorted, ih]; simp

theorem keys_insertSorted_perm {α} (x : Nat × α) (d : List (Nat × α)) :
    ((insertSorted x d).map (·.1)).Perm ((x :: d).map (·.1)) := by
  induction d with
  | nil => simp [insertSorted]
  | cons z zs ih =>
    unfold insertSorted
    split
    · exact List.Perm.refl _
    · simp only [List.map_cons]
      exact (List.Perm.cons _ ih).trans (List.Perm.swap _ _ _)

theorem keys_sortDir_perm {α} (d : List (Nat × α)) :
    ((sortDir d).map (·.1)).Perm (d.map (·.1)) := by
  induction d with
  | nil => simp [sortDir]
  | cons x xs ih =>
    show ((insertSorted x (sortDir xs)).map (·.1)).Perm _
    exact (keys_insertSorted_perm x (sortDir xs)).trans (by simpa using List.Perm.cons x.1 ih)

theorem loadEvents_append_sorted (d : Dir V) (now : Nat) (evs : List (Event V))
    (h : DirSorted d) (hn : ∀ y ∈ d, y.1 < now) :
    loadEvents (d ++ [(now, evs)]) = loadEvents d ++ evs := by
  unfold loadEvents
  rw [sortDir_sorted _ (dirSorted_append d (now, evs) h hn), sortDir_sorted _ h]
  simp

/-! ## reverse index -/

variable [DecidableEq V]

/-- the bucket of `v` (empty when the index has no entry) -/
def bucket (ix : Map V (List Ent)) (v : V) : List Ent := (ix.find? v).getD []

theorem bucket_indexPush (ix : Map V (List Ent)) (v v' : V) (e : Ent) :
    bucket (indexPush ix v e) v' = if v = v' then bucket ix v' ++ [e] else bucket ix v' := by
  unfold indexPush bucket
  by_cases h : v = v'
  · subst h
    cases hf : ix.find? v <;> simp [hf]
  · cases hf : ix.find? v <;> simp [h, find?_set_other _ _ h]

theorem mem_dropEnt (l : List Ent) (e a : Ent) : a ∈ dropEnt l e ↔ a ∈ l ∧ a ≠ e := by
  induction l with
  | nil => simp [dropEnt]
  | cons x l ih =>
    by_cases h : x = e
    · subst h; simp only [dropEnt, if_true, ih, List.mem_cons]; grind
    · simp only [dropEnt, h, if_false, List.mem_cons, ih]; grind

theorem bucket_indexDrop (ix : Map V (List Ent)) (v v' : V) (e : Ent) :
    bucket (indexDrop ix v e) v' = if v = v' then dropEnt (bucket ix v') e else bucket ix v' := by
  unfold indexDrop bucket
  by_cases h : v = v'
  · subst h
    cases hf : ix.find? v with
    | none => simp [hf, dropEnt]
    | some l =>
      simp only [hf, Option.getD_some, if_true]
      split
      · rename_i hl; simp [find?_del_same, hl]
      · simp
  · cases hf : ix.find? v with
    | none => simp [h, hf]
    | some l =>
      simp only [h, if_false]
      split
      · simp [find?_del_other _ h]
      · simp [find?_set_other _ _ h]

/-- no bucket of the index is empty (`index_map` indexes `vec_e[0]`, `copy` indexes `v[0]`) -/
def NoEmpty (ix : Map V (List Ent)) : Prop := ∀ v l, ix.find? v = some l → l ≠ []

theorem noEmpty_indexPush {ix : Map V (List Ent)} (h : NoEmpty ix) (v : V) (e : Ent) :
    NoEmpty (indexPush ix v e) := by
  intro v' l hl
  unfold indexPush at hl
  cases hf : ix.find? v with
  | none =>
    rw [hf] at hl; simp only at hl
    rw [find?_set] at hl
    split at hl
    · simp at hl; subst hl; simp
    · exact h v' l hl
  | some l0 =>
    rw [hf] at hl; simp only at hl
    rw [find?_set] at hl
    split at hl
    · simp at hl; subst hl; simp
    · exact h v' l hl

theorem noEmpty_indexDrop {ix : Map V (List Ent)} (h : NoEmpty ix) (v : V) (e : Ent) :
    NoEmpty (indexDrop ix v e) := by
  intro v' l hl
  unfold indexDrop at hl
  cases hf : ix.find? v with
  | none => rw [hf] at hl; exact h v' l hl
  | some l0 =>
    rw [hf] at hl; simp only at hl
    split at hl
    · rw [find?_del] at hl
      split at hl
      · simp at hl
      · exact h v' l hl
    · rename_i hne
      rw [find?_set] at hl
      split at hl
      · simp at hl; subst hl; exact hne
      · exact h v' l hl

theorem bucket_foldl_push (m : Map Ent V) (ix : Map V (List Ent)) (v : V) (e : Ent) :
    e ∈ bucket (m.foldl (fun ix p => indexPush ix p.2 p.1) ix) v ↔ e ∈ bucket ix v ∨ (e, v) ∈ m := by
  induction m generalizing ix with
  | nil => simp
  | cons p m ih =>
    simp only [List.foldl_cons]
    rw [ih, bucket_indexPush]
    obtain ⟨pe, pv⟩ := p
    by_cases h : pv = v
    · subst h; simp; grind
    · simp [h]; grind

theorem noEmpty_foldl_push (m : Map Ent V) (ix : Map V (List Ent)) (h : NoEmpty ix) :
    NoEmpty (m.foldl (fun ix p => indexPush ix p.2 p.1) ix) := by
  induction m generalizing ix with
  | nil => exact h
  | cons p m ih => exact ih _ (noEmpty_indexPush h _ _)

theorem sortMap_wf {m : Map Ent V} (h : WF m) : WF (sortMap m) := by
  unfold WF at *
  exact (keys_sortDir_perm m).nodup_iff.mpr h

/-- Index exactness: the bucket of `v` holds exactly the entities whose component is `v`. -/
def IndexExact (map : Map Ent V) (ix : Map V (List Ent)) : Prop :=
  ∀ v e, e ∈ bucket ix v ↔ map.find? e = some v

theorem buildIndex_exact {m : Map Ent V} (h : WF m) : IndexExact m (buildIndex (sortMap m)) := by
  intro v e
  unfold buildIndex
  rw [bucket_foldl_push]
  simp only [bucket, find?_nil, Option.getD_none, List.not_mem_nil, false_or]
  rw [show ((e, v) ∈ sortMap m ↔ (e, v) ∈ m) from mem_sortDir _ _]
  exact mem_iff_find? h e v

theorem buildIndex_noEmpty (m : Map Ent V) : NoEmpty (buildIndex m) :=
  noEmpty_foldl_push m [] (by intro v l h; simp at h)

end Ecs
