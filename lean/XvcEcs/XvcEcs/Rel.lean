import XvcEcs.Model
/-!
  # 1-1 stores (`ecs/src/ecs/r11store.rs`) and store diffs (`core/src/types/diff.rs`)

  Executable transcription, core-only imports (the driver `ecsmodel` links this file).
  * `R11` is `R11Store<T, U>`: two `XvcStore`s keyed by the same entity.
  * `Diff`, `diffStore`, `applyDiff` are `Diff<T>`, `diff_store`, `apply_diff` / `update_with_actual`
    (the two Rust functions differ only in working on a clone or in place; both are this fold).
    A `DiffStore<T>` is an `HStore` (a `HashMap`): a key occurs once, the iteration order is
    arbitrary — the model takes the order as the order of the list and the order independence is a
    theorem (`C08_apply_diff_order_irrelevant`), not an assumption.
-/
namespace Ecs
open Map

variable {L R : Type} [DecidableEq L] [DecidableEq R]

/-! ## `R11Store<T, U>` -/

structure R11 (L R : Type) where
  left : Store L
  right : Store R

/-- `R11Store::new`. -/
def R11.new : R11 L R := { left := Store.new, right := Store.new }

/-- `R11Store::insert`. -/
def R11.insert (r : R11 L R) (e : Ent) (l : L) (x : R) : R11 L R :=
  { left := (r.left.insert e l).1, right := (r.right.insert e x).1 }

/-- `R11Store::remove`. -/
def R11.remove (r : R11 L R) (e : Ent) : R11 L R :=
  { left := (r.left.remove e).1, right := (r.right.remove e).1 }

/-- `R11Store::left_to_right`: `self.right.get_key_value(entity)`. -/
def R11.leftToRight (r : R11 L R) (e : Ent) : Option (Ent × R) := (r.right.map.find? e).map (fun x => (e, x))

/-- `R11Store::right_to_left`: `self.left.get_key_value(entity)`. -/
def R11.rightToLeft (r : R11 L R) (e : Ent) : Option (Ent × L) := (r.left.map.find? e).map (fun x => (e, x))

/-- `R11Store::tuple`. -/
def R11.tuple (r : R11 L R) (e : Ent) : Option L × Option R := (r.left.map.find? e, r.right.map.find? e)

/-- result of a call that may panic -/
inductive Res (α : Type) where
  | ok (a : α)
  | panic
  deriving Repr, DecidableEq

/-- `R11Store::entity_by_left`: panics when several entities hold the left value. -/
def R11.entityByLeft (r : R11 L R) (l : L) : Res (Option Ent) :=
  match r.left.entitiesFor l with
  | none => .ok none
  | some [] => .ok none
  | some [e] => .ok (some e)
  | some (_ :: _ :: _) => .panic

/-- `R11Store::entity_by_right`: the first entity of the bucket. -/
def R11.entityByRight (r : R11 L R) (x : R) : Option Ent :=
  match r.right.entitiesFor x with
  | none => none
  | some l => l.head?

/-- `R11Store::lookup_by_left`. -/
def R11.lookupByLeft (r : R11 L R) (l : L) : Option R :=
  match r.left.entityByValue l with
  | none => none
  | some e => r.right.map.find? e

/-- `R11Store::lookup_by_right`. -/
def R11.lookupByRight (r : R11 L R) (x : R) : Option L :=
  match r.right.entityByValue x with
  | none => none
  | some e => r.left.map.find? e

/-- `R11Store::filter`: a NEW store (fresh logs) with the pairs that satisfy the predicate; the
    left `BTreeMap` is visited in entity order. -/
def R11.filter (r : R11 L R) (p : L → R → Bool) : R11 L R :=
  (sortMap r.left.map).foldl (fun acc el =>
    match r.right.map.find? el.1 with
    | some x => if p el.2 x then acc.insert el.1 el.2 x else acc
    | none => acc) R11.new

/-- `R11Store::load_r11store`: each side from its own directory. -/
def R11.fromDirs (dl : Dir L) (dr : Dir R) : R11 L R := { left := Store.fromDir dl, right := Store.fromDir dr }

/-- `R11Store::save_r11store`. -/
def R11.toDirs (r : R11 L R) (now : Nat) (dl : Dir L) (dr : Dir R) : Dir L × Dir R :=
  (r.left.toDir now dl, r.right.toDir now dr)

/-! ## `Diff<T>`, `diff_store`, `apply_diff`, `update_with_actual` -/

variable {V : Type} [DecidableEq V]

inductive Diff (V : Type) where
  | identical
  | recordMissing (actual : V)
  | actualMissing (record : V)
  | different (record actual : V)
  | skipped
  deriving Repr, DecidableEq

/-- the `match (record_value, actual_value)` of `diff_store` (and of `Diffable::diff`); `none` is the
    `(None, None)` arm, which only warns and inserts nothing. -/
def diffOne : Option V → Option V → Option (Diff V)
  | none, none => none
  | none, some a => some (.recordMissing a)
  | some r, none => some (.actualMissing r)
  | some r, some a => if r = a then some .identical else some (.different r a)

/-- one iteration of the loop of `diff_store`. -/
def diffStep (records : Store V) (actuals : Map Ent V) (acc : Map Ent (Diff V)) (e : Ent) : Map Ent (Diff V) :=
  match diffOne (records.map.find? e) (actuals.find? e) with
  | some d => acc.set e d
  | none => acc

/-- `diff_store(records, actuals, subset)`: `ents` is the subset, or the union of both key sets. -/
def diffStore (records : Store V) (actuals : Map Ent V) (ents : List Ent) : Map Ent (Diff V) :=
  ents.foldl (diffStep records actuals) []

/-- the keys `diff_store` walks when no subset is given: `records.keys().chain(actuals.keys())`. -/
def allEnts (records : Store V) (actuals : Map Ent V) : List Ent := records.map.keys ++ actuals.keys

/-- `Diff::changed`. -/
def Diff.changed : Diff V → Bool
  | .identical => false
  | .skipped => false
  | _ => true

/-- one iteration of the loop of `apply_diff` / `update_with_actual`. -/
def applyOne (addNew removeMissing : Bool) (s : Store V) (e : Ent) : Diff V → Store V
  | .identical => s
  | .skipped => s
  | .recordMissing a => if addNew then (s.insert e a).1 else s
  | .actualMissing _ => if removeMissing then (s.remove e).1 else s
  | .different _ a => (s.insert e a).1

/-- `apply_diff` (on a clone) and `update_with_actual` (in place). -/
def applyDiff (s : Store V) (diffs : List (Ent × Diff V)) (addNew removeMissing : Bool) : Store V :=
  diffs.foldl (fun acc p => applyOne addNew removeMissing acc p.1 p.2) s

end Ecs
