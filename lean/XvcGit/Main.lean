import XvcGit.Model
/-!
  Line-protocol driver for the Git model: `lib/c15.py` describes a real repository state (trees of
  the referenced commits, refs, HEAD, index, work tree, stash tags; all paths relative to the top of
  the Git work tree), the directory of the Xvc root inside it (`root`), the settings of one xvc
  invocation and the xvc-side writes it observed; `run` answers with the state the model predicts.
-/
open Git

structure DState where
  commits : List Commit := []
  refs : List (String × Nat) := []
  head : Head := .branch "main"
  index : Tree := []
  wt : Tree := []
  stash : List Stash := []
  cfg : Cfg := ⟨true, true, false⟩
  skipGit : Bool := false
  toBranch : Option String := none
  fromRef : Option String := none
  old : Bool := false
  root : Path := []                       -- the Xvc root inside the Git work tree (`root proj/sub`; `root -` = Git root)
  phases : List (Change × Bool) := []     -- reversed

def parsePath (s : String) : Path := s.splitOn "/"
def showPath (p : Path) : String := "/".intercalate p

def opt (s : String) : Option String := if s == "-" then none else some s

def canon (t : Tree) : List String :=
  (t.keys.eraseDups).filterMap (fun p => (t.find? p).map (fun b => s!"{showPath p}={b}"))

def showHead : Head → String
  | .branch b => s!"branch:{b}"
  | .detached c => s!"detached:{c}"

def showStatus : Status → String
  | .ok => "ok" | .gitError => "gitError" | .outside => "outside"

def setTree (cs : List Commit) (i : Nat) (p : Path) (b : Blob) : List Commit :=
  cs.mapIdx (fun j c => if j = i then { c with tree := c.tree ++ [(p, b)] } else c)

def asBool (s : String) : Bool := s == "1"

def addChange (phs : List (Change × Bool)) (e : Path × Option Blob) : List (Change × Bool) :=
  match phs with
  | [] => [([e], true)]
  | (ch, h) :: rest => (ch ++ [e], h) :: rest

def runModel (st : DState) : String :=
  let g : G := ⟨st.commits, st.refs, st.head, st.index, st.wt, st.stash⟩
  let spec := if st.old then oldSpec else isXvcPathAt st.root
  let o := xvcInvocation spec st.cfg st.skipGit "m" st.fromRef st.toBranch g st.phases.reverse
  let n := st.commits.length
  let newc := (o.g.commits.drop n).map (fun c =>
    let par := match c.parent with | some k => toString k | none => "-"
    s!"{par}[{",".intercalate (canon c.tree)}]")
  let refs := (o.g.refs.map (·.1)).eraseDups.filterMap (fun r => (lookupRef o.g.refs r).map (fun c => s!"{r}={c}"))
  s!"status={showStatus o.status};fragment={noMixed g};head={showHead o.g.head};refs={",".intercalate refs};" ++
  s!"stash={",".intercalate (o.g.stash.map (·.tag))};index={",".intercalate (canon o.g.index)};" ++
  s!"wt={",".intercalate (canon o.g.wt)};new={"|".intercalate newc}"
where
  noMixed (g : G) : Bool := (diffCached g).all (fun p => g.wt.find? p == g.index.find? p)

def step (st : DState) (line : String) : DState × String :=
  match line.trimAscii.toString.splitOn " " with
  | ["commit", i, par] =>
    match i.toNat? with
    | some i => if i = st.commits.length then ({ st with commits := st.commits ++ [⟨[], par.toNat?, ""⟩] }, "ok") else (st, "bad-id")
    | none => (st, "bad-op")
  | ["tree", i, p, b] =>
    match i.toNat? with
    | some i => ({ st with commits := setTree st.commits i (parsePath p) b }, "ok")
    | none => (st, "bad-op")
  | ["ref", n, i] =>
    match i.toNat? with
    | some i => ({ st with refs := st.refs ++ [(n, i)] }, "ok")
    | none => (st, "bad-op")
  | ["head", "branch", b] => ({ st with head := .branch b }, "ok")
  | ["head", "detached", i] =>
    match i.toNat? with
    | some i => ({ st with head := .detached i }, "ok")
    | none => (st, "bad-op")
  | ["index", p, b] => ({ st with index := st.index ++ [(parsePath p, b)] }, "ok")
  | ["wt", p, b] => ({ st with wt := st.wt ++ [(parsePath p, b)] }, "ok")
  | ["stash", tag] => ({ st with stash := st.stash ++ [⟨tag, [], []⟩] }, "ok")
  | ["cfg", u, ac, as, sk, tb, fr, old] =>
    ({ st with cfg := ⟨asBool u, asBool ac, asBool as⟩, skipGit := asBool sk, toBranch := opt tb, fromRef := opt fr,
               old := asBool old }, "ok")
  | ["root", p] => ({ st with root := if p == "-" then [] else parsePath p }, "ok")
  | ["phase", h] => ({ st with phases := ([], asBool h) :: st.phases }, "ok")
  | ["ch", p, b] => ({ st with phases := addChange st.phases (parsePath p, opt b) }, "ok")
  | ["run"] => (st, runModel st)
  | [""] => (st, "")
  | _ => (st, "bad-op")

partial def loop (h : IO.FS.Stream) (out : IO.FS.Stream) (st : DState) : IO Unit := do
  let line ← h.getLine
  if line.isEmpty then return ()
  if line.trimAscii.toString == "reset" then
    out.putStrLn "ok"
    loop h out {}
  else
    let (st', o) := step st line
    out.putStrLn o
    loop h out st'

def main : IO Unit := do
  loop (← IO.getStdin) (← IO.getStdout) {}
