import XvcGit.Model
import XvcGit.Lemmas
import XvcGit.Props
