import XvcGit.Model
