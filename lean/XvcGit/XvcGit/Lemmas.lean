import XvcGit.Model
/-!
  Helper lemmas for the C15 theorems: lookups in association-list trees, and the exact effect of
  every modelled git command on the components of the state.
-/
set_option linter.unusedSimpArgs false
namespace Git
namespace Tree

theorem find?_filter (t : Tree) (f : Path → Bool) (p : Path) :
    find? (t.filter (fun e => f e.1)) p = if f p then find? t p else none := by
  induction t with
  | nil => simp [find?]
  | cons e t ih =>
    obtain ⟨k, v⟩ := e
    by_cases hk : f k
    · by_cases hkp : k = p
      · subst hkp; simp [List.filter_cons, hk, find?]
      · simp [List.filter_cons, hk, find?, hkp, ih]
    · by_cases hkp : k = p
      · subst hkp; simp [List.filter_cons, hk, find?, ih]
      · simp [List.filter_cons, hk, find?, hkp, ih]

theorem find?_append (a b : Tree) (p : Path) :
    find? (a ++ b) p = match find? a p with | some v => some v | none => find? b p := by
  induction a with
  | nil => simp [find?]
  | cons e a ih =>
    obtain ⟨k, v⟩ := e
    by_cases hkp : k = p
    · simp [find?, hkp]
    · simp [find?, hkp, ih]

@[simp] theorem find?_pick (sel : Path → Bool) (a b : Tree) (p : Path) :
    find? (pick sel a b) p = if sel p then find? a p else find? b p := by
  unfold pick
  rw [find?_append, find?_filter a sel p, find?_filter b (fun k => !sel k) p]
  by_cases h : sel p
  · simp [h]; cases find? a p <;> rfl
  · simp [h]

theorem find?_none_of_not_mem_keys (t : Tree) (p : Path) (h : p ∉ t.keys) : find? t p = none := by
  induction t with
  | nil => rfl
  | cons e t ih =>
    obtain ⟨k, v⟩ := e
    simp [keys] at h
    have hk : k ≠ p := fun e => h.1 e.symm
    simp [find?, hk]
    exact ih (by simpa [keys] using h.2)

theorem mem_diffNames (a b : Tree) (p : Path) : p ∈ diffNames a b ↔ find? a p ≠ find? b p := by
  unfold diffNames
  constructor
  · intro h
    have := (List.mem_filter.mp h).2
    simpa using this
  · intro h
    apply List.mem_filter.mpr
    refine ⟨?_, by simpa using h⟩
    apply List.mem_append.mpr
    by_cases ha : p ∈ a.keys
    · exact Or.inl ha
    · by_cases hb : p ∈ b.keys
      · exact Or.inr hb
      · exact absurd (by rw [find?_none_of_not_mem_keys a p ha, find?_none_of_not_mem_keys b p hb]) h

theorem diffNames_eq_nil (a b : Tree) : diffNames a b = [] ↔ ∀ p, find? a p = find? b p := by
  constructor
  · intro h p
    by_cases hp : find? a p = find? b p
    · exact hp
    · have := (mem_diffNames a b p).mpr hp
      rw [h] at this; exact absurd this (by simp)
  · intro h
    apply List.eq_nil_iff_forall_not_mem.mpr
    intro p hp
    exact (mem_diffNames a b p).mp hp (h p)

theorem find?_set (t : Tree) (q : Path) (v : Option Blob) (p : Path) :
    find? (set t q v) p = if q = p then v else find? t p := by
  have hf : find? (t.filter (fun e => e.1 != q)) p = if q = p then none else find? t p := by
    rw [find?_filter t (fun k => k != q) p]
    by_cases h : q = p
    · subst h; simp
    · have : p ≠ q := fun e => h e.symm
      simp [h, this]
  cases v with
  | none => simp only [set, hf]
  | some b => simp only [set, find?, hf]; by_cases h : q = p <;> simp [h]

theorem find?_apply (t : Tree) (ch : Change) (p : Path) (h : ∀ e ∈ ch, e.1 ≠ p) :
    find? (t.apply ch) p = find? t p := by
  unfold Tree.apply
  induction ch generalizing t with
  | nil => rfl
  | cons e ch ih =>
    simp only [List.foldl_cons]
    rw [ih _ (fun e' he' => h e' (List.mem_cons_of_mem _ he'))]
    rw [find?_set]
    simp [h e (List.mem_cons_self ..)]

end Tree
end Git

namespace Git

/-! ## the pathspec of `git add` when the Xvc root is a subdirectory of the Git work tree -/

/-- Xvc root = Git root: the parametrised pathspec is the plain one -/
theorem isXvcPathAt_nil : isXvcPathAt [] = isXvcPath := by
  funext p
  simp [isXvcPathAt]

/-- a path outside the Xvc root is never matched, whatever it is called -/
theorem isXvcPathAt_outside (root p : Path) (h : root.isPrefixOf p = false) :
    isXvcPathAt root p = false := by
  simp [isXvcPathAt, h]

/-- a path below the Xvc root is matched iff its remainder is an xvc path -/
theorem isXvcPathAt_append (root q : Path) : isXvcPathAt root (root ++ q) = isXvcPath q := by
  have h : root.isPrefixOf (root ++ q) = true := by
    induction root with
    | nil => rfl
    | cons a t ih => simp [List.isPrefixOf, ih]
  simp [isXvcPathAt, h]

/-! ## the view of a state the property talks about -/

/-- no path carries both a staged and an unstaged change: the conflict-free fragment of
    `git stash push --staged` / `git stash pop --index` -/
def NoMixed (g : G) : Prop :=
  ∀ p, g.headTree.find? p ≠ g.index.find? p → g.wt.find? p = g.index.find? p

theorem headTree_congr {g g' : G} (hc : g'.commits = g.commits) (hh : g'.headCommit = g.headCommit) :
    g'.headTree = g.headTree := by
  simp [G.headTree, G.treeOf, hc, hh]

theorem mem_diffCached (g : G) (p : Path) :
    p ∈ diffCached g ↔ g.headTree.find? p ≠ g.index.find? p := Tree.mem_diffNames _ _ _

theorem diffCached_eq_nil (g : G) : diffCached g = [] ↔ ∀ p, g.headTree.find? p = g.index.find? p :=
  Tree.diffNames_eq_nil _ _

/-! ## `git stash push --staged` -/

/-- the state after a successful `git stash push --staged` -/
def pushState (g : G) : G :=
  { g with stash := ⟨"xvc", g.headTree, g.index⟩ :: g.stash, index := g.headTree,
           wt := Tree.pick (fun p => g.headTree.find? p != g.index.find? p) g.headTree g.wt }

theorem push_ok (g : G) (hc : g.headCommit.isSome) (hm : NoMixed g) :
    stashPushStaged g = .ok (pushState g) := by
  unfold stashPushStaged
  have h1 : g.headCommit.isNone = false := by
    cases h : g.headCommit <;> simp_all
  have h2 : (diffCached g).all (fun p => g.wt.find? p == g.index.find? p) = true := by
    apply List.all_eq_true.mpr
    intro p hp
    have := hm p ((mem_diffCached g p).mp hp)
    simp [this]
  simp [h1, h2, pushState]

theorem push_cases (g : G) (hm : NoMixed g) :
    stashPushStaged g = .ok (pushState g) ∨ stashPushStaged g = .fail := by
  by_cases hc : g.headCommit.isSome
  · exact Or.inl (push_ok g hc hm)
  · right
    unfold stashPushStaged
    have : g.headCommit.isNone = true := by cases h : g.headCommit <;> simp_all
    simp [this]

@[simp] theorem pushState_commits (g : G) : (pushState g).commits = g.commits := rfl
@[simp] theorem pushState_refs (g : G) : (pushState g).refs = g.refs := rfl
@[simp] theorem pushState_head (g : G) : (pushState g).head = g.head := rfl
@[simp] theorem pushState_index (g : G) : (pushState g).index = g.headTree := rfl
@[simp] theorem pushState_stash (g : G) :
    (pushState g).stash = ⟨"xvc", g.headTree, g.index⟩ :: g.stash := rfl
@[simp] theorem pushState_headCommit (g : G) : (pushState g).headCommit = g.headCommit := rfl
@[simp] theorem pushState_headTree (g : G) : (pushState g).headTree = g.headTree := rfl
theorem pushState_wt (g : G) (p : Path) :
    (pushState g).wt.find? p =
      if g.headTree.find? p ≠ g.index.find? p then g.headTree.find? p else g.wt.find? p := by
  simp [pushState]

/-! ## `git stash pop --index` -/

/-- the state after a successful `git stash pop --index` of the entry `e` -/
def popState (g : G) (e : Stash) (rest : List Stash) : G :=
  { g with stash := rest,
           index := Tree.pick (fun p => e.base.find? p != e.idx.find? p) e.idx g.index,
           wt := Tree.pick (fun p => e.base.find? p != e.idx.find? p) e.idx g.wt }

theorem pop_ok (g : G) (e : Stash) (rest : List Stash) (hs : g.stash = e :: rest)
    (hclean : ∀ p, g.headTree.find? p = g.index.find? p)
    (h : ∀ p, e.base.find? p ≠ e.idx.find? p →
      g.headTree.find? p = e.base.find? p ∧ g.wt.find? p = e.base.find? p) :
    stashPopIndex g = .ok (popState g e rest) := by
  unfold stashPopIndex
  rw [hs]
  have h1 : diffCached g = [] := (diffCached_eq_nil g).mpr hclean
  have h2 : (Tree.diffNames e.base e.idx).all (fun p =>
      g.headTree.find? p == e.base.find? p && g.wt.find? p == e.base.find? p) = true := by
    apply List.all_eq_true.mpr
    intro p hp
    have := h p ((Tree.mem_diffNames _ _ _).mp hp)
    simp [this.1, this.2]
  simp [h1, h2, popState]

@[simp] theorem popState_commits (g e rest) : (popState g e rest).commits = g.commits := rfl
@[simp] theorem popState_refs (g e rest) : (popState g e rest).refs = g.refs := rfl
@[simp] theorem popState_head (g e rest) : (popState g e rest).head = g.head := rfl
@[simp] theorem popState_stash (g e rest) : (popState g e rest).stash = rest := rfl
@[simp] theorem popState_headCommit (g e rest) : (popState g e rest).headCommit = g.headCommit := rfl
@[simp] theorem popState_headTree (g e rest) : (popState g e rest).headTree = g.headTree := rfl
theorem popState_index (g : G) (e : Stash) (rest : List Stash) (p : Path) :
    (popState g e rest).index.find? p =
      if e.base.find? p ≠ e.idx.find? p then e.idx.find? p else g.index.find? p := by
  simp [popState]
theorem popState_wt (g : G) (e : Stash) (rest : List Stash) (p : Path) :
    (popState g e rest).wt.find? p =
      if e.base.find? p ≠ e.idx.find? p then e.idx.find? p else g.wt.find? p := by
  simp [popState]

end Git

namespace Git

/-! ## `git checkout -b`, `git add`, `git commit` -/

theorem lookupRef_filter_ne (refs : List (String × Nat)) (b r : String) (h : r ≠ b) :
    lookupRef (refs.filter (fun x => x.1 != b)) r = lookupRef refs r := by
  induction refs with
  | nil => rfl
  | cons x t ih =>
    obtain ⟨k, c⟩ := x
    by_cases hk : k = b
    · subst hk
      have : k ≠ r := fun e => h e.symm
      simp [List.filter_cons, lookupRef, this, ih]
    · by_cases hkr : k = r
      · subst hkr; simp [List.filter_cons, hk, lookupRef]
      · simp [List.filter_cons, hk, lookupRef, hkr, ih]

/-- `Head`s that name the same branch, or are both detached -/
def Head.same : Head → Head → Prop
  | .branch a, .branch b => a = b
  | .detached _, .detached _ => True
  | _, _ => False

theorem Head.same_refl (h : Head) : Head.same h h := by cases h <;> simp [Head.same]

theorem Head.same_trans {a b c : Head} (h1 : Head.same a b) (h2 : Head.same b c) : Head.same a c := by
  cases a <;> cases b <;> cases c <;> simp_all [Head.same]

theorem Head.same_branch {a b : Head} {r : String} (h : Head.same a b) (hb : b = .branch r) :
    a = .branch r := by
  cases a <;> cases b <;> simp_all [Head.same]

/-- what an optional `git checkout -b` does to a state -/
structure BranchStep (tb : Option String) (g gb : G) : Prop where
  commits : gb.commits = g.commits
  index : gb.index = g.index
  wt : gb.wt = g.wt
  stash : gb.stash = g.stash
  headCommit : gb.headCommit = g.headCommit
  head : gb.head = g.head ∨ ∃ b, tb = some b ∧ gb.head = .branch b
  refs : ∀ r, tb ≠ some r → lookupRef gb.refs r = lookupRef g.refs r
  /-- `checkout -b` succeeded: no branch of that name existed -/
  fresh : ∀ b, tb = some b → lookupRef g.refs b = none

theorem BranchStep.rfl' (g : G) : BranchStep none g g :=
  ⟨rfl, rfl, rfl, rfl, rfl, Or.inl rfl, fun _ _ => rfl, fun _ h => by cases h⟩

/-- `git checkout -b <b>` refuses when a branch `b` exists ("a branch named b already exists") -/
theorem checkout_fail_of_exists (g : G) (b : String) (h : (lookupRef g.refs b).isSome) :
    checkoutNewBranch g b = .fail := by
  unfold checkoutNewBranch
  simp [h]

theorem BranchStep.headTree {tb g gb} (h : BranchStep tb g gb) : gb.headTree = g.headTree :=
  headTree_congr h.commits h.headCommit

/-- a ref that existed before an (optional, successful) `checkout -b` has the same value after it -/
theorem BranchStep.pre_refs {tb g gb} (h : BranchStep tb g gb) (r : String) (c : Nat)
    (hr : lookupRef g.refs r = some c) : lookupRef gb.refs r = some c := by
  rw [h.refs r (fun e => by have := h.fresh r e; rw [this] at hr; cases hr)]
  exact hr

theorem BranchStep.not_existing {tb g gb} (h : BranchStep tb g gb) (b : String) (hb : tb = some b) :
    ¬ (lookupRef g.refs b).isSome = true := by
  rw [h.fresh b hb]; simp

theorem checkout_cases (g : G) (b : String) :
    checkoutNewBranch g b = .fail ∨ ∃ gb, checkoutNewBranch g b = .ok gb ∧ BranchStep (some b) g gb := by
  unfold checkoutNewBranch
  by_cases hb : (lookupRef g.refs b).isSome
  · simp [hb]
  · right
    have hnone : lookupRef g.refs b = none := by
      cases h : lookupRef g.refs b <;> simp_all
    simp only [hb]
    cases hc : g.headCommit with
    | some c =>
      refine ⟨_, rfl, ⟨rfl, rfl, rfl, rfl, ?_, Or.inr ⟨b, rfl, rfl⟩, ?_, ?_⟩⟩
      · rw [hc]; simp [G.headCommit, lookupRef]
      · intro r hr
        have : b ≠ r := fun e => hr (by rw [e])
        simp [lookupRef, this]
      · intro b' hb'; cases hb'; exact hnone
    | none =>
      refine ⟨_, rfl, ⟨rfl, rfl, rfl, rfl, ?_, Or.inr ⟨b, rfl, rfl⟩, fun _ _ => rfl, ?_⟩⟩
      · rw [hc]; simp [G.headCommit, hnone]
      · intro b' hb'; cases hb'; exact hnone

/-- the state after `git add <pathspec>` -/
def addState (spec : Path → Bool) (g : G) : G := { g with index := Tree.pick spec g.wt g.index }

theorem gitAdd_fst (spec : Path → Bool) (g : G) : (gitAdd spec g).1 = addState spec g := rfl

theorem gitAdd_out_nil (spec : Path → Bool) (g : G) :
    (gitAdd spec g).2 = [] ↔ ∀ p, spec p = true → g.wt.find? p = g.index.find? p := by
  unfold gitAdd
  simp only
  constructor
  · intro h p hs
    by_cases hp : g.wt.find? p = g.index.find? p
    · exact hp
    · exfalso
      have hmem : p ∈ g.wt.keys ++ g.index.keys := by
        apply List.mem_append.mpr
        by_cases ha : p ∈ g.wt.keys
        · exact Or.inl ha
        · by_cases hb : p ∈ g.index.keys
          · exact Or.inr hb
          · exact absurd (by rw [Tree.find?_none_of_not_mem_keys _ p ha,
                                 Tree.find?_none_of_not_mem_keys _ p hb]) hp
      have : p ∈ (g.wt.keys ++ g.index.keys).filter
          (fun p => spec p && g.wt.find? p != g.index.find? p) :=
        List.mem_filter.mpr ⟨hmem, by simp [hs, hp]⟩
      rw [h] at this
      exact absurd this (by simp)
  · intro h
    apply List.eq_nil_iff_forall_not_mem.mpr
    intro p hp
    have := (List.mem_filter.mp hp).2
    simp at this
    exact this.2 (h p this.1)

@[simp] theorem addState_commits (spec g) : (addState spec g).commits = g.commits := rfl
@[simp] theorem addState_refs (spec g) : (addState spec g).refs = g.refs := rfl
@[simp] theorem addState_head (spec g) : (addState spec g).head = g.head := rfl
@[simp] theorem addState_wt (spec g) : (addState spec g).wt = g.wt := rfl
@[simp] theorem addState_stash (spec g) : (addState spec g).stash = g.stash := rfl
@[simp] theorem addState_headCommit (spec g) : (addState spec g).headCommit = g.headCommit := rfl
@[simp] theorem addState_headTree (spec g) : (addState spec g).headTree = g.headTree := rfl
theorem addState_index (spec : Path → Bool) (g : G) (p : Path) :
    (addState spec g).index.find? p = if spec p then g.wt.find? p else g.index.find? p := by
  simp [addState]

/-- what a successful `git commit` does to a state -/
structure CommitStep (msg : String) (g g3 : G) : Prop where
  commits : g3.commits = g.commits ++ [⟨g.index, g.headCommit, msg⟩]
  index : g3.index = g.index
  wt : g3.wt = g.wt
  stash : g3.stash = g.stash
  headCommit : g3.headCommit = some g.commits.length
  head : Head.same g.head g3.head
  refs : ∀ r, g.head ≠ .branch r → lookupRef g3.refs r = lookupRef g.refs r

theorem CommitStep.headTree {msg g g3} (h : CommitStep msg g g3) : g3.headTree = g.index := by
  simp [G.headTree, G.treeOf, h.headCommit, h.commits]

/-- the state after a successful `git commit` -/
def commitState (g : G) (msg : String) : G :=
  match g.head with
  | .branch b =>
    { g with commits := g.commits ++ [⟨g.index, g.headCommit, msg⟩],
             refs := (b, g.commits.length) :: g.refs.filter (fun r => r.1 != b) }
  | .detached _ =>
    { g with commits := g.commits ++ [⟨g.index, g.headCommit, msg⟩], head := .detached g.commits.length }

theorem commitState_step (g : G) (msg : String) : CommitStep msg g (commitState g msg) := by
  unfold commitState
  cases hhead : g.head with
  | branch b =>
    refine ⟨rfl, rfl, rfl, rfl, ?_, ?_, ?_⟩
    · simp [G.headCommit, hhead, lookupRef]
    · simp [hhead, Head.same]
    · intro r hr
      have hbr : b ≠ r := fun e => hr (by rw [hhead, e])
      have hrb : r ≠ b := fun e => hbr e.symm
      simp only [lookupRef, hbr, if_false]
      exact lookupRef_filter_ne g.refs b r hrb
  | detached c =>
    refine ⟨rfl, rfl, rfl, rfl, ?_, ?_, fun _ _ => rfl⟩
    · simp [G.headCommit]
    · simp [hhead, Head.same]

theorem commit_cases (g : G) (msg : String) (hookOk : Bool) :
    gitCommit g msg hookOk = .fail ∨
      (gitCommit g msg hookOk = .ok (commitState g msg) ∧ ¬ Tree.diffNames g.headTree g.index = []) := by
  unfold gitCommit commitState
  by_cases hh : hookOk = true
  · by_cases hd : Tree.diffNames g.headTree g.index = []
    · simp [hh, hd]
    · right
      refine ⟨?_, hd⟩
      simp only [hh, hd]
      cases g.head <;> rfl
  · simp [hh]

end Git

namespace Git

/-! ## `git_commit_xvc_files` -/

/-- the state after `git reset --quiet` -/
@[simp] theorem gitReset_commits (g : G) : (gitReset g).commits = g.commits := rfl
@[simp] theorem gitReset_refs (g : G) : (gitReset g).refs = g.refs := rfl
@[simp] theorem gitReset_head (g : G) : (gitReset g).head = g.head := rfl
@[simp] theorem gitReset_wt (g : G) : (gitReset g).wt = g.wt := rfl
@[simp] theorem gitReset_stash (g : G) : (gitReset g).stash = g.stash := rfl
@[simp] theorem gitReset_index (g : G) : (gitReset g).index = g.headTree := rfl
@[simp] theorem gitReset_headTree (g : G) : (gitReset g).headTree = g.headTree := rfl

/-- The ref clause of the property for one ref `r` that pointed at commit `c`: it keeps its value,
    or it was the current branch and now points at the ONE new commit, whose parent is `c` (xvc only
    adds its commit on top of what the branch had). -/
def RefKept (g g' : G) (r : String) (c : Nat) : Prop :=
  lookupRef g'.refs r = some c ∨
  (lookupRef g'.refs r = some g.commits.length ∧ g.head = .branch r ∧
    ∃ o, g'.commits = g.commits ++ [o] ∧ o.parent = some c)

/-- Everything the theorems need to know about the state `g2` and result `ok` that
    `git_commit_xvc_files` produces from a state `g` whose index is clean (equal to HEAD). -/
structure HelperFacts (spec : Path → Bool) (tb : Option String) (g g2 : G) (ok : Bool) : Prop where
  wt : g2.wt = g.wt
  stash : g2.stash = g.stash
  head : Head.same g.head g2.head ∨ ∃ b, tb = some b ∧ g2.head = .branch b
  refs : ∀ r, g.head ≠ .branch r → tb ≠ some r → lookupRef g2.refs r = lookupRef g.refs r
  index_user : ∀ p, spec p = false → g2.index.find? p = g.index.find? p
  keeps_where_wt_is_head : ∀ p, g.wt.find? p = g.headTree.find? p →
    g2.headTree.find? p = g.headTree.find? p
  /-- the index is clean again on EVERY exit path (needed by `git stash pop --index`) -/
  clean : ∀ p, g2.headTree.find? p = g2.index.find? p
  head_user : ∀ p, spec p = false → g2.headTree.find? p = g.headTree.find? p
  commits : g2.commits = g.commits ∨
    ∃ o, g2.commits = g.commits ++ [o] ∧ o.parent = g.headCommit ∧ g2.headCommit = some g.commits.length ∧
      (∀ p, spec p = false → o.tree.find? p = g.headTree.find? p)
  nothing : (∀ p, spec p = true → g.wt.find? p = g.index.find? p) →
    g2.commits = g.commits ∧ (∀ p, g2.index.find? p = g.index.find? p) ∧ g2.headTree = g.headTree ∧
    (tb = none → ok = true ∧ g2.head = g.head ∧ ∀ r, lookupRef g2.refs r = lookupRef g.refs r)
  /-- every ref that existed is kept or extended by the one new commit -/
  refs_ext : ∀ r c, lookupRef g.refs r = some c → RefKept g g2 r c
  /-- `--to-branch` naming an existing branch: `checkout -b` refuses, nothing at all happens -/
  existing : ∀ b, tb = some b → (lookupRef g.refs b).isSome → g2 = g ∧ ok = false

/-- the four ways `git_commit_xvc_files` can end -/
theorem helper_cases (spec : Path → Bool) (g : G) (msg : String) (tb : Option String) (hookOk : Bool) :
    (gitCommitXvcFiles spec g msg tb hookOk = (g, false) ∧ tb ≠ none) ∨
    (∃ gb, BranchStep tb g gb ∧
      ((gitCommitXvcFiles spec g msg tb hookOk = (addState spec gb, true) ∧
          ∀ p, spec p = true → gb.wt.find? p = gb.index.find? p) ∨
       (gitCommitXvcFiles spec g msg tb hookOk = (gitReset (addState spec gb), false) ∧
          ¬ ∀ p, spec p = true → gb.wt.find? p = gb.index.find? p) ∨
       (gitCommitXvcFiles spec g msg tb hookOk = (commitState (addState spec gb) msg, true) ∧
          ¬ ∀ p, spec p = true → gb.wt.find? p = gb.index.find? p))) := by
  have key : ∀ gb, BranchStep tb g gb →
      (((if (gitAdd spec gb).2 = [] then ((gitAdd spec gb).1, true)
          else match gitCommit (gitAdd spec gb).1 msg hookOk with
            | .ok g3 => (g3, true)
            | _ => (gitReset (gitAdd spec gb).1, false)) = (addState spec gb, true) ∧
          ∀ p, spec p = true → gb.wt.find? p = gb.index.find? p) ∨
       ((if (gitAdd spec gb).2 = [] then ((gitAdd spec gb).1, true)
          else match gitCommit (gitAdd spec gb).1 msg hookOk with
            | .ok g3 => (g3, true)
            | _ => (gitReset (gitAdd spec gb).1, false)) = (gitReset (addState spec gb), false) ∧
          ¬ ∀ p, spec p = true → gb.wt.find? p = gb.index.find? p) ∨
       ((if (gitAdd spec gb).2 = [] then ((gitAdd spec gb).1, true)
          else match gitCommit (gitAdd spec gb).1 msg hookOk with
            | .ok g3 => (g3, true)
            | _ => (gitReset (gitAdd spec gb).1, false)) = (commitState (addState spec gb) msg, true) ∧
          ¬ ∀ p, spec p = true → gb.wt.find? p = gb.index.find? p)) := by
    intro gb _
    by_cases hout : (gitAdd spec gb).2 = []
    · left
      exact ⟨by simp [hout, gitAdd_fst], (gitAdd_out_nil spec gb).mp hout⟩
    · have hne : ¬ ∀ p, spec p = true → gb.wt.find? p = gb.index.find? p :=
        fun h => hout ((gitAdd_out_nil spec gb).mpr h)
      rcases commit_cases (gitAdd spec gb).1 msg hookOk with hf | ⟨hok, _⟩
      · rw [gitAdd_fst] at hf
        right; left
        exact ⟨by simp [hout, hf, gitAdd_fst], hne⟩
      · rw [gitAdd_fst] at hok
        right; right
        exact ⟨by simp [hout, hok, gitAdd_fst], hne⟩
  unfold gitCommitXvcFiles
  cases tb with
  | none =>
    right
    exact ⟨g, BranchStep.rfl' g, key g (BranchStep.rfl' g)⟩
  | some b =>
    rcases checkout_cases g b with hf | ⟨gb, hok, hbs⟩
    · left; simp [hf]
    · right
      refine ⟨gb, hbs, ?_⟩
      simp only [hok]
      exact key gb hbs

theorem helper_spec (spec : Path → Bool) (g : G) (msg : String) (tb : Option String) (hookOk : Bool)
    (hclean : ∀ p, g.index.find? p = g.headTree.find? p) :
    HelperFacts spec tb g (gitCommitXvcFiles spec g msg tb hookOk).1
      (gitCommitXvcFiles spec g msg tb hookOk).2 := by
  rcases helper_cases spec g msg tb hookOk with ⟨hA, htb⟩ | ⟨gb, hbs, ⟨hB, hall⟩ | ⟨hR, hne⟩ | ⟨hC, hne⟩⟩
  · -- `checkout -b` failed: nothing happened
    rw [hA]
    exact {
      wt := rfl, stash := rfl, head := Or.inl (Head.same_refl _), refs := fun _ _ _ => rfl,
      index_user := fun _ _ => rfl,
      keeps_where_wt_is_head := fun _ _ => rfl,
      clean := fun p => (hclean p).symm,
      head_user := fun _ _ => rfl,
      commits := Or.inl rfl,
      nothing := fun _ => ⟨rfl, fun _ => rfl, rfl, fun h => absurd h htb⟩,
      refs_ext := fun _ _ h => Or.inl h,
      existing := fun _ _ _ => ⟨rfl, rfl⟩ }
  · -- `git add` found nothing to add
    rw [hB]
    have hpre := hbs.pre_refs
    have hnex := hbs.not_existing
    have hH : gb.headTree = g.headTree := hbs.headTree
    have hI : ∀ p, (addState spec gb).index.find? p = g.index.find? p := by
      intro p
      rw [addState_index]
      by_cases hs : spec p = true
      · simp only [hs, if_true]; rw [hall p hs, hbs.index]
      · simp only [hs]; rw [hbs.index]; rfl
    exact {
      wt := by simp [hbs.wt], stash := by simp [hbs.stash],
      head := by
        rcases hbs.head with h | h
        · left; simp [h, Head.same_refl]
        · right; simpa using h,
      refs := fun r _ h2 => by simpa using hbs.refs r h2,
      index_user := fun p _ => hI p,
      keeps_where_wt_is_head := fun p _ => by rw [addState_headTree, hH],
      clean := fun p => by rw [hI, addState_headTree, hH, hclean p],
      head_user := fun p _ => by rw [addState_headTree, hH],
      commits := Or.inl (by simp [hbs.commits]),
      nothing := fun _ => by
        refine ⟨by simp [hbs.commits], hI, by rw [addState_headTree, hH], ?_⟩
        intro htb
        subst htb
        refine ⟨rfl, ?_, ?_⟩
        · rcases hbs.head with h | ⟨b, h, _⟩
          · simpa using h
          · simp at h
        · intro r; simpa using hbs.refs r (by simp),
      refs_ext := fun r c h => Or.inl (by simpa using hpre r c h),
      existing := fun b hb hs => absurd hs (hnex b hb) }
  · -- `git commit` failed: the index is reset
    rw [hR]
    have hpre := hbs.pre_refs
    have hnex := hbs.not_existing
    have hH : gb.headTree = g.headTree := hbs.headTree
    exact {
      wt := by simp [hbs.wt], stash := by simp [hbs.stash],
      head := by
        rcases hbs.head with h | h
        · left; simp [h, Head.same_refl]
        · right; simpa using h,
      refs := fun r _ h2 => by simpa using hbs.refs r h2,
      index_user := fun p _ => by simp [hH, hclean p],
      keeps_where_wt_is_head := fun p _ => by simp [hH],
      clean := fun p => by simp,
      head_user := fun p _ => by simp [hH],
      commits := Or.inl (by simp [hbs.commits]),
      nothing := fun hn => absurd (by intro p hs; rw [hbs.wt, hbs.index]; exact hn p hs) hne,
      refs_ext := fun r c h => Or.inl (by simpa using hpre r c h),
      existing := fun b hb hs => absurd hs (hnex b hb) }
  · -- `git add` and `git commit` succeeded
    rw [hC]
    have hpre := hbs.pre_refs
    have hnex := hbs.not_existing
    have hcs := commitState_step (addState spec gb) msg
    have hH : gb.headTree = g.headTree := hbs.headTree
    have hI : ∀ p, (commitState (addState spec gb) msg).index.find? p =
        if spec p then g.wt.find? p else g.index.find? p := by
      intro p; rw [hcs.index, addState_index, hbs.wt, hbs.index]
    have hHT : (commitState (addState spec gb) msg).headTree = (addState spec gb).index := hcs.headTree
    have hHT' : ∀ p, (commitState (addState spec gb) msg).headTree.find? p =
        (commitState (addState spec gb) msg).index.find? p := by
      intro p; rw [hHT, hcs.index]
    exact {
      wt := by rw [hcs.wt]; simp [hbs.wt], stash := by rw [hcs.stash]; simp [hbs.stash],
      head := by
        rcases hbs.head with h | ⟨b, h1, h2⟩
        · left
          have := hcs.head
          simp only [addState_head, h] at this
          exact this
        · right
          refine ⟨b, h1, ?_⟩
          have := hcs.head
          simp only [addState_head, h2] at this
          cases hh : (commitState (addState spec gb) msg).head <;> simp_all [Head.same],
      refs := fun r h1 h2 => by
        have hgb : gb.head ≠ .branch r := by
          rcases hbs.head with h | ⟨b, hb1, hb2⟩
          · rw [h]; exact h1
          · rw [hb2]; intro e
            apply h2
            rw [hb1]
            cases e; rfl
        rw [hcs.refs r (by simpa using hgb)]
        simpa using hbs.refs r h2,
      index_user := fun p hp => by rw [hI]; simp [hp],
      keeps_where_wt_is_head := fun p hp => by
        rw [hHT', hI]
        by_cases hs : spec p = true
        · simp [hs, hp]
        · simp [hs, hclean p],
      clean := hHT',
      head_user := fun p hp => by rw [hHT', hI]; simp [hp, hclean p],
      commits := Or.inr ⟨⟨(addState spec gb).index, (addState spec gb).headCommit, msg⟩,
        by rw [hcs.commits]; simp [hbs.commits],
        by simp [hbs.headCommit],
        by rw [hcs.headCommit]; simp [hbs.commits],
        fun p hp => by
          show (addState spec gb).index.find? p = _
          rw [addState_index, hbs.wt, hbs.index]; simp [hp, hclean p]⟩,
      nothing := fun hn => absurd (by intro p hs; rw [hbs.wt, hbs.index]; exact hn p hs) hne,
      refs_ext := fun r c h => by
        by_cases hh : gb.head = .branch r
        · right
          have hg : g.head = .branch r := by
            rcases hbs.head with e | ⟨b, hb1, hb2⟩
            · rw [← e]; exact hh
            · rw [hb2] at hh
              have hbr : b = r := by cases hh; rfl
              have := hbs.fresh b hb1
              rw [hbr, h] at this; cases this
          have h3 : (commitState (addState spec gb) msg).head = .branch r := by
            have := hcs.head
            simp only [addState_head, hh] at this
            cases hx : (commitState (addState spec gb) msg).head <;> simp_all [Head.same]
          have hc3 := hcs.headCommit
          simp only [G.headCommit, h3, addState_commits, hbs.commits] at hc3
          refine ⟨hc3, hg, ⟨(addState spec gb).index, (addState spec gb).headCommit, msg⟩, ?_, ?_⟩
          · rw [hcs.commits]; simp [hbs.commits]
          · show (addState spec gb).headCommit = some c
            rw [addState_headCommit]
            simp only [G.headCommit, hh]
            exact hpre r c h
        · left
          rw [hcs.refs r (by simpa using hh)]
          simpa using hpre r c h,
      existing := fun b hb hs => absurd hs (hnex b hb) }

end Git

namespace Git

/-! ## `git_auto_commit` and `handle_git_automation` -/

/-- What one call of `handle_git_automation` guarantees about the state `g'` it leaves, relative
    to the state `g` it found (`spec` = the pathspec of `git add`, `tb` = `--to-branch`). -/
structure CallFacts (spec : Path → Bool) (tb : Option String) (g g' : G) (st : Status) : Prop where
  inside : st ≠ .outside
  wt : ∀ p, g'.wt.find? p = g.wt.find? p
  index_user : ∀ p, spec p = false → g'.index.find? p = g.index.find? p
  head_user : ∀ p, spec p = false → g'.headTree.find? p = g.headTree.find? p
  stash : g'.stash = g.stash
  head : Head.same g.head g'.head ∨ ∃ b, tb = some b ∧ g'.head = .branch b
  refs : ∀ r, g.head ≠ .branch r → tb ≠ some r → lookupRef g'.refs r = lookupRef g.refs r
  commits : g'.commits = g.commits ∨
    ∃ o, g'.commits = g.commits ++ [o] ∧ o.parent = g.headCommit ∧ g'.headCommit = some g.commits.length ∧
      (∀ p, spec p = false → o.tree.find? p = g.headTree.find? p)
  nothing : (∀ p, spec p = true → g.wt.find? p = g.index.find? p) →
    g'.commits = g.commits ∧ (∀ p, g'.index.find? p = g.index.find? p) ∧ g'.headTree = g.headTree ∧
    (tb = none → g'.head = g.head ∧ ∀ r, lookupRef g'.refs r = lookupRef g.refs r)
  /-- every ref that existed is kept or extended by the one new commit (also the current branch) -/
  refs_ext : ∀ r c, lookupRef g.refs r = some c → RefKept g g' r c
  /-- `--to-branch` naming an existing branch: no ref, HEAD or commit changes -/
  existing : ∀ b, tb = some b → (lookupRef g.refs b).isSome →
    g'.refs = g.refs ∧ g'.head = g.head ∧ g'.commits = g.commits

theorem CallFacts.refl' (spec : Path → Bool) (tb : Option String) (g : G) (st : Status)
    (h : st ≠ .outside) : CallFacts spec tb g g st :=
  { inside := h, wt := fun _ => rfl, index_user := fun _ _ => rfl, head_user := fun _ _ => rfl,
    stash := rfl, head := Or.inl (Head.same_refl _), refs := fun _ _ _ => rfl, commits := Or.inl rfl,
    nothing := fun _ => ⟨rfl, fun _ => rfl, rfl, fun _ => ⟨rfl, fun _ => rfl⟩⟩,
    refs_ext := fun _ _ h => Or.inl h, existing := fun _ _ _ => ⟨rfl, rfl, rfl⟩ }

theorem status_ite_inside (ok : Bool) : (if ok = true then Status.ok else Status.gitError) ≠ .outside := by
  cases ok <;> simp

/-- The central lemma: on the conflict-free fragment `git_auto_commit` (patched) never leaves the
    fragment, touches nothing but `spec` paths, re-establishes `NoMixed`, and leaves every path
    clean in the index that was clean before. -/
theorem autoCommit_facts (spec : Path → Bool) (g : G) (msg : String) (tb : Option String)
    (hookOk : Bool) (hm : NoMixed g) :
    CallFacts spec tb g (gitAutoCommit spec g msg tb hookOk).g (gitAutoCommit spec g msg tb hookOk).status ∧
    NoMixed (gitAutoCommit spec g msg tb hookOk).g ∧
    (∀ p, g.headTree.find? p = g.index.find? p →
        (gitAutoCommit spec g msg tb hookOk).g.headTree.find? p =
        (gitAutoCommit spec g msg tb hookOk).g.index.find? p) ∧
    (∀ b, tb = some b → (lookupRef g.refs b).isSome →
        (gitAutoCommit spec g msg tb hookOk).status = .gitError) := by
  by_cases hst : diffCached g = []
  · -- nothing staged: no stash, no pop
    have hclean : ∀ p, g.index.find? p = g.headTree.find? p :=
      fun p => ((diffCached_eq_nil g).mp hst p).symm
    have hf := helper_spec spec g msg tb hookOk hclean
    have hres : gitAutoCommit spec g msg tb hookOk =
        ⟨(gitCommitXvcFiles spec g msg tb hookOk).1,
         if (gitCommitXvcFiles spec g msg tb hookOk).2 = true then .ok else .gitError⟩ := by
      unfold gitAutoCommit stashUserStagedFiles
      simp [hst]
    rw [hres]
    refine ⟨?_, ?_, ?_, ?_⟩
    · exact {
        inside := status_ite_inside _
        refs_ext := hf.refs_ext
        existing := fun b hb hs => by
          have := (hf.existing b hb hs).1
          show (gitCommitXvcFiles spec g msg tb hookOk).1.refs = g.refs ∧ _
          rw [this]; exact ⟨rfl, rfl, rfl⟩
        wt := fun p => by rw [hf.wt]
        index_user := hf.index_user
        head_user := hf.head_user
        stash := hf.stash
        head := hf.head
        refs := hf.refs
        commits := hf.commits
        nothing := fun hn => by
          obtain ⟨h1, h2, h3, h4⟩ := hf.nothing hn
          exact ⟨h1, h2, h3, fun ht => (h4 ht).2⟩ }
    · intro p hp
      exact absurd (hf.clean p) hp
    · intro p _
      exact hf.clean p
    · intro b hb hs
      have := (hf.existing b hb hs).2
      simp [this]
  · rcases push_cases g hm with hpush | hpush
    · -- staged changes stashed, commit attempted, stash popped
      have hclean : ∀ p, (pushState g).index.find? p = (pushState g).headTree.find? p := fun _ => rfl
      have hf := helper_spec spec (pushState g) msg tb hookOk hclean
      generalize hg2 : (gitCommitXvcFiles spec (pushState g) msg tb hookOk).1 = g2 at hf
      generalize hok2 : (gitCommitXvcFiles spec (pushState g) msg tb hookOk).2 = ok at hf
      have hpair : gitCommitXvcFiles spec (pushState g) msg tb hookOk = (g2, ok) := by
        rw [← hg2, ← hok2]
      let e : Stash := ⟨"xvc", g.headTree, g.index⟩
      have hs2 : g2.stash = e :: g.stash := by rw [hf.stash]; rfl
      have hW1 : ∀ p, g.headTree.find? p ≠ g.index.find? p → (pushState g).wt.find? p = g.headTree.find? p := by
        intro p hp; rw [pushState_wt]; simp [hp]
      have hW1' : ∀ p, g.headTree.find? p = g.index.find? p → (pushState g).wt.find? p = g.wt.find? p := by
        intro p hp; rw [pushState_wt]; simp [hp]
      have hpop : stashPopIndex g2 = .ok (popState g2 e g.stash) := by
        apply pop_ok g2 e g.stash hs2 hf.clean
        intro p hp
        have hp' : g.headTree.find? p ≠ g.index.find? p := hp
        have hk := hf.keeps_where_wt_is_head p (by rw [hW1 p hp']; rfl)
        simp only [pushState_headTree] at hk
        refine ⟨hk, ?_⟩
        rw [hf.wt]; exact hW1 p hp'
      have hres : gitAutoCommit spec g msg tb hookOk =
          ⟨popState g2 e g.stash, if ok = true then .ok else .gitError⟩ := by
        unfold gitAutoCommit stashUserStagedFiles
        simp [hst, hpush, hpair, hpop]
      rw [hres]
      have hI3 : ∀ p, (popState g2 e g.stash).index.find? p =
          if g.headTree.find? p ≠ g.index.find? p then g.index.find? p else g2.index.find? p := by
        intro p; rw [popState_index]
      have hW3 : ∀ p, (popState g2 e g.stash).wt.find? p = g.wt.find? p := by
        intro p
        rw [popState_wt]
        by_cases hp : g.headTree.find? p = g.index.find? p
        · have : ¬ e.base.find? p ≠ e.idx.find? p := by simpa [e] using hp
          rw [if_neg this, hf.wt]; exact hW1' p hp
        · have : e.base.find? p ≠ e.idx.find? p := hp
          rw [if_pos this]
          exact (hm p hp).symm
      refine ⟨?_, ?_, ?_, ?_⟩
      · exact {
          inside := status_ite_inside _
          refs_ext := fun r c h => hf.refs_ext r c h
          existing := fun b hb hs => by
            have h1 := (hf.existing b hb hs).1
            rw [h1]; exact ⟨rfl, rfl, rfl⟩
          wt := hW3
          index_user := fun p hp => by
            rw [hI3]
            by_cases hc : g.headTree.find? p = g.index.find? p
            · simp only [hc, ne_eq, not_true_eq_false, if_false]
              rw [hf.index_user p hp]
              exact hc
            · simp [hc]
          head_user := fun p hp => by
            rw [popState_headTree, hf.head_user p hp]; rfl
          stash := rfl
          head := by simpa using hf.head
          refs := by simpa using hf.refs
          commits := by simpa using hf.commits
          nothing := fun hn => by
            have hn1 : ∀ p, spec p = true → (pushState g).wt.find? p = (pushState g).index.find? p := by
              intro p hs
              by_cases hc : g.headTree.find? p = g.index.find? p
              · rw [hW1' p hc, hn p hs, ← hc]; rfl
              · rw [hW1 p hc]; rfl
            obtain ⟨h1, h2, h3, h4⟩ := hf.nothing hn1
            refine ⟨by simpa using h1, ?_, by rw [popState_headTree, h3]; rfl, ?_⟩
            · intro p
              rw [hI3]
              by_cases hc : g.headTree.find? p = g.index.find? p
              · simp only [hc, ne_eq, not_true_eq_false, if_false]
                rw [h2 p]; exact hc
              · simp [hc]
            · intro ht
              obtain ⟨_, h5, h6⟩ := h4 ht
              exact ⟨by simpa using h5, by simpa using h6⟩ }
      · intro p hp
        rw [hW3, hI3]
        rw [popState_headTree, hI3] at hp
        by_cases hc : g.headTree.find? p = g.index.find? p
        · simp only [hc, ne_eq, not_true_eq_false, if_false] at hp
          exact absurd (hf.clean p) hp
        · simp only [ne_eq, hc, not_false_eq_true, if_true]
          exact hm p hc
      · intro p hc
        rw [popState_headTree, hI3]
        simp only [hc, ne_eq, not_true_eq_false, if_false]
        exact hf.clean p
      · intro b hb hs
        have := (hf.existing b hb hs).2
        simp [this]
    · -- `git stash push` refused (no initial commit): `?` returns the error, nothing happened
      have hres : gitAutoCommit spec g msg tb hookOk = ⟨g, .gitError⟩ := by
        unfold gitAutoCommit stashUserStagedFiles
        simp [hst, hpush]
      rw [hres]
      exact ⟨CallFacts.refl' spec tb g .gitError (by simp), hm, fun _ h => h, fun _ _ _ => rfl⟩

end Git

namespace Git

/-! ## decidable form of the fragment condition (used by the driver and by `example`s) -/

def noMixedB (g : G) : Bool := (diffCached g).all (fun p => g.wt.find? p == g.index.find? p)

theorem noMixedB_iff (g : G) : noMixedB g = true ↔ NoMixed g := by
  unfold noMixedB NoMixed
  constructor
  · intro h p hp
    have := List.all_eq_true.mp h p ((mem_diffCached g p).mpr hp)
    simpa using this
  · intro h
    apply List.all_eq_true.mpr
    intro p hp
    simp [h p ((mem_diffCached g p).mp hp)]

/-! ## `handle_git_automation` -/

theorem handle_facts (spec : Path → Bool) (cfg : Cfg) (g : G) (msg : String) (tb : Option String)
    (hookOk : Bool) (hm : cfg.useGit = true → cfg.autoCommit = true → NoMixed g) :
    CallFacts spec tb g (handleGitAutomation spec cfg g msg tb hookOk).g
      (handleGitAutomation spec cfg g msg tb hookOk).status := by
  unfold handleGitAutomation
  by_cases hu : cfg.useGit = true
  · by_cases hc : cfg.autoCommit = true
    · simp only [hu, hc, if_true]
      exact (autoCommit_facts spec g msg tb hookOk (hm hu hc)).1
    · by_cases hs : cfg.autoStage = true
      · simp only [hu, hc, hs, if_true, if_false]
        show CallFacts spec tb g (addState spec g) .ok
        exact {
          inside := by simp
          wt := fun _ => rfl
          index_user := fun p hp => by rw [addState_index]; simp [hp]
          head_user := fun _ _ => by rw [addState_headTree]
          stash := rfl
          head := Or.inl (Head.same_refl _)
          refs := fun _ _ _ => rfl
          commits := Or.inl rfl
          nothing := fun hn => ⟨rfl, fun p => by
            rw [addState_index]
            by_cases h : spec p = true
            · simp [h, hn p h]
            · simp [h], by rw [addState_headTree], fun _ => ⟨rfl, fun _ => rfl⟩⟩
          refs_ext := fun _ _ h => Or.inl h
          existing := fun _ _ _ => ⟨rfl, rfl, rfl⟩ }
      · simp only [hu, hc, hs, if_true, if_false]
        exact CallFacts.refl' spec tb g .ok (by simp)
  · simp only [hu, if_false]
    exact CallFacts.refl' spec tb g .ok (by simp)

end Git

namespace Git

/-! ## `git_checkout_ref` (`--from-ref`) -/

/-- the tree `--from-ref r` switches to (HEAD's own tree when `r` does not exist) -/
def targetTree (g : G) (r : String) : Tree :=
  match lookupRef g.refs r with
  | some c => g.treeOf c
  | none => g.headTree

/-- the state after a successful `git checkout r` (branch `r` at commit `c`) -/
def checkoutState (g : G) (r : String) (c : Nat) : G :=
  { g with head := .branch r,
           index := Tree.pick (fun p => g.headTree.find? p != (g.treeOf c).find? p) (g.treeOf c) g.index,
           wt := Tree.pick (fun p => g.headTree.find? p != (g.treeOf c).find? p) (g.treeOf c) g.wt }

theorem checkout_ok (g : G) (r : String) (c : Nat) (hr : lookupRef g.refs r = some c)
    (h : ∀ p, g.headTree.find? p ≠ (g.treeOf c).find? p →
      g.index.find? p = g.headTree.find? p ∧ g.wt.find? p = g.headTree.find? p) :
    gitCheckout g r = .ok (checkoutState g r c) := by
  unfold gitCheckout
  simp only [hr]
  have h2 : (Tree.diffNames g.headTree (g.treeOf c)).all (fun p =>
      g.index.find? p == g.headTree.find? p && g.wt.find? p == g.headTree.find? p) = true := by
    apply List.all_eq_true.mpr
    intro p hp
    have := h p ((Tree.mem_diffNames _ _ _).mp hp)
    simp [this.1, this.2]
  simp [h2, checkoutState]

theorem checkoutState_headTree (g : G) (r : String) (c : Nat) (hr : lookupRef g.refs r = some c) :
    (checkoutState g r c).headTree = g.treeOf c := by
  simp [checkoutState, G.headTree, G.headCommit, hr, G.treeOf]

/-- What `git_checkout_ref` (patched) guarantees: if the paths on which the two refs differ carry no
    user change, the checkout stays inside the fragment; stash, commits and refs are unchanged,
    HEAD is the old one or branch `r`, and every path on which the two trees agree keeps its index
    entry and its work-tree file — the user's staged changes are staged again afterwards. -/
theorem checkoutRef_facts (g : G) (r : String) (hm : NoMixed g)
    (hfree : ∀ p, (targetTree g r).find? p ≠ g.headTree.find? p →
      g.index.find? p = g.headTree.find? p ∧ g.wt.find? p = g.headTree.find? p) :
    (gitCheckoutRef g r).status ≠ .outside ∧
    (gitCheckoutRef g r).g.stash = g.stash ∧ (gitCheckoutRef g r).g.commits = g.commits ∧
    (gitCheckoutRef g r).g.refs = g.refs ∧
    ((gitCheckoutRef g r).g.head = g.head ∨ (gitCheckoutRef g r).g.head = .branch r) ∧
    (lookupRef g.refs r = none → (gitCheckoutRef g r).g.head = g.head ∧ (gitCheckoutRef g r).status = .gitError) ∧
    ∀ p, (targetTree g r).find? p = g.headTree.find? p →
      (gitCheckoutRef g r).g.index.find? p = g.index.find? p ∧
      (gitCheckoutRef g r).g.wt.find? p = g.wt.find? p := by
  by_cases hst : diffCached g = []
  · -- nothing staged
    cases hr : lookupRef g.refs r with
    | none =>
      have hcof : gitCheckout g r = .fail := by
        unfold gitCheckout
        simp [hr]
      have hres : gitCheckoutRef g r = ⟨g, .gitError⟩ := by
        unfold gitCheckoutRef stashUserStagedFiles
        simp [hst, hcof]
      rw [hres]
      exact ⟨by simp, rfl, rfl, rfl, Or.inl rfl, fun _ => ⟨rfl, rfl⟩, fun _ _ => ⟨rfl, rfl⟩⟩
    | some c =>
      have ht : targetTree g r = g.treeOf c := by simp [targetTree, hr]
      have hco := checkout_ok g r c hr (fun p hp => hfree p (by rw [ht]; exact fun e => hp e.symm))
      have hres : gitCheckoutRef g r = ⟨checkoutState g r c, .ok⟩ := by
        unfold gitCheckoutRef stashUserStagedFiles
        simp [hst, hco]
      rw [hres]
      refine ⟨by simp, rfl, rfl, rfl, Or.inr rfl, fun h => by simp at h, ?_⟩
      intro p hp
      rw [ht] at hp
      simp [checkoutState, hp]
  · rcases push_cases g hm with hpush | hpush
    · let e : Stash := ⟨"xvc", g.headTree, g.index⟩
      have hW1 : ∀ p, g.headTree.find? p ≠ g.index.find? p → (pushState g).wt.find? p = g.headTree.find? p := by
        intro p hp; rw [pushState_wt]; simp [hp]
      have hW1' : ∀ p, g.headTree.find? p = g.index.find? p → (pushState g).wt.find? p = g.wt.find? p := by
        intro p hp; rw [pushState_wt]; simp [hp]
      cases hr : lookupRef g.refs r with
      | none =>
        -- the checkout fails; the stash is popped all the same
        have hpop : stashPopIndex (pushState g) = .ok (popState (pushState g) e g.stash) := by
          apply pop_ok (pushState g) e g.stash rfl (fun _ => rfl)
          intro p hp
          exact ⟨rfl, hW1 p hp⟩
        have hcof : gitCheckout (pushState g) r = .fail := by
          unfold gitCheckout
          simp [hr]
        have hres : gitCheckoutRef g r = ⟨popState (pushState g) e g.stash, .gitError⟩ := by
          unfold gitCheckoutRef stashUserStagedFiles
          simp [hst, hpush, hcof, hpop]
        rw [hres]
        refine ⟨by simp, rfl, rfl, rfl, Or.inl rfl, fun _ => ⟨rfl, rfl⟩, ?_⟩
        intro p _
        rw [popState_index, popState_wt]
        by_cases hc : g.headTree.find? p = g.index.find? p
        · have : ¬ e.base.find? p ≠ e.idx.find? p := by simpa [e] using hc
          rw [if_neg this, if_neg this]
          exact ⟨hc, hW1' p hc⟩
        · have : e.base.find? p ≠ e.idx.find? p := hc
          rw [if_pos this, if_pos this]
          exact ⟨rfl, (hm p hc).symm⟩
      | some c =>
        have ht : targetTree g r = g.treeOf c := by simp [targetTree, hr]
        have hr' : lookupRef (pushState g).refs r = some c := hr
        have htree : (pushState g).treeOf c = g.treeOf c := rfl
        have hco : gitCheckout (pushState g) r = .ok (checkoutState (pushState g) r c) := by
          apply checkout_ok (pushState g) r c hr'
          intro p hp
          rw [pushState_headTree, htree] at hp
          refine ⟨rfl, ?_⟩
          rw [pushState_headTree]
          by_cases hc : g.headTree.find? p = g.index.find? p
          · rw [hW1' p hc]
            exact (hfree p (by rw [ht]; exact fun e => hp e.symm)).2
          · exact hW1 p hc
        have hHT2 : (checkoutState (pushState g) r c).headTree = g.treeOf c :=
          checkoutState_headTree (pushState g) r c hr'
        have hI2 : ∀ p, (checkoutState (pushState g) r c).index.find? p = (g.treeOf c).find? p := by
          intro p
          simp only [checkoutState, Tree.find?_pick, pushState_headTree, pushState_index, htree]
          by_cases h : g.headTree.find? p = (g.treeOf c).find? p
          · simp [h]
          · simp [h]
        have hW2 : ∀ p, g.headTree.find? p = (g.treeOf c).find? p →
            (checkoutState (pushState g) r c).wt.find? p = (pushState g).wt.find? p := by
          intro p h
          simp only [checkoutState, Tree.find?_pick, pushState_headTree, htree]
          simp [h]
        -- a path the user staged is a path on which the two refs agree
        have hagree : ∀ p, g.headTree.find? p ≠ g.index.find? p → (g.treeOf c).find? p = g.headTree.find? p := by
          intro p hp
          by_cases h : (g.treeOf c).find? p = g.headTree.find? p
          · exact h
          · exact absurd (hfree p (by rw [ht]; exact h)).1.symm hp
        have hpop : stashPopIndex (checkoutState (pushState g) r c) =
            .ok (popState (checkoutState (pushState g) r c) e g.stash) := by
          apply pop_ok _ e g.stash rfl (fun p => by rw [hHT2, hI2])
          intro p hp
          have hp' : g.headTree.find? p ≠ g.index.find? p := hp
          refine ⟨by rw [hHT2]; exact hagree p hp', ?_⟩
          rw [hW2 p (hagree p hp').symm]
          exact hW1 p hp'
        have hres : gitCheckoutRef g r =
            ⟨popState (checkoutState (pushState g) r c) e g.stash, .ok⟩ := by
          unfold gitCheckoutRef stashUserStagedFiles
          simp [hst, hpush, hco, hpop]
        rw [hres]
        refine ⟨by simp, rfl, rfl, rfl, Or.inr rfl, fun h => by simp at h, ?_⟩
        intro p hp
        rw [ht] at hp
        rw [popState_index, popState_wt]
        by_cases hc : g.headTree.find? p = g.index.find? p
        · have : ¬ e.base.find? p ≠ e.idx.find? p := by simpa [e] using hc
          rw [if_neg this, if_neg this, hI2, hW2 p hp.symm]
          exact ⟨by rw [hp, hc], hW1' p hc⟩
        · have : e.base.find? p ≠ e.idx.find? p := hc
          rw [if_pos this, if_pos this]
          exact ⟨rfl, (hm p hc).symm⟩
    · have hres : gitCheckoutRef g r = ⟨g, .gitError⟩ := by
        unfold gitCheckoutRef stashUserStagedFiles
        simp [hst, hpush]
      rw [hres]
      refine ⟨by simp, rfl, rfl, rfl, Or.inl rfl, fun _ => ⟨rfl, rfl⟩, fun _ _ => ⟨rfl, rfl⟩⟩

end Git

namespace Git

/-! ## aborts (panics) between the git invocations -/

/-- The hypothesis under which the stash sandwich of `git_auto_commit` is safe: none of the pure
    computations that run between `git stash push --staged` and `git stash pop --index` panics —
    the `debug!` calls and `checkout -b` argument (`inCheckout`), the argument array of `git add`
    (`inAdd`), the construction of the commit message from the command line (`inMessage`), the
    `debug!` calls after `git commit` / before the pop (`inAfterCommit`). -/
def NoPanicInsideSandwich (s : PanicSites) : Prop :=
  s.inCheckout = false ∧ s.inAdd = false ∧ s.inMessage = false ∧ s.inAfterCommit = false

instance (s : PanicSites) : Decidable (NoPanicInsideSandwich s) := by
  unfold NoPanicInsideSandwich; exact inferInstance

theorem commitFilesP_eq (s : PanicSites) (h : NoPanicInsideSandwich s) (spec : Path → Bool) (g : G)
    (msg : String) (tb : Option String) (hookOk : Bool) :
    gitCommitXvcFilesP s spec g msg tb hookOk =
      ((gitCommitXvcFiles spec g msg tb hookOk).1, (gitCommitXvcFiles spec g msg tb hookOk).2, false) := by
  obtain ⟨h1, h2, h3, h4⟩ := h
  unfold gitCommitXvcFilesP gitCommitXvcFiles
  simp only [h1, h2, h3, h4, Bool.false_eq_true, if_false]
  split
  · split
    · rfl
    · split <;> rfl
  · rfl

theorem autoCommitP_eq (s : PanicSites) (hb : s.beforeStash = false) (h : NoPanicInsideSandwich s)
    (spec : Path → Bool) (g : G) (msg : String) (tb : Option String) (hookOk : Bool) :
    (gitAutoCommitP s spec g msg tb hookOk).g = (gitAutoCommit spec g msg tb hookOk).g ∧
    (gitAutoCommitP s spec g msg tb hookOk).status = (gitAutoCommit spec g msg tb hookOk).status := by
  unfold gitAutoCommitP gitAutoCommit
  simp only [hb, Bool.false_eq_true, if_false]
  split
  · exact ⟨rfl, rfl⟩
  · exact ⟨rfl, rfl⟩
  · rename_i g1 staged _
    rw [commitFilesP_eq s h]
    simp only
    split
    · split <;> exact ⟨rfl, rfl⟩
    · exact ⟨rfl, rfl⟩

end Git
