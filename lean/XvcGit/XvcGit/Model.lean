/-
  Executable model of a Git repository (head/index/work tree/stash/branches) and of xvc's Git
  automation: `/repo/core/src/util/git.rs` (`stash_user_staged_files`, `unstash_user_staged_files`,
  `git_auto_commit`, `git_auto_stage`, `handle_git_automation`, `git_checkout_ref`) as it is called
  from `/repo/lib/src/cli/mod.rs` (`command_matcher`, `dispatch_with_root`).

  The transcription follows the code AFTER `patches/C15-F4.patch` (the stash is popped on every exit
  path) and `patches/C15-pathspec.patch` (`:(glob)**/.gitignore` instead of `*.gitignore`).  The code
  before the patches is kept as `gitAutoCommitOld` / `oldSpec`; the property file proves concrete
  counterexamples for it.

  Git itself is an ASSUMED model (validated differentially against real git by `lib/c15.py`): the
  operations below describe git's behaviour on the conflict-free fragment and answer `Res.outside`
  where git would have to merge or would refuse because a path carries both staged and unstaged
  changes.

  Layout: the paths of a state are relative to the top of the Git work tree; the Xvc root may be
  that directory or any subdirectory of it (`xvc init` in `repo/proj/`).  The only place where the
  Xvc root enters is the pathspec of `git add` (`isXvcPathAt root`); every other git process xvc
  starts (`diff --cached`, `stash push --staged`, `stash pop --index`, `commit`, `reset`,
  `checkout`) acts on the whole repository, whatever directory `-C` names.

  Import-free (core only) so that the driver links as a `lean_exe`.
-/
namespace Git

/-- repository-relative path, as the list of its components (`["dir", "a.txt"]` is `dir/a.txt`) -/
abbrev Path := List String
/-- identity of a file version (blob id + mode) -/
abbrev Blob := String
/-- a tree / the index / the work tree: association list, first entry of a path wins -/
abbrev Tree := List (Path × Blob)

namespace Tree

def find? : Tree → Path → Option Blob
  | [], _ => none
  | (k, v) :: t, p => if k = p then some v else find? t p

def keys (t : Tree) : List Path := t.map (·.1)

/-- `a` on the paths selected by `sel`, `b` everywhere else -/
def pick (sel : Path → Bool) (a b : Tree) : Tree :=
  a.filter (fun e => sel e.1) ++ b.filter (fun e => !sel e.1)

/-- the paths on which two trees differ (`git diff --name-only a b`) -/
def diffNames (a b : Tree) : List Path :=
  (a.keys ++ b.keys).filter (fun p => a.find? p != b.find? p)

/-- write (`some`) or delete (`none`) one path -/
def set (t : Tree) (p : Path) : Option Blob → Tree
  | some b => (p, b) :: t.filter (fun e => e.1 != p)
  | none => t.filter (fun e => e.1 != p)

end Tree

/-- a set of work-tree writes/deletions -/
abbrev Change := List (Path × Option Blob)

def Tree.apply (t : Tree) (ch : Change) : Tree := ch.foldl (fun t e => t.set e.1 e.2) t

/-! ## which paths belong to xvc -/

/-- The paths `git add <xvc_dir> ':(glob)**/.gitignore' ':(glob)**/.xvcignore'` can touch:
    everything below `.xvc/` and files whose NAME is `.gitignore` or `.xvcignore`
    (`GITIGNORE_PATHSPEC`, `XVCIGNORE_PATHSPEC` in git.rs after C15-pathspec.patch). -/
def isXvcPath (p : Path) : Bool :=
  p.head? == some ".xvc" || p.getLast? == some ".gitignore" || p.getLast? == some ".xvcignore"

/-- The same pathspecs when the Xvc root is the directory `root` of the Git work tree (`root = []`:
    Xvc root = Git root; `root = ["proj"]`: `xvc init` was run in `proj/`).  All paths of a `G` are
    relative to the top of the Git work tree.  Every git process of `git.rs` runs with
    `-C <xvc root>` (`exec_git`), and git interprets the pathspecs `<xvc_dir>`,
    `:(glob)**/.gitignore`, `:(glob)**/.xvcignore` relative to that directory: a path outside
    `root` is never matched, whatever its name (`dir/.gitignore` next to `proj/` is a user file);
    a path below `root` is matched iff its remainder is an xvc path. -/
def isXvcPathAt (root : Path) (p : Path) : Bool :=
  root.isPrefixOf p && isXvcPath (p.drop root.length)

/-- The pathspec before C15-pathspec.patch: `*.gitignore` / `*.xvcignore` match every path that
    merely ENDS in these strings (`*` matches `/` in a pathspec), e.g. `notes.gitignore`. -/
def oldSpec (p : Path) : Bool :=
  p.head? == some ".xvc" ||
  (match p.getLast? with
   | some n => ".gitignore".toList.isSuffixOf n.toList || ".xvcignore".toList.isSuffixOf n.toList
   | none => false)

/-! ## repository state -/

structure Commit where
  tree : Tree
  parent : Option Nat
  msg : String
  deriving Repr, DecidableEq

inductive Head where
  | branch (b : String)
  | detached (c : Nat)
  deriving Repr, DecidableEq

/-- one stash entry: `tag` identifies entries the user made; `base` is the tree of the commit the
    entry was made on, `idx` the stashed index tree (for `--staged` the stashed work tree is `idx`) -/
structure Stash where
  tag : String
  base : Tree
  idx : Tree
  deriving Repr, DecidableEq

/-- commit ids are positions in `commits` (the object store is append-only) -/
structure G where
  commits : List Commit
  refs : List (String × Nat)       -- refs/heads/*
  head : Head
  index : Tree
  wt : Tree                         -- files git can see: tracked, or untracked and not ignored
  stash : List Stash
  deriving Repr

def lookupRef : List (String × Nat) → String → Option Nat
  | [], _ => none
  | (k, c) :: t, r => if k = r then some c else lookupRef t r

def G.headCommit (g : G) : Option Nat :=
  match g.head with
  | .branch b => lookupRef g.refs b
  | .detached c => some c

def G.treeOf (g : G) (c : Nat) : Tree :=
  match g.commits[c]? with
  | some o => o.tree
  | none => []

def G.headTree (g : G) : Tree :=
  match g.headCommit with
  | some c => g.treeOf c
  | none => []

/-- result of one git process -/
inductive Res (α : Type) where
  | ok (a : α)
  | fail        -- git exits non-zero and leaves the repository as it was
  | outside     -- outside the modelled fragment (git would merge, or stops half-way)
  deriving Repr

/-! ## the git commands xvc issues -/

/-- `git diff --name-only --cached`: ALL staged paths of the repository — without `--relative` the
    listing does not depend on the directory git runs in (`-C <xvc root>`), so it is the same
    whether the Xvc root is the Git root or a subdirectory of it. -/
def diffCached (g : G) : List Path := Tree.diffNames g.headTree g.index

/-- `git diff --name-only --relative --cached` run in the subdirectory `root`: only the staged
    paths below `root` are listed.  NOT what `stash_user_staged_files` runs; kept (with
    `gitAutoCommitRelative`) for the counterexample `C15_nested_relative_counterexample`. -/
def diffCachedRelative (root : Path) (g : G) : List Path :=
  (diffCached g).filter (fun p => root.isPrefixOf p)

/-- `git stash push --staged`: the staged changes go to a new stash entry and are reverted in the
    index AND in the work tree (a staged new file disappears, a staged deletion is re-created).
    Without an initial commit git refuses.  A path with staged and unstaged changes is outside the
    fragment (git creates the entry and then fails to revert, or reverts hunk-wise). -/
def stashPushStaged (g : G) : Res G :=
  if g.headCommit.isNone then .fail
  else if (diffCached g).all (fun p => g.wt.find? p == g.index.find? p) then
    let h := g.headTree
    .ok { g with stash := ⟨"xvc", h, g.index⟩ :: g.stash, index := h,
                 wt := Tree.pick (fun p => h.find? p != g.index.find? p) h g.wt }
  else .outside

/-- `git stash pop --index`: re-applies the top entry to the index and the work tree and drops it.
    Real git refuses (and resets the index) unless the index equals HEAD; it is conflict-free when
    moreover every path the entry changes is, in HEAD and work tree, still what it was in the
    entry's base. -/
def stashPopIndex (g : G) : Res G :=
  match g.stash with
  | [] => .fail
  | e :: rest =>
    if diffCached g = [] && (Tree.diffNames e.base e.idx).all (fun p =>
          g.headTree.find? p == e.base.find? p && g.wt.find? p == e.base.find? p) then
      let ch := fun p => e.base.find? p != e.idx.find? p
      .ok { g with stash := rest, index := Tree.pick ch e.idx g.index, wt := Tree.pick ch e.idx g.wt }
    else .outside

/-- `git checkout -b <b>` -/
def checkoutNewBranch (g : G) (b : String) : Res G :=
  if (lookupRef g.refs b).isSome then .fail          -- "a branch named b already exists"
  else match g.headCommit with
    | some c => .ok { g with refs := (b, c) :: g.refs, head := .branch b }
    | none => .ok { g with head := .branch b }          -- unborn branch renamed

/-- `git checkout -B <b>`: creates the branch, or RESETS an already existing branch of that name to
    the current HEAD commit; never refuses.  NOT what `git_commit_xvc_files` runs (it runs
    `checkout -b`, `checkoutNewBranch`); kept with `gitAutoCommitForceBranch` for the counterexample
    `C15_to_branch_force_counterexample`. -/
def checkoutForceBranch (g : G) (b : String) : Res G :=
  match g.headCommit with
  | some c => .ok { g with refs := (b, c) :: g.refs.filter (fun r => r.1 != b), head := .branch b }
  | none => .ok { g with head := .branch b }

/-- `git add --verbose <pathspec>`: index entries of matching paths become what the work tree has
    (removals included); the output lists the paths that changed. -/
def gitAdd (spec : Path → Bool) (g : G) : G × List Path :=
  ({ g with index := Tree.pick spec g.wt g.index },
   (g.wt.keys ++ g.index.keys).filter (fun p => spec p && g.wt.find? p != g.index.find? p))

/-- `git commit -m <msg>`; `hookOk = false` stands for every reason git may refuse that the model
    does not track (rejecting pre-commit hook, missing identity, …). -/
def gitCommit (g : G) (msg : String) (hookOk : Bool) : Res G :=
  if !hookOk then .fail
  else if Tree.diffNames g.headTree g.index = [] then .fail       -- "nothing to commit"
  else
    let c := g.commits.length
    let o : Commit := ⟨g.index, g.headCommit, msg⟩
    match g.head with
    | .branch b => .ok { g with commits := g.commits ++ [o], refs := (b, c) :: g.refs.filter (fun r => r.1 != b) }
    | .detached _ => .ok { g with commits := g.commits ++ [o], head := .detached c }

/-- `git reset --quiet`: the index becomes HEAD's tree, the work tree is kept -/
def gitReset (g : G) : G := { g with index := g.headTree }

/-- `git checkout <ref>` of an existing branch: paths that differ between the two trees are
    rewritten in index and work tree; they must be clean. -/
def gitCheckout (g : G) (r : String) : Res G :=
  match lookupRef g.refs r with
  | none => .fail
  | some c =>
    let h := g.headTree
    let t := g.treeOf c
    if (Tree.diffNames h t).all (fun p => g.index.find? p == h.find? p && g.wt.find? p == h.find? p) then
      let ch := fun p => h.find? p != t.find? p
      .ok { g with head := .branch r, index := Tree.pick ch t g.index, wt := Tree.pick ch t g.wt }
    else .outside

/-! ## `core/src/util/git.rs` -/

inductive Status where
  | ok
  | gitError      -- the Rust function returned `Err(GitProcessError)`
  | outside       -- git left the modelled fragment
  deriving Repr, DecidableEq

structure Out where
  g : G
  status : Status
  deriving Repr

/-- `stash_user_staged_files`: stash only when `git diff --name-only --cached` prints something;
    returns that output. -/
def stashUserStagedFiles (g : G) : Res (G × List Path) :=
  let staged := diffCached g
  if staged ≠ [] then
    match stashPushStaged g with
    | .ok g1 => .ok (g1, staged)
    | .fail => .fail
    | .outside => .outside
  else .ok (g, staged)

/-- `git_commit_xvc_files` (the part of `git_auto_commit` between stash and unstash):
    optional `checkout -b`, `git add --verbose`, return early when nothing was added, `git commit`;
    when the commit fails the added files are unstaged again (`git reset --quiet`), because
    `git stash pop --index` needs a clean index.  The Boolean is `true` for `Ok(())`. -/
def gitCommitXvcFiles (spec : Path → Bool) (g : G) (msg : String) (toBranch : Option String)
    (hookOk : Bool) : G × Bool :=
  let co : Res G := match toBranch with
    | some b => checkoutNewBranch g b
    | none => .ok g
  match co with
  | .ok g1 =>
    let (g2, added) := gitAdd spec g1
    if added = [] then (g2, true)                          -- "No files to commit"
    else match gitCommit g2 msg hookOk with
      | .ok g3 => (g3, true)
      | _ => (gitReset g2, false)
  | _ => (g, false)                                          -- `exec_git(... checkout -b ...)?`

/-- `git_auto_commit` (after C15-F4.patch): stash the user's staged files, commit xvc's files,
    and unstash on EVERY exit path of the commit. -/
def gitAutoCommit (spec : Path → Bool) (g : G) (msg : String) (toBranch : Option String)
    (hookOk : Bool) : Out :=
  match stashUserStagedFiles g with
  | .fail => ⟨g, .gitError⟩
  | .outside => ⟨g, .outside⟩
  | .ok (g1, staged) =>
    let (g2, ok) := gitCommitXvcFiles spec g1 msg toBranch hookOk
    if staged ≠ [] then
      match stashPopIndex g2 with
      | .ok g3 => ⟨g3, if ok then .ok else .gitError⟩
      | .fail => ⟨g2, .gitError⟩
      | .outside => ⟨g2, .outside⟩
    else ⟨g2, if ok then .ok else .gitError⟩

/-! ### aborts (panics) between the git invocations

  `git_auto_commit` protects the user's staged files against `Err` RESULTS of the git processes (the
  stash is popped on every exit path).  It has no protection against UNWINDING: if any of the pure
  Rust computations that run between `git stash push --staged` and `git stash pop --index` panics,
  the thread unwinds, `unstash_user_staged_files` is never called and the process ends (exit status
  101).  `PanicSites` names those computations; `gitAutoCommitP` is `gitAutoCommit` with an abort
  transition at each of them (an abort at a site that the run does not pass has no effect). -/

/-- Which of the pure computations of `git_auto_commit` / `git_commit_xvc_files` panics in a run.
    Every field is a place between two git invocations. -/
structure PanicSites where
  /-- before `git stash push --staged`: `debug!("Using Git")`, building the arguments of
      `git diff --name-only --cached`, `debug!("Stashing user staged files")` -/
  beforeStash : Bool
  /-- after the push, before `git checkout -b`: `debug!("Stashed user staged files")`,
      `debug!("Checking out branch {branch}")` -/
  inCheckout : Bool
  /-- before `git add`: building the argument array (`xvc_dir_str`, the two pathspecs) -/
  inAdd : Bool
  /-- after `git add` reported files, before `git commit`: building the commit MESSAGE
      `format!("Xvc auto-commit after '{xvc_cmd}'")` from the command line -/
  inMessage : Bool
  /-- after `git commit` returned (Ok or Err), before `git reset` / before the pop:
      `debug!("Committing .xvc/ to git")`, `debug!("Error committing")`, `debug!("Unstashing")` -/
  inAfterCommit : Bool
  /-- after `git stash pop --index` returned: `debug!("Unstashed user staged files")`, and the
      caller's `.unwrap()` / `?` on the `Err` that `git_auto_commit` returns -/
  afterPop : Bool
  deriving Repr, DecidableEq

/-- `git_commit_xvc_files` with abort transitions: state, the `Ok(())` flag, and `true` when the
    thread is unwinding (then no further git process runs). -/
def gitCommitXvcFilesP (s : PanicSites) (spec : Path → Bool) (g : G) (msg : String)
    (toBranch : Option String) (hookOk : Bool) : G × Bool × Bool :=
  if s.inCheckout then (g, false, true)
  else
    let co : Res G := match toBranch with
      | some b => checkoutNewBranch g b
      | none => .ok g
    match co with
    | .ok g1 =>
      if s.inAdd then (g1, false, true)
      else
        let (g2, added) := gitAdd spec g1
        if added = [] then (g2, true, false)
        else if s.inMessage then (g2, false, true)               -- the message cannot be built
        else match gitCommit g2 msg hookOk with
          | .ok g3 => if s.inAfterCommit then (g3, false, true) else (g3, true, false)
          | _ => if s.inAfterCommit then (g2, false, true) else (gitReset g2, false, false)
    | _ => (g, false, false)

structure OutP where
  g : G
  status : Status
  /-- the process ended by a panic at this state (exit status 101) -/
  aborted : Bool
  deriving Repr

/-- `git_auto_commit` with abort transitions.  When the thread unwinds inside
    `git_commit_xvc_files` the pop is NOT executed. -/
def gitAutoCommitP (s : PanicSites) (spec : Path → Bool) (g : G) (msg : String)
    (toBranch : Option String) (hookOk : Bool) : OutP :=
  if s.beforeStash then ⟨g, .ok, true⟩
  else match stashUserStagedFiles g with
    | .fail => ⟨g, .gitError, false⟩
    | .outside => ⟨g, .outside, false⟩
    | .ok (g1, staged) =>
      match gitCommitXvcFilesP s spec g1 msg toBranch hookOk with
      | (g2, _, true) => ⟨g2, .ok, true⟩                          -- unwinding: no `stash pop`
      | (g2, ok, false) =>
        if staged ≠ [] then
          match stashPopIndex g2 with
          | .ok g3 => ⟨g3, if ok then .ok else .gitError, s.afterPop⟩
          | .fail => ⟨g2, .gitError, s.afterPop⟩
          | .outside => ⟨g2, .outside, s.afterPop⟩
        else ⟨g2, if ok then .ok else .gitError, s.afterPop⟩

/-- A variant of `git_auto_commit` that is NOT in the code: `stash_user_staged_files` asks
    `git diff --name-only --relative --cached` (`diffCachedRelative`) whether the user has staged
    files.  With the Xvc root in a subdirectory and all staged changes outside it the answer is
    empty, nothing is stashed, and `git commit` takes the user's index entries along
    (`C15_nested_relative_counterexample`). -/
def gitAutoCommitRelative (root : Path) (spec : Path → Bool) (g : G) (msg : String)
    (toBranch : Option String) (hookOk : Bool) : Out :=
  let staged := diffCachedRelative root g
  let pushed : Res G := if staged ≠ [] then stashPushStaged g else .ok g
  match pushed with
  | .fail => ⟨g, .gitError⟩
  | .outside => ⟨g, .outside⟩
  | .ok g1 =>
    let (g2, ok) := gitCommitXvcFiles spec g1 msg toBranch hookOk
    if staged ≠ [] then
      match stashPopIndex g2 with
      | .ok g3 => ⟨g3, if ok then .ok else .gitError⟩
      | .fail => ⟨g2, .gitError⟩
      | .outside => ⟨g2, .outside⟩
    else ⟨g2, if ok then .ok else .gitError⟩

/-- A variant of `git_auto_commit` that is NOT in the code: the `--to-branch` switch is done with
    `git checkout -B` (`checkoutForceBranch`).  A branch that already exists is moved to the current
    HEAD and xvc's commit is put on top: the commits the branch had are lost
    (`C15_to_branch_force_counterexample`). -/
def gitAutoCommitForceBranch (spec : Path → Bool) (g : G) (msg : String) (b : String)
    (hookOk : Bool) : Out :=
  match stashUserStagedFiles g with
  | .fail => ⟨g, .gitError⟩
  | .outside => ⟨g, .outside⟩
  | .ok (g1, staged) =>
    let (g2, ok) := match checkoutForceBranch g1 b with
      | .ok gb => gitCommitXvcFiles spec gb msg none hookOk
      | _ => (g1, false)
    if staged ≠ [] then
      match stashPopIndex g2 with
      | .ok g3 => ⟨g3, if ok then .ok else .gitError⟩
      | .fail => ⟨g2, .gitError⟩
      | .outside => ⟨g2, .outside⟩
    else ⟨g2, if ok then .ok else .gitError⟩

/-- `git_auto_commit` BEFORE C15-F4.patch: `return Ok(())` when nothing was added and `?` on
    errors leave the function before the stash is popped. -/
def gitAutoCommitOld (spec : Path → Bool) (g : G) (msg : String) (toBranch : Option String)
    (hookOk : Bool) : Out :=
  match stashUserStagedFiles g with
  | .fail => ⟨g, .gitError⟩
  | .outside => ⟨g, .outside⟩
  | .ok (g1, staged) =>
    let co : Res G := match toBranch with
      | some b => checkoutNewBranch g1 b
      | none => .ok g1
    match co with
    | .ok g1' =>
      let (g2, added) := gitAdd spec g1'
      if added = [] then ⟨g2, .ok⟩                         -- early `return Ok(())`: no unstash
      else match gitCommit g2 msg hookOk with
        | .ok g3 =>
          if staged ≠ [] then
            match stashPopIndex g3 with
            | .ok g4 => ⟨g4, .ok⟩
            | .fail => ⟨g3, .gitError⟩
            | .outside => ⟨g3, .outside⟩
          else ⟨g3, .ok⟩
        | _ => ⟨g2, .gitError⟩                             -- `return Err(e)`: no unstash
    | _ => ⟨g1, .gitError⟩                                 -- `?`: no unstash

/-- `git_auto_stage` -/
def gitAutoStage (spec : Path → Bool) (g : G) : G := (gitAdd spec g).1

structure Cfg where
  useGit : Bool       -- git.use_git
  autoCommit : Bool   -- git.auto_commit
  autoStage : Bool    -- git.auto_stage
  deriving Repr, DecidableEq

/-- `handle_git_automation` -/
def handleGitAutomation (spec : Path → Bool) (cfg : Cfg) (g : G) (msg : String)
    (toBranch : Option String) (hookOk : Bool) : Out :=
  if cfg.useGit then
    if cfg.autoCommit then gitAutoCommit spec g msg toBranch hookOk
    else if cfg.autoStage then ⟨gitAutoStage spec g, .ok⟩
    else ⟨g, .ok⟩
  else ⟨g, .ok⟩

/-- `git_checkout_ref` (`--from-ref`, after C15-F4.patch): stash, checkout, unstash also when the
    checkout failed. -/
def gitCheckoutRef (g : G) (r : String) : Out :=
  match stashUserStagedFiles g with
  | .fail => ⟨g, .gitError⟩
  | .outside => ⟨g, .outside⟩
  | .ok (g1, staged) =>
    let (g2, ok, out) := match gitCheckout g1 r with
      | .ok g2 => (g2, true, false)
      | .fail => (g1, false, false)
      | .outside => (g1, false, true)
    if out then ⟨g2, .outside⟩
    else if staged ≠ [] then
      match stashPopIndex g2 with
      | .ok g3 => ⟨g3, if ok then .ok else .gitError⟩
      | .fail => ⟨g2, .gitError⟩
      | .outside => ⟨g2, .outside⟩
    else ⟨g2, if ok then .ok else .gitError⟩

/-! ## `lib/src/cli/mod.rs` -/

/-- One xvc invocation as seen from Git (`dispatch_with_root` + `command_matcher`): the command
    writes files (`Change`), then `handle_git_automation` runs; this happens once per phase — an
    ordinary command has two phases (the second call, in `dispatch_with_root`, follows a second
    `xvc_root.record()`), `xvc init` three.  The first `Err` ends the process (`.unwrap()` / `?`).
    The Boolean of a phase is the `hookOk` outcome of its `git commit`. -/
def runPhases (spec : Path → Bool) (cfg : Cfg) (msg : String) (toBranch : Option String) :
    G → List (Change × Bool) → Out
  | g, [] => ⟨g, .ok⟩
  | g, (ch, hookOk) :: rest =>
    let o := handleGitAutomation spec cfg { g with wt := g.wt.apply ch } msg toBranch hookOk
    if o.status = .ok then runPhases spec cfg msg toBranch o.g rest else o

/-- `--skip-git`: the command's writes happen, no git process is started. -/
def xvcCommand (spec : Path → Bool) (cfg : Cfg) (skipGit : Bool) (msg : String)
    (toBranch : Option String) (g : G) (phases : List (Change × Bool)) : Out :=
  if skipGit then ⟨{ g with wt := phases.foldl (fun t ph => t.apply ph.1) g.wt }, .ok⟩
  else runPhases spec cfg msg toBranch g phases

/-- `dispatch_with_root`: an optional `--from-ref` checkout first (`uwr!` ends the process when it
    fails), then the command. -/
def xvcInvocation (spec : Path → Bool) (cfg : Cfg) (skipGit : Bool) (msg : String)
    (fromRef toBranch : Option String) (g : G) (phases : List (Change × Bool)) : Out :=
  match fromRef with
  | some r =>
    let o := gitCheckoutRef g r
    if o.status = .ok then xvcCommand spec cfg skipGit msg toBranch o.g phases else o
  | none => xvcCommand spec cfg skipGit msg toBranch g phases

end Git
