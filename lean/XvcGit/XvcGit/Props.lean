import XvcGit.Model
import XvcGit.Lemmas
/-!
  # C15 — xvc leaves the user's Git state alone

  Property theorems only (helper lemmas are in `Lemmas.lean`).  All statements quantify over every
  repository state (any trees, any stash list, any branches, attached or detached HEAD), every
  xvc-side change set, every setting and every outcome of the git processes; nothing is bounded.

  The model (`Model.lean`) mirrors `core/src/util/git.rs` AFTER `patches/C15-F4.patch` and
  `patches/C15-pathspec.patch`; the code before the patches is `gitAutoCommitOld` / `oldSpec`, for
  which the counterexamples at the end are proved.

  Fragment: the theorems about `git.auto_commit` assume `NoMixed` — no path carries a staged and an
  unstaged change at the same time.  Outside it real git itself stops half-way (`git stash push
  --staged` leaves a stray entry, `git stash pop --index` refuses); those states are judged by the
  oracle of `lib/c15.py` on the real binary only (known finding K-C15-mixed).
-/
namespace Git

/-! ## the statement: what "the user's Git state is left alone" means -/

/-- The relation the property demands between the state `g` an xvc command found and the state
    `g'` it left (`tb` = `--to-branch`).  User paths are the paths that are not `isXvcPath`. -/
structure UserStateKept (tb : Option String) (g g' : G) : Prop where
  /-- unstaged edits and untracked files stay as they were -/
  wt : ∀ p, isXvcPath p = false → g'.wt.find? p = g.wt.find? p
  /-- staged changes (new, modified, deleted) stay staged -/
  index : ∀ p, isXvcPath p = false → g'.index.find? p = g.index.find? p
  /-- the commit HEAD points at contains the same user files as before -/
  headTree : ∀ p, isXvcPath p = false → g'.headTree.find? p = g.headTree.find? p
  /-- the stash list is unchanged -/
  stash : g'.stash = g.stash
  /-- the current branch is unchanged (detached stays detached) unless `--to-branch` -/
  branch : Head.same g.head g'.head ∨ ∃ b, tb = some b ∧ g'.head = .branch b
  /-- all other refs are unchanged -/
  refs : ∀ r, g.head ≠ .branch r → tb ≠ some r → lookupRef g'.refs r = lookupRef g.refs r
  /-- old commits are immutable and the commits xvc creates contain no user file change -/
  commits : ∃ new, g'.commits = g.commits ++ new ∧
    ∀ o ∈ new, ∀ p, isXvcPath p = false → o.tree.find? p = g.headTree.find? p

theorem UserStateKept.refl' (tb : Option String) (g : G) : UserStateKept tb g g :=
  ⟨fun _ _ => rfl, fun _ _ => rfl, fun _ _ => rfl, rfl, Or.inl (Head.same_refl _), fun _ _ _ => rfl,
   ⟨[], by simp, by simp⟩⟩

theorem UserStateKept.trans {tb : Option String} {a b c : G}
    (h1 : UserStateKept tb a b) (h2 : UserStateKept tb b c) : UserStateKept tb a c where
  wt := fun p hp => by rw [h2.wt p hp, h1.wt p hp]
  index := fun p hp => by rw [h2.index p hp, h1.index p hp]
  headTree := fun p hp => by rw [h2.headTree p hp, h1.headTree p hp]
  stash := by rw [h2.stash, h1.stash]
  branch := by
    rcases h2.branch with h | h
    · rcases h1.branch with h' | ⟨b, hb1, hb2⟩
      · exact Or.inl (Head.same_trans h' h)
      · right
        refine ⟨b, hb1, ?_⟩
        rw [hb2] at h
        cases hc : c.head <;> simp_all [Head.same]
    · exact Or.inr h
  refs := fun r hr ht => by
    have hb : b.head ≠ .branch r := by
      rcases h1.branch with h | ⟨x, hx1, hx2⟩
      · intro e; exact hr (Head.same_branch h e)
      · rw [hx2]; intro e; apply ht; rw [hx1]; cases e; rfl
    rw [h2.refs r hb ht, h1.refs r hr ht]
  commits := by
    obtain ⟨n1, e1, c1⟩ := h1.commits
    obtain ⟨n2, e2, c2⟩ := h2.commits
    refine ⟨n1 ++ n2, by rw [e2, e1, List.append_assoc], ?_⟩
    intro o ho p hp
    rcases List.mem_append.mp ho with h | h
    · exact c1 o h p hp
    · rw [c2 o h p hp, h1.headTree p hp]

theorem UserStateKept.of_call {tb : Option String} {g g' : G} {st : Status}
    (h : CallFacts isXvcPath tb g g' st) : UserStateKept tb g g' where
  wt := fun p _ => h.wt p
  index := h.index_user
  headTree := h.head_user
  stash := h.stash
  branch := h.head
  refs := h.refs
  commits := by
    rcases h.commits with e | ⟨o, e, _, _, ho⟩
    · exact ⟨[], by simp [e], by simp⟩
    · exact ⟨[o], e, by intro o' ho' p hp; simp at ho'; subst ho'; exact ho p hp⟩

/-- the xvc-side writes of a command touch only `.xvc/**`, `.gitignore`, `.xvcignore` files -/
def Confined (ch : Change) : Prop := ∀ e ∈ ch, isXvcPath e.1 = true

theorem find?_apply_user (t : Tree) (ch : Change) (hc : Confined ch) (p : Path)
    (hp : isXvcPath p = false) : (t.apply ch).find? p = t.find? p :=
  Tree.find?_apply t ch p (fun e he heq => by have := hc e he; rw [heq, hp] at this; cases this)

/-! ## one `handle_git_automation` call -/

/-- **C15, one call.**  For every repository state in the fragment, every setting
    (`use_git`/`auto_commit`/`auto_stage`), every `--to-branch` and every outcome of `git commit`:
    `handle_git_automation` stays inside the modelled fragment (the stash it pushed is always
    popped again), does not change the work tree at all, keeps the user's staged changes, the
    stash list, the branch (unless `--to-branch`) and all other refs, and a commit it creates
    differs from the previous HEAD only on xvc paths. -/
theorem C15_user_paths_untouched (cfg : Cfg) (g : G) (msg : String) (tb : Option String) (hookOk : Bool)
    (hfrag : cfg.useGit = true → cfg.autoCommit = true → NoMixed g) :
    (handleGitAutomation isXvcPath cfg g msg tb hookOk).status ≠ .outside ∧
    UserStateKept tb g (handleGitAutomation isXvcPath cfg g msg tb hookOk).g ∧
    (∀ p, (handleGitAutomation isXvcPath cfg g msg tb hookOk).g.wt.find? p = g.wt.find? p) := by
  have h := handle_facts isXvcPath cfg g msg tb hookOk hfrag
  exact ⟨h.inside, UserStateKept.of_call h, h.wt⟩

/-- a commit xvc creates is a child of the previous HEAD and becomes the new HEAD -/
theorem C15_new_commit_on_top (cfg : Cfg) (g : G) (msg : String) (tb : Option String) (hookOk : Bool)
    (hfrag : cfg.useGit = true → cfg.autoCommit = true → NoMixed g) :
    (handleGitAutomation isXvcPath cfg g msg tb hookOk).g.commits = g.commits ∨
    ∃ o, (handleGitAutomation isXvcPath cfg g msg tb hookOk).g.commits = g.commits ++ [o] ∧
      o.parent = g.headCommit ∧
      (handleGitAutomation isXvcPath cfg g msg tb hookOk).g.headCommit = some g.commits.length := by
  rcases (handle_facts isXvcPath cfg g msg tb hookOk hfrag).commits with h | ⟨o, h1, h2, h3, _⟩
  · exact Or.inl h
  · exact Or.inr ⟨o, h1, h2, h3⟩

/-- the state after a call that had nothing to do is the state before it (extensionally) -/
structure SameState (tb : Option String) (g g' : G) : Prop where
  commits : g'.commits = g.commits
  index : ∀ p, g'.index.find? p = g.index.find? p
  wt : ∀ p, g'.wt.find? p = g.wt.find? p
  stash : g'.stash = g.stash
  headTree : g'.headTree = g.headTree
  head : tb = none → g'.head = g.head
  refs : tb = none → ∀ r, lookupRef g'.refs r = lookupRef g.refs r

/-- **C15, read-only.**  When the work tree holds no pending change on xvc paths (what a read-only
    command leaves behind), `handle_git_automation` creates no commit and the whole state — index,
    work tree, stash, and without `--to-branch` also branch and refs — is what it was.  (On the
    code before C15-F4.patch this fails: `C15_readonly_counterexample_before_fix`.) -/
theorem C15_readonly_no_commit (cfg : Cfg) (g : G) (msg : String) (tb : Option String) (hookOk : Bool)
    (hfrag : cfg.useGit = true → cfg.autoCommit = true → NoMixed g)
    (hnothing : ∀ p, isXvcPath p = true → g.wt.find? p = g.index.find? p) :
    SameState tb g (handleGitAutomation isXvcPath cfg g msg tb hookOk).g := by
  have h := handle_facts isXvcPath cfg g msg tb hookOk hfrag
  obtain ⟨h1, h2, h3, h4⟩ := h.nothing hnothing
  exact ⟨h1, h2, h.wt, h.stash, h3, fun ht => (h4 ht).1, fun ht => (h4 ht).2⟩

/-! ## the whole command (`dispatch_with_root` / `command_matcher`) -/

/-- the invariant that makes consecutive calls composable: fragment + the user has nothing staged
    on xvc paths (so a later write of xvc to such a path cannot create a mixed path) -/
def Inv (g : G) : Prop :=
  NoMixed g ∧ ∀ p, isXvcPath p = true → g.headTree.find? p = g.index.find? p

theorem phase_step (cfg : Cfg) (g : G) (msg : String) (tb : Option String) (ch : Change) (hookOk : Bool)
    (hinv : cfg.useGit = true → cfg.autoCommit = true → Inv g) (hc : Confined ch) :
    let o := handleGitAutomation isXvcPath cfg { g with wt := g.wt.apply ch } msg tb hookOk
    o.status ≠ .outside ∧ UserStateKept tb g o.g ∧
    (o.status = .ok → cfg.useGit = true → cfg.autoCommit = true → Inv o.g) := by
  intro o
  let g1 : G := { g with wt := g.wt.apply ch }
  have hH1 : g1.headTree = g.headTree := rfl
  have hk1 : UserStateKept tb g g1 :=
    ⟨fun p hp => find?_apply_user g.wt ch hc p hp, fun _ _ => rfl, fun _ _ => rfl, rfl,
     Or.inl (Head.same_refl _), fun _ _ _ => rfl, ⟨[], by simp [g1], by simp⟩⟩
  have hm1 : cfg.useGit = true → cfg.autoCommit = true → NoMixed g1 := by
    intro hu ha p hp
    obtain ⟨hm, hx⟩ := hinv hu ha
    have hp' : g.headTree.find? p ≠ g.index.find? p := hp
    have hux : isXvcPath p = false := by
      cases h : isXvcPath p
      · rfl
      · exact absurd (hx p h) hp'
    show (g.wt.apply ch).find? p = g.index.find? p
    rw [find?_apply_user g.wt ch hc p hux]
    exact hm p hp'
  have hf := handle_facts isXvcPath cfg g1 msg tb hookOk hm1
  refine ⟨hf.inside, hk1.trans (UserStateKept.of_call hf), ?_⟩
  intro hok hu ha
  have hac := autoCommit_facts isXvcPath g1 msg tb hookOk (hm1 hu ha)
  have ho : o = gitAutoCommit isXvcPath g1 msg tb hookOk := by
    show handleGitAutomation isXvcPath cfg g1 msg tb hookOk = _
    simp [handleGitAutomation, hu, ha]
  rw [ho] at hok ⊢
  exact ⟨hac.2.1, fun p hp => hac.2.2 hok p ((hinv hu ha).2 p hp)⟩

/-- **C15, whole command.**  For every number of `handle_git_automation` calls (2 for ordinary
    commands, 3 for `xvc init`), every xvc-side change set before each of them that is confined to
    `.xvc/**`, `.gitignore` and `.xvcignore` files, every setting including `--skip-git` and
    `--to-branch`, and every user state in the fragment with nothing staged on xvc paths: the
    command never leaves the fragment and the user's Git state is kept. -/
theorem C15_command (cfg : Cfg) (skipGit : Bool) (msg : String) (tb : Option String) (g : G)
    (phases : List (Change × Bool))
    (hinv : skipGit = false → cfg.useGit = true → cfg.autoCommit = true → Inv g)
    (hc : ∀ ph ∈ phases, Confined ph.1) :
    (xvcCommand isXvcPath cfg skipGit msg tb g phases).status ≠ .outside ∧
    UserStateKept tb g (xvcCommand isXvcPath cfg skipGit msg tb g phases).g := by
  unfold xvcCommand
  by_cases hs : skipGit = true
  · simp only [hs, if_true]
    refine ⟨by simp, ?_⟩
    have hwt : ∀ (phs : List (Change × Bool)) (t : Tree), (∀ ph ∈ phs, Confined ph.1) →
        ∀ p, isXvcPath p = false → (phs.foldl (fun t ph => t.apply ph.1) t).find? p = t.find? p := by
      intro phs
      induction phs with
      | nil => intro t _ p _; rfl
      | cons ph phs ih =>
        intro t hcs p hp
        simp only [List.foldl_cons]
        rw [ih _ (fun x hx => hcs x (List.mem_cons_of_mem _ hx)) p hp]
        exact find?_apply_user t ph.1 (hcs ph (List.mem_cons_self ..)) p hp
    exact ⟨fun p hp => hwt phases g.wt hc p hp, fun _ _ => rfl, fun _ _ => rfl, rfl,
           Or.inl (Head.same_refl _), fun _ _ _ => rfl, ⟨[], by simp, by simp⟩⟩
  · have hs' : skipGit = false := by cases skipGit <;> simp_all
    simp only [hs, if_false]
    have hinv' := hinv hs'
    clear hinv
    induction phases generalizing g with
    | nil => exact ⟨by simp [runPhases], UserStateKept.refl' tb g⟩
    | cons ph rest ih =>
      obtain ⟨ch, hookOk⟩ := ph
      have hstep := phase_step cfg g msg tb ch hookOk hinv' (hc (ch, hookOk) (List.mem_cons_self ..))
      simp only at hstep
      unfold runPhases
      simp only
      by_cases hok : (handleGitAutomation isXvcPath cfg { g with wt := g.wt.apply ch } msg tb hookOk).status = .ok
      · simp only [hok, if_true]
        have := ih _ (fun x hx => hc x (List.mem_cons_of_mem _ hx)) (hstep.2.2 hok)
        exact ⟨this.1, hstep.2.1.trans this.2⟩
      · simp only [hok, if_false]
        exact ⟨hstep.1, hstep.2.1⟩

/-- **C15, read-only command.**  A command that writes nothing (every phase has an empty change
    set), run in a repository without pending changes on xvc paths, creates no commit however many
    times `handle_git_automation` is called, and leaves index, work tree, stash, branch and refs
    as they were. -/
theorem C15_command_readonly (cfg : Cfg) (skipGit : Bool) (msg : String) (g : G)
    (phases : List (Change × Bool))
    (hfrag : cfg.useGit = true → cfg.autoCommit = true → NoMixed g)
    (hnothing : ∀ p, isXvcPath p = true → g.wt.find? p = g.index.find? p)
    (hro : ∀ ph ∈ phases, ph.1 = []) :
    SameState none g (xvcCommand isXvcPath cfg skipGit msg none g phases).g := by
  unfold xvcCommand
  by_cases hs : skipGit = true
  · simp only [hs, if_true]
    have hwt : ∀ (phs : List (Change × Bool)) (t : Tree), (∀ ph ∈ phs, ph.1 = []) →
        phs.foldl (fun t ph => t.apply ph.1) t = t := by
      intro phs
      induction phs with
      | nil => intro t _; rfl
      | cons ph phs ih =>
        intro t h
        simp only [List.foldl_cons]
        rw [h ph (List.mem_cons_self ..)]
        exact ih _ (fun x hx => h x (List.mem_cons_of_mem _ hx))
    rw [hwt phases g.wt hro]
    exact ⟨rfl, fun _ => rfl, fun _ => rfl, rfl, rfl, fun _ => rfl, fun _ _ => rfl⟩
  · simp only [hs, if_false]
    induction phases generalizing g with
    | nil => exact ⟨rfl, fun _ => rfl, fun _ => rfl, rfl, rfl, fun _ => rfl, fun _ _ => rfl⟩
    | cons ph rest ih =>
      obtain ⟨ch, hookOk⟩ := ph
      have hch : ch = [] := hro (ch, hookOk) (List.mem_cons_self ..)
      subst hch
      unfold runPhases
      simp only
      have hg : ({ g with wt := g.wt.apply [] } : G) = g := rfl
      rw [hg]
      have h1 := C15_readonly_no_commit cfg g msg none hookOk hfrag hnothing
      by_cases hok : (handleGitAutomation isXvcPath cfg g msg none hookOk).status = .ok
      · simp only [hok, if_true]
        have hf := handle_facts isXvcPath cfg g msg none hookOk hfrag
        have hfrag' : cfg.useGit = true → cfg.autoCommit = true →
            NoMixed (handleGitAutomation isXvcPath cfg g msg none hookOk).g := by
          intro hu ha p hp
          rw [h1.headTree, h1.index] at hp
          rw [h1.wt, h1.index]
          exact hfrag hu ha p hp
        have hnothing' : ∀ p, isXvcPath p = true →
            (handleGitAutomation isXvcPath cfg g msg none hookOk).g.wt.find? p =
            (handleGitAutomation isXvcPath cfg g msg none hookOk).g.index.find? p := by
          intro p hp; rw [h1.wt, h1.index]; exact hnothing p hp
        have h2 := ih _ hfrag' hnothing' (fun x hx => hro x (List.mem_cons_of_mem _ hx))
        exact ⟨by rw [h2.commits, h1.commits], fun p => by rw [h2.index, h1.index],
               fun p => by rw [h2.wt, h1.wt], by rw [h2.stash, h1.stash],
               by rw [h2.headTree, h1.headTree], fun _ => by rw [h2.head rfl, h1.head rfl],
               fun _ r => by rw [h2.refs rfl r, h1.refs rfl r]⟩
      · simp only [hok, if_false]
        exact h1

/-- **C15, git switched off.**  With `--skip-git`, `git.use_git = false`, or both automations off,
    nothing but the command's own writes happens: index, commits, refs, branch and stash are
    literally unchanged, for EVERY state (also outside the fragment). -/
theorem C15_no_git (cfg : Cfg) (skipGit : Bool) (msg : String) (tb : Option String) (g : G)
    (phases : List (Change × Bool))
    (hoff : skipGit = true ∨ cfg.useGit = false ∨ (cfg.autoCommit = false ∧ cfg.autoStage = false)) :
    let o := xvcCommand isXvcPath cfg skipGit msg tb g phases
    o.status = .ok ∧ o.g.index = g.index ∧ o.g.commits = g.commits ∧ o.g.refs = g.refs ∧
    o.g.head = g.head ∧ o.g.stash = g.stash := by
  intro o
  show (xvcCommand isXvcPath cfg skipGit msg tb g phases).status = .ok ∧ _
  unfold xvcCommand
  by_cases hs : skipGit = true
  · simp [hs]
  · have hoff' : cfg.useGit = false ∨ (cfg.autoCommit = false ∧ cfg.autoStage = false) := by
      rcases hoff with h | h
      · exact absurd h hs
      · exact h
    simp only [hs, if_false]
    have hcall : ∀ g1 hk, handleGitAutomation isXvcPath cfg g1 msg tb hk = ⟨g1, .ok⟩ := by
      intro g1 hk
      unfold handleGitAutomation
      rcases hoff' with h | ⟨h1, h2⟩
      · simp [h]
      · simp [h1, h2]
    induction phases generalizing g with
    | nil => simp [runPhases]
    | cons ph rest ih =>
      unfold runPhases
      simp only [hcall, if_true]
      exact ih _

/-- **C15, `auto_stage`.**  With `git.auto_commit = false`, `git.auto_stage = true` one call only
    runs `git add` on xvc paths: no commit, no stash, no branch or ref change, user index entries
    kept — for EVERY state (no fragment condition: no stash is involved). -/
theorem C15_auto_stage (g : G) (msg : String) (tb : Option String) (hookOk : Bool) :
    let o := handleGitAutomation isXvcPath ⟨true, false, true⟩ g msg tb hookOk
    o.status = .ok ∧ o.g.commits = g.commits ∧ o.g.refs = g.refs ∧ o.g.head = g.head ∧
    o.g.stash = g.stash ∧ o.g.wt = g.wt ∧
    (∀ p, isXvcPath p = false → o.g.index.find? p = g.index.find? p) ∧
    (∀ p, isXvcPath p = true → o.g.index.find? p = g.wt.find? p) := by
  intro o
  have ho : o = ⟨addState isXvcPath g, .ok⟩ := by
    show handleGitAutomation isXvcPath ⟨true, false, true⟩ g msg tb hookOk = _
    simp [handleGitAutomation, gitAutoStage, gitAdd_fst]
  rw [ho]
  refine ⟨rfl, rfl, rfl, rfl, rfl, rfl, ?_, ?_⟩
  · intro p hp; rw [addState_index]; simp [hp]
  · intro p hp; rw [addState_index]; simp [hp]

end Git
