import XvcGit.Model
import XvcGit.Lemmas
/-!
  # C15 — xvc leaves the user's Git state alone

  Property theorems only (helper lemmas are in `Lemmas.lean`).  All statements quantify over every
  repository state (any trees, any stash list, any branches, attached or detached HEAD), every
  xvc-side change set, every setting and every outcome of the git processes; nothing is bounded.

  The model (`Model.lean`) mirrors `core/src/util/git.rs` AFTER `patches/C15-F4.patch` and
  `patches/C15-pathspec.patch`; the code before the patches is `gitAutoCommitOld` / `oldSpec`, for
  which the counterexamples at the end are proved.

  Layout: every theorem is stated for an arbitrary `root : Path`, the directory of the Git work tree
  in which the Xvc root lies (`[]` = the Git root itself, `["proj"]` = `xvc init` was run in
  `proj/`, any depth).  All paths of a state are relative to the top of the Git work tree; the
  paths xvc may stage/commit are `isXvcPathAt root` (below `root`: `.xvc/**` and files named
  `.gitignore` / `.xvcignore`); every other path — in particular EVERY path outside `root`,
  `.gitignore` files included — is a user path.  `C15_outside_root` spells the consequence out.

  Fragment: the theorems about `git.auto_commit` assume `NoMixed` — no path carries a staged and an
  unstaged change at the same time.  Outside it real git itself stops half-way (`git stash push
  --staged` leaves a stray entry, `git stash pop --index` refuses); those states are judged by the
  oracle of `lib/c15.py` on the real binary only (known finding K-C15-mixed).
-/
namespace Git

/-! ## the statement: what "the user's Git state is left alone" means -/

/-- The relation the property demands between the state `g` an xvc command found and the state
    `g'` it left (`root` = the Xvc root inside the Git work tree, `tb` = `--to-branch`).  User paths
    are the paths that are not `isXvcPathAt root`: everything outside `root`, and below `root`
    everything except `.xvc/**` and files named `.gitignore` / `.xvcignore`. -/
structure UserStateKept (root : Path) (tb : Option String) (g g' : G) : Prop where
  /-- unstaged edits and untracked files stay as they were -/
  wt : ∀ p, isXvcPathAt root p = false → g'.wt.find? p = g.wt.find? p
  /-- staged changes (new, modified, deleted) stay staged -/
  index : ∀ p, isXvcPathAt root p = false → g'.index.find? p = g.index.find? p
  /-- the commit HEAD points at contains the same user files as before -/
  headTree : ∀ p, isXvcPathAt root p = false → g'.headTree.find? p = g.headTree.find? p
  /-- the stash list is unchanged -/
  stash : g'.stash = g.stash
  /-- the current branch is unchanged (detached stays detached) unless `--to-branch` -/
  branch : Head.same g.head g'.head ∨ ∃ b, tb = some b ∧ g'.head = .branch b
  /-- all other refs are unchanged -/
  refs : ∀ r, g.head ≠ .branch r → tb ≠ some r → lookupRef g'.refs r = lookupRef g.refs r
  /-- old commits are immutable and the commits xvc creates contain no user file change -/
  commits : ∃ new, g'.commits = g.commits ++ new ∧
    ∀ o ∈ new, ∀ p, isXvcPathAt root p = false → o.tree.find? p = g.headTree.find? p

theorem UserStateKept.refl' (root : Path) (tb : Option String) (g : G) : UserStateKept root tb g g :=
  ⟨fun _ _ => rfl, fun _ _ => rfl, fun _ _ => rfl, rfl, Or.inl (Head.same_refl _), fun _ _ _ => rfl,
   ⟨[], by simp, by simp⟩⟩

theorem UserStateKept.trans {root : Path} {tb : Option String} {a b c : G}
    (h1 : UserStateKept root tb a b) (h2 : UserStateKept root tb b c) : UserStateKept root tb a c where
  wt := fun p hp => by rw [h2.wt p hp, h1.wt p hp]
  index := fun p hp => by rw [h2.index p hp, h1.index p hp]
  headTree := fun p hp => by rw [h2.headTree p hp, h1.headTree p hp]
  stash := by rw [h2.stash, h1.stash]
  branch := by
    rcases h2.branch with h | h
    · rcases h1.branch with h' | ⟨b, hb1, hb2⟩
      · exact Or.inl (Head.same_trans h' h)
      · right
        refine ⟨b, hb1, ?_⟩
        rw [hb2] at h
        cases hc : c.head <;> simp_all [Head.same]
    · exact Or.inr h
  refs := fun r hr ht => by
    have hb : b.head ≠ .branch r := by
      rcases h1.branch with h | ⟨x, hx1, hx2⟩
      · intro e; exact hr (Head.same_branch h e)
      · rw [hx2]; intro e; apply ht; rw [hx1]; cases e; rfl
    rw [h2.refs r hb ht, h1.refs r hr ht]
  commits := by
    obtain ⟨n1, e1, c1⟩ := h1.commits
    obtain ⟨n2, e2, c2⟩ := h2.commits
    refine ⟨n1 ++ n2, by rw [e2, e1, List.append_assoc], ?_⟩
    intro o ho p hp
    rcases List.mem_append.mp ho with h | h
    · exact c1 o h p hp
    · rw [c2 o h p hp, h1.headTree p hp]

theorem UserStateKept.of_call {root : Path} {tb : Option String} {g g' : G} {st : Status}
    (h : CallFacts (isXvcPathAt root) tb g g' st) : UserStateKept root tb g g' where
  wt := fun p _ => h.wt p
  index := h.index_user
  headTree := h.head_user
  stash := h.stash
  branch := h.head
  refs := h.refs
  commits := by
    rcases h.commits with e | ⟨o, e, _, _, ho⟩
    · exact ⟨[], by simp [e], by simp⟩
    · exact ⟨[o], e, by intro o' ho' p hp; simp at ho'; subst ho'; exact ho p hp⟩

/-- the xvc-side writes of a command touch only `.xvc/**`, `.gitignore`, `.xvcignore` files -/
def Confined (root : Path) (ch : Change) : Prop := ∀ e ∈ ch, isXvcPathAt root e.1 = true

theorem find?_apply_user (root : Path) (t : Tree) (ch : Change) (hc : Confined root ch) (p : Path)
    (hp : isXvcPathAt root p = false) : (t.apply ch).find? p = t.find? p :=
  Tree.find?_apply t ch p (fun e he heq => by have := hc e he; rw [heq, hp] at this; cases this)

/-! ## one `handle_git_automation` call -/

/-- **C15, one call.**  For every repository state in the fragment, every setting
    (`use_git`/`auto_commit`/`auto_stage`), every `--to-branch` and every outcome of `git commit`:
    `handle_git_automation` stays inside the modelled fragment (the stash it pushed is always
    popped again), does not change the work tree at all, keeps the user's staged changes, the
    stash list, the branch (unless `--to-branch`) and all other refs, and a commit it creates
    differs from the previous HEAD only on xvc paths. -/
theorem C15_user_paths_untouched (root : Path) (cfg : Cfg) (g : G) (msg : String) (tb : Option String) (hookOk : Bool)
    (hfrag : cfg.useGit = true → cfg.autoCommit = true → NoMixed g) :
    (handleGitAutomation (isXvcPathAt root) cfg g msg tb hookOk).status ≠ .outside ∧
    UserStateKept root tb g (handleGitAutomation (isXvcPathAt root) cfg g msg tb hookOk).g ∧
    (∀ p, (handleGitAutomation (isXvcPathAt root) cfg g msg tb hookOk).g.wt.find? p = g.wt.find? p) := by
  have h := handle_facts (isXvcPathAt root) cfg g msg tb hookOk hfrag
  exact ⟨h.inside, UserStateKept.of_call h, h.wt⟩

/-- a commit xvc creates is a child of the previous HEAD and becomes the new HEAD -/
theorem C15_new_commit_on_top (root : Path) (cfg : Cfg) (g : G) (msg : String) (tb : Option String) (hookOk : Bool)
    (hfrag : cfg.useGit = true → cfg.autoCommit = true → NoMixed g) :
    (handleGitAutomation (isXvcPathAt root) cfg g msg tb hookOk).g.commits = g.commits ∨
    ∃ o, (handleGitAutomation (isXvcPathAt root) cfg g msg tb hookOk).g.commits = g.commits ++ [o] ∧
      o.parent = g.headCommit ∧
      (handleGitAutomation (isXvcPathAt root) cfg g msg tb hookOk).g.headCommit = some g.commits.length := by
  rcases (handle_facts (isXvcPathAt root) cfg g msg tb hookOk hfrag).commits with h | ⟨o, h1, h2, h3, _⟩
  · exact Or.inl h
  · exact Or.inr ⟨o, h1, h2, h3⟩

/-- the state after a call that had nothing to do is the state before it (extensionally) -/
structure SameState (tb : Option String) (g g' : G) : Prop where
  commits : g'.commits = g.commits
  index : ∀ p, g'.index.find? p = g.index.find? p
  wt : ∀ p, g'.wt.find? p = g.wt.find? p
  stash : g'.stash = g.stash
  headTree : g'.headTree = g.headTree
  head : tb = none → g'.head = g.head
  refs : tb = none → ∀ r, lookupRef g'.refs r = lookupRef g.refs r

/-- **C15, read-only.**  When the work tree holds no pending change on xvc paths (what a read-only
    command leaves behind), `handle_git_automation` creates no commit and the whole state — index,
    work tree, stash, and without `--to-branch` also branch and refs — is what it was.  (On the
    code before C15-F4.patch this fails: `C15_readonly_counterexample_before_fix`.) -/
theorem C15_readonly_no_commit (root : Path) (cfg : Cfg) (g : G) (msg : String) (tb : Option String) (hookOk : Bool)
    (hfrag : cfg.useGit = true → cfg.autoCommit = true → NoMixed g)
    (hnothing : ∀ p, isXvcPathAt root p = true → g.wt.find? p = g.index.find? p) :
    SameState tb g (handleGitAutomation (isXvcPathAt root) cfg g msg tb hookOk).g := by
  have h := handle_facts (isXvcPathAt root) cfg g msg tb hookOk hfrag
  obtain ⟨h1, h2, h3, h4⟩ := h.nothing hnothing
  exact ⟨h1, h2, h.wt, h.stash, h3, fun ht => (h4 ht).1, fun ht => (h4 ht).2⟩

/-! ## the whole command (`dispatch_with_root` / `command_matcher`) -/

/-- the invariant that makes consecutive calls composable: fragment + the user has nothing staged
    on xvc paths (so a later write of xvc to such a path cannot create a mixed path) -/
def Inv (root : Path) (g : G) : Prop :=
  NoMixed g ∧ ∀ p, isXvcPathAt root p = true → g.headTree.find? p = g.index.find? p

/-- xvc's own writes (confined to xvc paths) cannot create a path with a staged and an unstaged change -/
theorem noMixed_after_writes (root : Path) (g : G) (ch : Change) (hinv : Inv root g)
    (hc : Confined root ch) : NoMixed { g with wt := g.wt.apply ch } := by
  intro p hp
  obtain ⟨hm, hx⟩ := hinv
  have hp' : g.headTree.find? p ≠ g.index.find? p := hp
  have hux : isXvcPathAt root p = false := by
    cases h : isXvcPathAt root p
    · rfl
    · exact absurd (hx p h) hp'
  show (g.wt.apply ch).find? p = g.index.find? p
  rw [find?_apply_user root g.wt ch hc p hux]
  exact hm p hp'

theorem phase_step (root : Path) (cfg : Cfg) (g : G) (msg : String) (tb : Option String) (ch : Change) (hookOk : Bool)
    (hinv : cfg.useGit = true → cfg.autoCommit = true → Inv root g) (hc : Confined root ch) :
    let o := handleGitAutomation (isXvcPathAt root) cfg { g with wt := g.wt.apply ch } msg tb hookOk
    o.status ≠ .outside ∧ UserStateKept root tb g o.g ∧
    (o.status = .ok → cfg.useGit = true → cfg.autoCommit = true → Inv root o.g) := by
  intro o
  let g1 : G := { g with wt := g.wt.apply ch }
  have hH1 : g1.headTree = g.headTree := rfl
  have hk1 : UserStateKept root tb g g1 :=
    ⟨fun p hp => find?_apply_user root g.wt ch hc p hp, fun _ _ => rfl, fun _ _ => rfl, rfl,
     Or.inl (Head.same_refl _), fun _ _ _ => rfl, ⟨[], by simp [g1], by simp⟩⟩
  have hm1 : cfg.useGit = true → cfg.autoCommit = true → NoMixed g1 := by
    intro hu ha p hp
    obtain ⟨hm, hx⟩ := hinv hu ha
    have hp' : g.headTree.find? p ≠ g.index.find? p := hp
    have hux : isXvcPathAt root p = false := by
      cases h : isXvcPathAt root p
      · rfl
      · exact absurd (hx p h) hp'
    show (g.wt.apply ch).find? p = g.index.find? p
    rw [find?_apply_user root g.wt ch hc p hux]
    exact hm p hp'
  have hf := handle_facts (isXvcPathAt root) cfg g1 msg tb hookOk hm1
  refine ⟨hf.inside, hk1.trans (UserStateKept.of_call hf), ?_⟩
  intro hok hu ha
  have hac := autoCommit_facts (isXvcPathAt root) g1 msg tb hookOk (hm1 hu ha)
  have ho : o = gitAutoCommit (isXvcPathAt root) g1 msg tb hookOk := by
    show handleGitAutomation (isXvcPathAt root) cfg g1 msg tb hookOk = _
    simp [handleGitAutomation, hu, ha]
  rw [ho] at hok ⊢
  exact ⟨hac.2.1, fun p hp => hac.2.2.1 p ((hinv hu ha).2 p hp)⟩

theorem runPhases_kept (root : Path) (cfg : Cfg) (msg : String) (tb : Option String) (g : G)
    (phases : List (Change × Bool))
    (hinv : cfg.useGit = true → cfg.autoCommit = true → Inv root g)
    (hc : ∀ ph ∈ phases, Confined root ph.1) :
    (runPhases (isXvcPathAt root) cfg msg tb g phases).status ≠ .outside ∧
    UserStateKept root tb g (runPhases (isXvcPathAt root) cfg msg tb g phases).g := by
  induction phases generalizing g with
  | nil => exact ⟨by simp [runPhases], UserStateKept.refl' root tb g⟩
  | cons ph rest ih =>
    obtain ⟨ch, hookOk⟩ := ph
    have hstep := phase_step root cfg g msg tb ch hookOk hinv (hc (ch, hookOk) (List.mem_cons_self ..))
    simp only at hstep
    unfold runPhases
    simp only
    by_cases hok : (handleGitAutomation (isXvcPathAt root) cfg { g with wt := g.wt.apply ch } msg tb hookOk).status = .ok
    · rw [if_pos hok]
      have := ih _ (hstep.2.2 hok) (fun x hx => hc x (List.mem_cons_of_mem _ hx))
      exact ⟨this.1, hstep.2.1.trans this.2⟩
    · rw [if_neg hok]
      exact ⟨hstep.1, hstep.2.1⟩

theorem foldl_apply_user (root : Path) (phs : List (Change × Bool)) (t : Tree) (hcs : ∀ ph ∈ phs, Confined root ph.1)
    (p : Path) (hp : isXvcPathAt root p = false) :
    (phs.foldl (fun t ph => t.apply ph.1) t).find? p = t.find? p := by
  induction phs generalizing t with
  | nil => rfl
  | cons ph phs ih =>
    simp only [List.foldl_cons]
    rw [ih _ (fun x hx => hcs x (List.mem_cons_of_mem _ hx))]
    exact find?_apply_user root t ph.1 (hcs ph (List.mem_cons_self ..)) p hp

/-- **C15, whole command.**  For every number of `handle_git_automation` calls (2 for ordinary
    commands, 3 for `xvc init`), every xvc-side change set before each of them that is confined to
    `.xvc/**`, `.gitignore` and `.xvcignore` files, every setting including `--skip-git` and
    `--to-branch`, and every user state in the fragment with nothing staged on xvc paths: the
    command never leaves the fragment and the user's Git state is kept. -/
theorem C15_command (root : Path) (cfg : Cfg) (skipGit : Bool) (msg : String) (tb : Option String) (g : G)
    (phases : List (Change × Bool))
    (hinv : skipGit = false → cfg.useGit = true → cfg.autoCommit = true → Inv root g)
    (hc : ∀ ph ∈ phases, Confined root ph.1) :
    (xvcCommand (isXvcPathAt root) cfg skipGit msg tb g phases).status ≠ .outside ∧
    UserStateKept root tb g (xvcCommand (isXvcPathAt root) cfg skipGit msg tb g phases).g := by
  cases skipGit with
  | true =>
    simp only [xvcCommand, if_true]
    exact ⟨by simp, fun p hp => foldl_apply_user root phases g.wt hc p hp, fun _ _ => rfl, fun _ _ => rfl, rfl,
           Or.inl (Head.same_refl _), fun _ _ _ => rfl, ⟨[], by simp, by simp⟩⟩
  | false =>
    simp only [xvcCommand, Bool.false_eq_true, if_false]
    exact runPhases_kept root cfg msg tb g phases (hinv rfl) hc

/-- **C15, Xvc root in a subdirectory.**  Whatever directory `root` of the Git work tree holds the
    Xvc project, a path OUTSIDE it — whatever its name, `.gitignore` and `.xvc/…` look-alikes
    included — is left alone by a whole command: same work-tree file, same index entry (a staged
    change stays staged), same entry in HEAD's tree, and every commit xvc creates has HEAD's old
    entry for it (the user's staged or unstaged version is in none of xvc's commits). -/
theorem C15_outside_root (root : Path) (cfg : Cfg) (skipGit : Bool) (msg : String) (tb : Option String)
    (g : G) (phases : List (Change × Bool))
    (hinv : skipGit = false → cfg.useGit = true → cfg.autoCommit = true → Inv root g)
    (hc : ∀ ph ∈ phases, Confined root ph.1)
    (p : Path) (hp : root.isPrefixOf p = false) :
    (xvcCommand (isXvcPathAt root) cfg skipGit msg tb g phases).g.wt.find? p = g.wt.find? p ∧
    (xvcCommand (isXvcPathAt root) cfg skipGit msg tb g phases).g.index.find? p = g.index.find? p ∧
    (xvcCommand (isXvcPathAt root) cfg skipGit msg tb g phases).g.headTree.find? p = g.headTree.find? p ∧
    ∃ new, (xvcCommand (isXvcPathAt root) cfg skipGit msg tb g phases).g.commits = g.commits ++ new ∧
      ∀ o ∈ new, o.tree.find? p = g.headTree.find? p := by
  have hu := isXvcPathAt_outside root p hp
  have h := (C15_command root cfg skipGit msg tb g phases hinv hc).2
  obtain ⟨new, e, hn⟩ := h.commits
  exact ⟨h.wt p hu, h.index p hu, h.headTree p hu, new, e, fun o ho => hn o ho p hu⟩

theorem foldl_apply_nil (phs : List (Change × Bool)) (t : Tree) (h : ∀ ph ∈ phs, ph.1 = []) :
    phs.foldl (fun t ph => t.apply ph.1) t = t := by
  induction phs generalizing t with
  | nil => rfl
  | cons ph phs ih =>
    simp only [List.foldl_cons]
    rw [h ph (List.mem_cons_self ..)]
    exact ih _ (fun x hx => h x (List.mem_cons_of_mem _ hx))

theorem SameState.refl' (tb : Option String) (g : G) : SameState tb g g :=
  ⟨rfl, fun _ => rfl, fun _ => rfl, rfl, rfl, fun _ => rfl, fun _ _ => rfl⟩

theorem runPhases_readonly (root : Path) (cfg : Cfg) (msg : String) (g : G) (phases : List (Change × Bool))
    (hfrag : cfg.useGit = true → cfg.autoCommit = true → NoMixed g)
    (hnothing : ∀ p, isXvcPathAt root p = true → g.wt.find? p = g.index.find? p)
    (hro : ∀ ph ∈ phases, ph.1 = []) :
    SameState none g (runPhases (isXvcPathAt root) cfg msg none g phases).g := by
  induction phases generalizing g with
  | nil => exact SameState.refl' none g
  | cons ph rest ih =>
    obtain ⟨ch, hookOk⟩ := ph
    have hch : ch = [] := hro (ch, hookOk) (List.mem_cons_self ..)
    subst hch
    unfold runPhases
    simp only
    have hg : ({ g with wt := g.wt.apply [] } : G) = g := rfl
    rw [hg]
    have h1 := C15_readonly_no_commit root cfg g msg none hookOk hfrag hnothing
    by_cases hok : (handleGitAutomation (isXvcPathAt root) cfg g msg none hookOk).status = .ok
    · rw [if_pos hok]
      have hfrag' : cfg.useGit = true → cfg.autoCommit = true →
          NoMixed (handleGitAutomation (isXvcPathAt root) cfg g msg none hookOk).g := by
        intro hu ha p hp
        rw [h1.headTree, h1.index] at hp
        rw [h1.wt, h1.index]
        exact hfrag hu ha p hp
      have hnothing' : ∀ p, isXvcPathAt root p = true →
          (handleGitAutomation (isXvcPathAt root) cfg g msg none hookOk).g.wt.find? p =
          (handleGitAutomation (isXvcPathAt root) cfg g msg none hookOk).g.index.find? p := by
        intro p hp; rw [h1.wt, h1.index]; exact hnothing p hp
      have h2 := ih _ hfrag' hnothing' (fun x hx => hro x (List.mem_cons_of_mem _ hx))
      exact ⟨by rw [h2.commits, h1.commits], fun p => by rw [h2.index, h1.index],
             fun p => by rw [h2.wt, h1.wt], by rw [h2.stash, h1.stash],
             by rw [h2.headTree, h1.headTree], fun _ => by rw [h2.head rfl, h1.head rfl],
             fun _ r => by rw [h2.refs rfl r, h1.refs rfl r]⟩
    · rw [if_neg hok]
      exact h1

/-- **C15, read-only command.**  A command that writes nothing (every phase has an empty change
    set), run in a repository without pending changes on xvc paths, creates no commit however many
    times `handle_git_automation` is called, and leaves index, work tree, stash, branch and refs
    as they were. -/
theorem C15_command_readonly (root : Path) (cfg : Cfg) (skipGit : Bool) (msg : String) (g : G)
    (phases : List (Change × Bool))
    (hfrag : cfg.useGit = true → cfg.autoCommit = true → NoMixed g)
    (hnothing : ∀ p, isXvcPathAt root p = true → g.wt.find? p = g.index.find? p)
    (hro : ∀ ph ∈ phases, ph.1 = []) :
    SameState none g (xvcCommand (isXvcPathAt root) cfg skipGit msg none g phases).g := by
  cases skipGit with
  | true =>
    simp only [xvcCommand, if_true]
    rw [foldl_apply_nil phases g.wt hro]
    exact SameState.refl' none g
  | false =>
    simp only [xvcCommand, Bool.false_eq_true, if_false]
    exact runPhases_readonly root cfg msg g phases hfrag hnothing hro

theorem runPhases_off (root : Path) (cfg : Cfg) (msg : String) (tb : Option String) (g : G)
    (phases : List (Change × Bool))
    (hoff : cfg.useGit = false ∨ (cfg.autoCommit = false ∧ cfg.autoStage = false)) :
    (runPhases (isXvcPathAt root) cfg msg tb g phases).status = .ok ∧
    (runPhases (isXvcPathAt root) cfg msg tb g phases).g.index = g.index ∧
    (runPhases (isXvcPathAt root) cfg msg tb g phases).g.commits = g.commits ∧
    (runPhases (isXvcPathAt root) cfg msg tb g phases).g.refs = g.refs ∧
    (runPhases (isXvcPathAt root) cfg msg tb g phases).g.head = g.head ∧
    (runPhases (isXvcPathAt root) cfg msg tb g phases).g.stash = g.stash := by
  have hcall : ∀ g1 hk, handleGitAutomation (isXvcPathAt root) cfg g1 msg tb hk = ⟨g1, .ok⟩ := by
    intro g1 hk
    unfold handleGitAutomation
    rcases hoff with h | ⟨h1, h2⟩
    · simp [h]
    · simp [h1, h2]
  induction phases generalizing g with
  | nil => simp [runPhases]
  | cons ph rest ih =>
    unfold runPhases
    simp only [hcall, if_true]
    exact ih _

/-- **C15, git switched off.**  With `--skip-git`, `git.use_git = false`, or both automations off,
    nothing but the command's own writes happens: index, commits, refs, branch and stash are
    literally unchanged, for EVERY state (also outside the fragment). -/
theorem C15_no_git (root : Path) (cfg : Cfg) (skipGit : Bool) (msg : String) (tb : Option String) (g : G)
    (phases : List (Change × Bool))
    (hoff : skipGit = true ∨ cfg.useGit = false ∨ (cfg.autoCommit = false ∧ cfg.autoStage = false)) :
    (xvcCommand (isXvcPathAt root) cfg skipGit msg tb g phases).status = .ok ∧
    (xvcCommand (isXvcPathAt root) cfg skipGit msg tb g phases).g.index = g.index ∧
    (xvcCommand (isXvcPathAt root) cfg skipGit msg tb g phases).g.commits = g.commits ∧
    (xvcCommand (isXvcPathAt root) cfg skipGit msg tb g phases).g.refs = g.refs ∧
    (xvcCommand (isXvcPathAt root) cfg skipGit msg tb g phases).g.head = g.head ∧
    (xvcCommand (isXvcPathAt root) cfg skipGit msg tb g phases).g.stash = g.stash := by
  cases skipGit with
  | true => simp [xvcCommand]
  | false =>
    simp only [xvcCommand, Bool.false_eq_true, if_false]
    rcases hoff with h | h
    · cases h
    · exact runPhases_off root cfg msg tb g phases h

/-- **C15, `auto_stage`.**  With `git.auto_commit = false`, `git.auto_stage = true` one call only
    runs `git add` on xvc paths: no commit, no stash, no branch or ref change, user index entries
    kept — for EVERY state (no fragment condition: no stash is involved). -/
theorem C15_auto_stage (root : Path) (g : G) (msg : String) (tb : Option String) (hookOk : Bool) :
    let o := handleGitAutomation (isXvcPathAt root) ⟨true, false, true⟩ g msg tb hookOk
    o.status = .ok ∧ o.g.commits = g.commits ∧ o.g.refs = g.refs ∧ o.g.head = g.head ∧
    o.g.stash = g.stash ∧ o.g.wt = g.wt ∧
    (∀ p, isXvcPathAt root p = false → o.g.index.find? p = g.index.find? p) ∧
    (∀ p, isXvcPathAt root p = true → o.g.index.find? p = g.wt.find? p) := by
  intro o
  have ho : o = ⟨addState (isXvcPathAt root) g, .ok⟩ := by
    show handleGitAutomation (isXvcPathAt root) ⟨true, false, true⟩ g msg tb hookOk = _
    simp [handleGitAutomation, gitAutoStage, gitAdd_fst]
  rw [ho]
  refine ⟨rfl, rfl, rfl, rfl, rfl, rfl, ?_, ?_⟩
  · intro p hp; rw [addState_index]; simp [hp]
  · intro p hp; rw [addState_index]; simp [hp]

/-! ## `--from-ref` -/

/-- **C15, `--from-ref`.**  `git_checkout_ref` (patched): for every state in the fragment and every
    ref name — existing or not — such that the paths on which the requested ref differs from HEAD
    carry no user change, the checkout never leaves the fragment; the stash list, the commits and
    all refs are unchanged; HEAD is the requested branch (or the old one when the ref does not
    exist, in which case an error is returned AFTER the stash was popped); and on every path where
    the two trees agree the index entry and the work-tree file are what they were: staged changes
    stay staged, unstaged and untracked files stay as they were. -/
theorem C15_from_ref (g : G) (r : String) (hm : NoMixed g)
    (hfree : ∀ p, (targetTree g r).find? p ≠ g.headTree.find? p →
      g.index.find? p = g.headTree.find? p ∧ g.wt.find? p = g.headTree.find? p) :
    (gitCheckoutRef g r).status ≠ .outside ∧
    (gitCheckoutRef g r).g.stash = g.stash ∧ (gitCheckoutRef g r).g.commits = g.commits ∧
    (gitCheckoutRef g r).g.refs = g.refs ∧
    ((gitCheckoutRef g r).g.head = g.head ∨ (gitCheckoutRef g r).g.head = .branch r) ∧
    (lookupRef g.refs r = none → (gitCheckoutRef g r).g.head = g.head ∧ (gitCheckoutRef g r).status = .gitError) ∧
    ∀ p, (targetTree g r).find? p = g.headTree.find? p →
      (gitCheckoutRef g r).g.index.find? p = g.index.find? p ∧
      (gitCheckoutRef g r).g.wt.find? p = g.wt.find? p :=
  checkoutRef_facts g r hm hfree

/-- **C15, `--from-ref` with a value that is not a reference** (a file name, a directory, `.`, a
    misspelt branch): `git checkout <value> --` fails, and with it the command, and NOTHING of the
    user's changes: every index entry, every work-tree file, the stash list, HEAD, the refs and the
    commits are what they were - for every state of the fragment.  (Before the repair F35 the value
    was passed without the closing `--`, so a value naming a path made Git restore that path from
    the index: `xvc --from-ref . file list` discarded every unstaged edit. The model's `gitCheckout`
    has always been a checkout of a REFERENCE; the repair makes the code say the same.) -/
theorem C15_from_ref_not_a_reference (g : G) (r : String) (hm : NoMixed g) (hn : lookupRef g.refs r = none) :
    (gitCheckoutRef g r).status = .gitError ∧
    (gitCheckoutRef g r).g.head = g.head ∧ (gitCheckoutRef g r).g.stash = g.stash ∧
    (gitCheckoutRef g r).g.commits = g.commits ∧ (gitCheckoutRef g r).g.refs = g.refs ∧
    ∀ p, (gitCheckoutRef g r).g.index.find? p = g.index.find? p ∧
         (gitCheckoutRef g r).g.wt.find? p = g.wt.find? p := by
  have ht : targetTree g r = g.headTree := by unfold targetTree; rw [hn]
  have h := C15_from_ref g r hm (by intro p hp; rw [ht] at hp; exact absurd rfl hp)
  obtain ⟨_, hs, hc, hr, _, hnone, hp⟩ := h
  obtain ⟨hh, hst⟩ := hnone hn
  exact ⟨hst, hh, hs, hc, hr, fun p => hp p (by rw [ht])⟩

/-! ## the ref clause in full: refs are only ever extended, an existing `--to-branch` target is refused -/

/-- `a` is `b` or an ancestor of `b` along `parent` links (`git merge-base --is-ancestor a b`);
    `fuel` bounds the walk -/
def isAncestor (cs : List Commit) : Nat → Nat → Nat → Bool
  | 0, _, _ => false
  | fuel + 1, a, b =>
    a == b || (match cs[b]? with
      | some o => (match o.parent with
        | some p => isAncestor cs fuel a p
        | none => false)
      | none => false)

/-- **C15, refs (one call).**  For EVERY ref map, every ref `r` that existed (pointing at `c`) —
    the current branch and a branch named by `--to-branch` included —, every layout, setting and
    git outcome: after `handle_git_automation` the ref still points at `c`, or `r` was the current
    branch and now points at the ONE new commit, whose parent is `c` (so `c` stays an ancestor of
    the new tip and reachable), and whose tree has, on every path xvc does not own, what the tree
    of `c` has.  No ref is deleted, reset or moved to another history. -/
theorem C15_refs_only_extended (root : Path) (cfg : Cfg) (g : G) (msg : String) (tb : Option String)
    (hookOk : Bool) (hfrag : cfg.useGit = true → cfg.autoCommit = true → NoMixed g)
    (r : String) (c : Nat) (hr : lookupRef g.refs r = some c) :
    lookupRef (handleGitAutomation (isXvcPathAt root) cfg g msg tb hookOk).g.refs r = some c ∨
    (lookupRef (handleGitAutomation (isXvcPathAt root) cfg g msg tb hookOk).g.refs r = some g.commits.length ∧
      g.head = .branch r ∧
      ∃ o, (handleGitAutomation (isXvcPathAt root) cfg g msg tb hookOk).g.commits = g.commits ++ [o] ∧
        o.parent = some c ∧
        (∀ p, isXvcPathAt root p = false → o.tree.find? p = (g.treeOf c).find? p) ∧
        ∀ fuel, isAncestor (handleGitAutomation (isXvcPathAt root) cfg g msg tb hookOk).g.commits
          (fuel + 2) c g.commits.length = true) := by
  have h := handle_facts (isXvcPathAt root) cfg g msg tb hookOk hfrag
  rcases h.refs_ext r c hr with hk | ⟨h1, h2, o, e, hp⟩
  · exact Or.inl hk
  · right
    refine ⟨h1, h2, o, e, hp, ?_, ?_⟩
    · intro p hu
      have hH : g.headTree = g.treeOf c := by simp [G.headTree, G.headCommit, h2, hr]
      rcases h.commits with e' | ⟨o', e', _, _, ht⟩
      · rw [e'] at e
        have := congrArg List.length e
        simp at this
      · have : o = o' := by
          rw [e'] at e
          have := List.append_cancel_left e
          simp at this
          exact this.symm
        rw [this, ← hH]
        exact ht p hu
    · intro fuel
      rw [e]
      simp [isAncestor, hp]

/-- **C15, `--to-branch` naming a branch that exists.**  `git checkout -b` refuses: for EVERY ref
    map in which `b` exists — at HEAD, behind it, ahead of it or diverged, or the current branch —
    one call leaves all refs, HEAD and the commit list literally as they were (and, with
    `auto_commit`, returns the git error AFTER the user's staged files were unstashed:
    `C15_user_paths_untouched` applies as well). -/
theorem C15_to_branch_existing_refused_refs_kept (root : Path) (cfg : Cfg) (g : G) (msg : String)
    (b : String) (hookOk : Bool) (hfrag : cfg.useGit = true → cfg.autoCommit = true → NoMixed g)
    (hb : (lookupRef g.refs b).isSome) :
    (handleGitAutomation (isXvcPathAt root) cfg g msg (some b) hookOk).g.refs = g.refs ∧
    (handleGitAutomation (isXvcPathAt root) cfg g msg (some b) hookOk).g.head = g.head ∧
    (handleGitAutomation (isXvcPathAt root) cfg g msg (some b) hookOk).g.commits = g.commits ∧
    (cfg.useGit = true → cfg.autoCommit = true →
      (handleGitAutomation (isXvcPathAt root) cfg g msg (some b) hookOk).status = .gitError) := by
  have h := handle_facts (isXvcPathAt root) cfg g msg (some b) hookOk hfrag
  obtain ⟨h1, h2, h3⟩ := h.existing b rfl hb
  refine ⟨h1, h2, h3, ?_⟩
  intro hu ha
  have := (autoCommit_facts (isXvcPathAt root) g msg (some b) hookOk (hfrag hu ha)).2.2.2 b rfl hb
  simpa [handleGitAutomation, hu, ha] using this

theorem runPhases_to_branch_existing (root : Path) (cfg : Cfg) (msg : String) (b : String) (g : G)
    (phases : List (Change × Bool))
    (hinv : cfg.useGit = true → cfg.autoCommit = true → Inv root g)
    (hc : ∀ ph ∈ phases, Confined root ph.1) (hb : (lookupRef g.refs b).isSome) :
    (runPhases (isXvcPathAt root) cfg msg (some b) g phases).g.refs = g.refs ∧
    (runPhases (isXvcPathAt root) cfg msg (some b) g phases).g.head = g.head ∧
    (runPhases (isXvcPathAt root) cfg msg (some b) g phases).g.commits = g.commits := by
  induction phases generalizing g with
  | nil => exact ⟨rfl, rfl, rfl⟩
  | cons ph rest ih =>
    obtain ⟨ch, hookOk⟩ := ph
    have hcc := hc (ch, hookOk) (List.mem_cons_self ..)
    have hm1 : cfg.useGit = true → cfg.autoCommit = true → NoMixed { g with wt := g.wt.apply ch } :=
      fun hu ha => noMixed_after_writes root g ch (hinv hu ha) hcc
    have hb1 : (lookupRef ({ g with wt := g.wt.apply ch } : G).refs b).isSome := hb
    obtain ⟨h1, h2, h3, h4⟩ :=
      C15_to_branch_existing_refused_refs_kept root cfg { g with wt := g.wt.apply ch } msg b hookOk hm1 hb1
    unfold runPhases
    simp only
    by_cases hok : (handleGitAutomation (isXvcPathAt root) cfg { g with wt := g.wt.apply ch } msg (some b) hookOk).status = .ok
    · rw [if_pos hok]
      have hinv' : cfg.useGit = true → cfg.autoCommit = true →
          Inv root (handleGitAutomation (isXvcPathAt root) cfg { g with wt := g.wt.apply ch } msg (some b) hookOk).g := by
        intro hu ha
        rw [h4 hu ha] at hok
        cases hok
      have := ih _ hinv' (fun x hx => hc x (List.mem_cons_of_mem _ hx)) (by rw [h1]; exact hb)
      exact ⟨by rw [this.1, h1], by rw [this.2.1, h2], by rw [this.2.2, h3]⟩
    · rw [if_neg hok]
      exact ⟨h1, h2, h3⟩

/-- **C15, `--to-branch` naming a branch that exists, whole command** (any number of calls, any
    xvc-side writes, every setting incl. `--skip-git`): refs, HEAD and commits are as they were. -/
theorem C15_command_to_branch_existing (root : Path) (cfg : Cfg) (skipGit : Bool) (msg : String)
    (b : String) (g : G) (phases : List (Change × Bool))
    (hinv : skipGit = false → cfg.useGit = true → cfg.autoCommit = true → Inv root g)
    (hc : ∀ ph ∈ phases, Confined root ph.1) (hb : (lookupRef g.refs b).isSome) :
    (xvcCommand (isXvcPathAt root) cfg skipGit msg (some b) g phases).g.refs = g.refs ∧
    (xvcCommand (isXvcPathAt root) cfg skipGit msg (some b) g phases).g.head = g.head ∧
    (xvcCommand (isXvcPathAt root) cfg skipGit msg (some b) g phases).g.commits = g.commits := by
  cases skipGit with
  | true => simp [xvcCommand]
  | false =>
    simp only [xvcCommand, Bool.false_eq_true, if_false]
    exact runPhases_to_branch_existing root cfg msg b g phases (hinv rfl) hc hb

/-! ## aborts (panics) between the git invocations -/

/-- **C15, aborts outside the stash sandwich.**  `git_auto_commit` with an abort transition at every
    place between two git invocations (`gitAutoCommitP`, `PanicSites`).  Hypothesis
    `NoPanicInsideSandwich`: the pure computations between `git stash push --staged` and
    `git stash pop --index` do not panic — `debug!` + the `checkout -b` arguments, the argument array
    of `git add`, the construction of the commit message `format!("Xvc auto-commit after '{xvc_cmd}'")`
    from the command line, the `debug!` calls around `git commit`.  Then for every state in the
    fragment, every layout, `--to-branch`, git outcome, and WHATEVER panics before the push
    (`beforeStash`) or after the pop (`afterPop`, which includes the caller's `.unwrap()` on the
    returned `Err`): the state the process leaves — completed or aborted — keeps the user's Git state.

    This is a statement about the control flow.  That the named computations do not panic is NOT
    proved here (they are Rust library calls on the command line, paths and git output); it is what
    the binary-level oracle of `lib/c15.py` observes on the generated inputs (long command lines of
    multi-byte characters in every alignment, git failures, E2BIG): see
    `C15_abort_inside_sandwich_counterexample` for what happens otherwise. -/
theorem C15_abort_outside_sandwich_keeps_user_state (root : Path) (s : PanicSites) (g : G) (msg : String)
    (tb : Option String) (hookOk : Bool) (hm : NoMixed g) (hin : NoPanicInsideSandwich s) :
    (gitAutoCommitP s (isXvcPathAt root) g msg tb hookOk).status ≠ .outside ∧
    UserStateKept root tb g (gitAutoCommitP s (isXvcPathAt root) g msg tb hookOk).g ∧
    (∀ p, (gitAutoCommitP s (isXvcPathAt root) g msg tb hookOk).g.wt.find? p = g.wt.find? p) ∧
    NoMixed (gitAutoCommitP s (isXvcPathAt root) g msg tb hookOk).g := by
  cases hb : s.beforeStash with
  | true =>
    have : gitAutoCommitP s (isXvcPathAt root) g msg tb hookOk = ⟨g, .ok, true⟩ := by
      unfold gitAutoCommitP; simp [hb]
    rw [this]
    exact ⟨by simp, UserStateKept.refl' root tb g, fun _ => rfl, hm⟩
  | false =>
    obtain ⟨e1, e2⟩ := autoCommitP_eq s hb hin (isXvcPathAt root) g msg tb hookOk
    rw [e1, e2]
    have h := autoCommit_facts (isXvcPathAt root) g msg tb hookOk hm
    exact ⟨h.1.inside, UserStateKept.of_call h.1, h.1.wt, h.2.1⟩

/-! ## non-vacuity: a concrete, busy user state inside the fragment -/

/-- HEAD tree of the example: four user files, xvc's files -/
def exHead : Tree :=
  [(["t.txt"], "t1"), (["m.txt"], "m1"), (["del.txt"], "d1"), (["dir", "a.txt"], "a1"),
   ([".gitignore"], "gi0"), ([".xvc", "config.toml"], "c0")]

/-- staged modification (`m.txt`), staged new file (`new.txt`), staged deletion (`del.txt`), unstaged
    edit (`t.txt`), unstaged deletion (`dir/a.txt`), untracked files (one of them named like an
    ignore file), one stash entry of the user's, a second branch, and xvc's own fresh writes
    (`.gitignore`, `.xvc/store/a.json`). -/
def exState : G :=
  { commits := [⟨exHead, none, "root"⟩]
    refs := [("main", 0), ("other", 0)]
    head := .branch "main"
    index := [(["t.txt"], "t1"), (["m.txt"], "m2"), (["new.txt"], "n1"), (["dir", "a.txt"], "a1"),
              ([".gitignore"], "gi0"), ([".xvc", "config.toml"], "c0")]
    wt := [(["t.txt"], "t1-edited"), (["m.txt"], "m2"), (["new.txt"], "n1"), (["untracked.txt"], "u1"),
           (["notes.gitignore"], "user-notes"), ([".gitignore"], "gi1"), ([".xvc", "config.toml"], "c0"),
           ([".xvc", "store", "a.json"], "s1")]
    stash := [⟨"user", [], [(["old.txt"], "o")]⟩] }

example : NoMixed exState := (noMixedB_iff _).mp (by decide)
example : diffCached exState ≠ [] := by decide
/-- the hypotheses of `C15_user_paths_untouched` hold for it with the default settings … -/
example : (⟨true, true, false⟩ : Cfg).useGit = true → (⟨true, true, false⟩ : Cfg).autoCommit = true → NoMixed exState :=
  fun _ _ => (noMixedB_iff _).mp (by decide)
/-- … and the call really commits (the theorem is not about a no-op): one new commit on `main`,
    containing xvc's two files and none of the user's six pending changes, stash and index kept. -/
example :
    let o := handleGitAutomation isXvcPath ⟨true, true, false⟩ exState "m" none true
    o.status = .ok ∧ o.g.commits.length = 2 ∧ lookupRef o.g.refs "main" = some 1 ∧
    o.g.headTree.find? [".xvc", "store", "a.json"] = some "s1" ∧ o.g.headTree.find? [".gitignore"] = some "gi1" ∧
    o.g.headTree.find? ["new.txt"] = none ∧ o.g.headTree.find? ["m.txt"] = some "m1" ∧
    o.g.headTree.find? ["notes.gitignore"] = none ∧ o.g.headTree.find? ["del.txt"] = some "d1" ∧
    o.g.index.find? ["new.txt"] = some "n1" ∧ o.g.index.find? ["m.txt"] = some "m2" ∧
    o.g.index.find? ["del.txt"] = none ∧ o.g.wt.find? ["new.txt"] = some "n1" ∧
    o.g.stash = exState.stash := by decide
/-- the same on a detached HEAD, with `--to-branch`, and with a rejected commit -/
example :
    let o := handleGitAutomation isXvcPath ⟨true, true, false⟩ { exState with head := .detached 0 } "m" none true
    o.status = .ok ∧ o.g.head = .detached 1 ∧ o.g.refs = exState.refs ∧ o.g.stash = exState.stash ∧
    o.g.index.find? ["new.txt"] = some "n1" := by decide
example :
    let o := handleGitAutomation isXvcPath ⟨true, true, false⟩ exState "m" (some "feat") true
    o.status = .ok ∧ o.g.head = .branch "feat" ∧ lookupRef o.g.refs "feat" = some 1 ∧
    lookupRef o.g.refs "main" = some 0 ∧ o.g.stash = exState.stash := by decide
example :
    let o := handleGitAutomation isXvcPath ⟨true, true, false⟩ exState "m" (some "other") true
    o.status = .gitError ∧ o.g.head = .branch "main" ∧ o.g.commits.length = 1 ∧ o.g.stash = exState.stash ∧
    o.g.index.find? ["new.txt"] = some "n1" ∧ o.g.wt.find? ["new.txt"] = some "n1" := by decide
example :
    let o := handleGitAutomation isXvcPath ⟨true, true, false⟩ exState "m" none false
    o.status = .gitError ∧ o.g.commits.length = 1 ∧ o.g.stash = exState.stash ∧
    o.g.index.find? ["new.txt"] = some "n1" ∧ o.g.wt.find? ["new.txt"] = some "n1" := by decide
/-- `Inv` (hypothesis of `C15_command`) is satisfiable by the same state -/
example : Inv [] exState :=
  ⟨(noMixedB_iff _).mp (by decide), fun p hp => by
    have : ∀ q ∈ exState.headTree.keys ++ exState.index.keys, isXvcPathAt [] q = true →
        exState.headTree.find? q = exState.index.find? q := by decide
    by_cases h1 : p ∈ exState.headTree.keys ++ exState.index.keys
    · exact this p h1 hp
    · have h2 : ¬ (p ∈ exState.headTree.keys ∨ p ∈ exState.index.keys) := fun h => h1 (List.mem_append.mpr h)
      rw [Tree.find?_none_of_not_mem_keys _ p (fun h => h2 (Or.inl h)),
          Tree.find?_none_of_not_mem_keys _ p (fun h => h2 (Or.inr h))]⟩
/-- a whole two-call command on it: confined change set, one commit, user state kept -/
example : Confined [] [([".xvc", "ec", "1"], some "e"), (["data", ".gitignore"], some "g")] := by
  unfold Confined; decide
/-- a whole ordinary command (two calls) on the busy state: xvc writes two files, then nothing; one
    commit, the second call finds nothing to do, the user's six pending changes are where they were -/
example :
    let o := xvcCommand isXvcPath ⟨true, true, false⟩ false "m" none exState
      [([([".xvc", "ec", "1"], some "e"), (["data", ".gitignore"], some "g")], true), ([], true)]
    o.status = .ok ∧ o.g.commits.length = 2 ∧ o.g.stash = exState.stash ∧ o.g.head = exState.head ∧
    o.g.headTree.find? [".xvc", "ec", "1"] = some "e" ∧ o.g.headTree.find? ["data", ".gitignore"] = some "g" ∧
    o.g.headTree.find? ["new.txt"] = none ∧ o.g.index.find? ["new.txt"] = some "n1" ∧
    o.g.index.find? ["m.txt"] = some "m2" ∧ o.g.index.find? ["del.txt"] = none ∧
    o.g.wt.find? ["t.txt"] = some "t1-edited" ∧ o.g.wt.find? ["untracked.txt"] = some "u1" := by decide
/-- `xvc init`-like: three calls, writes before the first two -/
example :
    let o := xvcCommand isXvcPath ⟨true, true, false⟩ false "m" none exState
      [([([".xvc", "a"], some "1")], true), ([([".xvc", "b"], some "2")], true), ([], true)]
    o.status = .ok ∧ o.g.commits.length = 3 ∧ o.g.stash = exState.stash ∧
    o.g.index.find? ["new.txt"] = some "n1" ∧ lookupRef o.g.refs "main" = some 2 ∧
    lookupRef o.g.refs "other" = some 0 := by decide
/-- the same command with `--skip-git`, and with `auto_stage`: no commit -/
example :
    (xvcCommand isXvcPath ⟨true, true, false⟩ true "m" none exState [([([".xvc", "a"], some "1")], true), ([], true)]).g.commits.length = 1 ∧
    (xvcCommand isXvcPath ⟨true, false, true⟩ false "m" none exState [([([".xvc", "a"], some "1")], true), ([], true)]).g.commits.length = 1 ∧
    (xvcCommand isXvcPath ⟨true, false, true⟩ false "m" none exState [([([".xvc", "a"], some "1")], true), ([], true)]).g.index.find? [".xvc", "a"] = some "1" := by
  decide
/-- a read-only situation (hypothesis of `C15_readonly_no_commit`): staged work, nothing pending on xvc paths -/
def exReadonly : G := { exState with wt := [(["t.txt"], "t1-edited"), (["m.txt"], "m2"), (["new.txt"], "n1"),
  (["untracked.txt"], "u1"), ([".gitignore"], "gi0"), ([".xvc", "config.toml"], "c0")] }
example : NoMixed exReadonly := (noMixedB_iff _).mp (by decide)
example : (gitAdd isXvcPath exReadonly).2 = [] := by decide

/-- `--from-ref` on the busy state: a second commit `1` (one more user file `side.txt`) on branch
    `side`; the hypothesis of `C15_from_ref` holds, the checkout succeeds and the staged work survives -/
def exTwoRefs : G :=
  { exState with commits := [⟨exHead, none, "root"⟩, ⟨(["side.txt"], "s") :: exHead, some 0, "side"⟩],
                 refs := [("main", 0), ("side", 1)] }
example :
    let o := gitCheckoutRef exTwoRefs "side"
    o.status = .ok ∧ o.g.head = .branch "side" ∧ o.g.wt.find? ["side.txt"] = some "s" ∧
    o.g.index.find? ["new.txt"] = some "n1" ∧ o.g.index.find? ["del.txt"] = none ∧
    o.g.wt.find? ["t.txt"] = some "t1-edited" ∧ o.g.stash = exTwoRefs.stash := by decide
example :
    let o := gitCheckoutRef exTwoRefs "nosuchref"
    o.status = .gitError ∧ o.g.head = .branch "main" ∧ o.g.index.find? ["new.txt"] = some "n1" ∧
    o.g.wt.find? ["new.txt"] = some "n1" ∧ o.g.stash = exTwoRefs.stash := by decide

/-! ## Xvc root in a subdirectory of the Git work tree (`repo/proj/.xvc`) -/

/-- which paths the pathspecs match when git runs in `proj/`: the user's own ignore files and
    `.xvc` look-alikes next to `proj/` are NOT matched, xvc's files below `proj/` are -/
example :
    isXvcPathAt ["proj"] [".gitignore"] = false ∧ isXvcPathAt ["proj"] ["dir", ".gitignore"] = false ∧
    isXvcPathAt ["proj"] [".xvc", "x"] = false ∧ isXvcPathAt ["proj"] ["proj2", ".xvcignore"] = false ∧
    isXvcPathAt ["proj"] ["proj"] = false ∧ isXvcPathAt ["proj"] ["proj", "in.txt"] = false ∧
    isXvcPathAt ["proj"] ["proj", ".xvc", "ec", "1"] = true ∧ isXvcPathAt ["proj"] ["proj", ".gitignore"] = true ∧
    isXvcPathAt ["proj"] ["proj", "data", ".gitignore"] = true ∧ isXvcPathAt ["proj"] ["proj", ".xvcignore"] = true ∧
    isXvcPathAt ["a", "b"] ["a", "b", ".xvc", "c"] = true ∧ isXvcPathAt ["a", "b"] ["a", ".xvc", "c"] = false := by
  decide

def nestedHead : Tree :=
  [(["README.md"], "r1"), (["obsolete.txt"], "o1"), ([".gitignore"], "top0"), (["dir", ".gitignore"], "dg0"),
   (["proj", "in.txt"], "i1"), (["proj", ".gitignore"], "gi0"), (["proj", ".xvcignore"], "xi0"),
   (["proj", ".xvc", "config.toml"], "c0")]

/-- The Xvc project lives in `proj/`.  ALL of the user's staged changes are outside it: a staged
    modification (`README.md`), a staged new file (`notes.txt`), a staged deletion (`obsolete.txt`).
    Further user state: an unstaged edit of the user's top-level `.gitignore` (a user file here),
    an unstaged edit inside `proj/`, untracked files outside and inside, a stash entry.  xvc has
    just written `proj/.xvc/store/a.json` and `proj/data/.gitignore`. -/
def exNested : G :=
  { commits := [⟨nestedHead, none, "root"⟩]
    refs := [("main", 0), ("other", 0)]
    head := .branch "main"
    index := [(["README.md"], "r2"), (["notes.txt"], "n1"), ([".gitignore"], "top0"), (["dir", ".gitignore"], "dg0"),
              (["proj", "in.txt"], "i1"), (["proj", ".gitignore"], "gi0"), (["proj", ".xvcignore"], "xi0"),
              (["proj", ".xvc", "config.toml"], "c0")]
    wt := [(["README.md"], "r2"), (["notes.txt"], "n1"), ([".gitignore"], "top1-edited"), (["dir", ".gitignore"], "dg0"),
           (["scratch.txt"], "s1"), (["proj", "in.txt"], "i1-edited"), (["proj", "untracked.txt"], "u1"),
           (["proj", ".gitignore"], "gi0"), (["proj", ".xvcignore"], "xi0"), (["proj", ".xvc", "config.toml"], "c0"),
           (["proj", ".xvc", "store", "a.json"], "a1"), (["proj", "data", ".gitignore"], "dgi1")]
    stash := [⟨"user", [], [(["old.txt"], "o")]⟩] }

example : NoMixed exNested := (noMixedB_iff _).mp (by decide)
/-- everything the user staged is outside the Xvc root; `--relative` would list nothing -/
example : diffCached exNested ≠ [] ∧ (diffCached exNested).all (fun p => !(["proj"].isPrefixOf p)) = true ∧
    diffCachedRelative ["proj"] exNested = [] := by decide
/-- `Inv ["proj"]` (hypothesis of `C15_command`, `C15_outside_root`) holds for it -/
example : Inv ["proj"] exNested :=
  ⟨(noMixedB_iff _).mp (by decide), fun p hp => by
    have : ∀ q ∈ exNested.headTree.keys ++ exNested.index.keys, isXvcPathAt ["proj"] q = true →
        exNested.headTree.find? q = exNested.index.find? q := by decide
    by_cases h1 : p ∈ exNested.headTree.keys ++ exNested.index.keys
    · exact this p h1 hp
    · have h2 : ¬ (p ∈ exNested.headTree.keys ∨ p ∈ exNested.index.keys) := fun h => h1 (List.mem_append.mpr h)
      rw [Tree.find?_none_of_not_mem_keys _ p (fun h => h2 (Or.inl h)),
          Tree.find?_none_of_not_mem_keys _ p (fun h => h2 (Or.inr h))]⟩
example : Confined ["proj"] [(["proj", ".xvc", "store", "a.json"], some "a1"), (["proj", "data", ".gitignore"], some "dgi1")] := by
  unfold Confined; decide

/-- **Nested layout, the transcription of the code**: one call on `exNested` commits exactly xvc's
    two files; the three staged changes outside `proj/` are in no commit and are staged as before,
    the user's edited top-level `.gitignore` is not committed, stash and branches are kept. -/
theorem C15_nested_staged_outside_witness :
    let o := handleGitAutomation (isXvcPathAt ["proj"]) ⟨true, true, false⟩ exNested "m" none true
    o.status = .ok ∧ o.g.commits.length = 2 ∧ lookupRef o.g.refs "main" = some 1 ∧
    o.g.headTree.find? ["proj", ".xvc", "store", "a.json"] = some "a1" ∧
    o.g.headTree.find? ["proj", "data", ".gitignore"] = some "dgi1" ∧
    o.g.headTree.find? ["README.md"] = some "r1" ∧ o.g.headTree.find? ["notes.txt"] = none ∧
    o.g.headTree.find? ["obsolete.txt"] = some "o1" ∧ o.g.headTree.find? [".gitignore"] = some "top0" ∧
    o.g.index.find? ["README.md"] = some "r2" ∧ o.g.index.find? ["notes.txt"] = some "n1" ∧
    o.g.index.find? ["obsolete.txt"] = none ∧ o.g.wt.find? ["notes.txt"] = some "n1" ∧
    o.g.wt.find? [".gitignore"] = some "top1-edited" ∧ o.g.index.find? [".gitignore"] = some "top0" ∧
    o.g.stash = exNested.stash ∧ lookupRef o.g.refs "other" = some 0 := by decide

/-- **Nested layout, `--relative` variant (not the code)**: had `stash_user_staged_files` asked
    `git diff --name-only --relative --cached`, nothing would be stashed on `exNested` and xvc's
    commit would contain the user's three staged changes, leaving nothing staged. -/
theorem C15_nested_relative_counterexample :
    let o := gitAutoCommitRelative ["proj"] (isXvcPathAt ["proj"]) exNested "m" none true
    o.status = .ok ∧ o.g.commits.length = 2 ∧
    o.g.headTree.find? ["notes.txt"] = some "n1" ∧ o.g.headTree.find? ["README.md"] = some "r2" ∧
    o.g.headTree.find? ["obsolete.txt"] = none ∧ diffCached o.g = [] ∧
    isXvcPathAt ["proj"] ["notes.txt"] = false := by decide

/-- with at least one staged path below `proj/` the variant behaves like the code (why the defect
    needs ALL staged changes outside the Xvc root) -/
example :
    let g : G := { exNested with index := (["proj", "new.txt"], "p1") :: exNested.index,
                                 wt := (["proj", "new.txt"], "p1") :: exNested.wt }
    (gitAutoCommitRelative ["proj"] (isXvcPathAt ["proj"]) g "m" none true).g.headTree =
      (gitAutoCommit (isXvcPathAt ["proj"]) g "m" none true).g.headTree ∧
    (gitAutoCommit (isXvcPathAt ["proj"]) g "m" none true).g.headTree.find? ["notes.txt"] = none ∧
    (gitAutoCommit (isXvcPathAt ["proj"]) g "m" none true).g.index.find? ["proj", "new.txt"] = some "p1" := by decide

/-- a whole ordinary command (two calls) in the nested layout, also detached and with a rejected commit -/
example :
    let o := xvcCommand (isXvcPathAt ["proj"]) ⟨true, true, false⟩ false "m" none
      { exNested with wt := exNested.wt.filter (fun e => e.1 != ["proj", ".xvc", "store", "a.json"] && e.1 != ["proj", "data", ".gitignore"]) }
      [([(["proj", ".xvc", "store", "a.json"], some "a1"), (["proj", "data", ".gitignore"], some "dgi1")], true), ([], true)]
    o.status = .ok ∧ o.g.commits.length = 2 ∧ o.g.stash = exNested.stash ∧ o.g.head = exNested.head ∧
    o.g.headTree.find? ["notes.txt"] = none ∧ o.g.index.find? ["notes.txt"] = some "n1" ∧
    o.g.index.find? ["obsolete.txt"] = none ∧ o.g.wt.find? ["scratch.txt"] = some "s1" ∧
    o.g.wt.find? ["proj", "in.txt"] = some "i1-edited" := by decide
example :
    let o := handleGitAutomation (isXvcPathAt ["proj"]) ⟨true, true, false⟩ { exNested with head := .detached 0 } "m" none true
    o.status = .ok ∧ o.g.head = .detached 1 ∧ o.g.index.find? ["notes.txt"] = some "n1" ∧
    o.g.headTree.find? ["notes.txt"] = none := by decide
example :
    let o := handleGitAutomation (isXvcPathAt ["proj"]) ⟨true, true, false⟩ exNested "m" none false
    o.status = .gitError ∧ o.g.commits.length = 1 ∧ o.g.stash = exNested.stash ∧
    o.g.index.find? ["notes.txt"] = some "n1" ∧ o.g.index.find? ["proj", ".xvc", "store", "a.json"] = none := by decide

/-! ## a panic between `stash push` and `stash pop` -/

/-- the commit message cannot be built (e.g. a `String::truncate` off a character boundary) -/
def panicInMessage : PanicSites := ⟨false, false, false, true, false, false⟩

example : NoPanicInsideSandwich ⟨true, false, false, false, false, true⟩ := by decide
example : ¬ NoPanicInsideSandwich panicInMessage := by decide

/-- **An abort INSIDE the sandwich** (on the busy state `exState`: staged new / modified / deleted
    user files, a stash entry of the user's, fresh xvc writes): the process ends between
    `git stash push --staged` and `git stash pop --index`.  The stash list has one entry more (on top
    of the user's own), the staged new file is gone from index AND work tree, the staged
    modification and the staged deletion are reverted, xvc's files are staged but uncommitted.
    This is a property of the control flow of the UNCHANGED `git_auto_commit` as well — it holds IF
    one of the computations named by `PanicSites.inCheckout/inAdd/inMessage/inAfterCommit` panics;
    nothing here says that they can.  That they do not panic is observed, not proved: the oracle
    of `lib/c15.py` runs the real binary on long multi-byte command lines, rejected commits, etc. -/
theorem C15_abort_inside_sandwich_counterexample :
    let o := gitAutoCommitP panicInMessage isXvcPath exState "m" none true
    o.aborted = true ∧ o.g.stash.length = exState.stash.length + 1 ∧ o.g.stash ≠ exState.stash ∧
    o.g.index.find? ["new.txt"] = none ∧ o.g.wt.find? ["new.txt"] = none ∧
    exState.index.find? ["new.txt"] = some "n1" ∧
    o.g.wt.find? ["m.txt"] = some "m1" ∧ exState.wt.find? ["m.txt"] = some "m2" ∧
    o.g.index.find? ["del.txt"] = some "d1" ∧ exState.index.find? ["del.txt"] = none ∧
    o.g.index.find? [".xvc", "store", "a.json"] = some "s1" ∧ o.g.commits = exState.commits ∧
    (o.g.stash.head?.map (fun e => e.idx.find? ["new.txt"])) = some (some "n1") := by decide

/-- the other three places inside the sandwich lose the staged work in the same way -/
example :
    (gitAutoCommitP ⟨false, true, false, false, false, false⟩ isXvcPath exState "m" none true).g.index.find? ["new.txt"] = none ∧
    (gitAutoCommitP ⟨false, false, true, false, false, false⟩ isXvcPath exState "m" none true).g.index.find? ["new.txt"] = none ∧
    (gitAutoCommitP ⟨false, false, false, false, true, false⟩ isXvcPath exState "m" none true).g.index.find? ["new.txt"] = none ∧
    (gitAutoCommitP ⟨false, false, false, false, true, false⟩ isXvcPath exState "m" none true).g.stash.length = 2 := by decide

/-- aborts OUTSIDE the sandwich on the same state (instance of
    `C15_abort_outside_sandwich_keeps_user_state`): before the push nothing has happened; after the
    pop everything is back, also when the commit was rejected and the caller's `.unwrap()` panics -/
example :
    let a := gitAutoCommitP ⟨true, false, false, false, false, false⟩ isXvcPath exState "m" none true
    let b := gitAutoCommitP ⟨false, false, false, false, false, true⟩ isXvcPath exState "m" none true
    let c := gitAutoCommitP ⟨false, false, false, false, false, true⟩ isXvcPath exState "m" none false
    a.aborted = true ∧ a.g.stash = exState.stash ∧ a.g.index.find? ["new.txt"] = some "n1" ∧
    b.aborted = true ∧ b.g.stash = exState.stash ∧ b.g.index.find? ["new.txt"] = some "n1" ∧ b.g.commits.length = 2 ∧
    c.aborted = true ∧ c.status = .gitError ∧ c.g.stash = exState.stash ∧ c.g.index.find? ["new.txt"] = some "n1" ∧
    c.g.wt.find? ["new.txt"] = some "n1" ∧ c.g.index.find? ["del.txt"] = none ∧ c.g.commits.length = 1 := by decide

/-! ## branches with histories of their own; `--to-branch` naming one of them -/

def brBase : Tree := [(["t.txt"], "t1"), ([".gitignore"], "gi0"), ([".xvc", "config.toml"], "c0")]

/-- Commit 0 is the root, 1 the second commit of `main` (parent 0), 2 the user's commit on
    `results` (parent 0, adds `report.txt`): `results` has DIVERGED from `main`.  `behind` is an
    ancestor of HEAD, `same` is at HEAD.  The user has staged `user.txt`; xvc has just written
    `.xvc/store/a.json`. -/
def exBranches : G :=
  { commits := [⟨brBase, none, "root"⟩, ⟨(["main2.txt"], "m2") :: brBase, some 0, "second"⟩,
                ⟨(["report.txt"], "rep1") :: brBase, some 0, "user: report"⟩]
    refs := [("main", 1), ("results", 2), ("behind", 0), ("same", 1)]
    head := .branch "main"
    index := (["user.txt"], "u1") :: (["main2.txt"], "m2") :: brBase
    wt := ([".xvc", "store", "a.json"], "a1") :: (["user.txt"], "u1") :: (["main2.txt"], "m2") :: brBase
    stash := [] }

example : NoMixed exBranches := (noMixedB_iff _).mp (by decide)
example : (lookupRef exBranches.refs "results").isSome = true ∧ isAncestor exBranches.commits 9 2 1 = false ∧
    isAncestor exBranches.commits 9 1 2 = false ∧ isAncestor exBranches.commits 9 0 1 = true := by decide
/-- without `--to-branch` the current branch is extended by one commit whose parent is its old tip
    (second disjunct of `C15_refs_only_extended`), all other refs keep their values -/
example :
    let o := handleGitAutomation isXvcPath ⟨true, true, false⟩ exBranches "m" none true
    o.status = .ok ∧ lookupRef o.g.refs "main" = some 3 ∧ (o.g.commits[3]?).map (·.parent) = some (some 1) ∧
    lookupRef o.g.refs "results" = some 2 ∧ lookupRef o.g.refs "behind" = some 0 ∧ lookupRef o.g.refs "same" = some 1 ∧
    isAncestor o.g.commits 9 1 3 = true := by decide
/-- `--to-branch` with a NEW name: the new branch gets the commit, `main` stays -/
example :
    let o := handleGitAutomation isXvcPath ⟨true, true, false⟩ exBranches "m" (some "feat") true
    o.status = .ok ∧ lookupRef o.g.refs "feat" = some 3 ∧ lookupRef o.g.refs "main" = some 1 ∧
    lookupRef o.g.refs "results" = some 2 := by decide

/-- **`--to-branch results`, the transcription of the code** (`checkout -b`): refused; refs, HEAD,
    commits, the staged file and the stash are as they were. -/
theorem C15_to_branch_existing_witness :
    let o := handleGitAutomation isXvcPath ⟨true, true, false⟩ exBranches "m" (some "results") true
    o.status = .gitError ∧ o.g.refs = exBranches.refs ∧ o.g.head = .branch "main" ∧ o.g.commits.length = 3 ∧
    o.g.index.find? ["user.txt"] = some "u1" ∧ o.g.wt.find? ["user.txt"] = some "u1" ∧ o.g.stash = [] := by decide

/-- **`--to-branch results` with `git checkout -B` (not the code)**: the command "succeeds", `results`
    is reset to `main`'s tip plus xvc's commit; the user's commit 2 is no ancestor of the new tip, is
    not reachable from ANY ref any more, and `report.txt` is gone from the branch. -/
theorem C15_to_branch_force_counterexample :
    let o := gitAutoCommitForceBranch isXvcPath exBranches "m" "results" true
    o.status = .ok ∧ o.g.head = .branch "results" ∧ lookupRef o.g.refs "results" = some 3 ∧
    isAncestor o.g.commits 9 2 3 = false ∧ isAncestor o.g.commits 9 1 3 = true ∧
    o.g.refs.all (fun r => !isAncestor o.g.commits 9 2 r.2) = true ∧
    (exBranches.treeOf 2).find? ["report.txt"] = some "rep1" ∧ o.g.headTree.find? ["report.txt"] = none := by decide

/-- the `-B` variant is unobservable when the target is new, at HEAD or behind HEAD (the old tip
    stays an ancestor of the new one): why the defect needs a target with commits of its own -/
example :
    isAncestor (gitAutoCommitForceBranch isXvcPath exBranches "m" "same" true).g.commits 9 1 3 = true ∧
    lookupRef (gitAutoCommitForceBranch isXvcPath exBranches "m" "same" true).g.refs "same" = some 3 ∧
    isAncestor (gitAutoCommitForceBranch isXvcPath exBranches "m" "behind" true).g.commits 9 0 3 = true ∧
    lookupRef (gitAutoCommitForceBranch isXvcPath exBranches "m" "behind" true).g.refs "behind" = some 3 ∧
    lookupRef (gitAutoCommitForceBranch isXvcPath exBranches "m" "feat" true).g.refs "results" = some 2 := by decide

/-! ## the code before the patches: concrete counterexamples (replayed on the real binary by
    `lib/c15.py`, corpus cases 0–4 and 6–8) -/

/-- F4: one staged new user file, nothing else; default settings; a command that writes nothing. -/
def f4State : G :=
  { commits := [⟨[(["t.txt"], "t1"), ([".gitignore"], "gi0")], none, "root"⟩]
    refs := [("main", 0)]
    head := .branch "main"
    index := [(["t.txt"], "t1"), ([".gitignore"], "gi0"), (["user.txt"], "u1")]
    wt := [(["t.txt"], "t1"), ([".gitignore"], "gi0"), (["user.txt"], "u1")]
    stash := [] }

example : NoMixed f4State := (noMixedB_iff _).mp (by decide)

/-- **F4, before C15-F4.patch**: `git_auto_commit` returns `Ok` ("No files to commit") before the
    stash is popped: the user's staged file is gone from the index AND from the work tree and sits
    in a new stash entry. -/
theorem C15_readonly_counterexample_before_fix :
    let o := gitAutoCommitOld isXvcPath f4State "m" none true
    o.status = .ok ∧ o.g.stash ≠ f4State.stash ∧ o.g.index.find? ["user.txt"] = none ∧
    o.g.wt.find? ["user.txt"] = none := by decide

/-- the same input on the patched transcription: everything is as it was -/
theorem C15_readonly_witness_after_fix :
    let o := gitAutoCommit isXvcPath f4State "m" none true
    o.status = .ok ∧ o.g.stash = f4State.stash ∧ o.g.index.find? ["user.txt"] = some "u1" ∧
    o.g.wt.find? ["user.txt"] = some "u1" ∧ o.g.commits = f4State.commits := by decide

/-- **F4 on the error paths, before the patch**: `--to-branch` naming an existing branch (what the
    second `handle_git_automation` call of every `--to-branch` command does), and a rejected commit. -/
theorem C15_error_path_counterexample_before_fix :
    (gitAutoCommitOld isXvcPath { f4State with refs := [("main", 0), ("feat", 0)] } "m" (some "feat") true).g.stash ≠ [] ∧
    (gitAutoCommitOld isXvcPath { f4State with wt := ([".xvc", "x"], "x1") :: f4State.wt } "m" none false).g.stash ≠ [] ∧
    (gitAutoCommit isXvcPath { f4State with refs := [("main", 0), ("feat", 0)] } "m" (some "feat") true).g.stash = [] ∧
    (gitAutoCommit isXvcPath { f4State with wt := ([".xvc", "x"], "x1") :: f4State.wt } "m" none false).g.stash = [] := by
  decide

/-- **pathspec, before C15-pathspec.patch**: `*.gitignore` also matches the user's untracked
    `notes.gitignore`, which ends up in xvc's commit; with the exact-name pathspec it does not. -/
theorem C15_pathspec_counterexample_before_fix :
    let g : G := { f4State with index := f4State.headTree,
                                wt := [(["t.txt"], "t1"), ([".gitignore"], "gi1"), (["notes.gitignore"], "mine")] }
    isXvcPath ["notes.gitignore"] = false ∧
    (handleGitAutomation oldSpec ⟨true, true, false⟩ g "m" none true).g.headTree.find? ["notes.gitignore"] = some "mine" ∧
    (handleGitAutomation isXvcPath ⟨true, true, false⟩ g "m" none true).g.headTree.find? ["notes.gitignore"] = none ∧
    (handleGitAutomation isXvcPath ⟨true, true, false⟩ g "m" none true).g.headTree.find? [".gitignore"] = some "gi1" := by
  decide

end Git

open Git in
#print axioms C15_user_paths_untouched
open Git in
#print axioms C15_new_commit_on_top
open Git in
#print axioms C15_readonly_no_commit
open Git in
#print axioms C15_command
open Git in
#print axioms C15_outside_root
open Git in
#print axioms C15_command_readonly
open Git in
#print axioms C15_from_ref
open Git in
#print axioms C15_from_ref_not_a_reference
open Git in
#print axioms C15_no_git
open Git in
#print axioms C15_auto_stage
open Git in
#print axioms C15_refs_only_extended
open Git in
#print axioms C15_to_branch_existing_refused_refs_kept
open Git in
#print axioms C15_command_to_branch_existing
open Git in
#print axioms C15_to_branch_existing_witness
open Git in
#print axioms C15_to_branch_force_counterexample
open Git in
#print axioms C15_abort_outside_sandwich_keeps_user_state
open Git in
#print axioms C15_abort_inside_sandwich_counterexample
open Git in
#print axioms C15_nested_staged_outside_witness
open Git in
#print axioms C15_nested_relative_counterexample
open Git in
#print axioms C15_readonly_counterexample_before_fix
open Git in
#print axioms C15_readonly_witness_after_fix
open Git in
#print axioms C15_error_path_counterexample_before_fix
open Git in
#print axioms C15_pathspec_counterexample_before_fix
