import XvcConfig.Model
import XvcConfig.Gen.ConfigOrder
import XvcConfig.Gen.ConfigDefaults
/-!
  Line-protocol driver for the configuration model: one request per line on stdin, one canonical
  answer per line on stdout.  The Rust harness (`harness/src/bin/config_harness.rs`) answers the same
  requests with the real `xvc_config::XvcConfig::new`; the two streams are diffed by `lib/c20.py`.
  The model is run with the *regenerated* table `Cfg.Gen.applications`.
-/
open Cfg

structure DState where
  alias : Bool := false
  default : Toml := Gen.defaultToml
  files : List (Path × Toml) := []
  env : List (String × String) := []
  inc : List (Src × Bool) := []
  pathProject : Bool := true
  pathLocal : Bool := true
  cli : Option (List String) := none
  /- binary-level requests (`bin …`) -/
  sw : List Src := []

def hexVal (c : Char) : Option Nat :=
  if c.isDigit then some (c.toNat - 48)
  else if 'A' ≤ c ∧ c ≤ 'F' then some (c.toNat - 55)
  else if 'a' ≤ c ∧ c ≤ 'f' then some (c.toNat - 87)
  else none

def unescL : List Char → List Char
  | '%' :: a :: b :: r =>
    match hexVal a, hexVal b with
    | some x, some y => Char.ofNat (x * 16 + y) :: unescL r
    | _, _ => '%' :: unescL (a :: b :: r)
  | c :: r => c :: unescL r
  | [] => []

def unesc (s : String) : String := String.ofList (unescL s.toList)

def hexDigit (n : Nat) : Char := if n < 10 then Char.ofNat (48 + n) else Char.ofNat (55 + n)

def esc (s : String) : String :=
  String.ofList (s.toList.flatMap (fun c =>
    let u := c.toNat
    if u < 0x21 || u > 0x7e || c == '%' || c == '=' || c == '@' then ['%', hexDigit ((u % 256) / 16), hexDigit (u % 16)] else [c]))

def splitOnce (s : String) (sep : Char) : Option (String × String) :=
  let l := s.toList
  let a := l.takeWhile (· != sep)
  if a.length < l.length then some (String.ofList a, String.ofList (l.drop (a.length + 1))) else none

def parseLeaf (ty val : String) : Option Val :=
  match ty with
  | "s" => some (.str (unesc val))
  | "b" => if val == "true" then some (.bool true) else if val == "false" then some (.bool false) else none
  | "i" => (unesc val).toInt?.map .int
  | "f" => some (.float (unesc val))
  | _ => none

/-- tree tokens → items; returns the items and the remaining tokens (after the closing `]` if nested) -/
def parseItems : Nat → List String → Bool → Option (List (String × Toml) × List String)
  | 0, _, _ => none
  | _ + 1, [], top => if top then some ([], []) else none
  | fuel + 1, t :: rest, top =>
    if t == "]" then (if top then none else some ([], rest))
    else if t.endsWith "[" then
      match parseItems fuel rest false with
      | some (sub, rest') =>
        match parseItems fuel rest' top with
        | some (more, rest'') => some ((unesc (String.ofList (t.toList.dropLast)), .table sub) :: more, rest'')
        | none => none
      | none => none
    else
      match splitOnce t '=' with
      | some (k, v) =>
        match splitOnce v ':' with
        | some (ty, val) =>
          match parseLeaf ty val, parseItems fuel rest top with
          | some lv, some (more, rest'') => some ((unesc k, .leaf lv) :: more, rest'')
          | _, _ => none
        | none => none
      | none => none

def parseTree (toks : List String) : Option Toml :=
  match parseItems (toks.length + 2) toks true with
  | some (items, _) => some (.table items)
  | none => none

def srcOf : String → Option Src
  | "system" => some .system | "user" => some .user | "project" => some .project
  | "local" => some .localp | "env" => some .env | "cli" => some .cli | "default" => some .defaults
  | _ => none

def DState.slotPath (st : DState) (slot : String) : Path :=
  if slot == "system" && st.alias then "user" else slot

def setFile (fs : List (Path × Toml)) (p : Path) (t : Option Toml) : List (Path × Toml) :=
  let fs' := fs.filter (fun f => f.1 != p)
  match t with
  | some t => (p, t) :: fs'
  | none => fs'

def showVal : Val → String
  | .str s => "str:" ++ esc s
  | .bool b => "bool:" ++ toString b
  | .int i => "int:" ++ toString i
  | .float l => "float:" ++ l

def showConf (c : Conf) : String :=
  "ok " ++ " ".intercalate (c.map (fun e => esc e.1 ++ "=" ++ showVal e.2.1 ++ "@" ++ e.2.2.name))

def DState.params (st : DState) : Params :=
  { defaults := st.default
    «include» := fun s => (st.inc.lookup s).getD true
    projectPath := if st.pathProject then some "project" else none
    localPath := if st.pathLocal then some "local" else none
    cli := st.cli }

def DState.world (st : DState) : World :=
  { systemPath := some (st.slotPath "system"), userPath := some "user", files := st.files, env := st.env }

def step (st : DState) (line : String) : DState × String :=
  match line.splitOn " " with
  | ["platform", c] => ({ st with alias := c == "alias" }, "ok")
  | ["default", "builtin"] => ({ st with default := Gen.defaultToml }, "ok")
  | "default" :: rest =>
    match parseTree rest with
    | some t => ({ st with default := t }, "ok")
    | none => (st, "bad-op")
  | "file" :: slot :: kind :: rest =>
    if !(["system", "user", "project", "local"].contains slot) then (st, "bad-op") else
    let p := st.slotPath slot
    match kind with
    | "absent" => ({ st with files := setFile st.files p none }, "ok")
    | "invalid" => ({ st with files := setFile st.files p none }, "ok")
    | "tree" =>
      match parseTree rest with
      | some t => ({ st with files := setFile st.files p (some t) }, "ok")
      | none => (st, "bad-op")
    | _ => (st, "bad-op")
  | ["env", n, v] => ({ st with env := (st.env.filter (fun e => e.1 != unesc n)) ++ [(unesc n, unesc v)] }, "ok")
  | ["env", n] => ({ st with env := (st.env.filter (fun e => e.1 != unesc n)) ++ [(unesc n, "")] }, "ok")
  | ["inc", w, b] =>
    match srcOf w with
    | some s => ({ st with inc := (s, b == "1") :: st.inc }, "ok")
    | none => (st, "bad-op")
  | ["path", "project", b] => ({ st with pathProject := b == "1" }, "ok")
  | ["path", "local", b] => ({ st with pathLocal := b == "1" }, "ok")
  | ["cli", "none"] => ({ st with cli := none }, "ok")
  | "cli" :: "some" :: rest => ({ st with cli := some (rest.map unesc) }, "ok")
  | ["run"] =>
    let p := st.params
    if (p.cli.map cliPanics).getD false && (Gen.applications.any (fun e => e.1 == .cli && e.2.all (guardOk p))) then (st, "panic")
    else (st, showConf (configNew Gen.applications p st.world))
  -- binary level: `sw <src>*` sets the --no-*-config switches, `binrun <elem>*` = get_xvc_config_params + XvcRootInner::new + XvcConfig::new
  | "sw" :: rest => ({ st with sw := rest.filterMap srcOf }, "ok")
  | "binrun" :: rest =>
    -- `XvcCLI::consolidate_config_options`: the -c elements, then verbosity and quiet (here: no -v, no --quiet)
    let elems := (rest.filter (· != "")).map unesc ++ ["core.verbosity = quiet", "core.quiet = false"]
    let p0 := cliParams Gen.wiring (fun s => st.sw.contains s) st.default "" elems
    let p := { p0 with projectPath := some "project", localPath := some "local" }
    if cliPanics elems then (st, "panic") else (st, showConf (configNew Gen.applications p st.world))
  | [""] => (st, "")
  | _ => (st, "bad-op")

partial def loop (h : IO.FS.Stream) (out : IO.FS.Stream) (st : DState) : IO Unit := do
  let line ← h.getLine
  if line.isEmpty then return ()
  let l := if line.endsWith "\n" then String.ofList line.toList.dropLast else line
  if l == "reset" then
    out.putStrLn "ok"
    loop h out {}
  else
    let (st', ans) := step st l
    out.putStrLn ans
    loop h out st'

def main : IO Unit := do
  let stdin ← IO.getStdin
  let stdout ← IO.getStdout
  loop stdin stdout {}
