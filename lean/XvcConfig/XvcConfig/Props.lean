import XvcConfig.Model
import XvcConfig.Lemmas
import XvcConfig.Gen.ConfigOrder
import XvcConfig.Gen.ConfigDefaults
/-!
  # C20 — Configuration sources override each other in the documented order

  Property theorems only (helper lemmas are in `Lemmas.lean`).  `Cfg.Gen.*` are the tables the
  translator regenerates from the Rust source on every run; the theorems about `resolve`, `layers`
  and `configNew` hold for **every** list of layers / every table / every parameter set and world,
  the `…_documented` theorems pin the regenerated tables to what the documentation promises.
-/
namespace Cfg

/-! ## C20.1  the order of the sources is the documented one -/

/-- defaults < system < user < project < local < environment < command line, read off the code. -/
theorem C20_order_documented :
    Gen.order = [.defaults, .system, .user, .project, .localp, .env, .cli] := by decide

/-- Every application is guarded only by its *own* include flag / its own presence test: no negated
    flag, no flag of another source. -/
theorem C20_guards_documented :
    ∀ e ∈ Gen.applications, ∀ g ∈ e.2, g = .flag e.1 ∨ g = .present e.1 := by decide

/-- Every switch that `get_xvc_config_params` reads is read negated (`include = !no_…`), and the flag
    it feeds guards exactly the application of its own source in `XvcConfig::new`. -/
theorem C20_switches_documented :
    ∀ s ∈ Gen.wired, Gen.wiring.lookup s = some true ∧ ownGuards Gen.applications s = true := by decide

/-! ## C20.2  the highest-priority source that defines a key wins -/

/-- For ALL lists of layers: the effective value of `k` (with its source tag) is the one of the last
    layer that defines `k` (`specLookup` is that specification, written without the fold). -/
theorem C20_highest_wins (ls : List Layer) (k : Key) :
    (resolve ls).find? k = specLookup ls k := find?_resolve ls k

/-- The same, spelled out: whenever the layer list splits as `pre ++ l :: post` with `l` defining `k`
    and nobody after `l` defining it, the result is `l`'s value tagged with `l`'s source —
    whatever the lower-priority layers `pre` say. -/
theorem C20_highest_wins_last (pre post : List Layer) (l : Layer) (k : Key) (v : Val)
    (hl : l.defines k = some v) (hpost : ∀ l' ∈ post, l'.defines k = none) :
    (resolve (pre ++ l :: post)).find? k = some (v, l.1) := by
  rw [find?_resolve, specLookup_append]
  have : specLookup (l :: post) k = some (v, l.1) := by
    simp only [specLookup, (specLookup_eq_none_iff post k).mpr hpost, hl, Option.map_some]
  rw [this]

/-- `none` iff nobody defines the key. -/
theorem C20_undefined_iff (ls : List Layer) (k : Key) :
    (resolve ls).find? k = none ↔ ∀ l ∈ ls, l.defines k = none := by
  rw [find?_resolve]; exact specLookup_eq_none_iff ls k

/-- The effective value always comes from one of the layers, with that layer's tag. -/
theorem C20_value_from_a_source (ls : List Layer) (k : Key) (v : Val) (s : Src)
    (h : (resolve ls).find? k = some (v, s)) : ∃ l ∈ ls, l.1 = s ∧ l.defines k = some v := by
  rw [find?_resolve] at h; exact specLookup_some_mem h

/-- `XvcConfig::new` is this fold, for every table, parameter set and world. -/
theorem C20_new_highest_wins (tbl : Table) (p : Params) (w : World) (k : Key) :
    (configNew tbl p w).find? k = specLookup (layers tbl p w) k := find?_resolve _ k

-- non-vacuity: three layers, the middle one is the last to define `a`
example : (resolve [(.defaults, [("a", .str "d"), ("b", .int 1)]), (.user, [("a", .str "u")]), (.env, [("b", .int 2)])]).find? "a"
    = some (.str "u", .user) := by decide
example : (Layer.defines (.user, [("a", .str "u")]) "a" = some (.str "u")) ∧
    (∀ l' ∈ [((.env, [("b", .int 2)]) : Layer)], Layer.defines l' "a" = none) := by decide

/-! ## C20.3  disabling a source removes exactly that source -/

/-- Dropping the disabled layers is the same as emptying exactly them (all other layers untouched),
    for every layer list and every set of disabled sources. -/
theorem C20_disable_exact (en : Src → Bool) (ls : List Layer) :
    resolve (ls.filter (fun l => en l.1)) =
      resolve (ls.map (fun l => if en l.1 then l else (l.1, []))) :=
  foldl_filter_eq_map en ls []

/-- Disabling sources that do not define `k` changes nothing for `k`. -/
theorem C20_disable_others_unchanged (en : Src → Bool) (ls : List Layer) (k : Key)
    (h : ∀ l ∈ ls, en l.1 = false → l.defines k = none) :
    (resolve (ls.filter (fun l => en l.1))).find? k = (resolve ls).find? k := by
  rw [find?_resolve, find?_resolve]; exact specLookup_filter en ls k h

/-- After disabling, the winner is the last *enabled* layer that defines `k`, whatever the disabled
    layers contain. -/
theorem C20_disable_removes (en : Src → Bool) (pre post : List Layer) (l : Layer) (k : Key) (v : Val)
    (hen : en l.1 = true) (hl : l.defines k = some v)
    (hpost : ∀ l' ∈ post, en l'.1 = true → l'.defines k = none) :
    (resolve ((pre ++ l :: post).filter (fun l => en l.1))).find? k = some (v, l.1) := by
  rw [List.filter_append, List.filter_cons, if_pos hen]
  apply C20_highest_wins_last _ _ l k v hl
  intro l' hl'
  rw [List.mem_filter] at hl'
  exact hpost l' hl'.1 hl'.2

-- non-vacuity of C20_disable_others_unchanged: the disabled layer (env) does not define `a`, two others do
example : ∀ l ∈ [((.defaults, [("a", .str "d")]) : Layer), (.user, [("a", .str "u")]), (.env, [("b", .int 2)])],
    (fun s => s != Src.env) l.1 = false → Layer.defines l "a" = none := by decide
-- non-vacuity of C20_disable_removes: local is disabled, user is the last enabled layer defining `a`
example : (resolve ([((.defaults, [("a", .str "d")]) : Layer), (.user, [("a", .str "u")]), (.localp, [("a", .str "l")])].filter
    (fun l => l.1 != .localp))).find? "a" = some (.str "u", .user) := by decide

/-- The command-line switches, for every table and wiring: if every switched-off source is wired
    (negated) and its flag guards exactly its own application, then the layers `XvcConfig::new`
    applies under the switches are the layers without switches minus exactly the switched-off
    sources. -/
theorem C20_switches_exact (wiring : List (Src × Bool)) (tbl : Table) (sw : Switches)
    (d : Toml) (root : Path) (cli : List String) (w : World)
    (h : ∀ s, sw s = true → wiring.lookup s = some true ∧ ownGuards tbl s = true) :
    layers tbl (cliParams wiring sw d root cli) w =
      (layers tbl (cliParams wiring (fun _ => false) d root cli) w).filter (fun l => !sw l.1) := by
  have hcont : content (cliParams wiring sw d root cli) w = content (cliParams wiring (fun _ => false) d root cli) w :=
    content_congr _ _ w rfl rfl rfl rfl
  have hinc_off : ∀ s, sw s = true → (cliParams wiring sw d root cli).include s = false := by
    intro s hs; simp [cliParams, (h s hs).1, hs]
  have hinc_same : ∀ s, sw s = false →
      (cliParams wiring sw d root cli).include s = (cliParams wiring (fun _ => false) d root cli).include s := by
    intro s hs; simp only [cliParams, hs]
  -- only membership facts about the table are needed
  have hown : ∀ e ∈ tbl, ∀ s, sw s = true →
      (e.1 = s → Guard.flag s ∈ e.2) ∧ (e.1 ≠ s → Guard.flag s ∉ e.2 ∧ Guard.nflag s ∉ e.2) := by
    intro e he s hs
    have := (h s hs).2
    simp only [ownGuards, List.all_eq_true] at this
    have := this e he
    constructor
    · intro h1; simpa [h1] using this
    · intro h1; simpa [h1] using this
  clear h
  induction tbl with
  | nil => rfl
  | cons e rest ih =>
    have ih' := ih (fun e' he' => hown e' (List.mem_cons_of_mem _ he'))
    have hown_e := hown e List.mem_cons_self
    simp only [layers, List.filterMap_cons] at ih' ⊢
    rw [ih']
    by_cases hs : sw e.1 = true
    · -- the source is switched off: its own flag is among the guards, so it is skipped; on the right it is filtered out
      have hflag : Guard.flag e.1 ∈ e.2 := (hown_e e.1 hs).1 rfl
      have hfail : e.2.all (guardOk (cliParams wiring sw d root cli)) = false := by
        rw [List.all_eq_false]
        exact ⟨Guard.flag e.1, hflag, by simp [guardOk, hinc_off e.1 hs]⟩
      simp only [hfail, Bool.false_eq_true, if_false]
      split
      · rfl
      · rename_i l hl
        rw [List.filter_cons]
        have : l.1 = e.1 := by
          split at hl
          · cases hc : content (cliParams wiring (fun _ => false) d root cli) w e.1 with
            | none => simp [hc] at hl
            | some c => simp only [hc, Option.map_some, Option.some.injEq] at hl; rw [← hl]
          · cases hl
        simp only [this, hs, Bool.not_true, Bool.false_eq_true, if_false]
    · -- the source is not switched off: all its guards evaluate alike under both parameter sets
      have hs' : sw e.1 = false := by simpa using hs
      have hg : ∀ g ∈ e.2, guardOk (cliParams wiring sw d root cli) g = guardOk (cliParams wiring (fun _ => false) d root cli) g := by
        intro g hg
        cases g with
        | flag t =>
          by_cases ht : sw t = true
          · have hne : e.1 ≠ t := fun heq => by rw [heq] at hs'; rw [hs'] at ht; cases ht
            exact absurd hg ((hown_e t ht).2 hne).1
          · simp only [guardOk]; exact hinc_same t (by simpa using ht)
        | nflag t =>
          by_cases ht : sw t = true
          · have hne : e.1 ≠ t := fun heq => by rw [heq] at hs'; rw [hs'] at ht; cases ht
            exact absurd hg ((hown_e t ht).2 hne).2
          · simp only [guardOk]; rw [hinc_same t (by simpa using ht)]
        | present t => cases t <;> rfl
      have hall : e.2.all (guardOk (cliParams wiring sw d root cli)) = e.2.all (guardOk (cliParams wiring (fun _ => false) d root cli)) :=
        all_congr_mem _ _ _ hg
      rw [hall, hcont]
      split
      · rfl
      · rename_i l hl
        rw [List.filter_cons]
        have : l.1 = e.1 := by
          split at hl
          · cases hc : content (cliParams wiring (fun _ => false) d root cli) w e.1 with
            | none => simp [hc] at hl
            | some c => simp only [hc, Option.map_some, Option.some.injEq] at hl; rw [← hl]
          · cases hl
        simp only [this, hs', Bool.not_false, if_true]

/-- `_partial` (K5a): instantiated with the regenerated tables, every combination of the switches
    **that `get_xvc_config_params` actually reads** removes exactly the switched-off sources.  The
    excluded region (`sw s` for an `s ∉ Gen.wired`) is decidable; on the unrepaired tree it is
    `--no-project-config` and `--no-local-config`, see `C20_unwired_switch_counterexample`. -/
theorem C20_switches_remove_exactly_partial (sw : Switches) (hsw : ∀ s, sw s = true → s ∈ Gen.wired)
    (d : Toml) (root : Path) (cli : List String) (w : World) :
    configNew Gen.applications (cliParams Gen.wiring sw d root cli) w =
      resolve ((layers Gen.applications (cliParams Gen.wiring (fun _ => false) d root cli) w).filter (fun l => !sw l.1)) := by
  unfold configNew
  rw [C20_switches_exact Gen.wiring Gen.applications sw d root cli w
    (fun s hs => C20_switches_documented s (hsw s hs))]

/-- The five documented switches. -/
def documentedSwitches : List Src := [.system, .user, .project, .localp, .env]

/-- Full strength, conditional on a *decidable fact about the regenerated table* (`lib/c20.py` reads
    the same table: when the fact is false it demands the failing replay of the unwired switch): if
    all five documented switches are wired, EVERY combination of the five switches removes exactly
    the switched-off sources.  (There is no switch for the defaults and for `-c` itself.) -/
theorem C20_switches_remove_exactly (hall : documentedSwitches.all (fun s => Gen.wired.contains s) = true)
    (sw : Switches) (hv : sw .defaults = false ∧ sw .cli = false)
    (d : Toml) (root : Path) (cli : List String) (w : World) :
    configNew Gen.applications (cliParams Gen.wiring sw d root cli) w =
      resolve ((layers Gen.applications (cliParams Gen.wiring (fun _ => false) d root cli) w).filter (fun l => !sw l.1)) := by
  apply C20_switches_remove_exactly_partial
  intro s hs
  simp only [documentedSwitches, List.all_cons, List.all_nil, Bool.and_true, Bool.and_eq_true, List.contains_eq_mem,
    decide_eq_true_eq] at hall
  cases s with
  | defaults => rw [hv.1] at hs; cases hs
  | cli => rw [hv.2] at hs; cases hs
  | system => exact hall.1
  | user => exact hall.2.1
  | project => exact hall.2.2.1
  | localp => exact hall.2.2.2.1
  | env => exact hall.2.2.2.2

/-- A switch that the code does not read changes nothing at all. -/
theorem C20_unwired_switch_noop (wiring : List (Src × Bool)) (sw sw' : Switches)
    (h : ∀ s, (wiring.lookup s).isSome → sw s = sw' s) (d : Toml) (root : Path) (cli : List String) :
    cliParams wiring sw d root cli = cliParams wiring sw' d root cli := by
  unfold cliParams
  congr 1
  funext s
  cases hl : wiring.lookup s with
  | none => rfl
  | some b => have := h s (by simp [hl]); cases b <;> simp [this]

/-- The table and wiring of the documentation: all five switches read, every flag guarding its own
    source (used by the witnesses below; the regenerated tables are `Gen.applications`/`Gen.wiring`). -/
def docWiringUnrepaired : List (Src × Bool) := [(.system, true), (.user, true), (.env, true)]

def witnessWorld : World :=
  { systemPath := some "/home/u/.config/xvc", userPath := some "/home/u/.config/xvc",
    files := [("/r/.xvc/config.local.toml", .table [("cache", .table [("algorithm", .leaf (.str "sha2"))])]),
              ("/home/u/.config/xvc", .table [("cache", .table [("algorithm", .leaf (.str "sha3"))])])],
    env := [] }

def witnessDefaults : Toml := .table [("cache", .table [("algorithm", .leaf (.str "blake3"))])]

/-- K5a (witness on the model of the unrepaired code): `get_xvc_config_params` does not read
    `--no-local-config`; with that wiring the switch leaves the local value in force. -/
theorem C20_unwired_switch_counterexample :
    (configNew [(.defaults, []), (.system, [.flag .system]), (.user, [.flag .user]), (.project, [.present .project]),
        (.localp, [.present .localp]), (.env, [.flag .env]), (.cli, [.present .cli])]
      (cliParams docWiringUnrepaired (fun s => s = .localp) witnessDefaults "/r" []) witnessWorld).find? "cache.algorithm"
      = some (.str "sha2", .localp) := by decide

/-- K5b (witness): on a platform where `system_config_file()` and `user_config_file()` are the same
    path, `--no-user-config` does not remove the values of the user's file (they are still loaded
    as "system"), although the switch is wired and removes the layer tagged `user`. -/
theorem C20_system_user_alias_counterexample :
    (configNew [(.defaults, []), (.system, [.flag .system]), (.user, [.flag .user]), (.project, [.present .project]),
        (.localp, [.present .localp]), (.env, [.flag .env]), (.cli, [.present .cli])]
      (cliParams docWiringUnrepaired (fun s => s = .user) witnessDefaults "/nowhere" []) witnessWorld).find? "cache.algorithm"
      = some (.str "sha3", .system) := by decide

-- non-vacuity of C20_switches_remove_exactly: a switch combination inside `Gen.wired`
example : ∀ s, (fun s => s = Src.system || s = Src.env) s = true → s ∈ Gen.wired := by
  intro s; cases s <;> decide

/-! ## C20.4  values keep their type across sources -/

/-- If every layer that defines `k` gives a value of constructor `t`, so does the result. -/
theorem C20_types_kept (ls : List Layer) (k : Key) (t : Ty)
    (h : ∀ l ∈ ls, ∀ v, l.defines k = some v → v.ty = t) (v : Val) (s : Src)
    (hr : (resolve ls).find? k = some (v, s)) : v.ty = t := by
  obtain ⟨l, hm, _, hd⟩ := C20_value_from_a_source ls k v s hr
  exact h l hm v hd

example : ∀ l ∈ [((.defaults, [("n", .int 4)]) : Layer), (.project, [("n", .int 8)]), (.cli, [("m", .str "x")])],
    ∀ v, Layer.defines l "n" = some v → v.ty = Ty.int := by decide

/-- A boolean written as text in `XVC_…` / `-c` comes back as the same boolean. -/
theorem C20_parse_render_bool (b : Bool) : parseToValue (Val.render (.bool b)) = .bool b := by
  cases b <;> decide

/-- An integer of the `i64` range written as text comes back as the same integer. -/
theorem C20_parse_render_int (i : Int) (hlo : i64Min ≤ i) (hhi : i ≤ i64Max) :
    parseToValueL (Val.renderL (.int i)) = .int i := by
  simp only [Val.renderL]
  rcases renderInt_spec i with ⟨n, hi, hr⟩ | ⟨n, hi, hr⟩
  · rw [hr]
    unfold parseToValueL
    rw [parseBoolL_renderNat, parseI64L_of_parseNat (parseNat_renderNat n)]
    subst hi
    simp [hlo, hhi]
  · rw [hr]
    have hb : parseBoolL ('-' :: renderNat (n + 1)) = none := by
      cases hb : parseBoolL ('-' :: renderNat (n + 1)) with
      | none => rfl
      | some b =>
        rcases parseBoolL_some hb with h | h
        · exact absurd (List.cons.inj h).1 (by decide)
        · exact absurd (List.cons.inj h).1 (by decide)
    unfold parseToValueL
    rw [hb]
    have : parseI64L ('-' :: renderNat (n + 1)) = some i := by
      simp only [parseI64L, parseNat_renderNat, Option.map_some]
      have e : -Int.ofNat (n + 1) = i := by subst hi; simp only [Int.ofNat_eq_natCast]; omega
      rw [e]; simp [hlo, hhi]
    rw [this]

example : parseToValueL (Val.renderL (.int (-42))) = .int (-42) ∧ (i64Min ≤ (-42 : Int) ∧ (-42 : Int) ≤ i64Max) := by decide

/-- `_partial`: a string value comes back as the same string **unless** its text is a bool, `i64`
    or `f64` literal (the hypotheses are decidable).  The excluded region is exactly K5c. -/
theorem C20_string_kept_partial (s : String)
    (hb : parseBoolL s.toList = none) (hi : parseI64L s.toList = none) (hf : isFloatLitL s.toList = false) :
    parseToValue (Val.render (.str s)) = .str s := by
  simp [parseToValue, Val.render, Val.renderL, parseToValueL, hb, hi, hf]

example : parseBoolL "sha2".toList = none ∧ parseI64L "sha2".toList = none ∧ isFloatLitL "sha2".toList = false := by decide

/-- A sufficient, easily recognised condition: a text that starts with a letter and is not one of
    the five keywords (case-insensitively for the float keywords) stays a string.  All string values
    of the default configuration and all documented values of its keys are of this form. -/
theorem C20_word_stays_string (c : Char) (r : List Char) (hc : isLetter c = true)
    (hkw : (c :: r) ≠ "true".toList ∧ (c :: r) ≠ "false".toList ∧ isSpecialFloat (c :: r) = false) :
    parseToValueL (c :: r) = .str (String.ofList (c :: r)) := by
  have hnd : isDigit c = false := by
    cases hd : isDigit c with
    | false => rfl
    | true =>
      simp only [isLetter, isDigit, Bool.or_eq_true, Bool.and_eq_true, decide_eq_true_eq] at hc hd
      omega
  have h1 : c ≠ '-' := by intro h; subst h; revert hc; decide
  have h2 : c ≠ '+' := by intro h; subst h; revert hc; decide
  have h3 : c ≠ '.' := by intro h; subst h; revert hc; decide
  have hb : parseBoolL (c :: r) = none := by
    unfold parseBoolL; rw [if_neg hkw.1, if_neg hkw.2.1]
  have hn : parseNat (c :: r) = none := by simp [parseNat, parseNatAux, hnd]
  have hi : parseI64L (c :: r) = none := by
    unfold parseI64L
    split
    · rename_i r' heq; exact absurd (List.cons.inj heq).1 h1
    · rename_i r' heq; exact absurd (List.cons.inj heq).1 h2
    · rw [hn]; rfl
  have hds : dropSign (c :: r) = c :: r := by
    unfold dropSign
    split
    · rename_i r' heq'; exact absurd (List.cons.inj heq').1 h2
    · rename_i r' heq'; exact absurd (List.cons.inj heq').1 h1
    · rfl
  have hnum : isNumber (c :: r) = false := by
    unfold isNumber
    simp only [spanDigits, hnd, Bool.false_eq_true, if_false]
    split
    · rename_i r2 heq; exact absurd (List.cons.inj heq).1 h3
    · simp
  have hf : isFloatLitL (c :: r) = false := by
    simp only [isFloatLitL, hds, hkw.2.2, hnum, Bool.or_self]
  simp [parseToValueL, hb, hi, hf]

example : parseToValue "blake3" = .str "blake3" ∧ parseToValue "copy" = .str "copy" ∧
    parseToValue "name-desc" = .str "name-desc" ∧ parseToValue "params.yaml" = .str "params.yaml" := by decide
example : (isLetter 'b' = true) ∧ ("blake3".toList ≠ "true".toList ∧ "blake3".toList ≠ "false".toList ∧
    isSpecialFloat "blake3".toList = false) := by decide

/-- K5c (witness): a string-typed key given a numeric-looking (or boolean-, float-looking) value
    through `-c` or `XVC_…` changes type: the default is a string, the result is an integer, and
    `get_str` fails on it. -/
theorem C20_numeric_string_counterexample :
    parseToValue (Val.render (.str "1")) = .int 1 ∧
    parseToValue (Val.render (.str "true")) = .bool true ∧
    parseToValue (Val.render (.str "1e5")) = .float "1e5" ∧
    parseToValue (Val.render (.str "nan")) = .float "nan" ∧
    ((configNew Gen.applications
        { defaults := .table [("core", .table [("verbosity", .leaf (.str "error"))])], «include» := fun _ => true,
          projectPath := none, localPath := none, cli := some ["core.verbosity=1"] }
        { systemPath := none, userPath := none, files := [], env := [] }).find? "core.verbosity").map (fun x => x.1.ty)
      = some .int := by decide

/-- `_partial` at the level of `XvcConfig::new`: when every source that defines `k` writes the
    *text* of a round-tripping value (`parseToValue (render v) = v`, i.e. bool, in-range int, or a
    string outside the literal grammar) the effective value is the value meant by the
    highest-priority source — type included. -/
theorem C20_types_kept_partial (pre post : List Layer) (s : Src) (kvs : List (Key × Val)) (k : Key) (v : Val)
    (hround : parseToValue v.render = v)
    (hdef : lastVal kvs k = some (parseToValue v.render))
    (hpost : ∀ l' ∈ post, l'.defines k = none) :
    (resolve (pre ++ (s, kvs) :: post)).find? k = some (v, s) := by
  rw [hround] at hdef
  exact C20_highest_wins_last pre post (s, kvs) k v hdef hpost

example : parseToValue (Val.render (.bool true)) = .bool true ∧
    lastVal [("git.auto_commit", parseToValue (Val.render (.bool true)))] "git.auto_commit" = some (parseToValue (Val.render (.bool true))) := by decide

/-! ## C20.5  every key of the default configuration resolves -/

/-- `toml_value_to_hashmap` on the document of the crate's own unit test. -/
example : flatten "" (.table [("core", .table [("foo", .leaf (.str "bar")), ("val", .leaf (.int 100))])])
    = [("core.foo", .str "bar"), ("core.val", .int 100)] := by decide


/-- The regenerated key table is the flattening of the regenerated default document. -/
theorem C20_default_keys_flatten :
    (flatten "" Gen.defaultToml).map (fun kv => (kv.1, kv.2.ty)) = Gen.defaultKeys := by decide

/-- For every parameter set whose default configuration is the built-in one, every world (files,
    environment, command line) and every switch setting: every default key has an effective value. -/
theorem C20_default_keys_total (p : Params) (w : World) (hd : p.defaults = Gen.defaultToml)
    (k : Key) (hk : k ∈ Gen.defaultKeys.map (·.1)) :
    ((configNew Gen.applications p w).find? k).isSome = true := by
  cases hf : (configNew Gen.applications p w).find? k with
  | some x => rfl
  | none =>
    have hnone := (C20_undefined_iff _ k).mp hf
    have hmem : ((.defaults, flatten "" Gen.defaultToml) : Layer) ∈ layers Gen.applications p w := by
      simp [layers, Gen.applications, content, hd]
    have h1 := hnone _ hmem
    have hk' : k ∈ (flatten "" Gen.defaultToml).map (·.1) := by
      have := C20_default_keys_flatten
      have h2 : Gen.defaultKeys.map (·.1) = (flatten "" Gen.defaultToml).map (·.1) := by
        rw [← this, List.map_map]; rfl
      rw [← h2]; exact hk
    have h3 := lastVal_isSome_of_mem _ k hk'
    simp only [Layer.defines] at h1
    rw [h1] at h3; cases h3

/-- Keys of the default configuration also keep their default *type* as long as every other source
    that defines them supplies a value of that type. -/
theorem C20_default_key_type (p : Params) (w : World) (k : Key) (t : Ty)
    (h : ∀ l ∈ layers Gen.applications p w, ∀ v, l.defines k = some v → v.ty = t)
    (v : Val) (s : Src) (hr : (configNew Gen.applications p w).find? k = some (v, s)) : v.ty = t :=
  C20_types_kept _ k t h v s hr

example : ("cache.algorithm" ∈ Gen.defaultKeys.map (·.1)) ∧ ("pipeline.process_pool_size", Ty.int) ∈ Gen.defaultKeys ∧
    ("git.auto_commit", Ty.bool) ∈ Gen.defaultKeys := by decide

end Cfg

open Cfg in
#print axioms C20_order_documented
#print axioms Cfg.C20_guards_documented
#print axioms Cfg.C20_switches_documented
#print axioms Cfg.C20_highest_wins
#print axioms Cfg.C20_highest_wins_last
#print axioms Cfg.C20_undefined_iff
#print axioms Cfg.C20_value_from_a_source
#print axioms Cfg.C20_new_highest_wins
#print axioms Cfg.C20_disable_exact
#print axioms Cfg.C20_disable_others_unchanged
#print axioms Cfg.C20_disable_removes
#print axioms Cfg.C20_switches_exact
#print axioms Cfg.C20_switches_remove_exactly_partial
#print axioms Cfg.C20_switches_remove_exactly
#print axioms Cfg.C20_unwired_switch_noop
#print axioms Cfg.C20_unwired_switch_counterexample
#print axioms Cfg.C20_system_user_alias_counterexample
#print axioms Cfg.C20_types_kept
#print axioms Cfg.C20_parse_render_bool
#print axioms Cfg.C20_parse_render_int
#print axioms Cfg.C20_string_kept_partial
#print axioms Cfg.C20_word_stays_string
#print axioms Cfg.C20_numeric_string_counterexample
#print axioms Cfg.C20_types_kept_partial
#print axioms Cfg.C20_default_keys_flatten
#print axioms Cfg.C20_default_keys_total
#print axioms Cfg.C20_default_key_type
