import XvcConfig.Model
/-!
  Helper lemmas for the C20 property theorems (`Props.lean`): lookup after `set`, after one layer,
  after a fold of layers; the specification function `specLookup`; decimal rendering/parsing.
-/
namespace Cfg

/-! ## association-list lookups -/

theorem Conf.find?_set (m : Conf) (k k' : Key) (x : Val × Src) :
    (m.set k x).find? k' = if k = k' then some x else m.find? k' := by
  induction m with
  | nil =>
    simp only [Conf.set, Conf.find?]
  | cons e rest ih =>
    obtain ⟨k0, y⟩ := e
    simp only [Conf.set]
    by_cases h0 : k0 = k
    · subst h0
      simp only [if_true, Conf.find?]
      by_cases h : k0 = k' <;> simp [h]
    · simp only [h0, if_false, Conf.find?, ih]
      by_cases h1 : k0 = k'
      · subst h1
        have : ¬ k = k0 := fun h => h0 h.symm
        simp [this]
      · simp [h1]

theorem find?_foldl_set (s : Src) (kvs : List (Key × Val)) (m : Conf) (k : Key) :
    (kvs.foldl (fun m kv => m.set kv.1 (kv.2, s)) m).find? k =
      match lastVal kvs k with
      | some v => some (v, s)
      | none => m.find? k := by
  induction kvs generalizing m with
  | nil => simp [lastVal]
  | cons kv rest ih =>
    obtain ⟨k', v⟩ := kv
    simp only [List.foldl_cons, ih, lastVal]
    cases hl : lastVal rest k with
    | some w => simp
    | none =>
      simp only [Conf.find?_set]
      by_cases h : k' = k <;> simp [h]

/-- Lookup after `update_from_hash_map`: the layer's own value if it defines the key, else the old one. -/
theorem find?_applyLayer (m : Conf) (l : Layer) (k : Key) :
    (applyLayer m l).find? k =
      match l.defines k with
      | some v => some (v, l.1)
      | none => m.find? k := by
  unfold applyLayer Layer.defines
  exact find?_foldl_set l.1 l.2 m k

theorem find?_foldl_applyLayer (ls : List Layer) (m : Conf) (k : Key) :
    (ls.foldl applyLayer m).find? k =
      match specLookup ls k with
      | some x => some x
      | none => m.find? k := by
  induction ls generalizing m with
  | nil => simp [specLookup]
  | cons l rest ih =>
    simp only [List.foldl_cons, ih, specLookup]
    cases hs : specLookup rest k with
    | some x => simp
    | none =>
      simp only [find?_applyLayer]
      cases hd : l.defines k <;> simp

theorem find?_resolve (ls : List Layer) (k : Key) : (resolve ls).find? k = specLookup ls k := by
  unfold resolve
  rw [find?_foldl_applyLayer]
  cases specLookup ls k <;> simp [Conf.find?]

theorem specLookup_append (a b : List Layer) (k : Key) :
    specLookup (a ++ b) k =
      match specLookup b k with
      | some x => some x
      | none => specLookup a k := by
  induction a with
  | nil => cases h : specLookup b k <;> simp [specLookup, h]
  | cons l rest ih =>
    simp only [List.cons_append, specLookup, ih]
    cases specLookup b k <;> simp

theorem specLookup_eq_none_iff (ls : List Layer) (k : Key) :
    specLookup ls k = none ↔ ∀ l ∈ ls, l.defines k = none := by
  induction ls with
  | nil => simp [specLookup]
  | cons l rest ih =>
    simp only [specLookup, List.mem_cons, forall_eq_or_imp]
    cases hs : specLookup rest k with
    | some x =>
      simp only [reduceCtorEq, false_iff, not_and]
      intro _ hall
      exact absurd (ih.mpr hall) (by simp [hs])
    | none =>
      have := ih.mp hs
      cases hd : l.defines k with
      | none => simp; exact fun a b h => this (a, b) h
      | some w => simp

theorem specLookup_some_mem {ls : List Layer} {k : Key} {v : Val} {s : Src}
    (h : specLookup ls k = some (v, s)) : ∃ l ∈ ls, l.1 = s ∧ l.defines k = some v := by
  induction ls with
  | nil => simp [specLookup] at h
  | cons l rest ih =>
    simp only [specLookup] at h
    cases hs : specLookup rest k with
    | some x =>
      rw [hs] at h
      simp only [Option.some.injEq] at h
      subst h
      obtain ⟨l', hm, h1, h2⟩ := ih hs
      exact ⟨l', List.mem_cons_of_mem _ hm, h1, h2⟩
    | none =>
      rw [hs] at h
      cases hd : l.defines k with
      | none => simp [hd] at h
      | some w =>
        simp only [hd, Option.map_some, Option.some.injEq, Prod.mk.injEq] at h
        exact ⟨l, List.mem_cons_self, h.2, by rw [hd, h.1]⟩

theorem specLookup_filter (en : Src → Bool) (ls : List Layer) (k : Key)
    (h : ∀ l ∈ ls, en l.1 = false → l.defines k = none) :
    specLookup (ls.filter (fun l => en l.1)) k = specLookup ls k := by
  induction ls with
  | nil => rfl
  | cons l rest ih =>
    have ih' := ih (fun l' hl' => h l' (List.mem_cons_of_mem _ hl'))
    by_cases he : en l.1 = true
    · simp only [List.filter_cons, he, if_true, specLookup, ih']
    · have he' : en l.1 = false := by simpa using he
      have hd := h l List.mem_cons_self he'
      have hf : (l :: rest).filter (fun l => en l.1) = rest.filter (fun l => en l.1) := by
        simp [he']
      rw [hf, ih']
      simp only [specLookup, hd, Option.map_none]
      cases specLookup rest k <;> rfl

theorem applyLayer_empty (m : Conf) (s : Src) : applyLayer m (s, []) = m := rfl

theorem foldl_filter_eq_map (en : Src → Bool) (ls : List Layer) (m : Conf) :
    (ls.filter (fun l => en l.1)).foldl applyLayer m =
      (ls.map (fun l => if en l.1 then l else (l.1, []))).foldl applyLayer m := by
  induction ls generalizing m with
  | nil => rfl
  | cons l rest ih =>
    by_cases he : en l.1 = true
    · simp only [List.filter_cons, he, if_true, List.map_cons, List.foldl_cons, ih]
    · have he' : en l.1 = false := by simpa using he
      have hf : (l :: rest).filter (fun l => en l.1) = rest.filter (fun l => en l.1) := by
        simp [he']
      rw [hf, ih]
      simp [he', applyLayer_empty]

/-! ## decimal rendering and parsing -/

theorem digitChar_ok : ∀ d, d < 10 →
    isDigit (Char.ofNat (48 + d)) = true ∧ (Char.ofNat (48 + d)).toNat - 48 = d := by decide

theorem parseNatAux_snoc (l : List Char) (c : Char) (acc : Nat) :
    parseNatAux (l ++ [c]) acc =
      (parseNatAux l acc).bind (fun a => if isDigit c then some (a * 10 + (c.toNat - 48)) else none) := by
  induction l generalizing acc with
  | nil => simp [parseNatAux]
  | cons d r ih =>
    simp only [List.cons_append, parseNatAux]
    split
    · exact ih _
    · simp

theorem parseNatAux_digitsRev (fuel n : Nat) (h : n < fuel) :
    parseNatAux (digitsRev fuel n).reverse 0 = some n := by
  induction fuel generalizing n with
  | zero => omega
  | succ f ih =>
    have hd := digitChar_ok (n % 10) (Nat.mod_lt _ (by omega))
    simp only [digitsRev, List.reverse_cons, parseNatAux_snoc]
    by_cases h0 : n / 10 = 0
    · simp only [h0, if_true, List.reverse_nil, parseNatAux, Option.bind_some, hd.1, hd.2]
      congr 1; omega
    · simp only [h0, if_false]
      rw [ih (n / 10) (by omega)]
      simp only [Option.bind_some, hd.1, if_true, hd.2]
      congr 1; omega

theorem renderNat_ne_nil (n : Nat) : renderNat n ≠ [] := by
  simp [renderNat, digitsRev]

theorem parseNat_renderNat (n : Nat) : parseNat (renderNat n) = some n := by
  have h := parseNatAux_digitsRev (n + 1) n (by omega)
  have hne := renderNat_ne_nil n
  unfold parseNat
  split
  · rename_i heq; exact absurd heq hne
  · exact h

theorem parseNat_head_digit {c : Char} {r : List Char} {n : Nat} (h : parseNat (c :: r) = some n) :
    isDigit c = true := by
  simp only [parseNat, parseNatAux] at h
  by_cases hc : isDigit c = true
  · exact hc
  · simp [hc] at h

theorem parseI64L_of_parseNat {l : List Char} {n : Nat} (h : parseNat l = some n) :
    parseI64L l = if i64Min ≤ (n : Int) ∧ (n : Int) ≤ i64Max then some (n : Int) else none := by
  cases l with
  | nil => simp [parseNat] at h
  | cons c r =>
    have hc := parseNat_head_digit h
    have h1 : c ≠ '-' := by intro he; subst he; exact absurd hc (by decide)
    have h2 : c ≠ '+' := by intro he; subst he; exact absurd hc (by decide)
    unfold parseI64L
    split
    · rename_i r' heq; simp only [List.cons.injEq] at heq; exact absurd heq.1 h1
    · rename_i r' heq; simp only [List.cons.injEq] at heq; exact absurd heq.1 h2
    · rw [h]; simp only [Option.map_some]; rfl

theorem parseBoolL_some {l : List Char} {b : Bool} (h : parseBoolL l = some b) :
    l = "true".toList ∨ l = "false".toList := by
  unfold parseBoolL at h
  by_cases h1 : l = "true".toList
  · exact Or.inl h1
  · by_cases h2 : l = "false".toList
    · exact Or.inr h2
    · rw [if_neg h1, if_neg h2] at h; cases h

/-! ## parameters, rendering, defaults (used by `Props.lean`) -/

theorem all_congr_mem {α : Type} (l : List α) (f g : α → Bool) (h : ∀ a ∈ l, f a = g a) : l.all f = l.all g := by
  induction l with
  | nil => rfl
  | cons a r ih =>
    simp only [List.all_cons]
    rw [h a List.mem_cons_self, ih (fun b hb => h b (List.mem_cons_of_mem _ hb))]

/-- `content` never reads the include flags. -/
theorem content_congr (p q : Params) (w : World) (hd : p.defaults = q.defaults)
    (hp : p.projectPath = q.projectPath) (hl : p.localPath = q.localPath) (hc : p.cli = q.cli) :
    content p w = content q w := by
  funext s; cases s <;> simp [content, hd, hp, hl, hc]

theorem renderInt_spec (i : Int) :
    (∃ n : Nat, i = n ∧ renderInt i = renderNat n) ∨ (∃ n : Nat, i = -((n : Int) + 1) ∧ renderInt i = '-' :: renderNat (n + 1)) := by
  cases i with
  | ofNat n => exact Or.inl ⟨n, rfl, rfl⟩
  | negSucc n => exact Or.inr ⟨n, by omega, rfl⟩

theorem parseBoolL_renderNat (n : Nat) : parseBoolL (renderNat n) = none := by
  cases hb : parseBoolL (renderNat n) with
  | none => rfl
  | some b =>
    have hp := parseNat_renderNat n
    rcases parseBoolL_some hb with h | h
    · rw [h] at hp; exact absurd (parseNat_head_digit hp) (by decide)
    · rw [h] at hp; exact absurd (parseNat_head_digit hp) (by decide)

theorem lastVal_isSome_of_mem (kvs : List (Key × Val)) (k : Key) (h : k ∈ kvs.map (·.1)) :
    (lastVal kvs k).isSome = true := by
  induction kvs with
  | nil => simp at h
  | cons kv rest ih =>
    obtain ⟨k', v⟩ := kv
    simp only [lastVal]
    cases hl : lastVal rest k with
    | some w => rfl
    | none =>
      simp only [List.map_cons, List.mem_cons] at h
      rcases h with h | h
      · simp [h]
      · have := ih h; rw [hl] at this; cases this

end Cfg
