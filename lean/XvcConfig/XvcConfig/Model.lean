/-!
  # Executable model of `xvc-config` (`/repo/config/src/lib.rs`, `config_params.rs`) and of the
  switch plumbing in `lib/src/cli/mod.rs` (`get_xvc_config_params`) and
  `core/src/types/xvcroot.rs` (`XvcRootInner::new`).

  Core-only imports (the driver `Main.lean` links as a `lean_exe`).  Every definition names the
  Rust function it transcribes.  The model is parametric in the *tables* that the translator
  (`/verif/translator/extract_config.py`) regenerates from the Rust source on every run
  (`Gen/ConfigOrder.lean`: order and guards of the source applications in `XvcConfig::new`, the
  switches wired in `get_xvc_config_params`; `Gen/ConfigDefaults.lean`: keys and TOML types of
  `default_project_config`).
-/
namespace Cfg

/-! ## sources, values, TOML documents -/

/-- `XvcConfigOptionSource` (`Default, System, Global, Project, Local, Environment, CommandLine`;
    `Runtime` is used for `current_dir` only and never tags a key).  `user` is Rust's `Global`,
    `localp` is `Local` (`.xvc/config.local.toml`). -/
inductive Src where
  | defaults | system | user | project | localp | env | cli
  deriving DecidableEq, Repr, Inhabited

def Src.name : Src → String
  | .defaults => "default" | .system => "system" | .user => "global" | .project => "project"
  | .localp => "local" | .env => "environment" | .cli => "commandline"

/-- `toml::Value` restricted to the four scalar kinds the crate documents (string, bool, int,
    float).  A float is represented by the literal that denotes it (IEEE rounding is not modelled;
    the tie compares floats numerically). -/
inductive Val where
  | str (s : String) | bool (b : Bool) | int (i : Int) | float (lit : String)
  deriving DecidableEq, Repr, Inhabited

/-- The constructor ("type") of a value: what `get_str/get_bool/get_int/get_float` test. -/
inductive Ty where
  | str | bool | int | float
  deriving DecidableEq, Repr, Inhabited

def Val.ty : Val → Ty
  | .str _ => .str | .bool _ => .bool | .int _ => .int | .float _ => .float

def Ty.name : Ty → String
  | .str => "str" | .bool => "bool" | .int => "int" | .float => "float"

abbrev Key := String

/-- A TOML document: scalar leaves and (nested) tables.  Arrays and datetimes are not modelled
    (the default configuration has none; generators do not produce them). -/
inductive Toml where
  | leaf (v : Val)
  | table (kvs : List (String × Toml))
  deriving Repr, Inhabited

mutual
/-- `toml_value_to_hashmap(key, value)`: dotted keys for nested tables.  The Rust code uses an
    explicit stack and a `HashMap`; with pairwise distinct dotted keys (segments without `.`, no
    duplicate segment in a table — guaranteed by TOML itself) the order is irrelevant. -/
def flatten (pfx : String) : Toml → List (Key × Val)
  | .leaf v => [(pfx, v)]
  | .table kvs => flattenList pfx kvs
def flattenList (pfx : String) : List (String × Toml) → List (Key × Val)
  | [] => []
  | (k, t) :: rest => flatten (if pfx.isEmpty then k else pfx ++ "." ++ k) t ++ flattenList pfx rest
end

/-! ## `the_config`: key ↦ (value, source) -/

/-- `XvcConfig.the_config : HashMap<String, XvcConfigValue>` as an association list. -/
abbrev Conf := List (Key × (Val × Src))

def Conf.find? : Conf → Key → Option (Val × Src)
  | [], _ => none
  | (k', x) :: rest, k => if k' = k then some x else Conf.find? rest k

/-- `HashMap::insert`. -/
def Conf.set : Conf → Key → (Val × Src) → Conf
  | [], k, x => [(k, x)]
  | (k', y) :: rest, k, x => if k' = k then (k', x) :: rest else (k', y) :: Conf.set rest k x

/-- One configuration source with the key/value pairs it contributes (`XvcConfigMap`). -/
abbrev Layer := Src × List (Key × Val)

/-- `XvcConfig::update_from_hash_map(new_map, new_source)`: every pair of the new map is inserted
    over the current map, tagged with the new source. -/
def applyLayer (m : Conf) (l : Layer) : Conf :=
  l.2.foldl (fun m kv => m.set kv.1 (kv.2, l.1)) m

/-- The cascade of `XvcConfig::new`: a left fold of `update_from_hash_map` over the layers in the
    order in which the code applies them. -/
def resolve (ls : List Layer) : Conf := ls.foldl applyLayer []

/-- The value a list of pairs gives to `k` (the last pair wins, as repeated `insert` does). -/
def lastVal : List (Key × Val) → Key → Option Val
  | [], _ => none
  | (k', v) :: rest, k =>
    match lastVal rest k with
    | some w => some w
    | none => if k' = k then some v else none

/-- What a layer says about `k`. -/
def Layer.defines (l : Layer) (k : Key) : Option Val := lastVal l.2 k

/-- Specification of precedence: the value (and source) of the *last* layer that defines `k`. -/
def specLookup : List Layer → Key → Option (Val × Src)
  | [], _ => none
  | l :: rest, k =>
    match specLookup rest k with
    | some x => some x
    | none => (l.defines k).map (fun v => (v, l.1))

/-! ## `parse_to_value`: bool → int → float → string -/

/-- ASCII decimal digit -/
def isDigit (c : Char) : Bool := 48 ≤ c.toNat && c.toNat ≤ 57

/-- ASCII letter -/
def isLetter (c : Char) : Bool := (65 ≤ c.toNat && c.toNat ≤ 90) || (97 ≤ c.toNat && c.toNat ≤ 122)

/-- decimal value of a non-empty all-digit list (big endian); `none` otherwise -/
def parseNatAux : List Char → Nat → Option Nat
  | [], acc => some acc
  | c :: r, acc => if isDigit c then parseNatAux r (acc * 10 + (c.toNat - 48)) else none

def parseNat (l : List Char) : Option Nat :=
  match l with
  | [] => none
  | _ => parseNatAux l 0

def i64Min : Int := -9223372036854775808
def i64Max : Int := 9223372036854775807

/-- `str::parse::<i64>()`: optional `+`/`-`, at least one ASCII digit, value within the `i64` range. -/
def parseI64L (l : List Char) : Option Int :=
  let r : Option Int :=
    match l with
    | '-' :: r => (parseNat r).map (fun n => - (Int.ofNat n))
    | '+' :: r => (parseNat r).map Int.ofNat
    | _ => (parseNat l).map Int.ofNat
  match r with
  | some i => if i64Min ≤ i ∧ i ≤ i64Max then some i else none
  | none => none

/-- `str::parse::<bool>()`: exactly `true` or `false`. -/
def parseBoolL (l : List Char) : Option Bool :=
  if l = "true".toList then some true else if l = "false".toList then some false else none

def dropSign : List Char → List Char
  | '+' :: r => r
  | '-' :: r => r
  | l => l

def spanDigits : List Char → Nat × List Char
  | [] => (0, [])
  | c :: r => if isDigit c then let (n, r') := spanDigits r; (n + 1, r') else (0, c :: r)

def allDigits (l : List Char) : Bool := l.all isDigit

/-- exponent part `('e'|'E') Sign? Digit+` -/
def isExp : List Char → Bool
  | c :: r => (c == 'e' || c == 'E') && (let r' := dropSign r; !r'.isEmpty && allDigits r')
  | [] => false

/-- `Number ::= ( Digit+ | Digit+ '.' Digit* | Digit* '.' Digit+ ) Exp?` -/
def isNumber (l : List Char) : Bool :=
  let (n1, r1) := spanDigits l
  match r1 with
  | '.' :: r2 =>
    let (n2, r3) := spanDigits r2
    decide (n1 + n2 > 0) && (r3.isEmpty || isExp r3)
  | _ => decide (n1 > 0) && (r1.isEmpty || isExp r1)

def isSpecialFloat (l : List Char) : Bool :=
  let w := l.map Char.toLower
  w == "inf".toList || w == "infinity".toList || w == "nan".toList

/-- `str::parse::<f64>()` succeeds: the grammar of `core::num::dec2flt`
    (`Float ::= Sign? ( 'inf' | 'infinity' | 'nan' | Number )`, case-insensitive). -/
def isFloatLitL (l : List Char) : Bool :=
  let r := dropSign l
  isSpecialFloat r || isNumber r

/-- `XvcConfig::parse_to_value(v)`: the most specific of bool → int → float → string. -/
def parseToValueL (l : List Char) : Val :=
  match parseBoolL l with
  | some b => .bool b
  | none =>
    match parseI64L l with
    | some i => .int i
    | none => if isFloatLitL l then .float (String.ofList l) else .str (String.ofList l)

def parseToValue (s : String) : Val := parseToValueL s.toList

/-! ### how a user writes a value on the command line / in the environment -/

/-- little-endian decimal digits with fuel -/
def digitsRev : Nat → Nat → List Char
  | 0, _ => []
  | fuel + 1, n => Char.ofNat (48 + n % 10) :: (if n / 10 = 0 then [] else digitsRev fuel (n / 10))

/-- decimal rendering of a natural number (what `i64::to_string` prints for non-negative values) -/
def renderNat (n : Nat) : List Char := (digitsRev (n + 1) n).reverse

def renderInt : Int → List Char
  | .ofNat n => renderNat n
  | .negSucc n => '-' :: renderNat (n + 1)

/-- The text a user passes in `-c key=<text>` / `XVC_key=<text>` to mean value `v`. -/
def Val.renderL : Val → List Char
  | .str s => s.toList
  | .bool true => "true".toList
  | .bool false => "false".toList
  | .int i => renderInt i
  | .float lit => lit.toList

def Val.render (v : Val) : String := String.ofList v.renderL

/-! ## environment and command line -/

/-- `Regex::new(r"^XVC_?(.+)")` applied to a variable name (names without newline): the key is
    what follows `XVC` and one optional `_`, and must be non-empty. -/
def envKeyL : List Char → Option (List Char)
  | 'X' :: 'V' :: 'C' :: rest =>
    match rest with
    | [] => none
    | ['_'] => some ['_']
    | '_' :: c :: r => some (c :: r)
    | c :: r => some (c :: r)
  | _ => none

/-- `XvcConfig::env_map()`: all `XVC_…` variables, values typed by `parse_to_value` (not trimmed). -/
def envMap (env : List (String × String)) : List (Key × Val) :=
  env.filterMap (fun nv => (envKeyL nv.1.toList).map (fun k => (String.ofList k, parseToValue nv.2)))

def isWs (c : Char) : Bool := c == ' ' || c == '\t' || c == '\n' || c == '\r' || c == '\x0b' || c == '\x0c'

/-- `str::trim()` on ASCII input -/
def trimL (l : List Char) : List Char := ((l.dropWhile isWs).reverse.dropWhile isWs).reverse

/-- `str.split('=')` -/
def splitEq : List Char → List (List Char)
  | [] => [[]]
  | c :: r =>
    match splitEq r with
    | [] => [[]]      -- unreachable
    | h :: t => if c = '=' then [] :: h :: t else (c :: h) :: t

/-- One element of `XvcConfig::parse_key_value_vector`: `elements[0].trim()` is the key,
    `parse_to_value(elements[1].trim())` the value.  `none` = the Rust code panics (no `=`). -/
def parseKV (s : String) : Option (Key × Val) :=
  match splitEq s.toList with
  | k :: v :: _ => some (String.ofList (trimL k), parseToValueL (trimL v))
  | _ => none

/-- `parse_key_value_vector(v).into_iter().collect::<HashMap>()`: later elements win (the layer
    fold does the same).  Elements without `=` are dropped here; `cliPanics` says when Rust panics. -/
def parseKeyValueVector (v : List String) : List (Key × Val) := v.filterMap parseKV

def cliPanics (v : List String) : Bool := v.any (fun s => (parseKV s).isNone)

/-! ## `XvcConfig::new` -/

abbrev Path := String

/-- A guard around one source application in `XvcConfig::new`:
    `flag s` = `if p.include_<s>_config`, `nflag s` = `if !p.include_<s>_config` (does not occur in
    the documented code; the translator emits it so that an inverted test is mirrored, not hidden),
    `present s` = `if let Some(..) = p.<s>_config_path` / `p.command_line_config`. -/
inductive Guard where
  | flag (s : Src) | nflag (s : Src) | present (s : Src)
  deriving DecidableEq, Repr

/-- `XvcConfigParams`.  `include s` stands for the `include_*_config` booleans (only the ones that
    occur as guards in the regenerated table are ever read). -/
structure Params where
  defaults : Toml
  «include» : Src → Bool
  projectPath : Option Path
  localPath : Option Path
  cli : Option (List String)

/-- What the process sees outside its parameters: the two machine-level paths
    (`XvcConfig::system_config_file()`, `XvcConfig::user_config_file()`), readable files that are
    valid TOML (absent/unreadable/invalid files are simply not listed: `update_from_file` returns
    `Err`, `new` logs it and goes on), and the environment. -/
structure World where
  systemPath : Option Path
  userPath : Option Path
  files : List (Path × Toml)
  env : List (String × String)

def World.read (w : World) (p : Path) : Option Toml :=
  match w.files.find? (fun f => f.1 == p) with
  | some f => some f.2
  | none => none

def guardOk (p : Params) : Guard → Bool
  | .flag s => p.include s
  | .nflag s => !p.include s
  | .present .project => p.projectPath.isSome
  | .present .localp => p.localPath.isSome
  | .present .cli => p.cli.isSome
  | .present _ => true

/-- The pairs a source contributes when its guards pass; `none` = nothing is applied
    (file missing or invalid, path undetermined). -/
def content (p : Params) (w : World) : Src → Option (List (Key × Val))
  | .defaults => some (flatten "" p.defaults)
  | .system => (w.systemPath.bind w.read).map (flatten "")
  | .user => (w.userPath.bind w.read).map (flatten "")
  | .project => (p.projectPath.bind w.read).map (flatten "")
  | .localp => (p.localPath.bind w.read).map (flatten "")
  | .env => some (envMap w.env)
  | .cli => p.cli.map parseKeyValueVector

/-- The table regenerated from `XvcConfig::new`: the sources in application order, each with the
    guards that enclose its application. -/
abbrev Table := List (Src × List Guard)

/-- The layers `XvcConfig::new` applies, in order. -/
def layers (tbl : Table) (p : Params) (w : World) : List Layer :=
  tbl.filterMap (fun e => if e.2.all (guardOk p) then (content p w e.1).map (fun c => (e.1, c)) else none)

/-- `XvcConfig::new(p).the_config`. -/
def configNew (tbl : Table) (p : Params) (w : World) : Conf := resolve (layers tbl p w)

/-! ## the command-line switches -/

/-- `--no-system-config`, `--no-user-config`, `--no-project-config`, `--no-local-config`,
    `--no-env-config` of `XvcCLI` as a predicate "source `s` was switched off". -/
abbrev Switches := Src → Bool

def Params.setInclude (p : Params) (s : Src) (b : Bool) : Params :=
  { p with «include» := fun s' => if s' = s then b else p.include s' }

/-- `get_xvc_config_params(cli_opts)` followed by `XvcRootInner::new(root, params)`:
    `include_<s>_config = !cli_opts.no_<s>_config` for exactly the sources listed in `wiring` (the
    regenerated table of the switches the function reads; polarity `true` = negated as documented,
    `false` = not negated; a switch that is parsed but not read leaves the flag `true`), the two
    project paths are always set by `XvcRootInner::new`, the CLI vector is always `Some`. -/
def cliParams (wiring : List (Src × Bool)) (sw : Switches) (defaults : Toml) (root : Path) (cli : List String) : Params :=
  { defaults := defaults
    «include» := fun s => match wiring.lookup s with
      | some true => !sw s
      | some false => sw s
      | none => true
    projectPath := some (root ++ "/.xvc/config.toml")
    localPath := some (root ++ "/.xvc/config.local.toml")
    cli := some cli }

/-- `flag s` guards exactly the application(s) of source `s` in the table: every entry of `s` has it,
    no other entry mentions `s`'s flag (neither plain nor negated). -/
def ownGuards (tbl : Table) (s : Src) : Bool :=
  tbl.all (fun e => if e.1 = s then e.2.contains (.flag s) else !e.2.contains (.flag s) && !e.2.contains (.nflag s))

end Cfg
