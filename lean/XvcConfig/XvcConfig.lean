-- Root of the `XvcConfig` library (property C20).
import XvcConfig.Model
import XvcConfig.Gen.ConfigOrder
import XvcConfig.Gen.ConfigDefaults
import XvcConfig.Lemmas
import XvcConfig.Props
