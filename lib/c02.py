"""C02 — see DESIGN.md section 4 ("the repository model") and lean/XvcRepo/XvcRepo/Props/C02.lean.
Proof: Lean theorems about the executable repository model + the documented address format over constants that
translator/extract_addr.py REGENERATES from the Rust source on every run (Gen/Addr.lean).  Tie: the model driver is
compared with the rebuilt xvc binary after every command of generated histories.  Oracle: lib/repo_check.py O1."""
import os, sys
import repo_check as rc
from common import VERIF, REPO
sys.path.insert(0, os.path.join(VERIF, 'translator'))
import extract_addr

ORACLES = [rc.o1_content_addressed]
RESTORE = None


def same_second_histories(seed, n):
    """A tracked file is rewritten with other bytes of the SAME size and its new modification time lies in the same whole
    second as the recorded one (different nanoseconds) - what a fast script, a build step or a restore tool does.  Size and
    whole-second mtime say "unchanged"; xvc compares the full time stamp, so it is an edit like any other.  Then carry-in
    with and without --force, track, recheck: whatever is committed goes to the address of ITS bytes and the object of the
    earlier version keeps its bytes (o1)."""
    import random
    from repo_check import W, T, CI, RC
    import repo_harness as rh
    rng = random.Random(f'c02-same-second-{seed}')
    out = []
    follow = ['carryin-force', 'carryin', 'track', 'track-force', 'recheck-force+carryin-force', 'carryin-force-many', 'carryin-force-twice']
    methods = ['copy', 'symlink', 'hardlink', 'reflink']
    for i in range(n):
        f = follow[i % len(follow)]
        m = methods[(i // len(follow) + i) % 4]
        cfg = {'algo': (i + seed) % 4, 'method': rng.choice(['copy', m]), 'tob': rng.choice(['auto', 'binary', 'text'])}
        p, q = rng.sample(['data.bin', 'd/t.txt', 'noext', 'sp ace.csv', 'ünï/dätä.txt'], 2)
        X = bytes(f'version one of {i}/{seed} ', 'ascii') + bytes(rng.choice(b'abcdefgh') for _ in range(rng.choice([3, 30, 9000]))) + rng.choice([b'\n', b'\r\n', b'\x00\n'])
        Y = rh.same_size_variant(X)
        Z = rh.same_size_variant(Y)
        np_ = lambda: rng.random() < 0.5
        ss = lambda path, b: dict(W(path, b), same_second=True, cname='same-size')
        h = [W(p, X), W(q, b'other ' + X), T([p, q], method=m, no_parallel=np_()), ss(p, Y)]
        if f == 'carryin-force': h += [CI([p], force=True, no_parallel=np_())]
        elif f == 'carryin': h += [CI([p], no_parallel=np_()), CI([p], force=True, no_parallel=np_())]
        elif f == 'track': h += [T([p], no_parallel=np_()), CI([p], force=True)]
        elif f == 'track-force': h += [T([p], force=True, no_parallel=np_())]
        elif f == 'recheck-force+carryin-force': h += [RC([p], force=True), ss(p, Z), CI([p], force=True, no_parallel=np_())]
        elif f == 'carryin-force-many': h += [CI([q, p], force=True, no_parallel=np_())]
        else: h += [CI([p], force=True, no_parallel=np_()), ss(p, Z), CI([p], force=True, no_parallel=np_())]
        h += [{'op': 'delete', 'path': p}, RC([p, q])]
        out.append((f'same-second-{f}-{m}-{i}', cfg, h))
    return out


def line_ending_run_histories(seed, n):
    """Files hashed as TEXT whose middle is a long run of line endings (repo_harness.line_ending_run: prefix length x LF / CR LF /
    CR / mixed x run length around 1, 2, 3 read buffers), under every cache.algorithm.  Two files that differ only AFTER the run
    are committed (one command or two, any method), a second version is carried in, the copies are deleted and restored.  The
    documented text digest is the digest of the WHOLE file without CR and LF (Props/C02Chunks.lean: the same for every division
    into chunks), so the two files are two objects, each at the address of its own bytes (o1).  Variants: text because auto finds
    no NUL in the first 8000 bytes (also with a NUL after them), text by option, and - as a control - binary."""
    import random
    from repo_check import W, T, CI, RC
    import repo_harness as rh
    rng = random.Random(f'c02-line-ending-runs-{seed}')
    out = []
    for i in range(n):
        algo = (i + seed) % 4
        how = ['auto', 'auto-late-nul', 'option-text', 'config-text', 'binary'][(i // 4) % 5]
        base = rh.line_ending_run(rng)
        if how == 'auto-late-nul':
            base = bytes(rng.choice(b'ABCDEFGH') for _ in range(rng.choice([8000, 8191, 8192]))) + b'\x00' + base
        A, B, C = (base + bytes(f'tail {t} of {i}/{seed}', 'ascii') + rng.choice([b'', b'\n', b'\r\n']) for t in 'ABC')
        cfg = {'algo': algo, 'method': rng.choice(['copy', 'copy', 'symlink', 'hardlink', 'reflink']),
               'tob': {'config-text': 'text', 'binary': 'binary'}.get(how, 'auto')}
        tob = 'text' if how == 'option-text' else None
        e = rng.choice(['txt', 'csv', ''])
        nm = lambda x: x + ('.' + e if e else '')
        p, q = nm('report-a'), nm('d/report-b')
        np_ = lambda: rng.random() < 0.5
        h = [W(p, A), W(q, B)]
        h += [T([p, q], tob=tob, no_parallel=np_())] if rng.random() < 0.5 else [T([p], tob=tob, no_parallel=np_()), T([q], tob=tob, no_parallel=np_())]
        h += [W(p, C), CI([p], tob=tob, no_parallel=np_())]
        if rng.random() < 0.3: h.append(CI([q], tob=tob, force=True, no_parallel=np_()))
        h += [{'op': 'delete', 'path': p}, {'op': 'delete', 'path': q}, RC([p, q], no_parallel=np_())]
        out.append((f'line-ending-run-{how}-algo{algo}-{i}', cfg, h))
    return out


def mode_change_histories(seed, n):
    """A path recorded in text-or-binary mode A - by option at `track`, or by `file.track.text_or_binary` - whose content is then
    EDITED and committed again with `--text-or-binary B` (carry-in | track, with and without --force): every algorithm x every
    ordered pair A != B of auto / text / binary x contents whose raw and CR/LF-stripped digests differ (CR LF, LF, mixed; with a
    NUL early, late or not at all, so that `auto` stands for text and for binary).  The command records B, so the new version is
    addressed by the digest of its bytes under B (o1 clause `address-not-under-recorded-mode`; XvcRepo/Props/C02Mode.lean).
    Controls: no edit in between (the mode change alone re-hashes, F24), and a last commit without the option under the
    CONFIGURED mode.  A second path recorded in A stays as it is.  Then delete + recheck."""
    import random
    from repo_check import W, T, CI, RC
    rng = random.Random(f'c02-mode-change-{seed}')
    pairs = [(a, b) for a in ('binary', 'text', 'auto') for b in ('text', 'binary', 'auto') if a != b]
    out = []
    for i in range(n):
        algo = (i + seed) % 4
        A, B = pairs[(i // 2) % len(pairs)]
        by_config = rng.random() < 0.35
        cfg = {'algo': algo, 'method': rng.choice(['copy', 'copy', 'symlink', 'reflink']), 'tob': A if by_config else rng.choice(['auto', 'text', 'binary'])}
        e = rng.choice(['txt', 'csv', 'dat', ''])
        nm = lambda x: x + ('.' + e if e else '')
        p, q = nm('table'), nm('d/other')
        def body(v):
            shape = rng.choice(['crlf', 'crlf', 'lf', 'mixed', 'nul-early', 'nul-late'])
            t = {'crlf': f'v{v};{i};{seed}\r\nrow;2\r\n', 'lf': f'v{v};{i};{seed}\nrow;2\n', 'mixed': f'v{v};{i};{seed}\r\nrow\nend\r',
                 'nul-early': f'v{v};{i};{seed}\r\n\x00\n', 'nul-late': f'v{v};{i};{seed}\r\n' + 'y' * 8000 + '\x00\r\n'}[shape]
            return t.encode()
        np_ = lambda: rng.random() < 0.5
        tobA = None if by_config else A
        h = [W(p, body(1)), W(q, b'other ' + body(1)), T([p, q], tob=tobA, no_parallel=np_())]
        if i % 5 != 4:
            h.append(W(p, body(2)))                          # i % 5 == 4: control, the mode alone changes
        how = ['carryin', 'carryin', 'track', 'carryin-force', 'track-force'][i % 5 if i % 5 != 4 else rng.randrange(5)]
        C = CI if how.startswith('carryin') else T
        h.append(C([p], tob=B, force=how.endswith('force'), no_parallel=np_()))
        if rng.random() < 0.4:
            h += [W(p, body(3)), CI([p], no_parallel=np_())]          # no option: the configured mode is requested
        h += [{'op': 'delete', 'path': p}, RC([p, q], no_parallel=np_())]
        out.append((f"mode-change-{A}{'(config)' if by_config else ''}-to-{B}-{how}-algo{algo}-{i}", cfg, h))
    return out


def extra_corpus(chk):
    quick = chk.tier == 'quick'
    return same_second_histories(chk.seed, 28 if quick else 280) + line_ending_run_histories(chk.seed, 20 if quick else 200) + \
        mode_change_histories(chk.seed, 24 if quick else 240)


def run(chk):
    try:
        ex = extract_addr.generate(REPO, os.path.join(VERIF, 'lean', 'XvcRepo', 'XvcRepo', 'Gen'))
        chk.extra['translator_extract'] = ex
    except (extract_addr.ExtractError, OSError) as e:
        chk.proof['broken'].append({'stage': 'translator', 'package': 'XvcRepo', 'theorems': ['C02_addr_format_documented'],
                                    'errors': [f'translator/extract_addr.py: {e}'],
                                    'note': 'the Rust source no longer has the shape the address-format model transcribes; Gen/Addr.lean left as it was'})
    chk.trusted_base.append('translator/extract_addr.py (anchored extraction of the strum prefixes, DIGEST_LENGTH, the two split_at of cache_dir and the file name format; fails loudly)')
    return rc.run_property(chk, 'C02', ORACLES, restore=RESTORE, extra_corpus=extra_corpus(chk), extra_props=['XvcRepo.Props.C02Chunks', 'XvcRepo.Props.C02Mode'])


def replay(chk, data):
    return rc.replay_property(chk, data, ORACLES, restore=RESTORE)
