"""C02 — see DESIGN.md section 4 ("the repository model") and lean/XvcRepo/XvcRepo/Props/C02.lean.
Proof: Lean theorems about the executable repository model.  Tie: the model driver is compared with the rebuilt xvc
binary after every command of generated histories.  Oracle: model-independent, lib/repo_check.py."""
import repo_check as rc

ORACLES = [rc.o1_content_addressed]
RESTORE = None


def run(chk):
    return rc.run_property(chk, 'C02', ORACLES, restore=RESTORE)


def replay(chk, data):
    return rc.replay_property(chk, data, ORACLES, restore=RESTORE)
