"""C02 — see DESIGN.md section 4 ("the repository model") and lean/XvcRepo/XvcRepo/Props/C02.lean.
Proof: Lean theorems about the executable repository model + the documented address format over constants that
translator/extract_addr.py REGENERATES from the Rust source on every run (Gen/Addr.lean).  Tie: the model driver is
compared with the rebuilt xvc binary after every command of generated histories.  Oracle: lib/repo_check.py O1."""
import os, sys
import repo_check as rc
from common import VERIF, REPO
sys.path.insert(0, os.path.join(VERIF, 'translator'))
import extract_addr

ORACLES = [rc.o1_content_addressed]
RESTORE = None


def run(chk):
    try:
        ex = extract_addr.generate(REPO, os.path.join(VERIF, 'lean', 'XvcRepo', 'XvcRepo', 'Gen'))
        chk.extra['translator_extract'] = ex
    except (extract_addr.ExtractError, OSError) as e:
        chk.proof['broken'].append({'stage': 'translator', 'package': 'XvcRepo', 'theorems': ['C02_addr_format_documented'],
                                    'errors': [f'translator/extract_addr.py: {e}'],
                                    'note': 'the Rust source no longer has the shape the address-format model transcribes; Gen/Addr.lean left as it was'})
    chk.trusted_base.append('translator/extract_addr.py (anchored extraction of the strum prefixes, DIGEST_LENGTH, the two split_at of cache_dir and the file name format; fails loudly)')
    return rc.run_property(chk, 'C02', ORACLES, restore=RESTORE)


def replay(chk, data):
    return rc.replay_property(chk, data, ORACLES, restore=RESTORE)
