"""C14 helpers: structured string generator, whole-document generator, document emitters, reader translator.

* `gen_string` / `gen_line`: strings built from a small grammar whose productions are the things a text codec can
  get wrong (embedded / consecutive / leading / trailing newlines, blank and whitespace-only lines, trailing
  blanks, tabs, `#`, `: `, `- `, leading YAML indicators, quotes, backslashes, non-ASCII, long lines, scalars that
  look like numbers / booleans / null, the empty string).  `features(s)` classifies any string after the fact, so
  the recorded distribution describes what was really generated.
* `gen_doc`: a complete `XvcPipelineSchema` value (all dependency kinds with all fields incl. recorded state, all
  output kinds) as a JSON-able dict; used for injection with `xvc pipeline import --file doc.json`.
* `emit_json` / `emit_yaml`: independent encoders of such a value (YAML: block style, literal block scalars with an
  explicit indentation indicator or double-quoted scalars); used by the reader correspondence stream.
* `extract_reader(repo)`: anchored reader of `cmd_import`'s input handling in import.rs (which reader the model has
  to use for --file and for stdin).
"""
import json, os, re

# ------------------------------------------------------------------------------------------------
# strings

WORDS = ['echo', 'a', 'b', 'x y', 'cat', 'é', '日本語', '🙂', 'ß', 'naïve', 'data.txt', '$HOME', '1', 'key', 'Ω', 'done', 'и']
LOOKALIKE = ['1e3', 'true', '~', 'null', '0x10', '.inf', 'no', 'y', 'Yes', '1_000', '0o14', '-.inf', '.nan', '123', '1.0', 'NULL', 'True',
             '2001-12-14', '<<', '=', 'off', '0b1', '+1', '.5', '1:30', 'FALSE', 'Null', '-0', '1e+3', '0.', 'n', 'ON', '0777', '.NaN']
LEAD = list('|>!&*%@`-?:,[]{}#"\'')
WS_ONLY = [' ', '  ', '\t', ' \t ', '    ', '\t\t']
YAMLISH = ['{a: 1}', '[1, 2]', '&x', '*x', '!t', '%d', '@v', '`c`', '? q', '|', '>', ', ', '<<: *d', '---', '...', '|-', '>+', '!!str x', '- - a', 'k:', '%YAML 1.2']
EXOTIC = ['a\r\nb', 'a\rb', 'x\u0085y', 'x\u2028y', '\x7f', 'a\x1bb', '\ufeffbom', 'x\u2029y', '\x0b', '\u00a0', 'x\r', '\x01', 'a\x0cb', '\ufffd', '\U0010ffff']


def gen_line(rng, ws_only=True):
    """one line (no '\\n')"""
    r = rng.random()
    if r < 0.10:
        return rng.choice(LOOKALIKE)
    if r < 0.17 and ws_only:
        return rng.choice(WS_ONLY)
    if r < 0.23:
        n = rng.choice([81, 100, 130, 200])
        if rng.random() < 0.5:
            return ' '.join(rng.choice(WORDS) for _ in range(n // 3))[:n + 20].rstrip() or 'w'
        return rng.choice('xé日') * n
    parts = []
    for _ in range(rng.choice([1, 1, 2, 3, 4])):
        k = rng.random()
        if k < 0.35: parts.append(rng.choice(WORDS))
        elif k < 0.45: parts.append(rng.choice([' # c', '#', '# x', 'a #b', '#!']))
        elif k < 0.55: parts.append(rng.choice([': ', 'k: v', ' :', ':', 'a: b: c', '::']))
        elif k < 0.62: parts.append(rng.choice(['- ', '- x', ' - ', '-', '--flag']))
        elif k < 0.70: parts.append(rng.choice(['"', "'", '"q"', "'s'", "it's", '\\"', '""', "''"]))
        elif k < 0.77: parts.append(rng.choice(['\\', '\\n', '\\\\', 'C:\\d', '\\x41', '\\t', 'a\\']))
        elif k < 0.83: parts.append(rng.choice(['\t', 'a\tb', '\t\t']))
        elif k < 0.88: parts.append(rng.choice(LOOKALIKE))
        else: parts.append(rng.choice(YAMLISH))
    s = (' ' if rng.random() < 0.6 else '').join(parts)
    if rng.random() < 0.14: s = rng.choice(LEAD) + rng.choice(['', ' ']) + s
    if rng.random() < 0.12: s = s + rng.choice([' ', '  ', '\t', ' \t'])
    if rng.random() < 0.08: s = ' ' * rng.choice([1, 2, 4, 7]) + s
    return s


SHAPES = ['single', 'single', 'multi', 'blank', 'blank', 'blank', 'lead-nl', 'trail-nl', 'trail-blank', 'trail-blank', 'ws-line', 'only-nl', 'mix', 'mix',
          'empty', 'lookalike', 'exotic']


def gen_string(rng, shape=None):
    shape = shape or rng.choice(SHAPES)
    L = lambda: gen_line(rng)                                 # noqa: E731
    N = lambda: gen_line(rng, ws_only=False) or 'z'           # noqa: E731  (a line with content)
    if shape == 'empty': return ''
    if shape == 'single': return L()
    if shape == 'lookalike': return rng.choice(LOOKALIKE)
    if shape == 'multi': return '\n'.join(N() for _ in range(rng.choice([2, 3, 4])))
    if shape == 'blank': return N() + '\n' * rng.choice([2, 2, 3, 4]) + N() + (('\n\n' + N()) if rng.random() < 0.3 else '')
    if shape == 'lead-nl': return '\n' * rng.choice([1, 2, 3]) + N() + ('\n' + N() if rng.random() < 0.5 else '')
    if shape == 'trail-nl': return N() + ('\n' + N() if rng.random() < 0.5 else '') + '\n'
    if shape == 'trail-blank': return N() + ('\n' + N() if rng.random() < 0.5 else '') + '\n' * rng.choice([2, 2, 3])
    if shape == 'ws-line': return N() + '\n' + rng.choice(WS_ONLY) + '\n' + N() + rng.choice(['', '\n', '\n \n'])
    if shape == 'only-nl': return '\n' * rng.choice([1, 2, 3])
    if shape == 'exotic': return rng.choice(EXOTIC) + rng.choice(['', '\n\nz', '\n'])
    # mix: arbitrary sequence of lines (possibly empty / blank ones) with arbitrary ends
    lines = [rng.choice([L(), L(), '', rng.choice(WS_ONLY)]) for _ in range(rng.choice([2, 3, 4, 6]))]
    return rng.choice(['', '', '\n', '\n\n']) + '\n'.join(lines) + rng.choice(['', '', '\n', '\n\n'])


def has_blank(s):
    """does a literal block scalar for `s` contain a genuinely empty line?"""
    return '\n\n' in s or s.startswith('\n')


def features(s):
    f = set()
    if s == '': f.add('empty')
    if '\n' in s: f.add('nl')
    if has_blank(s): f.add('blank-line')
    if s.startswith('\n'): f.add('lead-nl')
    if s.endswith('\n'): f.add('trail-nl')
    if s.endswith('\n\n'): f.add('trail-blank')
    ls = s.split('\n')
    if any(l != '' and l.strip(' \t') == '' for l in ls): f.add('ws-only-line')
    if any(l != l.rstrip(' \t') and l.strip(' \t') != '' for l in ls): f.add('trail-space')
    if any(l[:1] == ' ' and l.strip(' \t') != '' for l in ls): f.add('lead-space')
    if '\t' in s: f.add('tab')
    if '#' in s: f.add('hash')
    if ': ' in s or s.endswith(':'): f.add('colon')
    if any(l.lstrip(' ').startswith('- ') or l.strip() == '-' for l in ls): f.add('dash')
    if any(l[:1] in LEAD for l in ls): f.add('lead-indicator')
    if '"' in s or "'" in s: f.add('quote')
    if '\\' in s: f.add('backslash')
    if any(ord(c) > 0x7e for c in s): f.add('non-ascii')
    if any(len(l) > 80 for l in ls): f.add('long-line')
    if s in LOOKALIKE or any(l in LOOKALIKE for l in ls): f.add('lookalike')
    if '\r' in s: f.add('cr')
    if any((ord(c) < 0x20 and c not in '\n\t\r') or c in '\x7f\u0085\u2028\u2029\ufeff' for c in s): f.add('ctrl-or-break')
    return f


def count_strings(chk, fields, prefix='str'):
    """fields: iterable of (kind, string)"""
    for kind, s in fields:
        chk.count(f'{prefix}:{kind}')
        for f in features(s):
            chk.count(f'{prefix}:{kind}:{f}')
            chk.count(f'{prefix}:*:{f}')


# -- legality of a string for a field carried on the command line ------------------------------------

RX_META = set('\\.+*?()|[]{}^$#&-~')


def rx_escape(s):
    return ''.join('\\' + c if c in RX_META else c for c in s)


def cli_ok(kind, s):
    """can `xvc pipeline step ...` carry `s` in a field of this kind (see step_dependency.rs: the option values are split with
    regexes whose `.` does not match a newline) — everything else is injected through a generated document"""
    if '\x00' in s:
        return False
    if kind in ('command',):
        return True
    if kind in ('step_name', 'generic'):
        return s != ''
    if kind == 'query':
        return s != '' and not s.startswith('-')
    if kind == 'param_key':
        return s != '' and '\n' not in s and '\r' not in s and '::' not in s and not s.endswith(':')
    if kind == 'regex':          # .+ after ":/"
        return s != '' and '\n' not in s
    if kind == 'path':
        return path_ok(s)
    return False


def path_ok(p):
    comps = p.split('/')
    return p != '' and '\x00' not in p and all(c not in ('', '.', '..') for c in comps) and '\\' not in p


def gen_path(rng, wild=0.6):
    """a relative path of 1-3 components; components are arbitrary strings without '/', '\\' and NUL"""
    comps = []
    for _ in range(rng.choice([1, 1, 2, 3])):
        for _try in range(8):
            c = gen_string(rng, rng.choice(['single', 'single', 'blank', 'trail-blank', 'lead-nl', 'multi', 'lookalike', 'trail-nl', 'ws-line'])) \
                if rng.random() < wild else rng.choice(['out', 'res', 'métrique', 'o p', 'model', 'data'])
            c = c.replace('/', '_').replace('\\', '_').replace('\x00', '')
            if c not in ('', '.', '..'):
                break
        else:
            c = 'p'
        comps.append(c)
    return '/'.join(comps)


def gen_field(rng, kind, carrier):
    """a string for a field of `kind`; carrier 'cli' restricts to what the command line can carry"""
    for _ in range(12):
        if kind == 'path':
            s = gen_path(rng)
        elif kind == 'regex' and carrier == 'cli':
            s = rx_escape(gen_line(rng, ws_only=False)) if rng.random() < 0.7 else rng.choice(['^l', 'x$', '\\d+', '[a-z]+\\s', '^$', '(?i)HEAD', 'a{1,2}', '\\\\'])
        elif kind in ('param_key',) and carrier == 'cli':
            s = gen_line(rng)
        else:
            s = gen_string(rng)
        if carrier == 'doc':
            if kind == 'path' and not path_ok(s):
                continue
            return s
        if cli_ok(kind, s):
            return s
    return {'path': 'p', 'regex': 'x', 'param_key': 'k', 'step_name': 's', 'generic': 'echo g', 'query': 'select 1'}.get(kind, 'x')


# ------------------------------------------------------------------------------------------------
# whole documents (XvcPipelineSchema as a JSON-able value)

ALGOS = ['Blake3', 'Blake2s', 'SHA2_256', 'SHA3_256', 'AsIs']
URLS = ['https://example.com/a%20b?q=1#frag', 'http://localhost:8080/x', 'https://xn--nxasmq6b.example/%E2%82%AC', 'file:///tmp/x%0A%0Ay']


def gen_digest(rng):
    return None if rng.random() < 0.25 else {'algorithm': rng.choice(ALGOS), 'digest': [rng.randrange(256) for _ in range(32)]}


def gen_meta(rng):
    if rng.random() < 0.25:
        return None
    return {'file_type': rng.choice(['File', 'File', 'Missing', 'Directory', 'Symlink']),
            'modified': None if rng.random() < 0.2 else {'nanos_since_epoch': rng.randrange(10 ** 9), 'secs_since_epoch': rng.choice([0, 1, 1790420429, 2 ** 33])},
            'size': rng.choice([None, 0, 6, 2 ** 40, 2 ** 64 - 1])}


def gen_param_value(rng, fmt):
    if rng.random() < 0.2 or fmt == 'Unknown':
        return None
    tag = {'YAML': 'Yaml', 'JSON': 'Json', 'TOML': 'Toml'}[fmt]
    r = rng.random()
    if r < 0.6: v = gen_string(rng)
    elif r < 0.7: v = rng.choice([0, -7, 3, 2 ** 53])
    elif r < 0.8: v = rng.choice([True, False])
    elif r < 0.9: v = [gen_string(rng), 1]
    else: v = {'k': gen_string(rng)} if tag != 'Toml' else {'k': 'v'}
    if tag == 'Toml' and isinstance(v, list):
        v = [x for x in v if isinstance(x, str)]
    return {tag: v}


def gen_doc_dep(rng, order, step_names):
    kind = rng.choice([v for v in order['dep_variants']] + ['Generic', 'SqliteQueryDigest', 'LineItems', 'RegexItems', 'Param'])
    S = lambda k: gen_field(rng, k, 'doc')      # noqa: E731
    body = {}
    for f in order['dep_fields'][kind]:
        if f == 'name': body[f] = rng.choice(step_names) if step_names and rng.random() < 0.7 else S('step_name')
        elif f == 'generic_command': body[f] = S('generic')
        elif f == 'path': body[f] = S('path')
        elif f == 'glob': body[f] = rng.choice(['d/*.dat', '*.txt', 'é*/*', 'sub dir/*', S('path') + '/*'])
        elif f == 'regex': body[f] = S('regex')
        elif f == 'key': body[f] = S('param_key')
        elif f == 'query': body[f] = S('query')
        elif f == 'url': body[f] = rng.choice(URLS)
        elif f in ('etag', 'last_modified'): body[f] = None if rng.random() < 0.3 else gen_string(rng)
        elif f in ('begin', 'end'): body[f] = rng.choice([0, 1, 3, 100, 2 ** 32])
        elif f == 'format': body[f] = rng.choice(order['param_formats'])
        elif f == 'lines': body[f] = [gen_string(rng, rng.choice(['single', 'single', 'empty', 'lookalike', 'blank', 'trail-nl', 'mix'])) if rng.random() < 0.8
                                      else rng.choice(WS_ONLY) for _ in range(rng.choice([0, 1, 2, 4, 7]))]
        elif f == 'xvc_metadata': body[f] = gen_meta(rng)
        elif f == 'value': body[f] = gen_param_value(rng, body.get('format', 'YAML'))
        elif f == 'xvc_path_metadata_map': body[f] = {gen_field(rng, 'path', 'doc'): gen_meta(rng) or {'file_type': 'Missing', 'modified': None, 'size': None}
                                                       for _ in range(rng.choice([0, 1, 2, 3]))}
        elif f == 'xvc_path_content_digest_map': body[f] = {k: gen_digest(rng) or {'algorithm': 'Blake3', 'digest': [0] * 32}
                                                             for k in list(body.get('xvc_path_metadata_map', {}))[:rng.choice([0, 1, 2, 3])]}
        elif f.endswith('digest'): body[f] = gen_digest(rng)
        else:
            raise KeyError(f'field {kind}.{f} is not known to the document generator')
    return {kind: body}


def gen_doc_out(rng, order):
    kind = rng.choice(order['out_variants'])
    body = {}
    for f in order['out_fields'][kind]:
        if f == 'path': body[f] = gen_field(rng, 'path', 'doc')
        elif f == 'format': body[f] = rng.choice(order['metric_formats'])
    return {kind: body}


def gen_doc(rng, order, name):
    steps, names = [], []
    for _ in range(rng.choice([1, 1, 2, 3])):
        for _try in range(6):
            n = gen_field(rng, 'step_name', 'doc') if rng.random() < 0.6 else rng.choice(['prep', 'train', 'eval', 's1', 's2'])
            if n not in names:
                break
        else:
            n = f's{len(names)}'
        names.append(n)
    for n in names:
        steps.append({'name': n, 'command': gen_field(rng, 'command', 'doc'),
                      'invalidate': rng.choice(['ByDependencies', 'ByDependencies', 'Always', 'Never']),
                      'dependencies': [gen_doc_dep(rng, order, [x for x in names if x != n]) for _ in range(rng.choice([0, 1, 2, 3, 5]))],
                      'outputs': [gen_doc_out(rng, order) for _ in range(rng.choice([0, 0, 1, 2]))]})
    # the work directory is observed through the table `xvc pipeline list` prints: one line, no cell separator, no outer blanks
    wd = rng.choice(['', '', 'd', 'sub dir', gen_field(rng, 'path', 'doc')])
    if any(c in wd for c in '\n\r|') or wd != wd.strip():
        wd = rng.choice(['é: # dir', "it's/- x", 'true', '~', '1e3/null'])
    return {'version': 1, 'name': name, 'workdir': wd, 'steps': steps}


STRING_FIELD_KIND = {'generic_command': 'generic', 'path': 'path', 'glob': 'glob', 'regex': 'regex', 'key': 'param_key', 'query': 'query', 'name': 'step_ref',
                     'etag': 'url_header', 'last_modified': 'url_header', 'url': 'url'}


def doc_strings(doc):
    """(kind, string) for every string-valued field of a schema value"""
    out = []
    if doc.get('workdir'):
        out.append(('workdir', doc['workdir']))
    for s in doc.get('steps', []):
        out.append(('step_name', s['name']))
        out.append(('command', s['command']))
        for d in s['dependencies']:
            (v, b), = d.items()
            for f, x in b.items():
                if isinstance(x, str) and f in STRING_FIELD_KIND:
                    out.append((STRING_FIELD_KIND[f], x))
                elif f == 'lines':
                    out += [('recorded_line', l) for l in x]
                elif f == 'value' and isinstance(x, dict):
                    out += [('param_value', y) for y in _strs(x)]
                elif f in ('xvc_path_metadata_map', 'xvc_path_content_digest_map'):
                    out += [('map_key', k) for k in x]
        for o in s['outputs']:
            (v, b), = o.items()
            out.append(('out_path', b['path']))
    return out


def _strs(v):
    if isinstance(v, str): return [v]
    if isinstance(v, list): return [y for x in v for y in _strs(x)]
    if isinstance(v, dict): return [y for x in v.values() for y in _strs(x)]
    return []


def canon_doc(doc):
    """a schema value modulo the name and modulo the order of each dependency / output list (export sorts them by derive(Ord))"""
    key = lambda x: json.dumps(x, sort_keys=True, ensure_ascii=True)     # noqa: E731
    return {'version': doc.get('version'), 'workdir': doc.get('workdir'),
            'steps': [{'name': s['name'], 'command': s['command'], 'invalidate': s['invalidate'],
                       'dependencies': sorted(s['dependencies'], key=key), 'outputs': sorted(s['outputs'], key=key)} for s in doc.get('steps', [])]}


# ------------------------------------------------------------------------------------------------
# emitters (independent of serde)

def emit_json(doc, rng):
    t = json.dumps(doc, indent=rng.choice([None, 1, 2, 4]), ensure_ascii=rng.random() < 0.5)
    return t + rng.choice(['', '\n', '\n\n'])


def yq(s):
    """YAML double-quoted scalar: printable ASCII verbatim, everything else escaped"""
    out = ['"']
    for ch in s:
        o = ord(ch)
        if ch == '"': out.append('\\"')
        elif ch == '\\': out.append('\\\\')
        elif 0x20 <= o < 0x7f: out.append(ch)
        elif o <= 0xff: out.append('\\x%02x' % o)
        elif o <= 0xffff: out.append('\\u%04x' % o)
        else: out.append('\\U%08x' % o)
    return ''.join(out) + '"'


def lit_ok(s):
    """can `s` be written as a literal block scalar (YAML 1.1 printable, no line break characters other than LF)?"""
    if '\n' not in s:
        return False
    for c in s:
        o = ord(c)
        if c in '\n\t' or 0x20 <= o <= 0x7e:
            continue
        if o >= 0xa0 and c not in '\u2028\u2029\ufeff' and not (0xd800 <= o <= 0xdfff) and o not in (0xfffe, 0xffff):
            continue
        return False
    return True


def yflow(v):
    if v is None: return 'null'
    if v is True: return 'true'
    if v is False: return 'false'
    if isinstance(v, (int, float)): return repr(v)
    if isinstance(v, str): return yq(v)
    if isinstance(v, list): return '[' + ', '.join(yflow(x) for x in v) + ']'
    if isinstance(v, dict):     # implicit keys are limited to 1024 characters on one line: long keys are written as explicit `? key : value`
        return '{' + ', '.join(('? ' if len(yq(k)) > 100 else '') + yq(k) + ' : ' + yflow(x) for k, x in v.items()) + '}'
    raise TypeError(v)


def yscalar(s, col, rng, block=0.85):
    """text that follows 'key:' for a string value whose key starts at column `col` (ends with a newline)"""
    if lit_ok(s) and rng.random() < block:
        ind = rng.choice([1, 2, 2, 4])
        body = s.rstrip('\n')
        trail = len(s) - len(body)
        pad = ' ' * (col + ind)
        if body == '':                         # only newlines: all of them are kept trailing lines
            return f' |{ind}+\n' + '\n' * trail
        chomp = '-' if trail == 0 else ('' if trail == 1 else '+')
        txt = f' |{ind}{chomp}\n' + ''.join((pad + l if l != '' else rng.choice(['', '', pad])) + '\n' for l in body.split('\n'))
        return txt + '\n' * max(trail - 1, 0)
    return ' ' + yq(s) + '\n'


def emit_yaml(doc, rng, block=0.85):
    """block-style document in serde_yaml's layout (enum variants as tags)"""
    o = ['version: 1\n', 'name:' + yscalar(doc['name'], 0, rng, 0), 'workdir:' + yscalar(doc['workdir'], 0, rng, block), 'steps:' + ('\n' if doc['steps'] else ' []\n')]
    for s in doc['steps']:
        o.append('- name:' + yscalar(s['name'], 2, rng, block))
        o.append('  command:' + yscalar(s['command'], 2, rng, block))
        o.append(f"  invalidate: {s['invalidate']}\n")
        for key, items in (('dependencies', s['dependencies']), ('outputs', s['outputs'])):
            if not items:
                o.append(f'  {key}: []\n'); continue
            o.append(f'  {key}:\n')
            for it in items:
                (v, b), = it.items()
                o.append(f'  - !{v}\n')
                for f, x in b.items():
                    if isinstance(x, str) and f != 'format':
                        o.append(f'    {f}:' + yscalar(x, 4, rng, block))
                    elif f == 'lines' and x and rng.random() < 0.7:
                        o.append(f'    {f}:\n' + ''.join('    -' + yscalar(l, 4, rng, block) for l in x))
                    elif f == 'value' and isinstance(x, dict):
                        (tag, val), = x.items()
                        o.append(f'    {f}: !{tag}' + (yscalar(val, 4, rng, block) if isinstance(val, str) else ' ' + yflow(val) + '\n'))
                    elif isinstance(x, str):
                        o.append(f'    {f}: {x}\n')
                    else:
                        o.append(f'    {f}: {yflow(x)}\n')
    return ''.join(o)


# ------------------------------------------------------------------------------------------------
# translator for the reader model

class ReaderTieBroken(Exception):
    pass


IMPORT_RS = 'pipeline/src/pipeline/api/import.rs'
# the statements the model transcribes, whitespace-normalised
STDIN_LINES_LOOP = ('let mut buf = String::new(); for line in input.lines() { buf.push_str( &(line.unwrap_or_else(|e| { Error::from(e).warn(); "".to_string() })), ); '
                    "buf.push('\\n'); } Ok((buf, format))")
STDIN_VERBATIM = 'let mut buf = String::new(); input.read_to_string(&mut buf)?; Ok((buf, format))'
FILE_VERBATIM = 'let content = fs::read_to_string(&path)?; Ok((content, format))'


def extract_reader(repo):
    """-> {'file': 'file', 'stdin': 'stdin' | 'stdin-verbatim', 'read': {...line numbers}}: which `pipedata reader` channel models each input"""
    p = os.path.join(repo, IMPORT_RS)
    try:
        src = open(p, encoding='utf-8').read()
    except OSError as e:
        raise ReaderTieBroken(f'cannot read {IMPORT_RS}: {e}')
    a = src.find('let (content, format) = match file {')
    b = src.find('}?;', a)
    if a < 0 or b < 0:
        raise ReaderTieBroken(f'{IMPORT_RS}: `let (content, format) = match file {{ ... }}?;` not found (input handling of cmd_import changed; Reader.lean transcribes that block)')
    block = re.sub(r'//[^\n]*', '', src[a:b])
    norm = re.sub(r'\s+', ' ', block).strip()
    # nothing may touch `content` between the block and the parser
    rest = src[b:src.find('assert!(schema.version == 1)', b)] if 'assert!(schema.version == 1)' in src[b:] else None
    info = {'file': None, 'stdin': None, 'read': {f'{IMPORT_RS}:match file': src[:a].count('\n') + 1}}
    m_none = re.search(r'None => \{ if let Some\(format\) = format \{ (.*?) \} else \{ Err\(Error::FormatSpecificationRequired\) \} \}', norm)
    m_some = re.search(r'Some\(path\) => \{ let format = match format \{ Some\(format\) => format, None => XvcSchemaSerializationFormat::from_path\(&path\)\?, \}; (.*?) \}$', norm)
    if not m_none or not m_some:
        raise ReaderTieBroken(f'{IMPORT_RS}: the two arms of `match file` no longer have the shape Reader.lean transcribes')
    stdin_code, file_code = m_none.group(1).strip(), m_some.group(1).strip()
    if stdin_code == STDIN_LINES_LOOP: info['stdin'] = 'stdin'
    elif stdin_code == STDIN_VERBATIM: info['stdin'] = 'stdin-verbatim'
    else: raise ReaderTieBroken(f'{IMPORT_RS}: stdin is read by code the model does not transcribe: {stdin_code[:200]}')
    if file_code == FILE_VERBATIM: info['file'] = 'file'
    else: raise ReaderTieBroken(f'{IMPORT_RS}: --file is read by code the model does not transcribe: {file_code[:200]}')
    if rest is None or not re.search(r'XvcSchemaSerializationFormat::Json => serde_json::from_str\(&content\)\?,\s*XvcSchemaSerializationFormat::Yaml => serde_yaml::from_str\(&content\)\?,', rest):
        raise ReaderTieBroken(f'{IMPORT_RS}: `content` no longer goes straight to serde_json::from_str / serde_yaml::from_str')
    return info


EXPORT_RS = 'pipeline/src/pipeline/api/export.rs'


def extract_export_write(repo):
    """how `cmd_export` writes the document: the model (ExportFile.lean) transcribes `fs::write(path, export_output)` for --file and
    `output!(.., "{}", export_output)` for stdout, both fed from ONE string built by serde_json::to_string_pretty / to_yaml"""
    p = os.path.join(repo, EXPORT_RS)
    try:
        src = open(p, encoding='utf-8').read()
    except OSError as e:
        raise ReaderTieBroken(f'cannot read {EXPORT_RS}: {e}')
    code = re.sub(r'//[^\n]*', '', src)
    norm = re.sub(r'\s+', ' ', code)
    a = norm.find('let export_output = match output_format {')
    if a < 0:
        raise ReaderTieBroken(f'{EXPORT_RS}: `let export_output = match output_format {{..}}` not found: the document is no longer built as one string before it is written '
                              '(ExportFile.lean transcribes `fs::write(path, export_output)`)')
    tail = norm[a:]
    want = ('let export_output = match output_format { XvcSchemaSerializationFormat::Json => { let value = to_json(&pipeline_schema)?; serde_json::to_string_pretty(&value)? } '
            'XvcSchemaSerializationFormat::Yaml => to_yaml(&pipeline_schema)?, }; match file { Some(path) => fs::write(path, export_output).map_err(|e| e.into()), '
            'None => { output!(output_snd, "{}", export_output); Ok(()) } }')
    if not tail.startswith(want):
        i = next((k for k, (x, y) in enumerate(zip(tail, want)) if x != y), min(len(tail), len(want)))
        raise ReaderTieBroken(f'{EXPORT_RS}: the code that writes the document is not the one ExportFile.lean transcribes; differs at: {tail[i:i + 160]!r}')
    for bad in ('OpenOptions', 'BufWriter', 'to_writer'):
        if bad in code:
            raise ReaderTieBroken(f'{EXPORT_RS}: uses {bad}, which the model of the export file does not know')
    return {'write': 'fs::write', 'read': {f'{EXPORT_RS}:let export_output': src[:src.find('let export_output')].count('\n') + 1}}


# ------------------------------------------------------------------------------------------------
# translator for the orderings of cmd_export  ->  lean/XvcPipeData/XvcPipeData/Gen/ExportOrder.lean

GEN_EXPORT_ORDER = os.path.join(os.path.dirname(os.path.dirname(os.path.abspath(__file__))), 'lean', 'XvcPipeData', 'XvcPipeData', 'Gen', 'ExportOrder.lean')
DEPS_MOD_RS = 'pipeline/src/pipeline/deps/mod.rs'
_TO_STRING = r'(?:\w+\.to_string\(\)|format!\("\{\}",\s*\w+\)|ToString::to_string\(\w+\))'
_BY_DISPLAY = [r'\.sorted_by_cached_key\(\|\s*\w+\s*\|\s*' + _TO_STRING + r'\s*\)', r'\.sorted_by_key\(\|\s*\w+\s*\|\s*' + _TO_STRING + r'\s*\)',
               r'\.sorted_by\(\|\s*\w+\s*,\s*\w+\s*\|\s*\w+\.to_string\(\)\.cmp\(&\w+\.to_string\(\)\)\s*\)',
               r'\.sorted_by\(\|\s*\w+\s*,\s*\w+\s*\|\s*Ord::cmp\(&\w+\.to_string\(\),\s*&\w+\.to_string\(\)\)\s*\)']


def _classify_order(expr, coll):
    """which `FieldOrder` (ExportOrder.lean) is the expression that fills a Vec field of XvcStepSchema from the HStore `coll[e]`?"""
    e = re.sub(r'\s+', '', expr)
    head = re.escape(coll) + r'\[e\]\.values\(\)\.cloned\(\)'
    if re.fullmatch(head + r'\.sorted\(\)\.collect(?:::<Vec<_>>)?\(\)', e):
        return 'derivedOrd'
    if re.fullmatch(head + r'\.collect(?:::<Vec<_>>)?\(\)', e):
        return 'unsorted'
    for pat in _BY_DISPLAY:
        if re.fullmatch(head + re.sub(r'\\s\*', '', pat) + r'\.collect(?:::<Vec<_>>)?\(\)', e):
            return 'byDisplay'
    return None


def _field_expr(body, field):
    """the expression after `field:` in a struct literal body, up to the comma at nesting depth 0"""
    m = re.search(r'\b' + field + r'\s*:', body)
    if not m:
        return None
    i, depth, start = m.end(), 0, m.end()
    while i < len(body):
        c = body[i]
        if c in '([{': depth += 1
        elif c in ')]}':
            if depth == 0: break
            depth -= 1
        elif c == ',' and depth == 0: break
        i += 1
    return body[start:i].strip()


def extract_export_order(repo):
    """which ordering does cmd_export apply to the three collections it takes out of hash maps?  -> {'steps'|'dependencies'|'outputs':
    'derivedOrd'|'byDisplay'|'unsorted', 'source': {...the expressions...}, 'display': {variant: fields shown by `impl Display`}}.
    An expression the translator does not know is a broken tie (ReaderTieBroken)."""
    try:
        src = open(os.path.join(repo, EXPORT_RS), encoding='utf-8').read()
    except OSError as e:
        raise ReaderTieBroken(f'cannot read {EXPORT_RS}: {e}')
    code = re.sub(r'//[^\n]*', '', src)
    a = code.find('XvcStepSchema {', code.find('let mut step_schemas'))
    if a < 0:
        raise ReaderTieBroken(f'{EXPORT_RS}: the `XvcStepSchema {{ .. }}` literal of cmd_export was not found')
    i, depth = code.index('{', a) + 1, 1
    b = i
    while b < len(code) and depth:
        depth += {'{': 1, '}': -1}.get(code[b], 0)
        b += 1
    body = code[i:b - 1]
    info = {'source': {}, 'read': {f'{EXPORT_RS}:XvcStepSchema literal': code[:a].count('\n') + 1}}
    for field, coll in (('dependencies', 'deps'), ('outputs', 'outs')):
        expr = _field_expr(body, field)
        kind = _classify_order(expr, coll) if expr else None
        if kind is None:
            shown = ' '.join((expr or '<missing>').split())[:200]
            raise ReaderTieBroken(f'{EXPORT_RS}: `{field}:` of XvcStepSchema is filled by an expression whose ordering the model does not know: {shown}')
        info[field] = kind
        info['source'][field] = re.sub(r'\s*\.\s*(?=\w+\()', '.', re.sub(r'\s+', ' ', expr))
    m = re.search(r'for\s*\(e,\s*s\)\s*in\s*steps\s*\.iter\(\)\s*(\.sorted\(\))?\s*\{', code)
    if not m:
        raise ReaderTieBroken(f'{EXPORT_RS}: the loop `for (e, s) in steps.iter()…` was not found')
    info['steps'] = 'derivedOrd' if m.group(1) else 'unsorted'
    info['source']['steps'] = re.sub(r'\s+', ' ', m.group(0))[:-1].strip()
    # which fields does the Display string of a dependency show (evidence only: where a sort by that string cannot tell values apart)
    try:
        mod = open(os.path.join(repo, DEPS_MOD_RS), encoding='utf-8').read()
        blk = mod[mod.index('impl Display for XvcDependency'):]
        blk = blk[:blk.index('\nimpl ', 10)] if '\nimpl ' in blk[10:] else blk
        info['display'] = {v: sorted(set(re.findall(r'\bdep\.(\w+)', arm)))
                           for v, arm in re.findall(r'XvcDependency::(\w+)\(dep\)\s*=>\s*(.*?)(?=XvcDependency::\w+\(dep\)\s*=>|\Z)', blk, re.S)}
    except (OSError, ValueError):
        info['display'] = {}
    return info


def render_export_order(info):
    src = info['source']
    return ('import XvcPipeData.ExportOrder\n'
            '/-! GENERATED by lib/c14_strings.py (extract_export_order) from pipeline/src/pipeline/api/export.rs on every run of the C14 check — do not edit. -/\n'
            'namespace PipeData.Gen\n\n'
            f'/-- `{src["steps"]}` -/\ndef stepsOrder : FieldOrder := .{info["steps"]}\n\n'
            f'/-- `dependencies: {src["dependencies"]}` -/\ndef dependenciesOrder : FieldOrder := .{info["dependencies"]}\n\n'
            f'/-- `outputs: {src["outputs"]}` -/\ndef outputsOrder : FieldOrder := .{info["outputs"]}\n\n'
            'end PipeData.Gen\n')


def write_export_order(info):
    """write Gen/ExportOrder.lean when its content changes (temp file + rename); -> True if it was rewritten"""
    text = render_export_order(info)
    try:
        if open(GEN_EXPORT_ORDER, encoding='utf-8').read() == text:
            return False
    except OSError:
        pass
    os.makedirs(os.path.dirname(GEN_EXPORT_ORDER), exist_ok=True)
    tmp = GEN_EXPORT_ORDER + f'.tmp{os.getpid()}'
    with open(tmp, 'w', encoding='utf-8') as h:
        h.write(text)
    os.replace(tmp, GEN_EXPORT_ORDER)
    return True


def to_stream(data: bytes):
    """bytes -> the `pipedata reader` stream encoding (code points, X for a byte outside every well-formed sequence)"""
    s = data.decode('utf-8', 'surrogateescape')
    return '.'.join('X' if 0xdc80 <= ord(c) <= 0xdcff else str(ord(c)) for c in s) or '-'


def from_stream(ans):
    if ans == 'err': return None
    if ans == '-': return ''
    return ''.join(chr(int(t)) for t in ans.split('.'))
