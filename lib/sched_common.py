"""Shared machinery of the scheduler checks C10 / C11 / C13 (python3 stdlib only).

  translate + lake build           lean/XvcPipeline (one model, Props/C10.lean, Props/C11.lean, Props/C13.lean)
  generated pipelines              built with the xvc CLI in lib/xvcbin.Sandbox repositories (templates, copied per run)
  step command                     harness bin `sched_step` (journals start/end with CLOCK_MONOTONIC ns; no xvc code)
  journal oracle                   independent of the model and of the hooks: what C10/C11/C13 demand, nothing more
  trace tie                        hook build (`--features xvc-pipeline/verif`), XVC_VERIF_TRACE, validated by the
                                   compiled model driver `schedmodel` (every logged transition is a `Next` step)
"""
import itertools, json, os, shutil, signal, subprocess, time, hashlib, re, threading
from concurrent.futures import ThreadPoolExecutor
import common
from common import VERIF, REPO
from xvcbin import Sandbox
import sched_translate

PIPE_BUF_LINUX = 65536          # default capacity of a pipe
WHENS = ['by_dependencies', 'always', 'never']
GEN_DIR = os.path.join(VERIF, 'lean', 'XvcPipeline', 'XvcPipeline', 'Gen')
HOOK_FEATURE = 'xvc-pipeline/verif'


# ------------------------------------------------------------------------------------------------ setup

class Ctx:
    pass


def _private(src, dst):
    try:
        os.link(src, dst)
    except OSError:
        shutil.copy2(src, dst)
    return dst


def prepare(chk, props_module, need_hook=True):
    """S0 translator, S1 lake build + audit, S2 cargo builds.  Returns a Ctx."""
    ctx = Ctx()
    ctx.chk = chk
    try:
        ctx.extract = sched_translate.translate(REPO, GEN_DIR)
        chk.extra['translator'] = ctx.extract
    except sched_translate.TranslateError as ex:
        chk.proof['broken'].append({'stage': 'translator', 'errors': [str(ex)], 'package': 'XvcPipeline', 'theorems': []})
        ctx.extract = None
    try:
        import lock_extract
        ctx.locks = lock_extract.extract(REPO, GEN_DIR)
        chk.extra['lock_order_extraction'] = ctx.locks
    except Exception as ex:
        chk.proof['broken'].append({'stage': 'lock extractor', 'errors': [str(ex)[:600]], 'package': 'XvcPipeline', 'theorems': []})
        ctx.locks = None
    ctx.model = chk.lean('XvcPipeline', props_module, exe='schedmodel',
                         extra_modules=['XvcPipeline.Sched', 'XvcPipeline.Graph', 'XvcPipeline.Inv', 'XvcPipeline.Term',
                                        'XvcPipeline.Topo', 'XvcPipeline.Progress', 'XvcPipeline.Relay', 'XvcPipeline.LockOrder', 'XvcPipeline.PmpLock'])
    if not (ctx.model and os.path.exists(ctx.model)):
        ctx.model = None
        chk.notes.append('model driver did not build; hook traces cannot be validated')
    bindir = chk.build_harness(['sched_step'])
    # private names for the binaries: other checks may rebuild the shared targets while this one runs (cargo replaces the
    # file, so a hard link keeps this build and costs no disk space; copy when the scratch dir is on another file system)
    ctx.step_bin = _private(os.path.join(bindir, 'sched_step'), os.path.join(chk.scratch, 'sched_step'))
    ctx.xvc = _private(chk.build_xvc(), os.path.join(chk.scratch, 'xvc-plain'))
    ctx.xvc_hook = None
    if need_hook:
        cargo = open(os.path.join(REPO, 'pipeline', 'Cargo.toml')).read()
        if re.search(r'^verif\s*=', cargo, re.M):
            ctx.xvc_hook = chk.build_xvc(features=HOOK_FEATURE)
            # the hook target directory is shared; keep a private copy of the binary for this run
            ctx.xvc_hook = _private(ctx.xvc_hook, os.path.join(chk.scratch, 'xvc-hook'))
        else:
            chk.proof['broken'].append({'stage': 'hook build', 'package': 'XvcPipeline', 'theorems': [],
                                        'errors': [f'{REPO}/pipeline/Cargo.toml has no cargo feature `verif` (patches/hook-pipeline.patch not applied): '
                                                   'the trace tie between the scheduler model and the code cannot be checked']})
    ctx.base = os.path.join(chk.scratch, 'sb')
    os.makedirs(ctx.base, exist_ok=True)
    ctx.templates = {}
    ctx.lock = threading.Lock()
    ctx.counter = itertools.count()
    chk.trusted_base += [
        'lock-order extractor lib/lock_extract.py (lexical rules R1-R5 in its header; limits: trait objects, guards stored in structs or returned, other crates '
        'except the path metadata provider core/src/util/pmp.rs, which `analyse_pmp` covers with rules P1-P3: calls resolved through `self` only)',
        'translator lib/sched_translate.py (anchored text extraction of the state machine, the run-condition table and the events returned by each handler)',
        'lib/sched_common.py (pipeline generators, journal oracle, trace collection), harness/src/bin/sched_step.rs (step command writing the journal)',
        'trace hooks under cargo feature `verif` of xvc-pipeline (logging and sleeps only; patches/hook-pipeline.patch)',
        'modelled, not verified: crossbeam channels (FIFO per channel, capacity 100000 never reached: a step sends at most 12 states), RwLock sections are atomic, '
        'petgraph::toposort and DiGraphMap::neighbors, the `subprocess` crate (poll/communicate/kill), the operating system (process exit, pipe buffers, SIGKILL), '
        'the 10000 s step timeout (modelled as an event that may fire whenever the command runs, never observed)',
    ]
    chk.assumptions += [
        'the model mirrors pipeline/src/pipeline/mod.rs and command.rs AFTER patches C13-F6, C11-F5, C11-K4b, C11-K4a (and C10-G1 for glob edges); on a tree without them the oracle reports the violations',
        'step commands terminate (procExit is always eventually taken); pipeline.process_pool_size > 0',
        'C10 oracle reading of "downstream of a failed step": failure propagates through steps that are neither `always` nor `never` (a `never` step is frozen and counts as up to date; an `always` step runs and, if it succeeds, unblocks its dependents)',
    ]
    return ctx


# ------------------------------------------------------------------------------------------------ specs

def all_dags(n):
    """all labelled DAGs on n nodes as edge lists (i, j): i depends on j"""
    pairs = [(i, j) for i in range(n) for j in range(n) if i != j]
    for mask in range(1 << len(pairs)):
        edges = [p for k, p in enumerate(pairs) if mask >> k & 1]
        if is_acyclic(n, edges):
            yield edges


def is_acyclic(n, edges):
    deps = {i: {j for (a, j) in edges if a == i} for i in range(n)}
    done = set()
    while len(done) < n:
        ready = [i for i in range(n) if i not in done and deps[i] <= done]
        if not ready:
            return False
        done |= set(ready)
    return True


def random_dag(rng, n, p):
    order = list(range(n))
    rng.shuffle(order)
    pos = {v: k for k, v in enumerate(order)}
    return [(i, j) for i in range(n) for j in range(n) if pos[j] < pos[i] and rng.random() < p]


def mk_spec(n, edges, kinds=None, whens=None, inputs=None, unspawnable=(), generic=(), bigfiles=None, textdeps=(), unspawnable_how=None):
    """edges: (i, j) or (i, j, kind); kind in step|file|glob|globi.
    unspawnable: steps whose command cannot be SPAWNED (not: exits non-zero): they get a --line_items dependency on a
    file with a NUL byte in a selected line; xvc exports the lines in XVC_ALL_LINE_ITEMS and exec() refuses the
    environment with EINVAL, after the step has reserved its process slot."""
    es = []
    for k, e in enumerate(edges):
        kind = e[2] if len(e) > 2 else (kinds[k] if kinds else 'step')
        es.append([e[0], e[1], kind])
    spec = {'n': n, 'edges': es, 'whens': list(whens) if whens else ['by_dependencies'] * n,
            'inputs': list(inputs) if inputs else [False] * n}
    if unspawnable:
        spec['unspawnable'] = sorted(unspawnable)
        if unspawnable_how:
            spec['unspawnable_how'] = unspawnable_how      # 'e2big': a 140000 character item instead of the NUL byte
    if generic:
        spec['generic'] = sorted(generic)             # steps with `--generic 'cat gen/s<i>.txt'`
    if bigfiles:
        spec['bigfiles'] = {str(i): list(v) for i, v in bigfiles.items()}   # step -> sizes in MiB of sparse `--file` dependencies
    if textdeps:
        spec['textdeps'] = sorted(textdeps)           # steps with --lines, --regex, --param and --glob dependencies on small files
    return spec


def spec_deps(spec):
    return {i: sorted({j for (a, j, _) in spec['edges'] if a == i}) for i in range(spec['n'])}


def out_path(j):
    return f'out/s{j}/o.txt'


def in_path(i):
    return f'in/s{i}.txt'


def nul_path(i):
    return f'nul/s{i}.txt'


def gen_path(i):
    return f'gen/s{i}.txt'


def big_path(i, k):
    return f'big/s{i}_{k}.dat'


def refresh_changing_deps(root, spec, r):
    """make every generic / big file / text dependency CHANGED for run r (sparse files: no disk space used)"""
    for i in spec.get('generic', []):
        os.makedirs(os.path.join(root, 'gen'), exist_ok=True)
        open(os.path.join(root, gen_path(i)), 'w').write(f'generation {r}\n')
    for i, sizes in spec.get('bigfiles', {}).items():
        os.makedirs(os.path.join(root, 'big'), exist_ok=True)
        for k, mb in enumerate(sizes):
            pth = os.path.join(root, big_path(i, k))
            with open(pth, 'ab'):
                pass
            os.truncate(pth, int(mb * 1024 * 1024) + r + 1)
    for i in spec.get('textdeps', []):
        # files in the repository root: xvc's --regex/--lines option parsers do not accept a `/` in the file name
        open(os.path.join(root, f'lines_s{i}.txt'), 'w').write(f'alpha {r}\nbeta {r}\ngamma\n')
        open(os.path.join(root, f'params_s{i}.yaml'), 'w').write(f'k: {r}\nother: 1\n')
        open(os.path.join(root, f'glb_s{i}_{r % 2}.glb'), 'w').write(f'{r}\n')


# ---- dependency paths SHARED by several steps (spec['shared'], round 5).  The path metadata provider of xvc-core caches
# ---- per path, so what one step thread learned about a path (e.g. "missing") is what the next lookup of any thread starts from.

SHARED_KINDS = ('file', 'regex', 'lines', 'glob')


def shared_target(k, kind):
    """what the dependency option names: a file under shr/ (`--file`), a file in the repository root (`--regex`, `--lines`:
    their option parsers do not accept a `/`), or a pattern over the directory shr/d<k>/ (`--glob`)"""
    if kind == 'glob':
        return f'shr/d{k}/*.txt'
    return f'shr/f{k}.txt' if kind == 'file' else f'shr_f{k}.txt'


def mk_shared(k, kind, users, exists=False, creator=None, output_of=None, created=False):
    """one shared path.  users: the steps that declare the dependency; exists: the file (for glob: the directory with two
    members) is there before the run; creator: a step whose COMMAND creates the file (not declared as its output);
    output_of: a step that DECLARES the path as its output (implicit edges user -> producer), created: its command writes it."""
    assert kind in SHARED_KINDS and users
    return {'k': k, 'kind': kind, 'path': shared_target(k, kind), 'users': sorted(set(users)), 'exists': bool(exists),
            'creator': creator, 'output_of': (output_of if kind != 'glob' else None), 'created': bool(created)}


def add_shared(spec, entries):
    """attach shared paths to a spec; declared outputs add the implicit edges user -> producer (kind 'shared': no CLI option
    of its own, the edge follows from the path) so that every consumer of spec['edges'] sees them"""
    spec = json.loads(json.dumps(spec))
    spec['shared'] = entries
    for e in entries:
        if e.get('output_of') is not None:
            for u in e['users']:
                if u != e['output_of'] and [u, e['output_of'], 'shared'] not in spec['edges']:
                    spec['edges'].append([u, e['output_of'], 'shared'])
    return spec


def shared_dep_args(spec, i):
    args = []
    for e in spec.get('shared', []):
        if i in e['users']:
            if e['kind'] == 'file':
                args += ['--file', e['path']]
            elif e['kind'] == 'regex':
                args += ['--regex', e['path'] + ':/^[a-z]/']
            elif e['kind'] == 'lines':
                args += ['--lines', e['path'] + '::1-2']
            else:
                args += ['--glob', e['path']]
    return args


def shared_write_files(root, spec):
    os.makedirs(os.path.join(root, 'shr'), exist_ok=True)
    for e in spec.get('shared', []):
        if not e['exists']:
            continue
        if e['kind'] == 'glob':
            d = os.path.join(root, os.path.dirname(e['path']))
            os.makedirs(d, exist_ok=True)
            for m in ('a', 'b'):
                open(os.path.join(d, m + '.txt'), 'w').write(f'member {m}\n')
        else:
            open(os.path.join(root, e['path']), 'w').write('alpha\nbeta\ngamma\n')


def shared_touches(spec, i):
    """paths the command of step i creates: as the creator of a shared file, or as the producer that writes its declared output"""
    out = []
    for e in spec.get('shared', []):
        pth = e['path'] if e['kind'] != 'glob' else os.path.dirname(e['path']) + '/c.txt'
        if e.get('creator') == i or (e.get('output_of') == i and e.get('created')):
            out.append(pth)
    return out


def shared_certainly_broken(spec):
    """steps that cannot end done: they read (file, regex, lines) a path that does not exist and that nothing creates"""
    out = set()
    for e in spec.get('shared', []):
        if e['kind'] != 'glob' and not e['exists'] and e.get('creator') is None and not (e.get('output_of') is not None and e.get('created')):
            out |= {u for u in e['users'] if spec['whens'][u] != 'never'}
    return out


def shared_driver_lines(spec):
    L = []
    for e in spec.get('shared', []):
        for u in e['users']:
            if e['kind'] == 'file':
                L.append(f'dep {u} file {e["path"]}')
            elif e['kind'] == 'glob':
                L.append(f'dep {u} glob {e["path"]}')
            else:
                L.append(f'dep {u} path {"Regex" if e["kind"] == "regex" else "Lines"} {e["path"]}')
    for e in spec.get('shared', []):
        if e.get('output_of') is not None:
            L.append(f'out {e["output_of"]} {e["path"]}')
    return L


def shared_describe(spec):
    L = []
    for e in spec.get('shared', []):
        state = ('exists' if e['exists'] else 'DOES NOT EXIST') + (' (directory with a.txt, b.txt)' if e['kind'] == 'glob' and e['exists'] else '')
        if e.get('output_of') is not None:
            L.append(f'xvc pipeline step output -s s{e["output_of"]} --output-file {e["path"]}   # its command ' +
                     ('writes it' if e.get('created') else 'does NOT write it'))
        if e.get('creator') is not None:
            L.append(f'#   the command of s{e["creator"]} creates {shared_touches(spec, e["creator"])} (not declared as an output)')
        for u in e['users']:
            L.append(f'xvc pipeline step dependency -s s{u} ' + ' '.join(shared_dep_args({'shared': [dict(e, users=[u])]}, u)) + f'   # shared path, {state}')
    return L


def shared_drop_step(entries, k, ren):
    out = []
    for e in entries:
        users = [ren[u] for u in e['users'] if u != k]
        if not users:
            continue
        e2 = dict(e, users=users)
        e2['creator'] = ren[e['creator']] if e.get('creator') not in (None, k) else None
        if e.get('output_of') == k:
            e2['output_of'], e2['created'] = None, False
        elif e.get('output_of') is not None:
            e2['output_of'] = ren[e['output_of']]
        out.append(e2)
    return out


# ---- steps that SHARE ONE COMMAND LINE (spec['twins'], round 6).  xvc identifies a step command by its string
# ---- (`XvcStepCommand { command: String }`, derives Eq): whatever the scheduler keys by the command must still treat the steps
# ---- of a group as separate executions.  The shared command finds its identity at run time: it takes the first free ticket
# ---- (`mkdir .ctl/tk_<member>`, atomic) of its group and becomes `sched_step <member>`, so the journal still says which
# ---- execution started/ended when and each ticket has its own behaviour file.

def add_twins(spec, groups):
    """groups: lists of steps (>= 2 each, disjoint) that get ONE command string per group.  Which thread runs which ticket is
    decided at run time, so the members of a group must be interchangeable for the oracle: same dependencies, same `when`,
    same dependents (asserted here; their behaviours must not fail: the caller's business)."""
    spec = json.loads(json.dumps(spec))
    deps = spec_deps(spec)
    seen = set()
    for g in groups:
        g = sorted(g)
        assert len(g) >= 2 and not (set(g) & seen), groups
        seen |= set(g)
        dependents = lambda m: sorted({a for (a, j, _) in spec['edges'] if j == m})
        assert all(deps[m] == deps[g[0]] and spec['whens'][m] == spec['whens'][g[0]] and dependents(m) == dependents(g[0]) for m in g), \
            f'twins {g} are not interchangeable'
        assert not any(m in spec.get(k, []) for m in g for k in ('unspawnable', 'generic', 'textdeps')) and not any(spec['inputs'][m] for m in g)
    spec['twins'] = [sorted(g) for g in groups]
    return spec


def twin_group(spec, i):
    for g in spec.get('twins', []):
        if i in g:
            return g
    return None


def step_command(ctx, spec, i):
    """the command string of step i.  Ordinary steps: `exec sched_step s<i> $$`.  Members of a twin group: the same string for the
    whole group: take the first free ticket, become that member; when every ticket is taken (the command was started more
    often than the group has steps) run as the last member once more, which the `once` clause reports."""
    g = twin_group(spec, i)
    if not g:
        # `$$`: pid of the shell xvc runs the command with; used by the outcome class "terminated by a signal"
        return f'exec {ctx.step_bin} s{i} $$'
    names = ' '.join(f's{m}' for m in g)
    return (f'for m in {names}; do if mkdir .ctl/tk_$m 2>/dev/null; then exec {ctx.step_bin} $m $$; fi; done; '
            f'exec {ctx.step_bin} s{g[-1]} $$')


def clear_twin_tickets(root, spec):
    for g in spec.get('twins', []):
        for m in g:
            try:
                os.rmdir(os.path.join(root, '.ctl', f'tk_s{m}'))
            except OSError:
                pass


def mk_case(spec, pool, behav=None, sched=None, runs=1, missing=(), absent_outputs=False, label='', touch_inputs=False, fault=None):
    n = spec['n']
    behav = behav or [{} for _ in range(n)]
    behav = [dict({'rc': b.get('rc', 0), 'sleep_ms': b.get('sleep_ms', 0), 'out': b.get('out', 0), 'err': b.get('err', 0)},
                  **({'signal': b['signal'], 'sigtouch': bool(b.get('sigtouch'))} if b.get('signal') else {}),
                  **({'closefds': b['closefds']} if b.get('closefds') else {})) for b in behav]
    return {'spec': spec, 'pool': pool, 'behav': behav, 'sched': sched, 'runs': runs, 'missing': sorted(missing),
            'absent_outputs': bool(absent_outputs), 'label': label, 'touch_inputs': bool(touch_inputs), **({'fault': fault} if fault else {})}


def case_key(case):
    return hashlib.sha1(json.dumps(case, sort_keys=True).encode()).hexdigest()


# ------------------------------------------------------------------------------------------------ building pipelines

def _template_key(spec, absent_outputs):
    return json.dumps([spec, absent_outputs], sort_keys=True)


def build_template(ctx, spec, absent_outputs=False):
    """a scratch git+xvc repository with the pipeline of `spec` defined through the CLI; returns its base dir"""
    key = _template_key(spec, absent_outputs)
    with ctx.lock:
        if key in ctx.templates:
            return ctx.templates[key]
        name = f't{next(ctx.counter)}'
    sb = Sandbox(ctx.base, name, ctx.xvc)
    rc, out, err = sb.init()
    if rc != 0:
        raise RuntimeError(f'xvc init failed: {err}')
    os.makedirs(sb.path('.ctl'))
    n = spec['n']
    need_out = {j for (_, j, k) in spec['edges'] if k in ('file', 'glob', 'globi')}
    for j in need_out:
        os.makedirs(os.path.dirname(sb.path(out_path(j))), exist_ok=True)
        if not absent_outputs:
            sb.write(out_path(j), f'initial {j}\n')
    for i in range(n):
        if spec['inputs'][i]:
            sb.write(in_path(i), f'input {i}\n')
    for i in spec.get('unspawnable', []):
        if spec.get('unspawnable_how') == 'e2big':
            # one selected line of 140000 characters: XVC_ALL_LINE_ITEMS exceeds the 128 KiB per-string limit of execve (E2BIG)
            sb.write(nul_path(i), b'first\n' + b'x' * 140000 + b'\nthird\n')
        else:
            sb.write(nul_path(i), b'first\nsecond\0line\nthird\n')
    if spec.get('shared'):
        shared_write_files(sb.root, spec)
    refresh_changing_deps(sb.root, {k: v for k, v in spec.items() if k in ('generic', 'textdeps')}, 0)
    log = []

    def x(*args):
        rc, out, err = sb.x('--skip-git', 'pipeline', *args)
        log.append({'argv': ['xvc', '--skip-git', 'pipeline'] + list(args), 'rc': rc, 'err': err[-300:]})
        if rc != 0:
            raise RuntimeError(f'xvc pipeline {" ".join(args)} failed rc={rc}: {err[-500:]}')
    for i in range(n):
        args = ['step', 'new', '-s', f's{i}', '-c', step_command(ctx, spec, i)]
        if spec['whens'][i] != 'by_dependencies':
            args += ['--when', spec['whens'][i]]
        x(*args)
    for i in range(n):
        args = []
        for (a, j, k) in spec['edges']:
            if a != i:
                continue
            if k == 'step':
                args += ['--step', f's{j}']
            elif k == 'file':
                args += ['--file', out_path(j)]
            elif k == 'glob':
                args += ['--glob', f'out/s{j}/*.txt']
            elif k == 'globi':
                args += ['--glob_items', f'out/s{j}/*.txt']
        if spec['inputs'][i]:
            args += ['--file', in_path(i)]
        if i in spec.get('unspawnable', []):
            args += ['--line_items', f'{nul_path(i)}::1-3']
        if i in spec.get('generic', []):
            args += ['--generic', f'cat {gen_path(i)}']
        for k in range(len(spec.get('bigfiles', {}).get(str(i), []))):
            args += ['--file', big_path(i, k)]
        if i in spec.get('textdeps', []):
            args += ['--lines', f'lines_s{i}.txt::1-2', '--regex', f'lines_s{i}.txt:/^a/',
                     '--param', f'params_s{i}.yaml::k', '--glob', f'glb_s{i}_*.glb']
        args += shared_dep_args(spec, i)
        if args:
            x('step', 'dependency', '-s', f's{i}', *args)
    for j in sorted(need_out):
        x('step', 'output', '-s', f's{j}', '--output-file', out_path(j))
    for e in spec.get('shared', []):
        if e.get('output_of') is not None:
            x('step', 'output', '-s', f's{e["output_of"]}', '--output-file', e['path'])
    with ctx.lock:
        ctx.templates[key] = (sb.base, log)
    return sb.base, log


def _proc_children(pid):
    """live child processes of pid: [(pid, comm, state)]"""
    out = []
    for d in os.listdir('/proc'):
        if not d.isdigit():
            continue
        try:
            st = open(f'/proc/{d}/stat').read()
        except OSError:
            continue
        r = st.rindex(')')
        comm = st[st.index('(') + 1:r]
        f = st[r + 2:].split()
        if int(f[1]) == pid:
            out.append((int(d), comm, f[0]))
    return out


def _proc_cpu_ticks(pid):
    """utime+stime of the process (all threads) and the states of its threads"""
    try:
        st = open(f'/proc/{pid}/stat').read()
        f = st[st.rindex(')') + 2:].split()
        ticks = int(f[11]) + int(f[12])
    except (OSError, ValueError, IndexError):
        return None, []
    states = []
    try:
        for t in os.listdir(f'/proc/{pid}/task'):
            try:
                ts = open(f'/proc/{pid}/task/{t}/stat').read()
                wchan = open(f'/proc/{pid}/task/{t}/wchan').read().strip()
                states.append(ts[ts.rindex(')') + 2] + ':' + wchan)
            except OSError:
                pass
    except OSError:
        pass
    return ticks, states


def _observe_overdue(p):
    """p is still alive at its timeout: watch it.  Returns (hung, live children, hang record, (out, err) if finished).  Not hung when it finishes
    within the grace period (3 s windows, up to 60 s while it keeps using CPU)."""
    waited, window = 0.0, 3.0
    while True:
        c0, _ = _proc_cpu_ticks(p.pid)
        tw = time.time()
        try:
            outerr = p.communicate(timeout=window)       # keeps draining the pipes, if any
            return False, [], None, outerr               # finished after all: slow, not hung
        except subprocess.TimeoutExpired:
            pass
        elapsed = time.time() - tw
        waited += elapsed
        c1, states = _proc_cpu_ticks(p.pid)
        busy = (c1 - c0) if (c0 is not None and c1 is not None) else 0
        stalled = elapsed > 2 * window                  # the observer itself was not scheduled: the machine stalled again
        if (not stalled and busy < 30) or waited > 60:
            return True, _proc_children(p.pid), {'alive_after_timeout_s': round(waited, 1), 'cpu_ticks_in_last_window': busy,
                                                 'threads': sorted(states)[:40]}, None


FAULTS = ['stdout-closed', 'stdout-head1', 'stdout-64bytes', 'stderr-closed', 'stderr-head1', 'both-closed', 'stdout-devfull', 'both-devfull']


def _pgrp_members(pgid, comm_prefix='xvc'):
    out = []
    for d in os.listdir('/proc'):
        if not d.isdigit():
            continue
        try:
            st = open(f'/proc/{d}/stat').read()
        except OSError:
            continue
        r = st.rindex(')')
        comm = st[st.index('(') + 1:r]
        f = st[r + 2:].split()
        if int(f[2]) == pgid and f[0] != 'Z' and comm.startswith(comm_prefix):
            out.append((int(d), comm, f[0]))
    return out


def run_xvc_fault(ctx, root, env, binary, pool, timeout, fault, rbase):
    """`xvc pipeline run` whose output cannot be delivered: the reader of the stdout (stderr) pipe goes away at once
    (`| true`), after the first line (`| head -1`), after 64 bytes, or the stream is /dev/full (every write fails, ENOSPC)."""
    argv = [binary, '--skip-git', '-c', f'pipeline.process_pool_size={pool}', 'pipeline', 'run']
    files, readers, closers = {}, [], []

    def stream(name):
        mode = None
        if fault.startswith(name + '-') or fault.startswith('both-'):
            mode = fault.split('-', 1)[1]
        if mode is None:
            f = open(os.path.join(rbase, f'fault.{name}'), 'wb')
            files[name] = f.name
            closers.append(f)
            return f
        if mode == 'devfull':
            f = open('/dev/full', 'wb')
            closers.append(f)
            return f
        r, w = os.pipe()
        got = bytearray()

        def reader():
            try:
                if mode == 'head1':
                    while b'\n' not in got:
                        b = os.read(r, 1)
                        if not b:
                            break
                        got.extend(b)
                elif mode.endswith('bytes'):
                    n = int(mode[:-5])
                    while len(got) < n:
                        b = os.read(r, n - len(got))
                        if not b:
                            break
                        got.extend(b)
            finally:
                os.close(r)                     # the reader goes away
        if mode == 'closed':
            os.close(r)
        else:
            t = threading.Thread(target=reader, daemon=True)
            t.start()
            readers.append(t)
        files[name + '_read'] = got
        closers.append(os.fdopen(w, 'wb'))
        return closers[-1]
    so, se = stream('stdout'), stream('stderr')
    t0 = time.time()
    p = subprocess.Popen(argv, cwd=root, env=env, stdout=so, stderr=se, start_new_session=True)
    for c in closers:
        try:
            c.close()
        except OSError:
            pass
    timed_out, children, hang = False, [], None
    try:
        p.wait(timeout=timeout)
    except subprocess.TimeoutExpired:
        timed_out, children, hang, _ = _observe_overdue(p)
    leftover = []
    if not timed_out:
        time.sleep(0.3)
        leftover = _pgrp_members(p.pid)
        if leftover:
            time.sleep(1.5)
            leftover = _pgrp_members(p.pid)
    try:
        os.killpg(p.pid, signal.SIGKILL)
    except OSError:
        pass
    try:
        p.wait(timeout=10)
    except subprocess.TimeoutExpired:
        pass

    def text(name):
        if name in files:
            try:
                return open(files[name], 'rb').read().decode('utf-8', 'replace')
            except OSError:
                return ''
        return bytes(files.get(name + '_read', b'')).decode('utf-8', 'replace')
    return {'rc': 124 if timed_out else p.returncode, 'timed_out': timed_out, 'live_children': children, 'hang': hang,
            'leftover_xvc_processes': leftover, 'fault': fault,
            'stdout': text('stdout'), 'stderr': text('stderr'), 'wall': round(time.time() - t0, 3)}


def run_xvc(ctx, root, env, binary, pool, timeout, verbose=False):
    """one `xvc pipeline run`; returns observation dict.
    A run that is still alive at the timeout is OBSERVED before it is judged: if it finishes within the grace period it was
    slow (a stall of the shared machine makes healthy runs exceed any timeout), not hung.  It counts as not terminating
    when it is still alive after the grace period and used (almost) no CPU in it (blocked or polling), or is still alive
    after the long grace period."""
    argv = [binary, '--skip-git', '-c', f'pipeline.process_pool_size={pool}'] + (['-vvv'] if verbose else []) + ['pipeline', 'run']
    t0 = time.time()
    p = subprocess.Popen(argv, cwd=root, env=env, stdout=subprocess.PIPE, stderr=subprocess.PIPE, start_new_session=True)
    timed_out, children, hang = False, [], None
    try:
        out, err = p.communicate(timeout=timeout)
    except subprocess.TimeoutExpired:
        timed_out, children, hang, outerr = _observe_overdue(p)
        if timed_out:
            try:
                os.killpg(p.pid, signal.SIGKILL)
            except OSError:
                pass
            out, err = p.communicate()
        else:
            out, err = outerr
    return {'rc': 124 if timed_out else p.returncode, 'timed_out': timed_out, 'live_children': children, 'hang': hang,
            'stdout': out.decode('utf-8', 'replace'), 'stderr': err.decode('utf-8', 'replace'), 'wall': round(time.time() - t0, 3)}


def parse_journal(text):
    ev = []
    for l in text.split('\n'):
        t = l.split()
        if len(t) >= 3 and t[0] in ('start', 'end'):
            ev.append({'kind': t[0], 'step': int(t[1][1:]), 'ns': int(t[2]), 'rc': int(t[3]) if len(t) > 3 else None})
    return ev


def run_case(ctx, case, hook=False, timeout=20, keep=False):
    """copy the template, write the behaviour files, run `xvc pipeline run` case['runs'] times.
    returns list of observations (one per run)"""
    if case.get('history'):
        import sched_history
        return sched_history.run_history(ctx, case, hook=hook, timeout=timeout, keep=keep)
    spec = case['spec']
    tbase, _ = build_template(ctx, spec, case.get('absent_outputs', False))
    with ctx.lock:
        name = f'r{next(ctx.counter)}'
    rbase = os.path.join(ctx.base, name)
    shutil.copytree(tbase, rbase, symlinks=True)
    root = os.path.join(rbase, 'repo')
    home = os.path.join(rbase, 'home')
    env = {'PATH': os.environ.get('PATH', '/usr/bin:/bin'), 'HOME': home, 'XDG_CONFIG_HOME': os.path.join(home, '.config'),
           'RUST_BACKTRACE': '0', 'GIT_AUTHOR_NAME': 'v', 'GIT_AUTHOR_EMAIL': 'v@v', 'GIT_COMMITTER_NAME': 'v',
           'GIT_COMMITTER_EMAIL': 'v@v', 'GIT_CONFIG_NOSYSTEM': '1', 'LC_ALL': 'C.UTF-8', 'TZ': 'UTC'}
    trace_path = os.path.join(rbase, 'trace')
    if hook:
        env['XVC_VERIF_TRACE'] = trace_path
        if case.get('sched'):
            env['XVC_VERIF_SCHED'] = case['sched']
    need_out = {j for (_, j, k) in spec['edges'] if k in ('file', 'glob', 'globi')}
    for i in range(spec['n']):
        b = case['behav'][i]
        lines = [f'sleep_ms {b["sleep_ms"]}', f'rc {b["rc"]}', f'out {b["out"]}', f'err {b["err"]}']
        if b.get('signal'):
            lines += [f'signal {b["signal"]}', f'sigtouch {1 if b.get("sigtouch") else 0}']
        if b.get('closefds'):
            lines.append(f'closefds {b["closefds"]}')
        if i in need_out:
            lines.append(f'touch {out_path(i)}')
        lines += [f'touch {p}' for p in shared_touches(spec, i)]
        open(os.path.join(root, '.ctl', f's{i}'), 'w').write('\n'.join(lines) + '\n')
    for i in case.get('missing', []):
        try:
            os.unlink(os.path.join(root, in_path(i)))
        except OSError:
            pass
    obs = []
    for r in range(case.get('runs', 1)):
        if spec.get('generic') or spec.get('bigfiles') or spec.get('textdeps'):
            refresh_changing_deps(root, spec, r + 1)
        if r > 0 and case.get('touch_inputs'):
            # same bytes, new mtime: the superficial comparison reports a change, the thorough one does not
            for i in range(spec['n']):
                pth = os.path.join(root, in_path(i))
                if spec['inputs'][i] and os.path.exists(pth):
                    st = os.stat(pth)
                    os.utime(pth, ns=(st.st_atime_ns + 2_000_000_000, st.st_mtime_ns + 2_000_000_000))
        jp = os.path.join(root, '.ctl', 'journal')
        if spec.get('twins'):
            clear_twin_tickets(root, spec)
        for pth in (jp, trace_path):
            try:
                os.unlink(pth)
            except OSError:
                pass
        if case.get('fault'):
            o = run_xvc_fault(ctx, root, env, ctx.xvc_hook if hook else ctx.xvc, case['pool'], timeout, case['fault'], rbase)
        else:
            o = run_xvc(ctx, root, env, ctx.xvc_hook if hook else ctx.xvc, case['pool'], timeout)
        try:
            o['journal'] = parse_journal(open(jp).read())
        except OSError:
            o['journal'] = []
        if hook:
            try:
                o['trace'] = open(trace_path).read().split('\n')[:-1]
            except OSError:
                o['trace'] = []
        o['run'] = r
        o['hook'] = hook
        obs.append(o)
        if o['timed_out']:
            break
    if not keep:
        for dp, dn, fn in os.walk(rbase):
            try:
                os.chmod(dp, 0o755)
            except OSError:
                pass
        shutil.rmtree(rbase, ignore_errors=True)
    return obs


# ------------------------------------------------------------------------------------------------ journal oracle

def has_cycle(spec):
    return not is_acyclic(spec['n'], [(a, j) for (a, j, _) in spec['edges']])


def oracle(case, o, first_run=True):
    """What C10 / C11 / C13 demand of one observed run.  Returns [{'property','clause','what','detail'}].
    Uses only: the pipeline as it was defined (case), the journal written by the step commands, exit status/output
    of xvc, the clock.  Independent of the Lean model and of the hooks (the `verdict` clause reads the hook trace
    when there is one and is labelled so)."""
    if case.get('history'):
        # a run of an edited pipeline is judged on the pipeline as it was defined at that stage
        return oracle(o['stage_case'], o)
    spec, n = case['spec'], case['spec']['n']
    deps = spec_deps(spec)
    whens = spec['whens']
    fails = []

    def fail(prop, clause, what, **detail):
        fails.append({'property': prop, 'clause': clause, 'what': what, 'detail': detail})
    J = o['journal']
    starts, ends = {}, {}
    for e in J:
        (starts if e['kind'] == 'start' else ends).setdefault(e['step'], []).append(e)
    # ---- output fault: only C11's headline can be judged (what was printed is gone): the run terminates, whatever its exit
    # status (a panic exit is fine), and leaves no xvc process behind
    if case.get('fault'):
        if o['timed_out']:
            fail('C11', 'terminates', f'xvc pipeline run with output fault `{case["fault"]}` did not terminate within {o["wall"]} s '
                 f'(step commands sleep at most {max(b["sleep_ms"] for b in case["behav"])} ms)',
                 fault=case['fault'], live_children=o['live_children'], hang=o.get('hang'), attempt=o.get('run'), journal=J,
                 stderr_tail=o['stderr'][-600:])
        elif o.get('leftover_xvc_processes'):
            fail('C11', 'leftover', f'xvc pipeline run with output fault `{case["fault"]}` ended (status {o["rc"]}) but left processes behind',
                 leftover=o['leftover_xvc_processes'], fault=case['fault'])
        return fails
    # ---- cycle: rejected before any command runs
    if has_cycle(spec):
        if o['timed_out']:
            fail('C10', 'cycle', 'a pipeline with a cyclic dependency graph was not rejected: xvc pipeline run did not terminate')
        elif o['rc'] == 0 and '[ERROR]' not in o['stderr']:
            fail('C10', 'cycle', 'a pipeline with a cyclic dependency graph was not rejected (exit status 0, no [ERROR])', rc=o['rc'])
        if J:
            fail('C10', 'cycle', 'step commands ran although the dependency graph has a cycle', journal=J[:6])
        return fails
    # ---- C11: terminates
    if o['timed_out']:
        fail('C11', 'terminates', f'xvc pipeline run did not terminate within {o["wall"]} s '
             f'(step commands sleep at most {max(b["sleep_ms"] for b in case["behav"])} ms)',
             live_children=o['live_children'], hang=o.get('hang'), attempt=o.get('run'), journal=J, stderr_tail=o['stderr'][-400:],
             steps_without_verdict=[f's{i}' for i in range(n) if i not in ends and f'[s{i}]' not in o['stdout'] and f'Step s{i} ' not in o['stderr']])
    else:
        for s in starts:
            if len(ends.get(s, [])) < len(starts[s]):
                fail('C11', 'verdict', f'step s{s} started but xvc exited before its command ended', journal=J)
        if o.get('hook') and o.get('trace') is not None:
            final = trace_final_states(o['trace'])
            for i in range(n):
                if i in spec.get('absent', []):
                    continue                    # not defined at this stage of an edited pipeline
                st = final.get(f's{i}')
                if st is None or st.split('(')[0] not in ('DoneByRunning', 'DoneWithoutRunning', 'Broken'):
                    fail('C11', 'verdict', f'step s{i} ended without a verdict: last published state {st} (hook trace)', final=final)
    # ---- C10: only a command that exited with status 0 counts as finished successfully
    if not o['timed_out']:
        final = trace_final_states(o['trace']) if (o.get('hook') and o.get('trace')) else {}
        for s in range(n):
            bad = [e for e in ends.get(s, []) if e['rc'] not in (0, None)]
            if not bad:
                continue
            how = (f'was terminated by signal {bad[0]["rc"] - 128}' if case['behav'][s].get('signal') else f'exited with status {bad[0]["rc"]}')
            if re.search(r'^\[DONE\] \[s%d\]' % s, o['stdout'], re.M):
                fail('C10', 'status', f'step s{s} is reported [DONE] although its command {how}', stdout_tail=o['stdout'][-300:])
            elif final.get(f's{s}', '').startswith('DoneByRunning'):
                fail('C10', 'status', f'step s{s} is published as DoneByRunning although its command {how} (hook trace)', final=final)
    # ---- C10: order and success of dependencies
    failed = set()
    for s in range(n):
        if any(e['rc'] not in (0, None) for e in ends.get(s, [])):
            failed.add(s)
        if s in case.get('missing', []) and whens[s] != 'never':
            failed.add(s)
        if s in spec.get('unspawnable', []) and whens[s] != 'never':
            failed.add(s)            # its command cannot be started: the step cannot end done
    failed |= shared_certainly_broken(spec)      # reads a shared path that does not exist and that nothing creates
    # failure propagates through steps that are neither always nor never
    broken = set(failed)
    changed = True
    while changed:
        changed = False
        for s in range(n):
            if s not in broken and whens[s] == 'by_dependencies' and any(d in broken for d in deps[s]):
                broken.add(s); changed = True
    for s in starts:
        st = starts[s][0]
        if len(starts[s]) > 1:
            fail('C10', 'once', f'the command of step s{s} was started {len(starts[s])} times in one run', journal=J)
        for d in deps[s]:
            if d in starts:
                if d not in ends:
                    if not o['timed_out']:
                        fail('C10', 'order', f's{s} started although its dependency s{d} never ended', journal=J)
                    else:
                        fail('C10', 'order', f's{s} started while its dependency s{d} was still running', journal=J)
                elif not ends[d][0]['ns'] < st['ns']:
                    fail('C10', 'order', f's{s} started {(ends[d][0]["ns"] - st["ns"]) / 1e6:.1f} ms before its dependency s{d} ended',
                         start=st, dep_end=ends[d][0])
            if whens[s] != 'always' and d in broken:
                why = 'failed' if d in failed else 'is downstream of a failed step'
                fail('C10', 'downstream', f's{s} (when={whens[s]}) was executed although its dependency s{d} {why}',
                     failed=sorted(failed), broken=sorted(broken), journal=J)
    # ---- C13: pool
    evs = []
    for s in starts:
        evs.append((starts[s][0]['ns'], 1, s))
        if s in ends:
            evs.append((ends[s][0]['ns'], 0, s))
    evs.sort()
    cur, best, at = set(), 0, None
    for ns, k, s in evs:
        if k == 1:
            cur.add(s)
            if len(cur) > best:
                best, at = len(cur), sorted(cur)
        else:
            cur.discard(s)
    if best > case['pool']:
        fail('C13', 'pool', f'{best} step commands ran at the same time ({", ".join("s%d" % x for x in at)}) with pipeline.process_pool_size={case["pool"]}',
             overlap=at, journal=J)
    return fails


def _failed_threads(trace):
    """names of the steps with a D (thread failure) line"""
    names, out = {}, set()
    for l in trace:
        t = l.split(' ')
        if len(t) >= 4 and t[1] == 'V':
            names[t[2]] = t[3]
    for l in trace:
        t = l.split(' ')
        if len(t) >= 3 and t[1] == 'D':
            out.add(names.get(t[2], t[2]))
    return out


def trace_final_states(trace):
    names, final = {}, {}
    for l in trace:
        t = l.split(' ')
        if len(t) >= 4 and t[1] == 'V':
            names[t[2]] = t[3]
    for l in trace:
        t = l.split(' ')
        if len(t) >= 4 and t[1] == 'H':
            final[names.get(t[2], t[2])] = t[3]
        elif len(t) >= 4 and t[1] == 'D':
            final[names.get(t[2], t[2])] = 'Broken(FromKeepBroken)'
    return final


# ------------------------------------------------------------------------------------------------ trace tie

def driver_input(case, trace, cid, header=None):
    if header is not None:
        return [f'case {cid}'] + list(header) + ['trace-begin'] + list(trace) + ['trace-end']
    spec = case['spec']
    L = [f'case {cid}', f'n {spec["n"]} pool {case["pool"]}']
    for i in range(spec['n']):
        L.append(f'step {i} s{i} {spec["whens"][i]}')
    for (a, j, k) in spec['edges']:
        if k == 'step':
            L.append(f'dep {a} step {j}')
        elif k == 'file':
            L.append(f'dep {a} file {out_path(j)}')
        elif k == 'shared':
            continue                         # follows from the shared path and the declared output below
        else:
            L.append(f'dep {a} glob out/s{j}/*.txt')
    for i in range(spec['n']):
        if spec['inputs'][i]:
            L.append(f'dep {i} file {in_path(i)}')
    for i in spec.get('unspawnable', []):
        L.append(f'dep {i} file {nul_path(i)}')
    for i in spec.get('generic', []):
        L.append(f'dep {i} other')
    for i, sizes in spec.get('bigfiles', {}).items():
        for k in range(len(sizes)):
            L.append(f'dep {i} file {big_path(i, k)}')
    for i in spec.get('textdeps', []):
        L += [f'dep {i} file lines_s{i}.txt', f'dep {i} file lines_s{i}.txt', f'dep {i} file params_s{i}.yaml',
              f'dep {i} glob glb_s{i}_*.glb']
    for j in sorted({j for (_, j, k) in spec['edges'] if k in ('file', 'glob', 'globi')}):
        L.append(f'out {j} {out_path(j)}')
    L += shared_driver_lines(spec)
    L.append('trace-begin')
    L += trace
    L.append('trace-end')
    return L


def validate_traces(ctx, items):
    """items: [(case, trace lines)] -> list of driver answers (strings), one per item"""
    if not ctx.model:
        return [None] * len(items)
    lines = []
    for k, item in enumerate(items):
        case, trace = item[0], item[1]
        lines += driver_input(case, trace, k, item[2] if len(item) > 2 else None)
    rc, out, err = common.run_lines(ctx.model, ['sched-validate'], lines, timeout=1200)
    if rc != 0 or len(out) != len(items):
        return [f'driver-failure rc={rc} answers={len(out)} {err[-300:]}'] * len(items)
    return out


# ------------------------------------------------------------------------------------------------ running families

def signature(case, f):
    """decidable facts about a (minimised) failing case, matched against known_findings.json"""
    spec = case['spec']
    deps = spec_deps(spec)
    sig = {'property': f['property'], 'clause': f['clause']}
    if f['clause'] == 'terminates' and str(case.get('label', '')).startswith('long-wait'):
        sig['kind'] = 'hang-after-100000-published-states (bounded notifier channel full)'
    elif f['clause'] in ('terminates', 'leftover') and case.get('fault'):
        sig['kind'] = 'hang-when-output-cannot-be-delivered' if f['clause'] == 'terminates' else 'process-left-behind-after-output-fault'
    elif f['clause'] == 'terminates':
        if any(b['err'] > PIPE_BUF_LINUX for b in case['behav']):
            sig['kind'] = 'stderr-over-pipe-buffer'
        elif any(not e['exists'] for e in spec.get('shared', [])):
            sig['kind'] = 'missing-path-shared-by-steps'
        elif case.get('missing'):
            sig['kind'] = 'missing-dependency-file'
        elif spec.get('unspawnable'):
            sig['kind'] = 'unspawnable-command'
        elif spec.get('generic') and f.get('detail', {}).get('hang') and not f['detail'].get('live_children'):
            sig['kind'] = 'blocked-with-generic-dependency'
        elif _mixed_deps(case):
            sig['kind'] = 'mixed-done-and-broken-dependencies'
        else:
            sig['kind'] = 'hang'
    elif f['clause'] == 'pool':
        sig['kind'] = 'pool-exceeded-after-unspawnable-command' if spec.get('unspawnable') else 'pool-exceeded'
    elif case.get('history') and f['clause'] in ('order', 'downstream'):
        sig['kind'] = 'implicit-edge-missing-after-pipeline-edit'
    elif f['clause'] in ('status', 'downstream') and any(b.get('signal') for b in case['behav']):
        sig['kind'] = 'command-terminated-by-signal-counts-as-done'
    elif f['clause'] in ('order', 'downstream'):
        sig['kind'] = 'glob-dependency-on-absent-output' if case.get('absent_outputs') and any(k in ('glob', 'globi') for (_, _, k) in spec['edges']) else 'order'
    elif f['clause'] == 'cycle':
        sig['kind'] = 'cycle'
    else:
        sig['kind'] = f['clause']
    return sig


def _mixed_deps(case):
    """some waiting step has a dependency that ends broken and one that ends done (predicted from the case alone)"""
    spec = case['spec']
    deps, whens = spec_deps(spec), spec['whens']
    broken = {s for s in range(spec['n']) if whens[s] != 'never' and (case['behav'][s]['rc'] != 0 or case['behav'][s].get('signal') or s in case.get('missing', [])
                                                                      or s in spec.get('unspawnable', []))}
    changed = True
    while changed:
        changed = False
        for s in range(spec['n']):
            if s not in broken and whens[s] == 'by_dependencies' and any(d in broken for d in deps[s]):
                broken.add(s); changed = True
    return any(whens[s] != 'never' and any(d in broken for d in deps[s]) and any(d not in broken for d in deps[s])
               for s in range(spec['n']))


def drop_step(case, k):
    """the case without step k (renumbered)"""
    spec = case['spec']
    ren = {i: (i if i < k else i - 1) for i in range(spec['n']) if i != k}
    nspec = {'n': spec['n'] - 1, 'edges': [[ren[a], ren[j], kd] for (a, j, kd) in spec['edges'] if a != k and j != k],
             'whens': [w for i, w in enumerate(spec['whens']) if i != k], 'inputs': [w for i, w in enumerate(spec['inputs']) if i != k]}
    if spec.get('unspawnable'):
        nspec['unspawnable'] = sorted(ren[i] for i in spec['unspawnable'] if i != k)
        if not nspec['unspawnable']:
            del nspec['unspawnable']
    for key in ('generic', 'textdeps'):
        if spec.get(key):
            v = sorted(ren[i] for i in spec[key] if i != k)
            if v:
                nspec[key] = v
    if spec.get('bigfiles'):
        v = {str(ren[int(i)]): sz for i, sz in spec['bigfiles'].items() if int(i) != k}
        if v:
            nspec['bigfiles'] = v
    if spec.get('shared'):
        v = shared_drop_step(spec['shared'], k, ren)
        if v:
            nspec['shared'] = v
    if spec.get('twins'):
        v = [[ren[m] for m in g if m != k] for g in spec['twins']]
        v = [g for g in v if len(g) >= 2]
        if v:
            nspec['twins'] = v
    c = dict(case)
    c['spec'] = nspec
    c['behav'] = [b for i, b in enumerate(case['behav']) if i != k]
    c['missing'] = [ren[i] for i in case.get('missing', []) if i != k]
    return c


def minimise(ctx, case, prop, clause, hook, timeout, budget=14):
    """greedy: drop steps, drop edges, simplify behaviours while the same clause keeps failing"""
    def still(c):
        try:
            obs = run_case(ctx, c, hook=hook, timeout=timeout)
        except Exception:
            return False
        return any(f['property'] == prop and f['clause'] == clause for o in obs for f in oracle(c, o))
    trials = 0
    changed = True
    while changed and trials < budget:
        changed = False
        for k in range(case['spec']['n'] - 1, -1, -1):
            if case['spec']['n'] <= 1 or trials >= budget:
                break
            cand = drop_step(case, k)
            trials += 1
            if still(cand):
                case, changed = cand, True
                break
        if changed:
            continue
        for k in range(len(case['spec']['edges'])):
            if trials >= budget:
                break
            cand = json.loads(json.dumps(case))
            del cand['spec']['edges'][k]
            trials += 1
            if still(cand):
                case, changed = cand, True
                break
    return case


def run_family(ctx, stream, cases, own, hook=False, timeout=20, workers=8, validate=True, max_report=3, confirm=True, shrink=True):
    # confirm=False / shrink=False: for failures that are probabilistic by nature (a lock-order deadlock needs a particular
    # interleaving): a hang is then judged by the observation of the hung process alone (run_xvc) and reported as found
    """Run cases in parallel, evaluate the oracle (and validate hook traces).  Failures of the properties in `own`
    are minimised and reported through chk.oracle_failure; failures of the other scheduler properties are noted."""
    chk = ctx.chk
    st = chk.tie['streams'].setdefault(stream, {'cases': 0, 'runs': 0, 'oracle_failures': 0, 'traces_validated': 0,
                                                'trace_disagreements': 0, 'hook': hook, 'timeouts': 0})
    results = []

    def work(case):
        try:
            return case, run_case(ctx, case, hook=hook, timeout=timeout), None
        except Exception as ex:
            return case, [], repr(ex)
    # build the templates first (one per distinct pipeline definition), then run the cases
    distinct = {}
    for case in cases:
        if case.get('history'):
            continue
        distinct.setdefault(_template_key(case['spec'], case.get('absent_outputs', False)), case)

    def build(case):
        try:
            build_template(ctx, case['spec'], case.get('absent_outputs', False))
        except Exception:
            pass          # reported by the run of the case
    with ThreadPoolExecutor(max_workers=workers) as ex:
        list(ex.map(build, distinct.values()))
        for case, obs, error in ex.map(work, cases):
            results.append((case, obs, error))
    chk.extra['programs'] = chk.extra.get('programs', 0) + len(distinct)
    # a case that could not be built or run (an xvc CLI call exceeding its timeout on the loaded, shared machine) is
    # repeated once, alone, before it counts as an infrastructure failure
    retried = []
    for case, obs, error in results:
        if error:
            first_error = error
            try:
                obs, error = run_case(ctx, case, hook=hook, timeout=timeout), None
                st['infrastructure_retries'] = st.get('infrastructure_retries', 0) + 1
                if st['infrastructure_retries'] <= 2:
                    chk.notes.append(f'{stream}: a case could not be built/run at first ({first_error[:200]}) and was repeated successfully')
            except Exception as ex:
                error = repr(ex)
        retried.append((case, obs, error))
    results = retried
    # A timeout is only evidence of a hang if it can be confirmed: the machine is shared, and a stall of the whole
    # machine (observed once: 420 s) makes every run in flight exceed its timeout.  A run that timed out is repeated
    # alone; it is judged by the repetition unless that times out as well.
    confirmed = []
    genuine_kinds = set()
    for case, obs, error in results:
        kind = 'cycle' if has_cycle(case['spec']) else signature(case, {'property': 'C11', 'clause': 'terminates'})['kind']
        if confirm and not error and any(o['timed_out'] for o in obs) and kind not in genuine_kinds:
            again = None
            for attempt in range(2):
                try:
                    again = run_case(ctx, case, hook=hook, timeout=timeout)
                except Exception:
                    again = None
                    break
                if not any(o['timed_out'] for o in again):
                    break
            if again is not None and not any(o['timed_out'] for o in again):
                st['unconfirmed_timeouts'] = st.get('unconfirmed_timeouts', 0) + 1
                chk.notes.append(f'{stream}: a run exceeded its timeout ({max(o["wall"] for o in obs)} s) but terminated normally when repeated '
                                 f'alone; judged by the repetition (machine stall)')
                obs = again
            else:
                genuine_kinds.add(kind)       # reproduced: further timeouts of this kind are not repeated
        confirmed.append((case, obs, error))
    results = confirmed
    first = {}
    to_validate = []
    for case, obs, error in results:
        st['cases'] += 1
        chk.count(f'{stream}:n={case["spec"]["n"]}')
        chk.count(f'{stream}:pool={case["pool"]}')
        for (_, _, k) in case['spec']['edges']:
            chk.count(f'edge:{k}')
        for w in case['spec']['whens']:
            chk.count(f'when:{w}')
        for b in case['behav']:
            if b.get('closefds'):
                chk.count(f'outcome:streams-closed-early-{b["closefds"]}')
            chk.count('outcome:' + (f'signal-{b["signal"]}' + ('-after-writing-output' if b.get('sigtouch') else '') if b.get('signal')
                                    else ('exit-nonzero' if b['rc'] else 'exit-0')))
        if case.get('fault'):
            chk.count('fault:' + case['fault'])
        for e in case['spec'].get('shared', []):
            chk.count(f'shared:{e["kind"]}:{"exists" if e["exists"] else "missing"}:users={len(e["users"])}' + (':creator' if e.get('creator') is not None else '') +
                      ((':declared-output-' + ('written' if e.get('created') else 'not-written')) if e.get('output_of') is not None else ''))
        for g in case['spec'].get('twins', []):
            chk.count(f'twins:steps-sharing-one-command-line={len(g)}')
        for key in ('unspawnable', 'generic', 'textdeps', 'missing'):
            k = len(case['spec'].get(key, [])) if key != 'missing' else len(case.get('missing', []))
            if k:
                chk.count(f'outcome:{key}', k)
        if error:
            chk.disagreement(stream, case, error, '', 'the pipeline could not be built or run (infrastructure)')
            continue
        for o in obs:
            st['runs'] += 1
            chk.evaluations += 1
            if o['timed_out']:
                st['timeouts'] += 1
            ran = {e['step'] for e in o['journal']}
            chk.count(f'executed_steps={min(len(ran), 9)}')
            if any(e['kind'] == 'end' and e['rc'] for e in o['journal']):
                chk.count('runs_with_failed_step')
            if case['spec']['n'] >= 2 and (case['spec']['edges'] or case['pool'] < case['spec']['n']) and ran:
                chk.nontrivial.add(case_key(case) + str(o['run']))
            fs = oracle(case, o)
            for f in fs:
                st['oracle_failures'] += 1
                key = (f['property'], f['clause'], signature(case, f).get('kind'))
                first.setdefault(key, []).append((case, o, f))
            if hook and validate and not o['timed_out'] and not fs:
                to_validate.append((case, o))
            if len(chk.samples) < 6 and len(ran) >= 2 and st['cases'] % 11 == 1:
                chk.samples.append({'stream': stream, 'case': case, 'rc': o['rc'], 'journal': o['journal'][:12],
                                    'stderr_tail': o['stderr'][-200:]})
    # trace validation
    if to_validate:
        answers = validate_traces(ctx, [(c, o['trace'], o.get('driver_header')) for c, o in to_validate])
        for (case, o), a in zip(to_validate, answers):
            if a is None:
                continue
            st['traces_validated'] += 1
            if a.startswith('valid') and not case.get('missing') and not case['spec'].get('unspawnable') and not case['spec'].get('shared') and _failed_threads(o['trace']):
                # a thread failure nobody asked for.  It is a run of the model (`die` may fire any time), so it only counts
                # when it is reproducible: a spawn that fails for lack of resources on the loaded machine is not
                who = _failed_threads(o['trace'])
                try:
                    again = run_case(ctx, case, hook=True, timeout=timeout)
                except Exception:
                    again = []
                if any(_failed_threads(o2.get('trace', [])) & who for o2 in again):
                    a = 'invalid at=' + next(l.split(' ')[0] for l in o['trace'] if len(l.split(' ')) > 1 and l.split(' ')[1] == 'D') + \
                        f' reason=unexpected-thread-failure of {sorted(who)}, reproduced when the case was repeated (the case has no missing ' \
                        'dependency file and no unspawnable command; `die` steps model handler errors only)'
                else:
                    st['unreproduced_thread_failures'] = st.get('unreproduced_thread_failures', 0) + 1
                    chk.notes.append(f'{stream}: step thread(s) {sorted(who)} failed in one run of a case without injected errors and did not when it was repeated '
                                     f'(resource shortage on the shared machine?): {[l for l in o["stderr"].split(chr(10)) if "broken" in l][:2]}')
            if not a.startswith('valid'):
                st['trace_disagreements'] += 1
                if st['trace_disagreements'] <= 3:
                    chk.disagreement(stream, case, {'trace': o['trace'][:400]}, a, 'hook trace is not a run of the scheduler model')
            else:
                for tok in a.split(' ')[1:]:
                    if tok.startswith('undelivered=') and tok != 'undelivered=0':
                        chk.count('traces_with_states_still_queued_when_the_bulletin_stopped')
                    if tok.startswith('rules='):
                        for r in tok[6:].split(','):
                            if r:
                                nm, _, cntv = r.partition(':')
                                chk.count('model_rule:' + nm, int(cntv or 1))
    # report
    for (prop, clause, kind), lst in first.items():
        case, o, f = lst[0]
        if prop not in own:
            chk.notes.append(f'{stream}: {len(lst)} run(s) violate {prop} clause `{clause}` ({kind}); reported by ./check {prop}: {f["what"]}')
            continue
        if shrink and not case.get('history'):
            small = minimise(ctx, case, prop, clause, hook, timeout=min(timeout, 8), budget=shrink if isinstance(shrink, int) and shrink > 1 else 14)
            obs = run_case(ctx, small, hook=hook, timeout=min(timeout, 8))
            ff = [x for oo in obs for x in oracle(small, oo) if x['property'] == prop and x['clause'] == clause]
        else:
            ff = []
            small = case
        if not ff:
            small, ff = case, [f]
            obs = [o]
        detail = dict(ff[0]['detail'])
        if small.get('fault') and clause == 'terminates' and not hook and ctx.xvc_hook:
            # second pass on the hook build: which steps never reach a final state (the trace file is not affected by the fault)
            try:
                o2 = run_case(ctx, small, hook=True, timeout=min(timeout, 8))[0]
                fin = trace_final_states(o2.get('trace', []))
                detail['hook_build_second_pass'] = {
                    'hung_too': o2['timed_out'],
                    'steps_without_final_state': [f's{i}' for i in range(small['spec']['n'])
                                                  if fin.get(f's{i}', '').split('(')[0] not in ('DoneByRunning', 'DoneWithoutRunning', 'Broken')],
                    'last_states': fin, 'thread_failures': sorted(_failed_threads(o2.get('trace', [])))}
            except Exception as ex:
                detail['hook_build_second_pass'] = repr(ex)
        detail.update({'occurrences_in_stream': len(lst), 'stream': stream, 'hook_build': hook,
                       'stdout_tail': obs[-1]['stdout'][-300:], 'stderr_tail': obs[-1]['stderr'][-300:],
                       'how_built': describe(small)})
        chk.oracle_failure(ff[0]['what'], small, detail, signature=signature(small, ff[0]))
    return results


def describe(case):
    """the xvc commands that build the failing pipeline (for a human)"""
    if case.get('history'):
        import sched_history
        return sched_history.describe(case)
    spec = case['spec']
    L = ['git init && xvc init']
    for i in range(spec['n']):
        b = case['behav'][i]
        fin = (f'{"write the output file; " if b.get("sigtouch") else ""}kill -{b["signal"]} $$' if b.get('signal') else f'exit {b["rc"]}')
        if b.get('closefds'):
            fin = {1: 'stdout', 2: 'stderr', 3: 'stdout and stderr'}[b['closefds']] + f' CLOSED before the sleep (exec >log 2>&1); ' + fin
        g = twin_group(spec, i)
        if g:
            L.append(f'xvc pipeline step new -s s{i} -c "sh job{g[0]}.sh"   # THE SAME command string for ' + ', '.join(f's{m}' for m in g) +
                     f': job{g[0]}.sh takes the next free ticket (mkdir) of {len(g)}; ticket {g.index(i) + 1}: <journal start; sleep {b["sleep_ms"]}ms; {fin}>'
                     + (f' --when {spec["whens"][i]}' if spec['whens'][i] != 'by_dependencies' else ''))
            continue
        L.append(f'xvc pipeline step new -s s{i} -c "<journal start; sleep {b["sleep_ms"]}ms; stdout {b["out"]}B stderr {b["err"]}B; {fin}>"'
                 + (f' --when {spec["whens"][i]}' if spec['whens'][i] != 'by_dependencies' else ''))
    for (a, j, k) in spec['edges']:
        if k == 'step':
            L.append(f'xvc pipeline step dependency -s s{a} --step s{j}')
        elif k == 'shared':
            continue
        elif k == 'file':
            L.append(f'xvc pipeline step output -s s{j} --output-file {out_path(j)}; xvc pipeline step dependency -s s{a} --file {out_path(j)}')
        else:
            opt = '--glob' if k == 'glob' else '--glob_items'
            L.append(f'xvc pipeline step output -s s{j} --output-file {out_path(j)}; xvc pipeline step dependency -s s{a} {opt} "out/s{j}/*.txt"')
    for i in range(spec['n']):
        if spec['inputs'][i]:
            L.append(f'xvc pipeline step dependency -s s{i} --file {in_path(i)}' + ('   # file deleted before the run' if i in case.get('missing', []) else ''))
    L += shared_describe(spec)
    for i in spec.get('generic', []):
        L.append(f"xvc pipeline step dependency -s s{i} --generic 'cat {gen_path(i)}'   # {gen_path(i)} rewritten before every run")
    for i, sizes in spec.get('bigfiles', {}).items():
        L.append(f'xvc pipeline step dependency -s s{i} ' + ' '.join(f'--file {big_path(i, k)}' for k in range(len(sizes))) +
                 f'   # sparse files of {sizes} MiB (truncate), size changed before every run')
    for i in spec.get('textdeps', []):
        L.append(f"xvc pipeline step dependency -s s{i} --lines 'lines_s{i}.txt::1-2' --regex 'lines_s{i}.txt:/^a/' --param 'params_s{i}.yaml::k' "
                 f"--glob 'glb_s{i}_*.glb'   # all rewritten before every run")
    for i in (spec.get('unspawnable', []) if spec.get('unspawnable_how') == 'e2big' else []):
        L.append(f"(echo first; head -c 140000 /dev/zero | tr '\\0' x; echo; echo third) > {nul_path(i)}; xvc pipeline step dependency -s s{i} --line_items '{nul_path(i)}::1-3'"
                 '   # XVC_ALL_LINE_ITEMS > 128 KiB: the command of this step cannot be started (execve E2BIG)')
    for i in (spec.get('unspawnable', []) if spec.get('unspawnable_how') != 'e2big' else []):
        L.append(f"printf 'first\\nsecond\\0line\\nthird\\n' > {nul_path(i)}; xvc pipeline step dependency -s s{i} --line_items '{nul_path(i)}::1-3'"
                 '   # NUL byte in XVC_ALL_LINE_ITEMS: the command of this step cannot be spawned (EINVAL)')
    how = {'stdout-closed': ' | true', 'stdout-head1': ' | head -1', 'stdout-64bytes': ' | head -c 64', 'stderr-closed': ' 2>&1 >/dev/null | true',
           'stderr-head1': ' 2>&1 >/dev/null | head -1', 'both-closed': ' 2>&1 | true', 'stdout-devfull': ' > /dev/full', 'both-devfull': ' > /dev/full 2>&1'}
    L.append(f'xvc -c pipeline.process_pool_size={case["pool"]} pipeline run' + how.get(case.get('fault'), '') +
             (f'   # x{case["runs"]}' if case.get('runs', 1) > 1 else '') + ('   # reader gone before xvc starts' if case.get('fault', '').endswith('closed') else ''))
    return L


def replay(chk, data, own, props_module):
    ctx = prepare(chk, props_module, need_hook=any(f.get('detail', {}).get('hook_build') for f in data.get('failures', [])))
    for f in data.get('failures', []):
        case = f['case']
        hook = bool(f.get('detail', {}).get('hook_build')) and ctx.xvc_hook
        reps = 6 if f.get('signature', {}).get('kind') == 'blocked-with-generic-dependency' else 1   # needs an interleaving
        obs, msgs = [], []
        for _ in range(reps):
            obs = run_case(ctx, case, hook=hook, timeout=12)
            chk.evaluations += len(obs)
            msgs = [x for o in obs for x in oracle(case, o) if x['property'] in own]
            if msgs:
                break
        print('pipeline:')
        for l in describe(case):
            print('   ', l)
        for o in obs:
            print(f'run {o["run"]}: rc={o["rc"]} timed_out={o["timed_out"]} journal=' +
                  ' '.join(f'{e["kind"]}:s{e["step"]}' for e in o['journal']))
        print('oracle:', [m['what'] for m in msgs] or 'property holds on this input')
        for m in msgs:
            chk.oracle_failure(m['what'], case, m['detail'], signature=signature(case, m))
    return chk.finish()
