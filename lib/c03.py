"""C03 — see DESIGN.md section 4 ("the repository model") and lean/XvcRepo/XvcRepo/Props/C03.lean.
Proof: Lean theorems about the executable repository model.  Tie: the model driver is compared with the rebuilt xvc
binary after every command of generated histories.  Oracle: model-independent, lib/repo_check.py."""
import repo_check as rc

ORACLES = [rc.o3_no_unsaved_loss]
RESTORE = None


def uncached_histories(seed, n):
    """A tracked file that is IN the workspace while the object of its recorded version is NOT in the cache - after
    `track --no-commit`, after `remove --from-cache`, after a track/carry-in whose move into the cache failed (records are
    saved first) - and then a recheck that wants to replace the workspace file: `--recheck-method <another method>` for each
    of the four methods (without --force: judged by o3), serially and in parallel, alone and next to a target that can be
    restored.  There is nothing to restore the file from: it stays."""
    import random
    from repo_check import W, T, CI, RC
    rng = random.Random(f'c03-uncached-{seed}')
    out = []
    methods = ['copy', 'symlink', 'hardlink', 'reflink']
    states = ['no-commit', 'removed', 'removed-all-versions', 'no-commit-new-version', 'move-failed']
    for i in range(n):
        st = states[i % len(states)]
        m0 = methods[(i // len(states)) % 4]                      # method the path is recorded with
        cfg = {'algo': (i + seed) % 4, 'method': rng.choice(['copy', m0]), 'tob': rng.choice(['auto', 'auto', 'binary', 'text'])}
        f, g = rng.sample(['notes.txt', 'd/model.bin', 'noext', 'sp ace.txt', 'ünï/dätä.txt'], 2)
        X = bytes(f'only copy {i}/{seed}\n', 'ascii') + bytes(rng.choice(b'abcdefgh\n') for _ in range(rng.choice([0, 50, 8200]))) + rng.choice([b'', b'\x00'])
        np_ = lambda: rng.random() < 0.5
        h = [W(g, b'companion ' + X), T([g], no_parallel=np_())]
        if st == 'no-commit':
            h += [W(f, X), T([f], method=m0, no_commit=True, no_parallel=np_())]
        elif st == 'removed':
            h += [W(f, X), T([f], method=m0, no_parallel=np_()), RC([f], method='copy'), {'op': 'remove', 'targets': [f]}]
        elif st == 'removed-all-versions':
            h += [W(f, X + b'v1'), T([f], method=m0), W(f, X), CI([f]), RC([f], method='copy'), {'op': 'remove', 'targets': [f], 'all_versions': True}]
        elif st == 'no-commit-new-version':
            h += [W(f, X + b'v1'), T([f], method=m0), W(f, X), T([f], no_commit=True, no_parallel=np_())]
        else:
            h += [W(f, X), T([f], method=m0, no_parallel=np_(), cache_blocked=[f])]
        others = [m for m in methods if m != m0]
        rng.shuffle(others)
        for m in others[:rng.choice([2, 3])]:
            h.append(RC([f] if rng.random() < 0.6 else [g, f], method=m, no_parallel=np_()))
        h += [T([f]), CI([f])]                                     # what a re-run does with the state
        out.append((f'uncached-{st}-{m0}-{i}', cfg, h))
    return out


def extra_corpus(chk):
    return uncached_histories(chk.seed, 20 if chk.tier == 'quick' else 200)


def run(chk):
    # besides the model-tied histories: commands that meet an I/O fault while they copy a data file (oracles only)
    return rc.run_property(chk, 'C03', ORACLES, restore=RESTORE, fault_stream=36 if chk.tier == 'quick' else 400, extra_corpus=extra_corpus(chk))


def replay(chk, data):
    return rc.replay_property(chk, data, ORACLES, restore=RESTORE)
