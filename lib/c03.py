"""C03 — see DESIGN.md section 4 ("the repository model") and lean/XvcRepo/XvcRepo/Props/C03.lean.
Proof: Lean theorems about the executable repository model.  Tie: the model driver is compared with the rebuilt xvc
binary after every command of generated histories.  Oracle: model-independent, lib/repo_check.py."""
import repo_check as rc

ORACLES = [rc.o3_no_unsaved_loss]
RESTORE = None


def run(chk):
    # besides the model-tied histories: commands that meet an I/O fault while they copy a data file (oracles only)
    return rc.run_property(chk, 'C03', ORACLES, restore=RESTORE, fault_stream=36 if chk.tier == 'quick' else 400)


def replay(chk, data):
    return rc.replay_property(chk, data, ORACLES, restore=RESTORE)
