"""C07 — A killed xvc command never corrupts the repository or loses data.

Proof: lean/XvcRepo/XvcRepo/Props/C07.lean (micro-step decomposition of the per-file procedures; theorems over ALL prefixes).
Search/tie on the implementation: every state-changing command is killed (strace -e inject=...:signal=KILL:when=k) just
before each of its file-system mutating system calls; after every kill the oracles check: later commands load the
repository, objects of earlier versions are intact, every byte string that was in the workspace is still in the workspace
or in the cache, every cache object hashes to its address (after the kill and again after the re-run), re-running the command followed by `xvc file recheck`
reaches the state of an uninterrupted twin, and neither the re-run nor what a user does next with the targets of the killed
command (`recheck` with another method, `recheck --force`) destroys bytes that exist nowhere else.
Sources of `move_to_cache`: regular files (rename) AND symbolic links / files on another file system (data copy to a hidden
temporary name, then rename), the copy with and without the kernel's copy offload (kill points inside the copy).
Store saves: a command saves its stores one file after the other; the signature of a divergence after a kill between two
saves names the command family and WHICH stores were saved (`saved`), so that every unsafe (command, saved set) is its own
known finding (K3b1a-g) and any other one is reported.  Oracle (h): after kill + re-run + recheck a regular file at a path
recorded with the copy method has the owner's write bit (C17 at C07's crash points).
Translator: lib/c07_extract.py (destinations of the writing calls of `move_to_cache` -> Gen/MoveToCache.lean; ORDER of the
store saves of `cmd_copy` -> Gen/CopyStores.lean, theorem C07_copy_store_order_prefix_safe).
"""
import os, re, shutil, subprocess, json, hashlib
from concurrent.futures import ThreadPoolExecutor
import hashref
import c07_extract
import repo_harness as rh
import repo_check as rc
from repo_harness import Obs, Table, abstraction, fp
from xvcbin import Sandbox

SYSCALLS = 'openat,creat,write,pwrite64,rename,renameat,renameat2,unlink,unlinkat,mkdir,mkdirat,link,linkat,symlink,symlinkat,chmod,fchmod,fchmodat,copy_file_range,ftruncate,sendfile'
# the calls a kill is injected at: every mutating call EXCEPT the opens.  A kill "between the open-for-write (create /
# truncate) of a file and its first write" is the kill before that write; read-only opens (configuration, stores) would
# otherwise dominate the per-thread counters of strace's `when=` and the store-save phase of the worker would rarely be hit.
INJECT = ','.join(x for x in SYSCALLS.split(',') if x not in ('openat', 'creat'))
MUT_OPEN = re.compile(r'O_WRONLY|O_RDWR|O_CREAT|O_TRUNC|O_APPEND')


# `std::fs::copy` hands the data copy to the kernel (copy_file_range, else sendfile): a file below 1 GiB is one call, so
# a kill "during the copy" can only fall before or after it.  Where the kernel offers neither call (ENOSYS: old kernels,
# seccomp sandboxes, some network / FUSE file systems) std falls back to read + write with an 8 KiB buffer: a file of n
# bytes is ceil(n / 8192) write calls and a kill between two of them leaves a truly partial copy.  Commands marked
# `no_offload` run (reference and killed runs alike) with both calls failing with ENOSYS.
COPY_BUF = 8192
NO_OFFLOAD = ['-e', 'inject=copy_file_range:error=ENOSYS', '-e', 'inject=sendfile:error=ENOSYS']
DATA_CALLS = ('copy_file_range', 'sendfile', 'write', 'pwrite64')


def classify(line, root):
    """(syscall, path class) of a strace line, or None when it does not mutate the repository"""
    m = re.match(r'\d+\s+(\w+)\((.*)', line)
    if not m: return None
    sc, rest = m.group(1), m.group(2)
    if sc in ('openat', 'creat') and not MUT_OPEN.search(rest): return None
    if sc in ('write', 'pwrite64') and re.match(r'[12],', rest): return None       # stdout/stderr
    paths = re.findall(r'"([^"]*)"', rest)
    if sc.startswith(('rename', 'link', 'symlink')) and paths:
        paths = paths[-1:]              # the destination decides what the call changes
    cls = 'fd'
    for p in paths:
        p = p.replace(root + '/', '')
        if p.startswith('/') and not p.startswith(root): return None             # /dev/null, /proc, /tmp ...
        if '.xvc/store/' in p: cls = 'store-file' if p.endswith(('.json', '.tmp')) else 'store-dir'
        elif '.xvc/ec' in p: cls = 'entity-counter'
        elif re.search(r'\.xvc/(b3|b2|s2|s3)(/|$)', p): cls = 'cache-object' if re.search(r'/0\.[^/]*$', p) else ('cache-tmp' if p.endswith('.xvc-tmp') else 'cache-dir')
        elif p.endswith('.gitignore') or p.endswith('.xvcignore'): cls = 'ignore-file'
        elif '.git/' in p: return None
        else: cls = 'workspace'
        break
    return sc, cls


def parse_trace(path, root):
    return parse_trace_ex(path, root)[0]


def parse_trace_ex(path, root):
    """per-thread list of (syscall, path class) for the mutating calls; fd-based calls inherit the class of the last
    file the thread opened for writing.  Second result: (syscall, class) of the last traced call of the file (where an
    injected kill fell), None when that call does not touch the repository"""
    per, last = {}, {}
    last_call = None
    for line in open(path, errors='replace'):
        m = re.match(r'(\d+)\s+(\w+)\((.*)', line)
        if not m or m.group(2) not in SYSCALLS.split(','): continue
        pid, sc, rest = m.groups()
        last_call = None
        if sc in ('write', 'pwrite64', 'fchmod', 'copy_file_range', 'ftruncate', 'sendfile'):
            if sc in ('write', 'pwrite64') and re.match(r'[12],', rest): continue
            if 'ENOSYS' in rest and 'INJECTED' in rest: continue                    # the kernel "does not have" the call
            per.setdefault(pid, []).append((sc, last.get(pid, 'fd')))
            last_call = per[pid][-1]
            continue
        c = classify(line, root)
        if c is None:
            continue
        if sc in ('openat', 'creat'): last[pid] = c[1]
        per.setdefault(pid, []).append(c)
        last_call = c
    return per, last_call


def rt(o, p):
    """bytes read THROUGH the workspace entry: a regular file's own, a link's target's - an object of the cache or a data
    file kept outside of the repository (the kernel follows both alike)"""
    b = rc.read_through(o, p)
    k = o.ws.get(p)
    if b is None and k and k['kind'] == 'symlink' and not k.get('addr'):
        b = k.get('bytes')
    return b


def inventory(sb):
    """all byte strings readable in workspace and cache"""
    inv = set()
    o = Obs(sb)
    for p, k in o.ws.items():
        b = rt(o, p)
        if b is not None: inv.add(b)
    for rel, ob in o.cache.items():
        if ob['bytes'] is not None: inv.add(ob['bytes'])
    return inv, o


def store_files(sb):
    """the event files of the stores: {'<store directory>/<file>.json'} (hidden temporary files are not event files)"""
    out = set()
    d = sb.path('.xvc/store')
    for st in (os.listdir(d) if os.path.isdir(d) else []):
        sd = os.path.join(d, st)
        if os.path.isdir(sd):
            out |= {f'{st}/{f}' for f in os.listdir(sd) if f.endswith('.json') and not f.startswith('.')}
    return out


def saved_stores(before, after):
    """WHICH stores the killed command saved (sorted names): the store directories that hold an event file that was not
    there before the command.  Every command saves its stores in one fixed order, so the set names the prefix."""
    return sorted({x.split('/')[0] for x in after - before})


def copies_not_writable(o):
    """(h) C17 at C07's crash points: a tracked path whose recorded recheck method is `copy` and that is in the workspace
    is a regular file of its own that its owner can write (not a link, not a read-only file)"""
    bad = []
    for p, r in o.recs.items():
        if r.get('method') != 'copy' or p not in o.ws: continue
        kind = rc.entry_kind(o, p)[0]
        if kind not in ('copy', 'dir', 'directory'):
            bad.append((p, kind))
    return bad


def canon(o, table):
    """observable state for the convergence comparison: per path kind+bytes, records (current digest, method), object set"""
    ws = {p: (rc.entry_kind(o, p)[0], rt(o, p)) for p in o.ws}
    recs = {p: (r['cur'] and ''.join(f'{b:02x}' for b in r['cur']['digest']), r['method']) for p, r in o.recs.items()}
    return {'ws': ws, 'recs': recs, 'cache': sorted(o.cache)}


def setup_repo(chk, xvc, name):
    sb = Sandbox(os.path.join(chk.scratch, 'c07'), name, xvc)
    sb.init()
    sb.write('a.txt', b'a v1\n'); sb.write('d/b.bin', b'\x00b v1'); sb.write('c.txt', b'c v1\n'); sb.write('dup.txt', b'c v1\n')
    sb.x('file', 'track', '--no-parallel', 'a.txt', 'd/b.bin')
    sb.x('file', 'track', '--no-parallel', '--recheck-method', 'symlink', 'c.txt', 'dup.txt')
    sb.write('u.txt', b'u unique, only in the cache\n')       # a link whose object nothing else refers to
    sb.x('file', 'track', '--no-parallel', '--recheck-method', 'symlink', 'u.txt')
    # sources of `move_to_cache` that are SYMBOLIC LINKS (their bytes are copied, not renamed, into the cache):
    # (1) a text file of several copy buffers materialised with the symlink method; committing it under another
    #     --text-or-binary mode carries the link to a NEW address;
    # (2) a link to a data file that is kept outside of the repository (untracked so far).
    # Sizes: some full 8 KiB buffers and a tail, drawn per run.
    n_txt = chk.rng.randint(2, 3) * COPY_BUF + chk.rng.randint(1, COPY_BUF - 1)
    lines, i = [], 0
    while sum(map(len, lines)) < n_txt:
        lines.append(b'line %d %s\r\n' % (i, bytes(chk.rng.choice(b'abcdefghij ') for _ in range(chk.rng.randint(0, 60))))); i += 1
    sb.write('big.txt', b''.join(lines))
    sb.x('file', 'track', '--no-parallel', '--recheck-method', 'symlink', 'big.txt')
    n_ext = chk.rng.randint(2, 4) * COPY_BUF + chk.rng.randint(1, COPY_BUF - 1)
    os.makedirs(os.path.join(sb.base, 'ext'))
    with open(os.path.join(sb.base, 'ext', 'data.bin'), 'wb') as f:
        f.write(b'\x00' + chk.rng.randbytes(n_ext - 1))
    os.symlink(os.path.join(sb.base, 'ext', 'data.bin'), sb.path('ext.bin'))
    chk.extra['link_source_sizes'] = {'big.txt (symlink method)': sum(map(len, lines)), 'ext.bin -> ../ext/data.bin': n_ext, 'copy_buffer': COPY_BUF}
    sb.write('a.txt', b'a v2 edited\n')
    sb.x('file', 'carry-in', '--no-parallel', 'a.txt')
    sb.write('new.txt', b'brand new\n'); sb.write('a.txt', b'a v3 uncommitted\n')
    sb.x('storage', 'new', 'local', '--name', 'st', '--path', os.path.join(sb.base, 'storage'))
    sb.x('file', 'send', '--to', 'st', 'a.txt', 'd/b.bin')
    return sb


COMMANDS = [
    ('track-new', ['file', 'track', '--no-parallel', 'new.txt'], ['new.txt']),
    ('carry-in', ['file', 'carry-in', '--no-parallel', 'a.txt'], ['a.txt']),
    ('recheck-method', ['file', 'recheck', '--no-parallel', '--recheck-method', 'hardlink', 'd/b.bin'], ['d/b.bin']),
    ('track-hardlink', ['file', 'track', '--no-parallel', '--recheck-method', 'hardlink', 'new.txt'], ['new.txt']),
    ('untrack-unshared', ['file', 'untrack', 'u.txt'], ['u.txt']),
    ('recheck-copy', ['file', 'recheck', '--no-parallel', '--recheck-method', 'copy', 'u.txt'], ['u.txt']),
    ('copy', ['file', 'copy', 'd/b.bin', 'd/b2.bin'], ['d/b.bin', 'd/b2.bin']),
    # the destination takes another recheck method than the source has: the copy is materialised by copy_via_temp_file
    ('copy-as-copy', ['file', 'copy', '--recheck-method', 'copy', 'c.txt', 'd/c2.txt'], ['c.txt', 'd/c2.txt']),
    ('move', ['file', 'move', 'd/b.bin', 'e/moved.bin'], ['e/moved.bin']),
    ('move-symlink', ['file', 'move', '--recheck-method', 'symlink', 'd/b.bin', 'e/moved.bin'], ['e/moved.bin']),
    ('remove', ['file', 'remove', '--from-cache', '--all-versions', 'd/b.bin'], ['d/b.bin']),
    ('untrack', ['file', 'untrack', 'c.txt'], ['c.txt']),
    ('recheck-force', ['file', 'recheck', '--no-parallel', '--force', 'a.txt'], ['a.txt']),
    ('bring', None, ['d/b.bin']),      # prepared below: cache object removed first
    ('bring-xdev', None, ['d/b.bin']),  # the same with TMPDIR on another file system
    # the carried-in path is a symbolic link: its bytes are COPIED into the cache (hidden temporary name, then rename)
    ('track-extlink', ['file', 'track', '--no-parallel', 'ext.bin'], ['ext.bin']),
    ('carry-in-symlink-tob', ['file', 'carry-in', '--no-parallel', '--text-or-binary', 'binary', 'big.txt'], ['big.txt']),
    # the same where the kernel has no copy offload: the copy is a sequence of 8 KiB writes, kills fall inside it
    ('track-extlink-rw', ['file', 'track', '--no-parallel', 'ext.bin'], ['ext.bin']),
    ('carry-in-symlink-tob-rw', ['file', 'carry-in', '--no-parallel', '--text-or-binary', 'binary', 'big.txt'], ['big.txt']),
    ('bring-xdev-rw', None, ['d/b.bin']),
    ('pipeline-step-new', ['pipeline', 'step', 'new', '--step-name', 's1', '--command', 'echo hi'], []),
]


QUICK = ('track-new', 'carry-in', 'recheck-method', 'track-hardlink', 'untrack-unshared', 'recheck-copy', 'bring-xdev',
         'track-extlink', 'track-extlink-rw', 'carry-in-symlink-tob-rw', 'copy', 'copy-as-copy')
# commands whose source is a symbolic link / a file on another file system: the reference run MUST contain a data-copy
# call whose destination is below the cache (otherwise the kill-point search does not reach the region it is there for)
COPIES_INTO_CACHE = ('track-extlink', 'carry-in-symlink-tob', 'track-extlink-rw', 'carry-in-symlink-tob-rw', 'bring-xdev', 'bring-xdev-rw')


def no_offload(cname):
    return cname.endswith('-rw')


def sig_cmd(cname):
    """command family for the signatures of known findings"""
    for fam in ('carry-in', 'track', 'recheck', 'move', 'untrack', 'copy', 'bring'):
        if cname.startswith(fam): return fam
    return cname


def other_fs_tmp():
    """a fresh directory on a file system other than the scratch area's (for TMPDIR), or None"""
    import tempfile
    for d in ('/dev/shm', '/run', '/var/tmp'):
        try:
            if os.path.isdir(d) and os.access(d, os.W_OK) and os.stat(d).st_dev != os.stat(tempfile.gettempdir()).st_dev:
                return tempfile.mkdtemp(dir=d, prefix='xvc-c07-')
        except OSError:
            pass
    return None


def prepare(sb, name):
    if name in ('bring-xdev', 'bring-xdev-rw'):
        # the storage's temporary directory on ANOTHER file system: fs::rename into the cache fails with EXDEV and
        # move_to_cache takes its copy path (hidden temporary name next to the cache path, then rename)
        d = other_fs_tmp()
        if d is None:
            return ['file', 'list']
        sb.env = dict(sb.env, TMPDIR=d); sb.xdev_tmp = d
        name = 'bring'
    if name == 'bring':
        o = Obs(sb)
        a = rc.rec_addr(o.recs['d/b.bin'], 'd/b.bin')
        p = sb.path('.xvc/' + a)
        os.chmod(os.path.dirname(p), 0o755); os.unlink(p)
        os.unlink(sb.path('d/b.bin'))
        return ['file', 'bring', '--from', 'st', 'd/b.bin']
    return None


def clone(sb, name):
    dst = os.path.join(os.path.dirname(sb.base), name)
    shutil.rmtree(dst, ignore_errors=True)
    subprocess.run(['cp', '-a', sb.base, dst], check=True)
    c = Sandbox.__new__(Sandbox)
    c.__dict__.update(sb.__dict__)
    c.base, c.root = dst, os.path.join(dst, 'repo')
    c.home = os.path.join(dst, 'home')
    c.env = dict(sb.env, HOME=c.home, XDG_CONFIG_HOME=os.path.join(c.home, '.config'))
    c.log = []
    # absolute symlinks of the copy still point into the original cache: re-point them
    for dp, dn, fn in os.walk(c.root):
        dn[:] = [d for d in dn if d not in ('.xvc', '.git')]
        for f in fn:
            p = os.path.join(dp, f)
            if os.path.islink(p):
                t = os.readlink(p)
                if t.startswith(sb.base + '/'):
                    os.unlink(p); os.symlink(c.base + t[len(sb.base):], p)
    # the local storage path is recorded absolutely: keep using the original's (read-only use)
    return c


FOLLOW_UPS = [['--recheck-method', 'symlink'], ['--recheck-method', 'hardlink'], ['--recheck-method', 'copy'], ['--force']]


def follow_ups(chk, sb, targets, where, cname):
    """(g) After the kill (and after the re-run) the user asks for the targets of the killed command with another recheck
    method and with --force.  A killed `track` leaves its target on record, in the workspace, and NOT in the cache (the
    records are saved before the rename into the cache; a re-run does not repair that): recheck has nothing to restore the
    file from and must leave it alone.  Without --force the bytes that were at a target are afterwards in the workspace or
    in the cache; with --force they may only give way to the object of the recorded version."""
    fails = []
    for extra in FOLLOW_UPS:
        before = Obs(sb)
        had = {t: rt(before, t) for t in targets}
        r, _, e = sb.x('--skip-git', 'file', 'recheck', '--no-parallel', *extra, *targets)
        inv, after = inventory(sb)
        chk.count(f"follow-up:recheck {' '.join(extra)}:rc={r}")
        for t, b in had.items():
            if b is None or b in inv:
                continue
            rec = after.recs.get(t)
            obj = after.cache.get(rc.rec_addr(rec, t)) if rec and rec['cur'] else None
            if extra == ['--force'] and obj is not None and rt(after, t) == obj['bytes']:
                continue                      # --force replaced an edited file by the committed version: what it is for
            fails.append((f"{where}, then `xvc file recheck {' '.join(extra)} {t}` (rc={r} {e[-160:].strip()}): the {len(b)} bytes {b[:20]!r} that were at {t} "
                          f"are neither in the workspace nor in the cache" + ('' if obj is not None else '; the recorded version of the path is not in the cache either'),
                          {'kind': 'bytes-lost-by-follow-up', 'cmd': cname, 'follow_up': ' '.join(extra)}))
    return fails


def run_one(chk, xvc, base, cname, argv, targets, k, trace_ref, table):
    """kill before the k-th mutating syscall of the worker thread; returns list of (msg, sig)"""
    fails = []
    # k = (syscall name, j): kill at the j-th invocation of that system call in whichever thread gets there first.
    # (strace keeps one `when=` counter per system call and per thread: an expression over a SET of calls fires at the
    # j-th call of whichever member reaches ITS j-th invocation first, so kill points are enumerated per call name.)
    sc_name, sc_j = k
    sb = clone(base, f'{cname}-{sc_name}{sc_j}')
    arg2 = prepare(sb, cname) or argv
    inv0, o0 = inventory(sb)
    objs0 = {rel: ob['bytes'] for rel, ob in o0.cache.items()}
    stores0 = store_files(sb)
    tf = os.path.join(sb.base, 'killed.trace')
    cmd = ['strace', '-f', '-qq', '-o', tf, '-e', f'trace={SYSCALLS}'] + (NO_OFFLOAD if no_offload(cname) else []) + \
          ['-e', f'inject={sc_name}:signal=KILL:when={sc_j}', xvc, '--skip-git'] + arg2
    rc_, out, err = sb.run(cmd, timeout=120)
    saved = saved_stores(stores0, store_files(sb))
    per_k, last_call = parse_trace_ex(tf, sb.root) if os.path.exists(tf) else ({}, None)
    done = [x for l in per_k.values() for x in l]
    # strace logs the call on which the signal was injected as its last line of that thread: it did not execute
    killed_line = None
    try:
        lines = [l for l in open(tf, errors='replace') if re.match(r'\d+\s+\w+\(', l)]
        killed_line = lines[-1] if lines else None
    except OSError:
        pass
    # fd-based calls (write, copy_file_range ...) carry the class of the file the thread opened for writing last
    at = (last_call or classify(killed_line, sb.root) or ('?', 'other')) if killed_line else ('end', 'end')
    if done and killed_line: done = done[:-1] if done[-1] == at else done
    if at[0] in DATA_CALLS and at[1] in ('cache-object', 'cache-tmp'):
        chk.count(f'kill-inside-data-copy-into-cache:{cname}')

    def frac(pred):
        tot = sum(1 for x in trace_ref if pred(x)); d = sum(1 for x in done if pred(x))
        return 'none' if d == 0 else ('all' if d >= tot else 'partial')
    phase = {'stores': frac(lambda x: x[0].startswith('rename') and x[1] == 'store-file'),
             'cache_in': frac(lambda x: x[0].startswith('rename') and x[1] == 'cache-object'),
             'cache_out': frac(lambda x: x[0].startswith('unlink') and x[1] == 'cache-object'),
             'workspace': frac(lambda x: x[1] == 'workspace'),
             # WHICH stores were saved at the kill (sorted names; read from the store directories, not from the trace)
             'saved': saved}
    if phase['stores'] == 'partial':
        chk.count(f"partial-store-saves:{sig_cmd(cname)}:{'+'.join(saved)}")
    chk.count(f'killed-at:{at[0]}:{at[1]}')
    where = f"{cname} killed at call {sc_name}#{sc_j} (before {at[0]} on {at[1]}; done: {phase})"
    # (a) later commands load the repository
    r1, o1, e1 = sb.x('--skip-git', 'file', 'list')
    if r1 != 0:
        fails.append((f'{where}: `xvc file list` afterwards exits {r1}: {e1[-200:]}', {'kind': 'repository-does-not-load', 'at': f'{at[0]}:{at[1]}'}))
    inv1, ob1 = inventory(sb)
    # (b) objects of earlier versions intact  (remove / untrack delete what they are asked to delete)
    if cname not in ('remove', 'untrack', 'untrack-unshared'):
        for rel, b in objs0.items():
            n = ob1.cache.get(rel)
            if n is None or n['bytes'] != b:
                fails.append((f'{where}: object {rel} of an earlier version is {"gone" if n is None else "changed"}', {'kind': 'old-version-lost', 'at': f'{at[0]}:{at[1]}'}))
    # (c) every byte string of the workspace survives
    o0ws = {rt(o0, p) for p in o0.ws} - {None}
    lost = [b for b in o0ws if b not in inv1]
    if cname in ('remove',): lost = []
    if cname == 'recheck-force':
        lost = [b for b in lost if b != b'a v3 uncommitted\n']        # --force is allowed to discard the uncommitted edit
    for b in lost:
        fails.append((f'{where}: the {len(b)} bytes {b[:20]!r} that were in the workspace are neither in the workspace nor in the cache', {'kind': 'bytes-lost', 'at': f'{at[0]}:{at[1]}'}))
    # (d) no partial object
    for msg, sig in rc.o1_content_addressed([{'i': sc_j, 'cmd': {'op': cname, 'targets': targets}, 'rc': rc_, 'pre': None, 'post': ob1}], {}, []):
        if sig['kind'] in ('address-mismatch', 'object-is-symlink'):
            fails.append((f'{where}: ' + msg, dict(sig, at=f'{at[0]}:{at[1]}')))
    # (e) re-run + recheck converges to the uninterrupted twin
    if r1 == 0:
        fu = clone(sb, f'{cname}-{sc_name}{sc_j}-fu') if targets else None          # the killed state itself, for (g)
        r2, _, e2 = sb.x(*(['--skip-git'] + arg2))
        r3, _, e3 = sb.x('--skip-git', 'file', 'recheck')
        ob2 = Obs(sb)
        got = canon(ob2, table)
        fails.append(('__state__', got, where, at, (r2, e2[-200:]), phase))
        # (d) again on the state the re-run reached: a partial object that the killed run left at an address is not
        # repaired by anything (the address "exists"), and no later command may put one there
        for msg, sig in rc.o1_content_addressed([{'i': sc_j, 'cmd': {'op': cname, 'targets': targets}, 'rc': r2, 'pre': None, 'post': ob2}], {}, []):
            if sig['kind'] in ('address-mismatch', 'object-is-symlink'):
                fails.append((f'{where}, then re-run (rc={r2}) and `xvc file recheck`: ' + msg, dict(sig, kind=sig['kind'] + '-after-rerun', at=f'{at[0]}:{at[1]}')))
        # (h) C17 at C07's crash points: a path recorded with the copy method that is a regular file of its own after the
        # re-run + recheck can be written by its owner (a kill between "the copy appears at the path" and "it is made
        # writable" leaves a read-only file that no later recheck touches: same content, same method).  Links at a copy
        # path are the business of (e) (entry kinds are compared with the twin).
        for p_, kind in copies_not_writable(ob2):
            if kind == 'readonly-file':
                fails.append((f'{where}, then re-run (rc={r2}) and `xvc file recheck`: {p_} is recorded with the copy method and is a regular file WITHOUT the '
                              f'user-write bit: a copy its owner cannot edit, and recheck leaves it as it is',
                              {'kind': 'copy-not-writable-after-rerun', 'cmd': sig_cmd(cname), 'at': f'{at[0]}:{at[1]}'}))
        # (f) the re-run and the recheck destroy nothing either: a partial file left by the killed run must not be
        # taken for the user's file while the only complete copy is deleted
        inv2, _ = inventory(sb)
        lost2 = [b for b in o0ws if b not in inv2 and b not in lost]
        if cname in ('remove',): lost2 = []
        if cname == 'recheck-force':
            lost2 = [b for b in lost2 if b != b'a v3 uncommitted\n']
        for b in lost2:
            fails.append((f'{where}: after re-running the command (rc={r2}) and `xvc file recheck` the {len(b)} bytes {b[:20]!r} that were in the '
                          f'workspace before the killed command are neither in the workspace nor in the cache', {'kind': 'bytes-lost-after-rerun', 'cmd': cname}))
        # (g) what a user does next with the path the killed command was about: materialise it another way, or force it back.
        # Once on the state the re-run and the recheck reached, once on the killed state itself.
        fails += follow_ups(chk, sb, targets, where + ', then re-run and `xvc file recheck`', cname)
        if fu is not None:
            fails += follow_ups(chk, fu, targets, where, cname)
            fu.cleanup()
    if getattr(sb, 'xdev_tmp', None):
        shutil.rmtree(sb.xdev_tmp, ignore_errors=True)
    sb.cleanup()
    return fails


def run(chk):
    quick = chk.tier == 'quick'
    try:
        c07_extract.run(chk)
    except (RuntimeError, OSError, ValueError, IndexError) as ex:
        chk.proof['broken'].append({'stage': 'translator', 'errors': [f'lib/c07_extract.py: {ex}'], 'package': 'XvcRepo', 'theorems': ['C07_moveToCache_address_written_by_rename_only', 'C07_copy_store_order_prefix_safe']})
    model = chk.lean('XvcRepo', 'XvcRepo.Props.C07', exe=None, extra_modules=['XvcRepo.Model', 'XvcRepo.Effects', 'XvcRepo.Gen.MoveToCache', 'XvcRepo.Gen.CopyStores'], build_targets=['XvcRepo.Props.C07'])
    xvc = chk.build_xvc()
    chk.trusted_base += ['translator lib/c07_extract.py (anchored extraction of the calls of `move_to_cache` that create or fill a file, with their destination argument: Gen/MoveToCache.lean; '
                         'of the with_store_mut / with_r11store_mut / save_store calls of `cmd_copy` ordered by where each call SAVES (end of its closure): Gen/CopyStores.lean)',
                         'strace error injection (copy_file_range / sendfile -> ENOSYS) stands for a kernel or file system without copy offload',
                         'crash harness lib/c07.py: strace -f -e inject=<mutating calls>:signal=KILL:when=k (ptrace), cp -a copies of a prepared repository with history',
                         'modelled, not verified: atomicity of single system calls (rename, link, symlink, unlink, mkdir, chmod), ordering visibility, durability (power loss / fsync are outside "killed"), partial write() of a single call, git\'s own commit step (runs with --skip-git; the Git side is C15)']
    chk.assumptions += ['the kill arrives between system calls of the worker thread (serial mode: --no-parallel)',
                        'the local storage used by `bring` is not modified by the crash (read side only)']
    # for trying out a proposed replacement of known-finding entries before the shared file is edited:
    # C07_DROP_KNOWN=<id,id>  ignores these entries;  C07_EXTRA_KNOWN=<json file with {"findings": [...]}>  adds entries;
    # C07_PROBE_STORES=1  all commands, kill points at `rename` only (every boundary between two store saves is one)
    drop = [x for x in os.environ.get('C07_DROP_KNOWN', '').split(',') if x]
    if drop:
        chk.known_findings = [f for f in chk.known_findings if f['id'] not in drop]
        chk.notes.append(f'known findings ignored for this run (C07_DROP_KNOWN): {drop}')
    if os.environ.get('C07_EXTRA_KNOWN'):
        chk.known_findings += [f for f in json.load(open(os.environ['C07_EXTRA_KNOWN']))['findings'] if f['property'] == 'C07']
        chk.notes.append('known findings added for this run (C07_EXTRA_KNOWN)')
    probe = bool(os.environ.get('C07_PROBE_STORES'))
    base = setup_repo(chk, xvc, 'base')
    table = Table()
    names = [c for c in COMMANDS if c[0] in QUICK] if quick and not probe else COMMANDS
    total = 0
    for cname, argv, targets in names:
        # reference run: trace + uninterrupted twin
        ref = clone(base, f'{cname}-ref')
        arg2 = prepare(ref, cname) or argv
        # what the first target is in the prepared workspace: absent | copy | readonly-file | hardlink | symlink
        source = rc.entry_kind(Obs(ref), targets[0])[0] if targets else 'none'
        chk.count(f'source-entry:{source}')
        scen = {'scenario': cname, 'first_target_is': source,
                'environment': ('copy_file_range and sendfile fail with ENOSYS (strace -e inject=...:error=ENOSYS): std::fs::copy writes 8 KiB at a time' if no_offload(cname) else 'default')
                               + ('; TMPDIR on another file system' if 'xdev' in cname else ''),
                'prepared_repository': 'lib/c07.py setup_repo (sizes: %s)' % json.dumps(chk.extra.get('link_source_sizes', {}))}
        tf = os.path.join(chk.scratch, f'{cname}.trace')
        ref.run(['strace', '-f', '-qq', '-o', tf, '-e', f'trace={SYSCALLS}'] + (NO_OFFLOAD if no_offload(cname) else []) + [xvc, '--skip-git'] + arg2, timeout=120)
        ref.x('--skip-git', 'file', 'recheck')
        twin = canon(Obs(ref), table)
        # per-thread sequences of matching calls; the worker thread is the one with the most repository mutations
        per = parse_trace(tf, ref.root)
        worker = [x for l in per.values() for x in l]          # all mutating calls of the reference run
        # kill points: for every injectable system call name, every invocation index up to the largest count any
        # thread of the reference run reached (+1: a run that makes one call more than the reference)
        raw = {}
        for line in open(tf, errors='replace'):
            m = re.match(r'(\d+)\s+(\w+)\(', line)
            if m and m.group(2) in INJECT.split(','):
                if no_offload(cname) and m.group(2) in ('copy_file_range', 'sendfile'):
                    continue            # these calls "do not exist" in this environment: they fail, std copies with read + write
                raw[(m.group(1), m.group(2))] = raw.get((m.group(1), m.group(2)), 0) + 1
        # the region this command is in the list for must be reached: a data copy whose destination is below the cache
        into_cache = [x for x in worker if x[0] in DATA_CALLS and x[1] in ('cache-object', 'cache-tmp')]
        chk.count(f'reference-data-copy-calls-into-cache:{cname}', len(into_cache))
        if cname in COPIES_INTO_CACHE and not into_cache and arg2 != ['file', 'list']:
            chk.disagreement('kill-point coverage', {'command': cname}, 'no copy_file_range / sendfile / write to a file below .xvc/<algo>/ in the reference trace',
                             'move_to_cache copies the bytes of a link (or of a file on another file system) into the cache',
                             'the kill-point search does not reach the copy into the cache')
        per_call = {}
        for (pid, sc), cnt in raw.items():
            per_call[sc] = max(per_call.get(sc, 0), cnt)
        if getattr(ref, 'xdev_tmp', None):
            shutil.rmtree(ref.xdev_tmp, ignore_errors=True)
        ref.cleanup()
        ks = [(sc, j) for sc in sorted(per_call) for j in range(1, per_call[sc] + 1) if not probe or sc == 'rename']
        n = len(ks)
        with ThreadPoolExecutor(max_workers=12) as ex:
            results = list(ex.map(lambda k: run_one(chk, xvc, base, cname, argv, targets, k, worker, table), ks))
        st = chk.tie['streams'].setdefault(cname, {'mutating_calls_of_worker_thread': n, 'kill_points': 0, 'converged': 0, 'diverged': 0})
        for k, fails in zip(ks, results):
            total += 1
            chk.evaluations += 1
            st['kill_points'] += 1
            chk.nontrivial.add(f'{cname}:{k[0]}#{k[1]}')
            for f in fails:
                if f[0] == '__state__':
                    _, got, where, at, rerun, phase = f
                    if got == twin:
                        st['converged'] += 1
                    else:
                        st['diverged'] += 1
                        diff = {k2: (got[k2], twin[k2]) for k2 in got if got[k2] != twin[k2]}
                        short = json.dumps(diff, default=lambda b: b.decode('latin1') if isinstance(b, bytes) else str(b))[:500]
                        chk.oracle_failure(f'{where}: re-running the command and `xvc file recheck` does not reach the uninterrupted state (rerun rc={rerun[0]} {rerun[1]}): {short}',
                                           dict(scen, command=' '.join(argv or arg2), kill_before_call=f'{k[0]}#{k[1]}', at=at), None,
                                           signature=dict(phase, kind='rerun-diverges', rerun_rc=('ok' if rerun[0] == 0 else 'error'), cmd=sig_cmd(cname), source=source,
                                                          killed_at=(f'{at[0]}:{at[1]}' if isinstance(at, (tuple, list)) else str(at))))
                else:
                    msg, sig = f
                    chk.oracle_failure(msg, dict(scen, command=' '.join(argv or arg2), kill_before_call=f'{k[0]}#{k[1]}'), None, signature=sig)
        if len(chk.samples) < 6:
            chk.samples.append({'command': 'xvc --skip-git ' + ' '.join(arg2), 'worker_thread_mutating_calls': [f'{a}:{b}' for a, b in worker][:60]})
    base.cleanup()
    chk.extra['rule'] = (f'{len(names)} state-changing commands on a prepared repository (3 tracked files with history, a symlinked duplicate pair, an uncommitted edit, a local storage, '
                         'a multi-buffer text file materialised with the symlink method, an untracked symbolic link to a multi-buffer data file outside of the repository; sizes drawn per run); '
                         'sources of the carried-in path: regular file (renamed into the cache), symbolic link to a cached object carried to a NEW address (carry-in --text-or-binary binary), symbolic link to '
                         'a file outside of the repository (track), file on another file system (bring, TMPDIR on tmpfs) - the last three are COPIED into the cache, each once with the kernel\'s copy offload '
                         '(copy_file_range: one data call) and once without (`-rw` commands: copy_file_range and sendfile fail with ENOSYS, std copies with 8 KiB writes, kill points fall INSIDE the copy); '
                         'the reference run of these commands must contain a data-copy call to a file below .xvc/<algo>/ (else the tie is broken); '
                         'each command is killed (one process per kill point) at the j-th invocation of system call s, for every mutating call name s other than the opens and every j up to the '
                         'largest count a thread of the reference run reached (strace keeps one injection counter per call name and thread), i.e. just before every mutating call of the '
                         'thread that gets there first; the signature of a re-run divergence names the command family and the set of stores the killed run saved (read from .xvc/store/*); then the eight oracles are evaluated (after kill + re-run + recheck a regular file at a copy-method path has the owner\'s write bit; loads, old versions intact, workspace bytes survive - read THROUGH links, also those that leave the repository -, '
                         'no partial object: every file at an address-shaped path below the cache re-hashes (lib/hashref.py) to its address, after the kill AND after the re-run, re-run + recheck '
                         'converges to the uninterrupted twin, the re-run destroys nothing either, and neither do the follow-up commands `recheck --recheck-method symlink|hardlink|copy` '
                         'and `recheck --force` on the targets of the killed command, run both on the killed state and after the re-run); '
                         'a case is one (command, kill point) pair; all are distinct and non-trivial')
    chk.extra['exhaustive'] = True
    chk.extra['exhaustive_part'] = 'all kill points of the listed commands on the prepared repository'
    return chk.finish()


def replay(chk, data):
    print('C07 replays name (command, kill_before_call); re-run `./check C07 quick|thorough` - kill points are deterministic in serial mode')
    return run(chk)
