"""Histories in which the PIPELINE IS EDITED between runs (C10): run1 -> edit -> run2 -> producer made to fail -> run3.

State recorded by an earlier successful run (e.g. the items of a --glob_items dependency) must not change which steps a
step depends on: after a step was added, an output was added to an existing step, or a dependency was added, a consumer
still starts only after every producer of a path it reads has ended, and does not run after such a producer failed.

"Reads" is computed HERE from the declared paths/patterns and the declared outputs (own matcher, `*`/`?` within one path
segment), independent of xvc and of anything recorded.  The per-run oracle is `sched_common.oracle` on the pipeline as it
is defined at that stage.
"""
import os, re, shutil, json
import sched_common as sc
from xvcbin import Sandbox

PATH_KINDS = {'file': ('--file', 'File'), 'regex': ('--regex', 'Regex'), 'regexi': ('--regex_items', 'RegexItems'),
              'lines': ('--lines', 'Lines'), 'linei': ('--line_items', 'LineItems')}
GLOB_KINDS = {'glob': '--glob', 'globi': '--glob_items'}
KINDS = ['step', 'file', 'glob', 'globi', 'regex', 'regexi', 'lines', 'linei']


def hmatch(pattern, path):
    rx = ''.join('[^/]*' if c == '*' else '[^/]' if c == '?' else re.escape(c) for c in pattern)
    return re.fullmatch(rx, path) is not None


def reads_path(kind, target, path):
    return hmatch(target, path) if kind in GLOB_KINDS else target == path


def dep_option(kind, target):
    if kind in GLOB_KINDS:
        return [GLOB_KINDS[kind], target]
    opt = PATH_KINDS[kind][0]
    if kind in ('regex', 'regexi'):
        return [opt, f'{target}:/^[a-z]/']
    if kind in ('lines', 'linei'):
        return [opt, f'{target}::1-2']
    return [opt, target]


def derived_spec(stage):
    """the pipeline of one stage in the form sched_common.oracle understands"""
    steps = stage['steps']
    n = max(steps) + 1
    edges = [[c, p, 'step'] for (c, p) in stage.get('step_edges', [])]
    for (c, kind, target) in stage.get('reads', []):
        for (p, path) in stage.get('outs', []):
            if p != c and reads_path(kind, target, path) and [c, p, kind] not in edges:
                edges.append([c, p, kind])
    whens = [stage.get('whens', {}).get(str(i), 'by_dependencies') if i in steps else 'never' for i in range(n)]
    return {'n': n, 'edges': edges, 'whens': whens, 'inputs': [False] * n, 'absent': [i for i in range(n) if i not in steps]}


def stage_case(case, k):
    st = case['stages'][k]
    spec = derived_spec(st)
    behav = [dict({'rc': 0, 'sleep_ms': 0, 'out': 0, 'err': 0}, **st.get('behav', {}).get(str(i), {})) for i in range(spec['n'])]
    return {'spec': spec, 'pool': case['pool'], 'behav': behav, 'missing': [], 'runs': 1, 'label': case.get('label', '') + f' run{k + 1}'}


def mk_history(label, pool, stages):
    """stages: list of dicts (cumulative definitions); returns a case usable by run_family"""
    for st in stages:
        st['whens'] = {str(k): v for k, v in st.get('whens', {}).items()}
        st['behav'] = {str(k): v for k, v in st.get('behav', {}).items()}
        st['reads'] = [list(x) for x in st.get('reads', [])]
        st['outs'] = [list(x) for x in st.get('outs', [])]
        st['step_edges'] = [list(x) for x in st.get('step_edges', [])]
        st['files'] = dict(st.get('files', {}))
    case = {'history': True, 'label': label, 'pool': pool, 'stages': stages, 'sched': None, 'runs': len(stages), 'missing': []}
    last = stage_case(case, len(stages) - 1)
    case['spec'], case['behav'] = last['spec'], last['behav']
    return case


def edit_commands(ctx, prev, st):
    """xvc CLI argument lists that turn the pipeline of stage `prev` (None = empty) into the one of stage `st`"""
    cmds = []
    p_steps = prev['steps'] if prev else []
    for i in st['steps']:
        if i not in p_steps:
            a = ['step', 'new', '-s', f's{i}', '-c', f'exec {ctx.step_bin} s{i} $$']
            w = st.get('whens', {}).get(str(i))
            if w and w != 'by_dependencies':
                a += ['--when', w]
            cmds.append(a)
    p_reads = prev.get('reads', []) if prev else []
    p_se = prev.get('step_edges', []) if prev else []
    for i in st['steps']:
        a = []
        for (c, p) in st.get('step_edges', []):
            if c == i and [c, p] not in p_se:
                a += ['--step', f's{p}']
        for r in st.get('reads', []):
            if r[0] == i and r not in p_reads:
                a += dep_option(r[1], r[2])
        if a:
            cmds.append(['step', 'dependency', '-s', f's{i}'] + a)
    p_outs = prev.get('outs', []) if prev else []
    for (p, path) in st.get('outs', []):
        if [p, path] not in p_outs:
            cmds.append(['step', 'output', '-s', f's{p}', '--output-file', path])
    return cmds


def run_history(ctx, case, hook=False, timeout=20, keep=False):
    with ctx.lock:
        name = f'h{next(ctx.counter)}'
    sb = Sandbox(ctx.base, name, ctx.xvc)
    rc, out, err = sb.init()
    if rc != 0:
        raise RuntimeError(f'xvc init failed: {err}')
    os.makedirs(sb.path('.ctl'))
    env = dict(sb.env)
    trace_path = os.path.join(sb.base, 'trace')
    if hook:
        env['XVC_VERIF_TRACE'] = trace_path
        if case.get('sched'):
            env['XVC_VERIF_SCHED'] = case['sched']
    obs, prev, recorded = [], None, {}
    for k, st in enumerate(case['stages']):
        for rel, content in st.get('files', {}).items():
            sb.write(rel, content)
        for a in edit_commands(ctx, prev, st):
            rc, out, err = sb.x('--skip-git', 'pipeline', *a)
            if rc != 0:
                raise RuntimeError(f'xvc pipeline {" ".join(a)} failed rc={rc}: {err[-400:]}')
        sc_case = stage_case(case, k)
        outs_of = {}
        for (p, path) in st.get('outs', []):
            outs_of.setdefault(p, []).append(path)
        for i in st['steps']:
            b = sc_case['behav'][i]
            lines = [f'sleep_ms {b["sleep_ms"]}', f'rc {b["rc"]}', f'out {b["out"]}', f'err {b["err"]}'] + [f'touch {p}' for p in outs_of.get(i, [])]
            if b.get('closefds'):
                lines.append(f'closefds {b["closefds"]}')
            open(sb.path(f'.ctl/s{i}'), 'w').write('\n'.join(lines) + '\n')
        for pth in (sb.path('.ctl/journal'), trace_path):
            try:
                os.unlink(pth)
            except OSError:
                pass
        # what a --glob_items dependency has recorded = what matched on disk at the last fully successful run that had it
        header = driver_header(case, k, recorded)
        o = sc.run_xvc(ctx, sb.root, env, ctx.xvc_hook if hook else ctx.xvc, case['pool'], timeout)
        try:
            o['journal'] = sc.parse_journal(open(sb.path('.ctl/journal')).read())
        except OSError:
            o['journal'] = []
        if hook:
            try:
                o['trace'] = open(trace_path).read().split('\n')[:-1]
            except OSError:
                o['trace'] = []
            o['driver_header'] = header
        o.update({'run': k, 'hook': hook, 'stage_case': sc_case})
        obs.append(o)
        if o['timed_out']:
            break
        ran_ok = all(e['rc'] in (0, None) for e in o['journal'] if e['kind'] == 'end') and '[ERROR]' not in o['stderr'] and o['rc'] == 0
        if ran_ok:
            for (c, kind, target) in st.get('reads', []):
                if kind == 'globi':
                    recorded[(c, target)] = sorted(rel for rel in _files(sb.root) if hmatch(target, rel))
        prev = st
    if not keep:
        sb.cleanup()
    return obs


def _files(root):
    out = []
    for dp, dn, fn in os.walk(root):
        dn[:] = [d for d in dn if d not in ('.xvc', '.git', '.ctl')]
        for f in fn:
            out.append(os.path.relpath(os.path.join(dp, f), root))
    return out


def driver_header(case, k, recorded):
    st = case['stages'][k]
    spec = derived_spec(st)
    L = [f'n {len(st["steps"])} pool {case["pool"]}']
    # the model numbers the steps 0..n-1: steps that do not exist at this stage are left out
    idx = {s: j for j, s in enumerate(sorted(st['steps']))}
    for s in sorted(st['steps']):
        L.append(f'step {idx[s]} s{s} {spec["whens"][s]}')
    for (c, p) in st.get('step_edges', []):
        L.append(f'dep {idx[c]} step {idx[p]}')
    for (c, kind, target) in st.get('reads', []):
        if kind == 'glob':
            L.append(f'dep {idx[c]} glob {target}')
        elif kind == 'globi':
            rec = recorded.get((c, target), [])
            L.append(f'dep {idx[c]} globitems {target} {",".join(rec) if rec else "-"}')
        else:
            L.append(f'dep {idx[c]} path {PATH_KINDS[kind][1]} {target}')
    for (p, path) in st.get('outs', []):
        L.append(f'out {idx[p]} {path}')
    return L


def describe(case):
    L = ['git init && xvc init']
    prev = None

    class C:
        step_bin = '<step command: journal start; sleep; write declared outputs; journal end; exit rc>'
    for k, st in enumerate(case['stages']):
        for rel in st.get('files', {}):
            L.append(f'write {rel}' + (' (changed content)' if k else ''))
        for a in edit_commands(C, prev, st):
            L.append('xvc pipeline ' + ' '.join(f"'{x}'" if any(ch in x for ch in '*<>/: ') and not x.startswith('-') else x for x in a))
        b = st.get('behav', {})
        notes = ', '.join(f's{i}: ' + ('exit %d' % v['rc'] if v.get('rc') else f'sleep {v.get("sleep_ms", 0)} ms') for i, v in sorted(b.items()) if v)
        L.append(f'xvc -c pipeline.process_pool_size={case["pool"]} pipeline run   # run {k + 1}' + (f' ({notes})' if notes else ''))
        prev = st
    return L


def gen_histories(rng, quick):
    """for every edge realisation and every kind of edit: consumer s0 (has recorded state after run 1), producer s1"""
    cases = []
    for kind in KINDS:
        for edit in ('new-producer-step', 'output-added-to-existing-step', 'dependency-added-to-existing-consumer'):
            if kind == 'step' and edit != 'dependency-added-to-existing-consumer':
                continue
            if kind in GLOB_KINDS:
                target, static, outp = 'shared/c0/*.txt', 'shared/c0/static.txt', 'shared/c0/p1.txt'
            else:
                target, static, outp = 'x_c0.txt', 'x_c0.txt', 'x_c0.txt'
            text = lambda r: f'alpha {r}\nbeta {r}\ngamma\n'
            priv = ['in_c0.txt']                                    # consumer's private input (recorded after run 1)
            read = [0, kind, target] if kind != 'step' else None
            reads_priv = [0, 'file', 'in_c0.txt']
            if edit == 'new-producer-step':
                s1 = {'steps': [0], 'reads': [read], 'outs': [], 'files': {static: text(1)}}
                s2 = {'steps': [0, 1], 'reads': [read], 'outs': [[1, outp]], 'files': {static: text(2)}}
            elif edit == 'output-added-to-existing-step':
                s1 = {'steps': [0, 1], 'reads': [read], 'outs': [], 'files': {static: text(1)}}
                s2 = {'steps': [0, 1], 'reads': [read], 'outs': [[1, outp]], 'files': {static: text(2)}}
            else:
                s1 = {'steps': [0, 1], 'reads': [reads_priv], 'outs': [[1, outp]] if kind != 'step' else [],
                      'files': {'in_c0.txt': text(1), **({static: text(1)} if static != outp or kind not in GLOB_KINDS else {static: text(1)})}}
                s2 = {'steps': [0, 1], 'reads': [reads_priv] + ([read] if read else []), 'outs': s1['outs'],
                      'step_edges': [[0, 1]] if kind == 'step' else [], 'files': {'in_c0.txt': text(2)}}
            s2['behav'] = {1: {'sleep_ms': 150}}
            s3 = json.loads(json.dumps(s2, default=list))
            s3['behav'] = {1: {'rc': 1, 'sleep_ms': 60}}
            s3['files'] = {k: text(3) for k in s2['files']}
            if not s3['files']:
                s3['files'] = {static: text(3)}
            cases.append(mk_history(f'history/{kind}/{edit}', rng.choice([2, 4]), [s1, s2, s3]))
    # two consumers of different kinds on one new producer; a second producer added in a third stage
    s1 = {'steps': [0, 2], 'reads': [[0, 'globi', 'shared/m/*.txt'], [2, 'glob', 'shared/m/*.txt']], 'outs': [],
          'files': {'shared/m/static.txt': 'one\n'}}
    s2 = {'steps': [0, 1, 2], 'reads': s1['reads'], 'outs': [[1, 'shared/m/p1.txt']], 'files': {'shared/m/static.txt': 'two\n'}, 'behav': {1: {'sleep_ms': 150}}}
    s3 = {'steps': [0, 1, 2, 3], 'reads': s1['reads'], 'outs': [[1, 'shared/m/p1.txt'], [3, 'shared/m/p3.txt']],
          'files': {'shared/m/static.txt': 'three\n'}, 'behav': {1: {'sleep_ms': 60}, 3: {'sleep_ms': 150}}}
    s4 = json.loads(json.dumps(s3))
    s4['behav'] = {3: {'rc': 1, 'sleep_ms': 60}}
    s4['files'] = {'shared/m/static.txt': 'four\n'}
    cases.append(mk_history('history/two-consumers-two-producers', 4, [s1, s2, s3, s4]))
    return cases


def gen_shared_outputs(rng, quick):
    """the SAME path declared as output by two or three steps and read by a third (seed C10-4: an index "path -> producing step"
    keeps only one producer, in random hash order): the consumer must wait for EVERY producer and must not run when ANY of them
    failed.  Every consumer realisation, producers ok / failing / slow in the interesting assignments, each pipeline run three
    times (new hash order per process); first entry = the minimised C10-4 scenario."""
    cases = []
    text = lambda r: f'alpha {r}\nbeta {r}\ngamma\n'

    def hist(label, kind, behavs, nprod=2, runs=3):
        if kind in GLOB_KINDS:
            target, path, extra = 'shared/g/*.txt', 'shared/g/p.txt', 'shared/g/static.txt'
        else:
            target, path, extra = 'x_shared.txt', 'x_shared.txt', None
        prods = list(range(1, 1 + nprod))
        stages = []
        for r in range(runs):
            files = {path: text(r)}
            if extra:
                files[extra] = text(r)
            stages.append({'steps': [0] + prods, 'reads': [[0, kind, target]], 'outs': [[p, path] for p in prods], 'files': files,
                           'behav': {p: b for p, b in zip(prods, behavs)}})
        return mk_history(label, 4, stages)
    ok, fail, slow, slowfail = {'sleep_ms': 20}, {'rc': 1, 'sleep_ms': 20}, {'sleep_ms': 160}, {'rc': 1, 'sleep_ms': 160}
    cases.append(hist('corpus/C10-4 two producers of one --output-file, the slow one fails, consumer by --file', 'file', [ok, slowfail], runs=4))
    assignments = [[ok, fail], [fail, ok], [slow, ok], [ok, slow], [slowfail, ok], [fail, slow]]
    kinds = ['file', 'glob', 'globi', 'regex', 'regexi', 'lines', 'linei']
    for kind in kinds:
        for a in (assignments if not quick else rng.sample(assignments, 3)):
            cases.append(hist(f'shared-output/{kind}', kind, a))
    for kind in ('file', 'glob', 'globi'):
        cases.append(hist(f'shared-output/{kind}/3 producers', kind, rng.choice([[ok, ok, slowfail], [slow, fail, ok], [ok, slow, slow]]), nprod=3))
    return cases


def corpus():
    """seed C10-3 (minimised): `merge` (--glob_items 'data/*.txt', data/a.txt present) runs once; then `gen` with
    --output-file data/b.txt is added and data/a.txt is edited; run 2: merge must wait for gen; run 3: gen fails, merge must
    not run"""
    s1 = {'steps': [0], 'reads': [[0, 'globi', 'data/*.txt']], 'outs': [], 'files': {'data/a.txt': 'first input\n'}}
    s2 = {'steps': [0, 1], 'reads': s1['reads'], 'outs': [[1, 'data/b.txt']], 'files': {'data/a.txt': 'first input, edited\n'},
          'behav': {1: {'sleep_ms': 200}}}
    s3 = {'steps': [0, 1], 'reads': s1['reads'], 'outs': [[1, 'data/b.txt']], 'files': {'data/a.txt': 'first input, edited again\n'},
          'behav': {1: {'rc': 1, 'sleep_ms': 60}}}
    return [mk_history('corpus/C10-3 glob_items: producer added after the items were recorded', 2, [s1, s2, s3])]
