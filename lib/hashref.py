"""Hash implementations independent of xvc's: hashlib for SHA2-256 / SHA3-256 / BLAKE2s and a pure-Python
BLAKE3 (port of the reference implementation), self-tested against published vectors at import."""
import hashlib

IV = [0x6A09E667, 0xBB67AE85, 0x3C6EF372, 0xA54FF53A, 0x510E527F, 0x9B05688C, 0x1F83D9AB, 0x5BE0CD19]
MSG_PERM = [2, 6, 3, 10, 7, 0, 4, 13, 1, 11, 12, 5, 9, 14, 15, 8]
CHUNK_START, CHUNK_END, PARENT, ROOT = 1, 2, 4, 8
M32 = 0xFFFFFFFF


def _rotr(x, n):
    return ((x >> n) | (x << (32 - n))) & M32


def _g(s, a, b, c, d, mx, my):
    s[a] = (s[a] + s[b] + mx) & M32; s[d] = _rotr(s[d] ^ s[a], 16)
    s[c] = (s[c] + s[d]) & M32; s[b] = _rotr(s[b] ^ s[c], 12)
    s[a] = (s[a] + s[b] + my) & M32; s[d] = _rotr(s[d] ^ s[a], 8)
    s[c] = (s[c] + s[d]) & M32; s[b] = _rotr(s[b] ^ s[c], 7)


def _compress(cv, block_words, counter, block_len, flags):
    s = list(cv) + IV[:4] + [counter & M32, (counter >> 32) & M32, block_len, flags]
    m = list(block_words)
    for r in range(7):
        _g(s, 0, 4, 8, 12, m[0], m[1]); _g(s, 1, 5, 9, 13, m[2], m[3])
        _g(s, 2, 6, 10, 14, m[4], m[5]); _g(s, 3, 7, 11, 15, m[6], m[7])
        _g(s, 0, 5, 10, 15, m[8], m[9]); _g(s, 1, 6, 11, 12, m[10], m[11])
        _g(s, 2, 7, 8, 13, m[12], m[13]); _g(s, 3, 4, 9, 14, m[14], m[15])
        if r < 6:
            m = [m[i] for i in MSG_PERM]
    for i in range(8):
        s[i] ^= s[i + 8]
        s[i + 8] ^= cv[i]
    return s


def _words(block):
    block = block + b'\0' * (64 - len(block))
    return [int.from_bytes(block[i:i + 4], 'little') for i in range(0, 64, 4)]


def _chunk_output(chunk, counter):
    """returns (input_cv, block_words, counter, block_len, flags) of the chunk's last block"""
    cv = IV
    blocks = [chunk[i:i + 64] for i in range(0, len(chunk), 64)] or [b'']
    for i, blk in enumerate(blocks):
        flags = (CHUNK_START if i == 0 else 0)
        if i == len(blocks) - 1:
            return (cv, _words(blk), counter, len(blk), flags | CHUNK_END)
        cv = _compress(cv, _words(blk), counter, 64, flags)[:8]


def _cv(out):
    return _compress(*out)[:8]


def blake3(data: bytes) -> bytes:
    chunks = [data[i:i + 1024] for i in range(0, len(data), 1024)] or [b'']
    stack = []          # chaining values of completed subtrees
    total = 0
    for idx, ch in enumerate(chunks[:-1]):
        cv = _cv(_chunk_output(ch, idx))
        total = idx + 1
        t = total
        while t & 1 == 0:
            left = stack.pop()
            cv = _cv((IV, left + cv, 0, 64, PARENT))
            t >>= 1
        stack.append(cv)
    out = _chunk_output(chunks[-1], len(chunks) - 1)
    while stack:
        left = stack.pop()
        out = (IV, left + _cv(out), 0, 64, PARENT)
    cv, words, counter, blen, flags = out
    res = _compress(cv, words, 0, blen, flags | ROOT)
    return b''.join(w.to_bytes(4, 'little') for w in res[:8])


def _selftest():
    assert blake3(b'').hex() == 'af1349b9f5f9a1a6a0404dea36dcc9499bcb25c9adc112b7cc9a93cae41f3262'
    assert blake3(bytes([0])).hex() == '2d3adedff11b61f14c886e35afa036736dcd87a74d27b5c1510225d0f592e213'
    assert blake3(b'abc').hex() == '6437b3ac38465133ffb63b75273a8db548c558465d79db03fd359c6cd5bd9d85'
    # official test vector: input byte i = i % 251
    v = lambda n: bytes(i % 251 for i in range(n))
    assert blake3(v(1024)).hex() == '42214739f095a406f3fc83deb889744ac00df831c10daa55189b5d121c855af7'
    assert blake3(v(1025)).hex() == 'd00278ae47eb27b34faecf67b4fe263f82d5412916c1ffd97c8cb7fb814b8444'
    assert blake3(v(2049)).hex() == '5f4d72f40d7a5f82b15ca2b2e44b1de3c2ef86c426c95c1af0b6879522563030'


_selftest()

ALGOS = ['Blake3', 'Blake2s', 'SHA2_256', 'SHA3_256']
PREFIX = {'Blake3': 'b3', 'Blake2s': 'b2', 'SHA2_256': 's2', 'SHA3_256': 's3'}
CONFIG_NAME = {'Blake3': 'blake3', 'Blake2s': 'blake2', 'SHA2_256': 'sha2', 'SHA3_256': 'sha3'}


def digest(algo: str, data: bytes) -> str:
    if algo == 'Blake3':
        return blake3(data).hex()
    if algo == 'Blake2s':
        return hashlib.blake2s(data, digest_size=32).hexdigest()
    if algo == 'SHA2_256':
        return hashlib.sha256(data).hexdigest()
    if algo == 'SHA3_256':
        return hashlib.sha3_256(data).hexdigest()
    raise ValueError(algo)


def strip_crlf(data: bytes) -> bytes:
    return bytes(c for c in data if c not in (10, 13))


def is_text(data: bytes) -> bool:
    return 0 not in data[:8000]
