"""C04 — see DESIGN.md section 4 ("the repository model") and lean/XvcRepo/XvcRepo/Props/C04.lean.
Proof: Lean theorems about the executable repository model.  Tie: the model driver is compared with the rebuilt xvc
binary after every command of generated histories.  Oracle: model-independent, lib/repo_check.py."""
import random
import repo_check as rc
from repo_check import W, T, CI, RC

ORACLES = [rc.o1_content_addressed, rc.o4_restore_versions]
RESTORE = dict(old_commits=True)


def restore_histories(seed, n):
    """`untrack --restore-versions` on paths with several committed versions (also versions shared with other paths,
    repeated versions, links, moved paths), with and without a failing copy.  The failure of a copy is injected the way
    a user meets it: something (a directory) already sits at the destination name, or the restored name - the path's
    name plus 16 characters - is longer than NAME_MAX."""
    rng = random.Random(f'c04-restore-{seed}')
    out = []
    long_name = 'L' * 236 + '.bin'                       # 240 bytes: fine as a file name, too long with the version suffix
    for i in range(n):
        e = rng.choice(['txt', 'bin', ''])
        nm = lambda s: s + ('.' + e if e else '')
        a, b = nm('a'), nm('d/b')
        shape = rng.random()
        if shape < 0.15:
            a = long_name
        elif shape < 0.45:
            # names with further dots (the restored name is <stem>-<version id>.<extension>: only the LAST dot separates)
            a = rng.choice(['model.v2.bin', 'd/archive.tar.gz', 'data.2024.06.csv', 'd/.hidden.conf', 'trailing.', 'x..y'])
        cfg = {'algo': rng.choice([0, 0, 1, 2, 3]), 'method': rng.choice(['copy', 'copy', 'hardlink', 'symlink', 'reflink']), 'tob': 'auto'}
        par = lambda: {'no_parallel': rng.random() < 0.5}
        V = [bytes(f'v{k}-{i}-{rng.randint(0, 999)}\n', 'ascii') + (b'\x00\xff' if rng.random() < 0.3 else b'') for k in range(4)]
        nv = rng.randint(1, 4)
        h = [W(a, V[0]), W(b, V[0] if rng.random() < 0.5 else V[3]), T([a, b], **par())]
        for k in range(1, nv):
            h += [W(a, V[k]), (CI if rng.random() < 0.6 else T)([a], **par())]
        if rng.random() < 0.3 and nv > 1:
            h += [W(a, V[0]), CI([a], **par())]                      # an earlier version committed again
        if rng.random() < 0.3:
            h += [W(b, V[1]), CI([b], **par())]                      # b shares a second version with a
        if rng.random() < 0.2 and a != long_name:
            c = nm('c')
            h.append({'op': 'move', 'src': a, 'dst': c}); a = c
        if rng.random() < 0.15:
            h.append({'op': 'remove', 'targets': [a], 'all_versions': False})     # current version no longer in the cache
        targets = rng.choice([[a], [a], [a, b], [b, a]])
        u = {'op': 'untrack', 'targets': targets, 'restore_versions': f'../restored-{len(h)}'}
        mode = rng.choice(['ok', 'ok', 'block-one', 'block-one', 'block-last'])
        if a == long_name:
            u['block'] = [[a, k] for k in range(6)]                  # ENAMETOOLONG for every version of the long name
        elif mode == 'block-one':
            u['block'] = [[rng.choice(targets), rng.randint(0, nv - 1)]]
        elif mode == 'block-last':
            u['block'] = [[a, nv - 1]]
        h.append(u)
        if u.get('block'):
            # after the failed attempt everything must still be there: restore without obstacle, then the rest still works
            h.append({'op': 'untrack', 'targets': targets, 'restore_versions': f'../restored-{len(h)}'} if a != long_name
                     else RC([a], force=True, **par()))
        other = [p for p in (a, b) if p not in targets]
        if other:
            h.append(RC(other, force=True, **par()))
        out.append((f'restore-{mode}-{nv}v-{i}', cfg, h))
    return out


def force_histories(seed, n):
    """`--force` re-commits in awkward states (copy and hard-link methods; the symlink variant is CORPUS F31 in lib/repo_check.py): the
    workspace copy missing, modified, unmodified, a duplicate of another path - a committed version must survive them all"""
    rng = random.Random(f'c04-force-{seed}')
    out = []
    for i in range(n):
        e = rng.choice(['txt', 'bin', ''])
        nm = lambda s: s + ('.' + e if e else '')
        a, b = nm('a'), nm('d/b')
        cfg = {'algo': rng.choice([0, 0, 1, 2, 3]), 'method': rng.choice(['copy', 'copy', 'hardlink', 'reflink']), 'tob': 'auto'}
        X, Y, Z = [bytes(f'{t}-force-{i}-{rng.randint(0, 999)}\n', 'ascii') + (b'\x00' if rng.random() < 0.3 else b'') for t in 'XYZ']
        h = [W(a, X), W(b, X if rng.random() < 0.3 else Y), T([a, b], no_parallel=rng.random() < 0.5)]
        state = rng.choice(['missing', 'missing', 'modified', 'unmodified', 'both-missing'])
        if state in ('missing', 'both-missing'): h.append({'op': 'delete', 'path': a})
        if state == 'both-missing': h.append({'op': 'delete', 'path': b})
        if state == 'modified': h.append(W(a, Z))
        tg = rng.choice([[a], [a, b], [b, a]])
        h.append(CI(tg, force=True, no_parallel=rng.random() < 0.5) if rng.random() < 0.7 else T(tg, force=True, no_parallel=rng.random() < 0.5))
        h.append(RC([a, b], no_parallel=rng.random() < 0.5))
        h.append({'op': 'delete', 'path': b}); h.append(RC([a, b]))
        out.append((f'force-{state}-{i}', cfg, h))
    return out


def run(chk):
    n = 40 if chk.tier == 'quick' else 400
    return rc.run_property(chk, 'C04', ORACLES, restore=RESTORE, nq=240, extra_corpus=restore_histories(chk.seed, n) + force_histories(chk.seed, n // 2))


def replay(chk, data):
    return rc.replay_property(chk, data, ORACLES, restore=RESTORE)
