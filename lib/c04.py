"""C04 — see DESIGN.md section 4 ("the repository model") and lean/XvcRepo/XvcRepo/Props/C04.lean.
Proof: Lean theorems about the executable repository model.  Tie: the model driver is compared with the rebuilt xvc
binary after every command of generated histories.  Oracle: model-independent, lib/repo_check.py."""
import random
import repo_check as rc
import onlyver
from repo_check import W, T, CI, RC

def o4_versions_of_tracked_paths_kept(steps, cfg, history):
    """C04, first sentence: "every version ever committed for a still-tracked path remains in the cache" until it is explicitly
    removed.  After any command without --force, every recorded version (current or earlier) of a path that was tracked before the
    command, is still tracked after it and was not named as a target of `remove` / `untrack` keeps its object if it had one before -
    whichever other path shares that object (seeded change C04-5: untrack looked at the CURRENT versions of the other paths only).
    Paths are followed by their entity (a moved path keeps its versions)."""
    out = []
    for st in steps:
        c = st['cmd']
        pre, post = st['pre'], st['post']
        if pre is None or post is None or st['rc'] not in (0, 1) or rc.is_force(c) or c['op'] in ('write', 'delete', 'emptydir', 'link', 'relink'):
            continue
        targets = set(c.get('targets', [])) if c['op'] in ('remove', 'untrack') else set()
        alive = {r['entity'] for r in post.recs.values()}
        for q, r in pre.recs.items():
            if q in targets or r['entity'] not in alive:
                continue
            for k, d in enumerate(r['hist']):
                rel = rc.rec_addr(r, q, d)
                if rel in pre.cache and pre.cache[rel]['bytes'] is not None and rel not in post.cache:
                    out.append((f"step {st['i']} {rc.show_cmd(c)}: version {k} of {len(r['hist'])} of {q} (object {rel}) was deleted; {q} is still tracked and was not named",
                                {'kind': 'version-of-tracked-path-deleted'}))
    return out


ORACLES = [rc.o1_content_addressed, rc.o4_restore_versions, onlyver.oracle, o4_versions_of_tracked_paths_kept]
RESTORE = dict(old_commits=True)


def restore_histories(seed, n):
    """`untrack --restore-versions` on paths with several committed versions (also versions shared with other paths,
    repeated versions, links, moved paths), with and without a failing copy.  The failure of a copy is injected the way
    a user meets it: something (a directory) already sits at the destination name, or the restored name - the path's
    name plus 16 characters - is longer than NAME_MAX."""
    rng = random.Random(f'c04-restore-{seed}')
    out = []
    long_name = 'L' * 236 + '.bin'                       # 240 bytes: fine as a file name, too long with the version suffix
    for i in range(n):
        e = rng.choice(['txt', 'bin', ''])
        nm = lambda s: s + ('.' + e if e else '')
        a, b = nm('a'), nm('d/b')
        shape = rng.random()
        if shape < 0.15:
            a = long_name
        elif shape < 0.45:
            # names with further dots (the restored name is <stem>-<version id>.<extension>: only the LAST dot separates)
            a = rng.choice(['model.v2.bin', 'd/archive.tar.gz', 'data.2024.06.csv', 'd/.hidden.conf', 'trailing.', 'x..y'])
        cfg = {'algo': rng.choice([0, 0, 1, 2, 3]), 'method': rng.choice(['copy', 'copy', 'hardlink', 'symlink', 'reflink']), 'tob': 'auto'}
        par = lambda: {'no_parallel': rng.random() < 0.5}
        V = [bytes(f'v{k}-{i}-{rng.randint(0, 999)}\n', 'ascii') + (b'\x00\xff' if rng.random() < 0.3 else b'') for k in range(4)]
        nv = rng.randint(1, 4)
        h = [W(a, V[0]), W(b, V[0] if rng.random() < 0.5 else V[3]), T([a, b], **par())]
        for k in range(1, nv):
            h += [W(a, V[k]), (CI if rng.random() < 0.6 else T)([a], **par())]
        if rng.random() < 0.3 and nv > 1:
            h += [W(a, V[0]), CI([a], **par())]                      # an earlier version committed again
        if rng.random() < 0.3:
            h += [W(b, V[1]), CI([b], **par())]                      # b shares a second version with a
        if rng.random() < 0.2 and a != long_name:
            c = nm('c')
            h.append({'op': 'move', 'src': a, 'dst': c}); a = c
        if rng.random() < 0.15:
            h.append({'op': 'remove', 'targets': [a], 'all_versions': False})     # current version no longer in the cache
        targets = rng.choice([[a], [a], [a, b], [b, a]])
        u = {'op': 'untrack', 'targets': targets, 'restore_versions': f'../restored-{len(h)}'}
        mode = rng.choice(['ok', 'ok', 'block-one', 'block-one', 'block-last'])
        if a == long_name:
            u['block'] = [[a, k] for k in range(6)]                  # ENAMETOOLONG for every version of the long name
        elif mode == 'block-one':
            u['block'] = [[rng.choice(targets), rng.randint(0, nv - 1)]]
        elif mode == 'block-last':
            u['block'] = [[a, nv - 1]]
        h.append(u)
        if u.get('block'):
            # after the failed attempt everything must still be there: restore without obstacle, then the rest still works
            h.append({'op': 'untrack', 'targets': targets, 'restore_versions': f'../restored-{len(h)}'} if a != long_name
                     else RC([a], force=True, **par()))
        other = [p for p in (a, b) if p not in targets]
        if other:
            h.append(RC(other, force=True, **par()))
        out.append((f'restore-{mode}-{nv}v-{i}', cfg, h))
    return out


def force_histories(seed, n):
    """`--force` re-commits in awkward states (copy and hard-link methods; the symlink variant is CORPUS F31 in lib/repo_check.py): the
    workspace copy missing, modified, unmodified, a duplicate of another path - a committed version must survive them all"""
    rng = random.Random(f'c04-force-{seed}')
    out = []
    for i in range(n):
        e = rng.choice(['txt', 'bin', ''])
        nm = lambda s: s + ('.' + e if e else '')
        a, b = nm('a'), nm('d/b')
        cfg = {'algo': rng.choice([0, 0, 1, 2, 3]), 'method': rng.choice(['copy', 'copy', 'hardlink', 'reflink']), 'tob': 'auto'}
        X, Y, Z = [bytes(f'{t}-force-{i}-{rng.randint(0, 999)}\n', 'ascii') + (b'\x00' if rng.random() < 0.3 else b'') for t in 'XYZ']
        h = [W(a, X), W(b, X if rng.random() < 0.3 else Y), T([a, b], no_parallel=rng.random() < 0.5)]
        state = rng.choice(['missing', 'missing', 'modified', 'unmodified', 'both-missing'])
        if state in ('missing', 'both-missing'): h.append({'op': 'delete', 'path': a})
        if state == 'both-missing': h.append({'op': 'delete', 'path': b})
        if state == 'modified': h.append(W(a, Z))
        tg = rng.choice([[a], [a, b], [b, a]])
        h.append(CI(tg, force=True, no_parallel=rng.random() < 0.5) if rng.random() < 0.7 else T(tg, force=True, no_parallel=rng.random() < 0.5))
        if len(tg) > 1: h[-1]['no_parallel'] = True          # parallel --force on targets that share an object races (see repo_harness.gen_history)
        h.append(RC([a, b], no_parallel=rng.random() < 0.5))
        h.append({'op': 'delete', 'path': b}); h.append(RC([a, b]))
        out.append((f'force-{state}-{i}', cfg, h))
    return out


def shared_version_histories(seed, n):
    """Contents shared between paths in current AND in earlier versions (the sharing histories of C05: duplicates, copies, three
    paths), then remove / untrack of one sharer without --force.  Here they are judged as C04 histories: the versions of the paths
    that stay tracked remain in the cache (o4_versions_of_tracked_paths_kept) and the Git commits made before the removal still
    restore them (`git checkout <commit>; xvc file recheck`, restore hook with old_commits)."""
    import c05
    return [(f'c04-{name}', cfg, [c for c in h if not c.get('force') or c['op'] == 'recheck'])
            for name, cfg, h in c05.sharing_histories(seed * 7 + 4, n)]


def respelled_link_histories(seed, n):
    """Paths tracked with the symlink method (by option or by configuration) whose link the USER has written again with another
    spelling of the SAME target (repo_harness.relink: relative, through a second name of the repository directory, through an
    intermediate link outside the repository, with a `/./` component), optionally after a second version was committed; then
    `carry-in --force` / `track --force` of it (alone, or together with a sibling that shares the object), then recheck, delete,
    recheck.  The link still is a link to the cached copy: a forced re-commit has nothing to replace, the committed version stays
    in the cache (o1 `object-lost-by-force`) and every commit stays restorable (restore probe).  XvcRepo/Props/C04Resolve.lean."""
    import repo_harness as rh
    rng = random.Random(f'c04-respelled-links-{seed}')
    out = []
    for i in range(n):
        e = rng.choice(['txt', 'bin', ''])
        nm = lambda s: s + ('.' + e if e else '')
        a, b = nm(rng.choice(['a', 'd/a', 'd/e/a', 'ünï/a'])), nm('d/b')
        by_config = rng.random() < 0.3
        cfg = {'algo': rng.choice([0, 0, 1, 2, 3]), 'method': 'symlink' if by_config else rng.choice(['copy', 'hardlink', 'reflink']), 'tob': 'auto'}
        tm = {} if by_config else {'method': 'symlink'}
        X, Y = [bytes(f'{t}-respelled-{i}-{rng.randint(0, 999)}\n', 'ascii') + (b'\x00' if rng.random() < 0.3 else b'') for t in 'XY']
        np_ = lambda: rng.random() < 0.5
        h = [W(a, X), W(b, X if rng.random() < 0.4 else Y), T([a, b], no_parallel=np_(), **tm)]
        if rng.random() < 0.3:
            h += [W(a, Y + b'second version\n'), CI([a], no_parallel=np_())]
        kind = rh.RELINK_KINDS[i % len(rh.RELINK_KINDS)]
        h.append({'op': 'relink', 'path': a, 'kind': kind, 'n': i})
        if rng.random() < 0.25:
            h.append({'op': 'relink', 'path': b, 'kind': rng.choice(rh.RELINK_KINDS), 'n': i + 1000})
        tg = rng.choice([[a], [a], [a, b], [b, a]])
        h.append(CI(tg, force=True, no_parallel=True) if rng.random() < 0.75 else T(tg, force=True, no_parallel=True))
        h += [RC([a, b], no_parallel=np_()), {'op': 'delete', 'path': a}, RC([a, b], no_parallel=np_())]
        out.append((f"respelled-link-{kind}-{i}", cfg, h))
    return out


# ------------------------------------------------------------------------------------------------
# `remove --only-version V`: every version that V does not name stays restorable

def unnamed_versions_hook(res):
    """After every commit (track / carry-in) the harness notes the Git commit xvc made, the path, the bytes committed and
    the cache address recorded for them.  A `remove --only-version V` entitles xvc to delete the versions of its targets
    whose digest starts with V (dashes and case ignored) and nothing else.  At the end of the history, in a throw-away
    copy: for every noted version that no command named, `git checkout <its commit>`, delete the file,
    `xvc file recheck <path>` must reproduce the committed bytes (C04, second sentence)."""
    import os, shutil, subprocess
    import repo_harness as rh
    claims, legit = [], set()

    def hook(sb, cfg, history, steps, table):
        st = steps[-1]
        c, pre, post = st['cmd'], st['pre'], st['post']
        if c['op'] in ('track', 'carryin') and st['rc'] == 0:
            g, out, _ = sb.git('rev-parse', 'HEAD')
            for t in c['targets']:
                r, b = post.recs.get(t), rc.read_through(pre, t)
                if g == 0 and r and r['cur'] and b is not None and rc.rec_addr(r, t) in post.cache:
                    claims.append((st['i'], out.strip(), t, b, rc.rec_addr(r, t)))
        elif c['op'] == 'remove':
            if c.get('only_version') and c.get('_only_table') is not None:
                legit.update(onlyver.named_addrs(c, pre))
            else:
                legit.update(rc.rec_addr(pre.recs[t], t, d) for t in c['targets'] if t in pre.recs for d in pre.recs[t]['hist'])
        elif c['op'] == 'untrack' or c.get('force'):
            legit.update(st['pre'].cache)                    # not generated in this stream; nothing is claimed afterwards
        if not (len(steps) == len(history) or st['rc'] not in (0, 1)):
            return
        todo = [x for x in claims if x[4] not in legit]
        res['claims'] = len(claims); res['probed'] = len(todo)
        removes = [rh.show_cmd(s['cmd']) for s in steps if s['cmd']['op'] == 'remove']
        for head in sorted({x[1] for x in todo}, key=lambda hd: min(x[0] for x in todo if x[1] == hd)):
            cp = sb.base + '.unnamed'
            shutil.rmtree(cp, ignore_errors=True)
            subprocess.run(['cp', '-a', sb.base, cp], check=False)
            probe = rh.Sandbox.__new__(rh.Sandbox)
            probe.__dict__.update(sb.__dict__)
            probe.base, probe.root, probe.log = cp, os.path.join(cp, 'repo'), []
            g, _, err = probe.git('checkout', '-q', '--detach', head)
            for (i, hd, t, want, addr) in todo:
                if hd != head: continue
                if g != 0:
                    res.setdefault('notes', []).append(f'git checkout {head[:8]} failed: {err[-160:]}'); continue
                ap = probe.path(t)
                if os.path.lexists(ap): os.unlink(ap)
                x, _, xerr = probe.x(*(rh.Runner.cfg_args(None, cfg) + ['--skip-git', 'file', 'recheck', t]))
                try:
                    got = open(ap, 'rb').read()
                except OSError:
                    got = None
                res['restores'] = res.get('restores', 0) + 1
                if got != want:
                    res.setdefault('failures', []).append((
                        f"after {' ; '.join(removes)}: `git checkout <commit made by step {i}>; rm {t}; xvc file recheck {t}` gives "
                        f"{'nothing' if got is None else repr(got[:40])} instead of the committed {want[:40]!r} (rc={x} {xerr.strip()[-160:]}); "
                        f"this version (object {addr}) was never named for removal", {'kind': 'unnamed-version-not-restorable'}))
            for dp, dn, fn in os.walk(cp):
                try: os.chmod(dp, 0o755)
                except OSError: pass
            shutil.rmtree(cp, ignore_errors=True)
    return hook


def only_version_stream(chk, col, n):
    """histories over the digest-prefix table (lib/onlyver.py): compared with the model after every command (the model
    makes the selection on the string: `removepfx`), judged by the oracles, and probed for restorability of what was not named"""
    import hashlib, json
    from concurrent.futures import ThreadPoolExecutor
    import repo_harness as rh
    r = chk.repo_ctx['runner']
    items = onlyver.table_histories(chk.seed, n)

    def one(it):
        name, cfg, h = it
        res = {}
        try:
            return r.run_history(name, cfg, h, [unnamed_versions_hook(res)]), res
        except Exception:
            import traceback
            return [{'i': -1, 'cmd': {'op': 'harness-error'}, 'rc': -1, 'err': traceback.format_exc()[-800:], 'abs': 'harness-error', 'pre': None, 'post': None, 'out': ''}], res
    with ThreadPoolExecutor(max_workers=16) as ex:
        done = list(ex.map(one, items))
    import os
    have_model = os.path.exists(chk.repo_ctx['model'])
    mod = r.model_answers([(c, h) for _, c, h in items]) if have_model else [[None] * len(h) for _, _, h in items]
    st = chk.tie['streams'].setdefault('only-version-histories', {'histories': 0, 'commands': 0, 'disagreements': 0, 'versions_committed': 0,
                                                                  'unnamed_versions_restored_from_their_commit': 0})
    for (name, cfg, h), (steps, res), m in zip(items, done, mod):
        chk.evaluations += 1
        st['histories'] += 1
        case = {'cfg': cfg, 'history': [rh.model_line(c) for c in h] if steps and steps[0]['i'] >= 0 else [], 'readable': [rh.show_cmd(c) for c in h], 'stream': name}
        if steps and steps[0]['cmd']['op'] == 'harness-error':
            chk.disagreement('only-version-histories', case, steps[0]['err'], '', 'harness error'); continue
        chk.nontrivial.add(hashlib.sha1(json.dumps(case['history']).encode()).hexdigest())
        st['versions_committed'] += res.get('claims', 0)
        st['unnamed_versions_restored_from_their_commit'] += res.get('restores', 0) - len(res.get('failures', []))
        for s, ml in zip(steps, m):
            st['commands'] += 1
            d = rh.compare_step(s, ml) if ml is not None else None
            if d:
                st['disagreements'] += 1
                chk.disagreement('only-version-histories', dict(case, readable=case['readable'][:s['i'] + 1], history=case['history'][:s['i'] + 1]), s['abs'], ml, d)
                break
        fails = list(res.get('failures', []))
        for o in (rc.o1_content_addressed, rc.o5_removal):
            fails += o(steps, cfg, h)
        fails += onlyver.oracle(steps, cfg, h, collect=col)
        seen = set()
        for msg, sig in fails:
            k = json.dumps(sig, sort_keys=True)
            if k in seen: continue
            seen.add(k)
            chk.oracle_failure(msg, case, None, signature=sig)
        for note in res.get('notes', []):
            chk.notes.append(f'{name}: {note}')


RULE_EXTRA = (' + C04 streams: {n} restore / {nf} force / {nf} shared-version histories (lib/c05.sharing_histories judged with the C04 oracles: versions of the paths that stay tracked are kept, commits made before a remove/untrack still restore them); 6 fixed + {no} generated histories over lib/digest_prefix_table.json (a path with versions A, B, C where the digest of A begins '
              'with the identifier of a hash algorithm - b3, b2, a0, hex digits themselves - or another pair of digits, and the digest of B with the characters that follow; every '
              'entry recomputed with lib/hashref.py on every run), then `remove --from-cache --only-version <prefix of one version>` typed with 0..12, 27, 28 or 64 digits, dashes at '
              'the documented positions / first only / none, lower or upper case; the model makes the selection on the STRING (driver command `removepfx`, '
              'XvcRepo/OnlyVersion.lean); oracle: nothing but a version the string names is deleted, an ambiguous string deletes nothing, and every version no command named is '
              'restored from the Git commit that committed it (`git checkout; rm; xvc file recheck`); string-level tie: every `remove --only-version` command that ran in any '
              'stream is sent to the driver as `onlyver <identifier> <string> <digests>` and the selection compared with what the binary deleted')


def run(chk):
    import functools
    n = 40 if chk.tier == 'quick' else 400
    no = 64 if chk.tier == 'quick' else 640
    col = onlyver.Collector()
    oracles = [rc.o1_content_addressed, rc.o4_restore_versions, functools.partial(onlyver.oracle, collect=col), o4_versions_of_tracked_paths_kept]

    def before_finish():
        only_version_stream(chk, col, no)
        col.tie(chk, chk.repo_ctx['model'])
        chk.extra['rule'] = chk.extra.get('rule', '') + RULE_EXTRA.format(n=n, nf=n // 2, no=no)
    return rc.run_property(chk, 'C04', oracles, restore=RESTORE, nq=240, extra_corpus=restore_histories(chk.seed, n) + force_histories(chk.seed, n // 2) + shared_version_histories(chk.seed, n // 2) + respelled_link_histories(chk.seed, n // 2),
                           before_finish=before_finish, extra_props=['XvcRepo.Props.C04Only', 'XvcRepo.Props.C04Shared', 'XvcRepo.Props.C04Resolve'])


def replay(chk, data):
    return rc.replay_property(chk, data, ORACLES, restore=RESTORE)
