"""Translator for C16: HOW the ignore files are opened for writing -> lean/XvcIgnore/XvcIgnore/Gen/GitignoreWrites.lean.

The Lean model of `update_dir/file_gitignores` edits a `.gitignore` with `old ++ appendText …`, i.e. it ASSUMES the append
primitive (`OpenOptions::new().create(true).append(true)`: O_WRONLY|O_CREAT|O_APPEND).  This translator pins that assumption
to the source: every call in file/src/common/gitignore.rs (the whole module is about ignore files) and the `.gitignore` site
of `xvc init` (core/src/types/xvcroot.rs) that can change a file is extracted into a table of write sites; Props/C16.lean
proves over the table that every site opens with append and without truncate (`C16_gitignore_opened_append_only`) and hence
that a write cut short at any byte keeps the old content as a prefix (`C16_faulted_write_keeps_old_bytes`).

Deliberately dumb, anchored extraction: an unreadable builder chain or a missing anchor raises (a broken tie).  The file is
written only when its content changes."""
import hashlib, json, os, re
from common import REPO, LEAN_DIR
from ignore_extract import write_if_changed, lean_string

GITIGNORE_RS = 'file/src/common/gitignore.rs'
XVCROOT_RS = 'core/src/types/xvcroot.rs'
# calls that create, truncate, replace, shorten or delete a file
PRIMS = [
    ('fsWrite', r'\bfs::write\s*\('),
    ('fileCreate', r'\bFile::create(?:_new)?\s*\('),
    ('removeFile', r'\bfs::remove_file\s*\('),
    ('rename', r'\bfs::rename\s*\('),
    ('copy', r'\bfs::copy\s*\('),
    ('setLen', r'\.set_len\s*\('),
]
OPEN_CHAIN = re.compile(r'\b(?:OpenOptions::new|File::options)\s*\(\s*\)')
FLAGS = ['append', 'create', 'truncate', 'write', 'create_new']


def strip_comments(src):
    """line comments and block comments removed, line structure kept (string literals of these files hold no `//`)"""
    src = re.sub(r'/\*.*?\*/', lambda m: re.sub(r'[^\n]', ' ', m.group(0)), src, flags=re.S)
    out = []
    for line in src.split('\n'):
        i = line.find('//')
        while i >= 0 and line[:i].count('"') % 2 == 1:
            i = line.find('//', i + 2)
        out.append(line if i < 0 else line[:i])
    return '\n'.join(out)


def enclosing_fn(code, pos):
    ms = list(re.finditer(r'\bfn\s+([A-Za-z_][A-Za-z0-9_]*)', code[:pos]))
    return ms[-1].group(1) if ms else '?'


def sites_of(rel, code, start=0, end=None):
    """write sites in code[start:end] of file rel"""
    out = []
    seg = code[start:end]
    for m in OPEN_CHAIN.finditer(seg):
        stop = seg.find(';', m.end())
        chain = seg[m.end():stop if stop >= 0 else len(seg)]
        if '.open(' not in chain.replace(' ', ''):
            raise RuntimeError(f'translator: builder chain without .open( at {rel}:{code.count(chr(10), 0, start + m.start()) + 1}')
        flags = {}
        for f in FLAGS + ['read']:
            fm = re.findall(r'\.' + f + r'\s*\(\s*([^)]*?)\s*\)', chain)
            if not fm:
                flags[f] = False
            elif all(v in ('true', 'false') for v in fm):
                flags[f] = fm[-1] == 'true'
            else:
                raise RuntimeError(f'translator: non-literal argument of .{f}() at {rel}:{code.count(chr(10), 0, start + m.start()) + 1}')
        out.append({'file': rel, 'line': code.count('\n', 0, start + m.start()) + 1, 'fn': enclosing_fn(code, start + m.start()),
                    'kind': 'openOptions', 'flags': {f: flags[f] for f in FLAGS}})
    for kind, rx in PRIMS:
        for m in re.finditer(rx, seg):
            out.append({'file': rel, 'line': code.count('\n', 0, start + m.start()) + 1, 'fn': enclosing_fn(code, start + m.start()), 'kind': kind})
    return sorted(out, key=lambda s: s['line'])


def extract():
    code = strip_comments(open(os.path.join(REPO, GITIGNORE_RS)).read())
    sites = sites_of(GITIGNORE_RS, code)
    if not sites:
        raise RuntimeError(f'translator: no write site found in {GITIGNORE_RS}')
    for fn in ('update_dir_gitignores', 'update_file_gitignores'):
        if not re.search(r'\bfn\s+' + fn + r'\b', code):
            raise RuntimeError(f'translator anchor fn {fn} not found in {GITIGNORE_RS}')
    # xvc init: the statement(s) between `let gitignore_path = …".gitignore"…;` and the writeln! of the initial content
    code2 = strip_comments(open(os.path.join(REPO, XVCROOT_RS)).read())
    a = [m.start() for m in re.finditer(r'let\s+gitignore_path\s*=[^;]*"\.gitignore"[^;]*;', code2)]
    if len(a) != 1:
        raise RuntimeError(f'translator anchor gitignore_path found {len(a)} times in {XVCROOT_RS}')
    b = code2.find('GITIGNORE_INITIAL_CONTENT', a[0])
    if b < 0:
        raise RuntimeError(f'translator anchor GITIGNORE_INITIAL_CONTENT after gitignore_path not found in {XVCROOT_RS}')
    b = code2.find(';', b)
    init_sites = sites_of(XVCROOT_RS, code2, a[0], b)
    if not init_sites:
        raise RuntimeError(f'translator: no write site for .gitignore found in {XVCROOT_RS}')
    return sites + init_sites


def lean_kind(s):
    if s['kind'] == 'openOptions':
        b = lambda f: 'true' if s['flags'][f] else 'false'
        return f'.openOptions {b("append")} {b("create")} {b("truncate")} {b("write")} {b("create_new")}'
    return '.' + s['kind']


def render(sites):
    L = ['import XvcIgnore.WritePrim',
         '/-! GENERATED by lib/c16_extract.py from the Rust sources on every run of the C16 check — do not edit.',
         '    Every call in file/src/common/gitignore.rs and at the `.gitignore` site of `xvc init` (core/src/types/xvcroot.rs)',
         '    that creates, truncates, replaces, shortens or deletes a file.  `openOptions append create truncate write createNew`. -/',
         'namespace Ign.Gen', 'open Ign.Git', '',
         'def GITIGNORE_WRITE_SITES : List WriteSite := [']
    L += [f'  ⟨{lean_string(s["file"])}, {lean_string(s["fn"])}, {lean_kind(s)}⟩' + (',' if i < len(sites) - 1 else '')
          for i, s in enumerate(sites)]
    L += [']', '', 'end Ign.Gen']
    return '\n'.join(L) + '\n'


COMMON_RS = 'file/src/common/mod.rs'
PARENT_CREATED = ['if let Some(parent) = xvc_path.parents().first()', 'if !parent_dir.exists()']


def fn_body(code, name, rel):
    """(start, end) of the body of `fn name`, braces matched"""
    m = re.search(r'\bfn\s+' + name + r'\s*\(', code)
    if not m:
        raise RuntimeError(f'translator anchor fn {name} not found in {rel}')
    # the first `{` after the signature: skip the parameter list and the return type
    depth_par, j = 1, m.end()
    while depth_par:
        depth_par += {'(': 1, ')': -1}.get(code[j], 0); j += 1
    i = code.index('{', j)
    depth, k = 0, i
    while True:
        depth += {'{': 1, '}': -1}.get(code[k], 0)
        if depth == 0: return i + 1, k
        k += 1


def dest_absent_header(before, header):
    """is `header` an `if` on "nothing was at the destination"?  `if !P.exists()` or `if !v` with `let v = P.exists();`
    earlier in the function, where P is bound by `let P = xvc_path.to_absolute_path(…)` (the destination in the workspace);
    anything else (`||`, `&&`, another path) is not recognised and the site counts as `other` (= sends nothing known)"""
    dests = set(re.findall(r'\blet\s+(\w+)\s*=\s*xvc_path\s*\.\s*to_absolute_path\s*\(', before))
    m = re.fullmatch(r'if\s*!\s*(\w+)\s*\.\s*exists\s*\(\s*\)', header)
    if m:
        return m.group(1) in dests
    m = re.fullmatch(r'if\s*!\s*(\w+)', header)
    if not m:
        return False
    binds = re.findall(r'\blet\s+(?:mut\s+)?' + m.group(1) + r'\s*=\s*([^;]*);', before)
    if len(binds) != 1 or re.search(r'\b' + m.group(1) + r'\s*(?:=[^=]|\|=|&=)', before.replace('let ' + m.group(1), '', 1)):
        return False
    e = re.fullmatch(r'(\w+)\s*\.\s*exists\s*\(\s*\)', binds[0].strip())
    return bool(e) and e.group(1) in dests


def extract_ignore_sends():
    """every `<ignore sender>.send(…)` of recheck_from_cache: (kind, guard, enclosing block headers, line)"""
    code = strip_comments(open(os.path.join(REPO, COMMON_RS)).read())
    a, b = fn_body(code, 'recheck_from_cache', COMMON_RS)
    sig = code[code.rfind('fn recheck_from_cache', 0, a):a]
    pm = re.search(r'(\w+)\s*:\s*&\s*Sender<IgnoreOp>', sig)
    if not pm:
        raise RuntimeError(f'translator: recheck_from_cache has no `&Sender<IgnoreOp>` parameter in {COMMON_RS}')
    body = code[a:b]
    sites = []
    for m in re.finditer(r'\b' + pm.group(1) + r'\s*\.\s*send\s*\(', body):
        depth, k = 1, m.end()
        while depth:
            depth += {'(': 1, ')': -1}.get(body[k], 0); k += 1
        arg = ' '.join(body[m.end():k - 1].split())
        lit = re.match(r'Some\(\s*IgnoreOperation::(IgnoreDir|IgnoreFile)\b', arg)
        kind = {'IgnoreDir': 'ignoreDir', 'IgnoreFile': 'ignoreFile'}[lit.group(1)] if lit else 'computed'
        # enclosing blocks: headers of the `{` that are open at the site
        stack, hdr_start = [], 0
        for i, ch in enumerate(body[:m.start()]):
            if ch == '{':
                stack.append(' '.join(body[hdr_start:i].split())); hdr_start = i + 1
            elif ch == '}':
                if stack: stack.pop()
                hdr_start = i + 1
            elif ch == ';':
                hdr_start = i + 1
        guard = ('always' if not stack else 'parentCreated' if stack == PARENT_CREATED
                 else 'destAbsent' if len(stack) == 1 and dest_absent_header(body[:m.start()], stack[0]) else 'other')
        sites.append({'kind': kind, 'guard': guard, 'enclosing': stack, 'argument': arg[:80], 'line': code.count('\n', 0, a + m.start()) + 1})
    if not sites:
        raise RuntimeError(f'translator: no `{pm.group(1)}.send(` in recheck_from_cache ({COMMON_RS})')
    return sites


def extract_handler_filter():
    """how `make_ignore_handler` (file/src/common/gitignore.rs) treats the queued files between the call of
    update_dir_gitignores and the call of update_file_gitignores:
      none                  nothing between the two calls touches the file list or the rules
      reloadCheck           the rules variable passed to update_file_gitignores is bound again by `let V = build_gitignore(…)`
      startsWithComponents  the file list is filtered (`retain` / `filter`) with `.starts_with(` (path components)
      startsWithStr         the same with `.starts_with_str(` or a test on `as_str()` / `to_string()` text
      other                 anything else (nothing is known: counts as "no file line is written")"""
    code = strip_comments(open(os.path.join(REPO, GITIGNORE_RS)).read())
    a, b = fn_body(code, 'make_ignore_handler', GITIGNORE_RS)
    body = code[a:b]
    d = [m for m in re.finditer(r'\bupdate_dir_gitignores\s*\(', body)]
    f = [m for m in re.finditer(r'\bupdate_file_gitignores\s*\(([^;]*?)\)\s*,', body)]
    if len(d) != 1 or len(f) != 1 or d[0].start() > f[0].start():
        raise RuntimeError(f'translator: make_ignore_handler does not call update_dir_gitignores once and then update_file_gitignores once ({GITIGNORE_RS})')
    args = [x.strip() for x in f[0].group(1).split(',')]
    # from the end of the statement that holds the first call to the start of the statement that holds the second (`uwr!(call, …);`)
    between = body[body.index(';', d[0].end()) + 1:body.rfind(';', 0, f[0].start()) + 1]
    info = {'file_args': args, 'line': code.count('\n', 0, a + f[0].start()) + 1}
    if len(args) != 3 or not re.fullmatch(r'&\w+', args[1]) or not re.fullmatch(r'&\w+', args[2]):
        return dict(info, filter='other', why='arguments of update_file_gitignores are not (&root, &rules, &files)')
    rules, files = args[1][1:], args[2][1:]
    stmts = [' '.join(x.split()) for x in between.split(';') if x.strip()]
    # statements that cannot change the rules or the list: logging macros
    stmts = [x for x in stmts if not re.match(r'(debug|info|trace|warn)!\s*\(', x)]
    info['between'] = [x[:160] for x in stmts]
    touches_files = [x for x in stmts if re.search(r'\b' + files + r'\b', x)]
    rebinds = [x for x in stmts if re.match(r'let\s+(mut\s+)?' + rules + r'\s*=', x)]
    rest = [x for x in stmts if x not in touches_files and x not in rebinds]
    if rest:
        return dict(info, filter='other', why='statement not recognised: ' + rest[0][:80])
    if not touches_files and not rebinds:
        return dict(info, filter='none')
    if rebinds and not touches_files:
        ok = len(rebinds) == 1 and re.fullmatch(r'let\s+' + rules + r'\s*=\s*build_gitignore\s*\(\s*&\w+\s*\)\s*(\.unwrap\(\)|\?)', rebinds[0])
        return dict(info, filter='reloadCheck' if ok else 'other', why='' if ok else 'the rules are bound to something else than build_gitignore(&root)')
    if touches_files and not rebinds and len(touches_files) == 1:
        x = touches_files[0]
        if re.match(files + r'\s*\.\s*retain\s*\(', x) or re.match(r'let\s+' + files + r'\b.*\.filter\s*\(', x):
            if re.search(r'\.\s*starts_with_str\s*\(|as_str\s*\(\s*\)\s*\.\s*starts_with\s*\(|to_string\s*\(\s*\)\s*\.\s*starts_with\s*\(', x):
                return dict(info, filter='startsWithStr')
            if re.search(r'\.\s*starts_with\s*\(', x):
                return dict(info, filter='startsWithComponents')
    return dict(info, filter='other', why='the file list is changed in a way that is not recognised')


def render_ignore_sends(sites, hfilter='reloadCheck'):
    L = ['import XvcIgnore.IgnoreOps',
         '/-! GENERATED by lib/c16_extract.py from `recheck_from_cache` in file/src/common/mod.rs on every run of the C16 check — do not edit.',
         '    Every `ignore_writer.send(…)` of the function: which `IgnoreOperation` it sends and under which enclosing condition. -/',
         'namespace Ign.Gen', 'open Ign.Git', '', 'def RECHECK_IGNORE_SENDS : List SendSite := [']
    L += [f'  ⟨.{s["kind"]}, .{s["guard"]}⟩' + (',' if i < len(sites) - 1 else '') for i, s in enumerate(sites)]
    L += [']', '',
          '/-- how `make_ignore_handler` filters the queued files between `update_dir_gitignores` and `update_file_gitignores` -/',
          f'def HANDLER_FILE_FILTER : FileFilter := .{hfilter}', '', 'end Ign.Gen']
    return '\n'.join(L) + '\n'


HASHALG_RS = 'core/src/types/hashalgorithm.rs'


def extract_hash_algorithms():
    """[(variant, strum to_string, strum serialize)] of `pub enum HashAlgorithm`"""
    code = strip_comments(open(os.path.join(REPO, HASHALG_RS)).read())
    m = re.search(r'pub\s+enum\s+HashAlgorithm\s*\{(.*?)\n\}', code, re.S)
    if not m:
        raise RuntimeError(f'translator anchor `pub enum HashAlgorithm` not found in {HASHALG_RS}')
    body = m.group(1)
    variants = re.findall(r'^\s*([A-Z][A-Za-z0-9_]*)\s*,', body, re.M)
    annotated = re.findall(r'#\[strum\(\s*to_string\s*=\s*"([^"]*)"\s*,\s*serialize\s*=\s*"([^"]*)"\s*\)\]\s*([A-Z][A-Za-z0-9_]*)\s*,', body)
    if not variants or [v for _, _, v in annotated] != variants:
        raise RuntimeError(f'translator: variants {variants} of HashAlgorithm do not all carry #[strum(to_string = …, serialize = …)] in {HASHALG_RS}')
    return [(v, t, z) for t, z, v in annotated]


def render_hash_algorithms(algs):
    L = ['/-! GENERATED by lib/c16_extract.py from core/src/types/hashalgorithm.rs on every run of the C16 check — do not edit. -/',
         'namespace Ign.Gen', '',
         '/-- the variants of `pub enum HashAlgorithm`: (variant, strum `to_string` = cache directory, strum `serialize` = configuration value) -/',
         'def HASH_ALGORITHMS : List (String × String × String) := [']
    L += [f'  ({lean_string(v)}, {lean_string(t)}, {lean_string(z)})' + (',' if i < len(algs) - 1 else '') for i, (v, t, z) in enumerate(algs)]
    L += [']', '', 'end Ign.Gen']
    return '\n'.join(L) + '\n'


def run(chk=None):
    sends = extract_ignore_sends()
    spath = os.path.join(LEAN_DIR, 'XvcIgnore', 'XvcIgnore', 'Gen', 'IgnoreSends.lean')
    hf = extract_handler_filter()
    schanged = write_if_changed(spath, render_ignore_sends(sends, hf['filter']))
    if chk is not None:
        chk.extra['translator_handler_filter'] = hf
        chk.extra['translator_ignore_sends'] = {'generated': os.path.relpath(spath, os.path.dirname(LEAN_DIR)), 'changed': schanged, 'send_sites': sends}
    algs = extract_hash_algorithms()
    apath = os.path.join(LEAN_DIR, 'XvcIgnore', 'XvcIgnore', 'Gen', 'HashAlgorithms.lean')
    achanged = write_if_changed(apath, render_hash_algorithms(algs))
    if chk is not None:
        chk.extra['translator_hash_algorithms'] = {'generated': os.path.relpath(apath, os.path.dirname(LEAN_DIR)), 'changed': achanged, 'variants': algs}
    sites = extract()
    text = render(sites)
    path = os.path.join(LEAN_DIR, 'XvcIgnore', 'XvcIgnore', 'Gen', 'GitignoreWrites.lean')
    changed = write_if_changed(path, text)
    info = {'generated': os.path.relpath(path, os.path.dirname(LEAN_DIR)), 'changed': changed,
            'sha1': hashlib.sha1(text.encode()).hexdigest(), 'write_sites': sites}
    if chk is not None:
        chk.extra['translator_write_sites'] = info
    return sites, info


if __name__ == '__main__':
    print(json.dumps(run()[1], indent=1))
