"""`xvc file remove --only-version V` (C04, C05): what the user types, what it names, and what the binary did.

V is, by the command's documentation, a prefix of the content digest written `123-456-789abcd`, dashes optional, which
must designate one version.  This module
  * spells prefixes in every documented form (length 0..12, 27, 28 and all 64 digits; dashes at the documented positions,
    only the first one, or none; lower / upper case)                                                      -> spell()
  * keeps a table of small contents whose digest BEGINS WITH A GIVEN PAIR OF HEX DIGITS - in particular with the
    identifier of a hash algorithm ("b3", "b2" are hex digits) - together with contents whose digest begins with the
    characters that FOLLOW (A = b3cf16.., B2 = cf.., B1 = c..) and one that begins with neither.  The table is committed
    (lib/digest_prefix_table.json) and every entry is recomputed with the independent hashers of lib/hashref.py on every
    run                                                                                                     -> load_table()
  * prepares a `remove --only-version` command of a history for execution: the string as typed, and the hex spelling
    of every recorded version of the targets (read from the event files), which the Lean driver needs because the
    model's hashes have no spelling (driver command `removepfx`, XvcRepo/OnlyVersion.lean)                  -> prepare()
  * is the model-independent oracle: an object that `remove --only-version V` deleted is a recorded version of a target
    whose digest starts with V (dashes and case ignored: the most liberal reading), and when V names two different
    versions nothing is deleted                                                                             -> oracle()
  * compares the string-level selection of the Lean model (driver command `onlyver`) with what the binary deleted,
    for every such command that ran in any stream of the check                                              -> Collector
"""
import json, os, random, subprocess
import hashref

HERE = os.path.dirname(os.path.abspath(__file__))
TABLE_FILE = os.path.join(HERE, 'digest_prefix_table.json')
ALGOS = hashref.ALGOS
IDENTS = ['b3', 'b2', 'a0', '5e']           # two identifiers that are hex digits (b3 BLAKE3, b2 BLAKE2s; a0 = AsIs) and a neutral pair
LENGTHS = [0, 1, 1, 2, 2, 3, 3, 4, 4, 5, 6, 7, 8, 9, 10, 11, 12, 12, 27, 28, 64]


# ------------------------------------------------------------------------------------------------ spelling

def spell(hex64, form):
    """the prefix of `hex64` as a user may type it: form = {'len': n, 'dash': 'none'|'all'|'first', 'upper': bool}"""
    s = hex64[:form.get('len', 12)]
    dash = form.get('dash', 'none')
    if dash != 'none':
        cuts = [3, 6] if dash == 'all' else [3]
        parts, prev = [], 0
        for c in cuts:
            if len(s) > c:
                parts.append(s[prev:c]); prev = c
        parts.append(s[prev:])
        s = '-'.join(parts)
    return s.upper() if form.get('upper') else s


def random_form(rng, lengths=LENGTHS):
    return {'len': rng.choice(lengths), 'dash': rng.choice(['none', 'none', 'all', 'all', 'first']), 'upper': rng.random() < 0.12}


def derived_form(history_so_far, c):
    """a form for a generated command that does not draw from the history generator's own random stream"""
    return random_form(random.Random(f"form-{len(history_so_far)}-{c.get('only_version')}-{c.get('targets')}"))


def normal(arg):
    """most liberal reading of what the user typed: dashes dropped, case folded"""
    return arg.replace('-', '').lower()


# ------------------------------------------------------------------------------------------------ table

def _content(k):
    return f'model-weights-{k}'.encode()


def build_table():
    """deterministic search (contents `model-weights-<k>`, k = 0, 1, ..): ~10 000 hashes, well under a second"""
    out = []
    for algo in ALGOS:
        digs = []

        def dig(k):
            while len(digs) <= k:
                digs.append(hashref.digest(algo, _content(len(digs))))
            return digs[k]

        def first(pred, skip=()):
            k = 0
            while True:
                if k not in skip and pred(dig(k)):
                    return k
                k += 1
        for ident in IDENTS:
            a = first(lambda d: d.startswith(ident))
            rest = dig(a)[2:]
            b2 = first(lambda d: d.startswith(rest[:2]), skip=(a,))
            b1 = first(lambda d: d.startswith(rest[:1]) and not d.startswith(rest[:2]), skip=(a, b2))
            c = first(lambda d: d[0] not in (ident[0], rest[0]), skip=(a, b1, b2))
            out.append({'algo': algo, 'ident': ident,
                        **{name: {'content': _content(k).decode(), 'digest': dig(k)} for name, k in (('A', a), ('B2', b2), ('B1', b1), ('C', c))}})
    return out


def verify_table(tab):
    """every digest recomputed with lib/hashref.py; the prefix relations the histories rely on"""
    for g in tab:
        for name in ('A', 'B2', 'B1', 'C'):
            e = g[name]
            if hashref.digest(g['algo'], e['content'].encode()) != e['digest']:
                raise ValueError(f"digest_prefix_table: {g['algo']} digest of {e['content']!r} is not {e['digest']}")
            if any(ch in e['content'] for ch in '\r\n\0'):
                raise ValueError('digest_prefix_table: contents must be one line of text without line ending')
        a, rest = g['A']['digest'], g['A']['digest'][2:]
        ok = a.startswith(g['ident']) and g['B2']['digest'].startswith(rest[:2]) and g['B1']['digest'].startswith(rest[:1]) and \
            not g['B1']['digest'].startswith(rest[:2]) and g['C']['digest'][0] not in (g['ident'][0], rest[0]) and \
            len({g[n]['content'] for n in ('A', 'B2', 'B1', 'C')}) == 4
        if not ok:
            raise ValueError(f"digest_prefix_table: prefix relations of group {g['algo']}/{g['ident']} do not hold")
    if {(g['algo'], g['ident']) for g in tab} != {(a, i) for a in ALGOS for i in IDENTS}:
        raise ValueError('digest_prefix_table: groups missing')
    return tab


def load_table():
    try:
        return verify_table(json.load(open(TABLE_FILE)))
    except (OSError, ValueError, KeyError, TypeError):
        return verify_table(build_table())           # the committed table is a cache of this search, never trusted


# ------------------------------------------------------------------------------------------------ histories

def W(p, b): return {'op': 'write', 'path': p, 'bytes': b, 'cname': b.decode('ascii', 'replace')}


def fixed_histories():
    """The same for every seed: for BLAKE3 and BLAKE2s, a path whose versions are A (digest begins with the identifier of
    the algorithm in use), B (begins with the characters that follow) and C; A is named by identifier + 2 characters
    (`b3cf`), the same with the documented dashes (`b3c-f`), and identifier + 1 character (`b3c`)."""
    tab = load_table()
    out = []
    for g in [x for x in tab if x['ident'] == hashref.PREFIX[x['algo']]]:
        cfg = {'algo': ALGOS.index(g['algo']), 'method': 'copy', 'tob': 'auto'}
        ct = lambda n: g[n]['content'].encode()
        for names, k, form in ((['A', 'B2', 'C'], 0, {'len': 4, 'dash': 'none'}), (['B2', 'A'], 1, {'len': 4, 'dash': 'all'}), (['A', 'B1', 'C'], 0, {'len': 3, 'dash': 'none'})):
            h = [W('data.bin', ct(names[0])), {'op': 'track', 'targets': ['data.bin']}]
            for n in names[1:]:
                h += [W('data.bin', ct(n)), {'op': 'carryin', 'targets': ['data.bin']}]
            h.append({'op': 'remove', 'targets': ['data.bin'], 'only_version': ['data.bin', k], 'only_form': dict(form, upper=False), 'force': False})
            out.append((f"onlyver-fixed-{g['algo']}-{'.'.join(names)}-{spell(g['A']['digest'], form)}", cfg, h))
    return out


def table_histories(seed, n, tag='c04'):
    """Histories over the table: a path gets the versions A (digest starts with `ident`), B (starts with the characters
    that follow `ident` in A's digest) and C, in any order and with any of them current; a second path may share one of
    them.  Then `remove --from-cache --only-version <prefix of one version, in some form>`; every other version must stay
    restorable.  The prefix lengths are chosen around the places where the selection could go wrong: the identifier
    alone, identifier + 1, + 2 ... characters, with the dash falling inside or after the identifier."""
    rng = random.Random(f'onlyver-{tag}-{seed}')
    tab = load_table()
    own = [g for g in tab if g['ident'] == hashref.PREFIX[g['algo']]]
    out = fixed_histories()
    for i in range(n):
        # every second history: a group whose digests begin with the identifier of the algorithm IN USE (BLAKE3/b3, BLAKE2s/b2)
        g = own[(i // 2 + seed) % len(own)] if i % 2 == 0 else tab[(i // 2 + seed) % len(tab)]
        algo = ALGOS.index(g['algo'])
        e = rng.choice(['bin', 'bin', 'txt', ''])
        nm = lambda s: s + ('.' + e if e else '')
        p, q = nm('data'), nm('d/other')
        cfg = {'algo': algo, 'method': rng.choice(['copy', 'copy', 'hardlink', 'symlink']), 'tob': rng.choice(['auto', 'auto', 'binary'])}
        par = lambda: {'no_parallel': rng.random() < 0.5}
        names = ['A', rng.choice(['B2', 'B2', 'B1']), 'C']
        rng.shuffle(names)
        if rng.random() < 0.25: names = names[:2] if 'A' in names[:2] else ['A'] + names[:1]
        vers = [g[x]['content'].encode() for x in names]
        h = [W(p, vers[0])]
        share = rng.random() < 0.35
        if share:
            h.append(W(q, g[rng.choice(['A', 'B2', 'C'])]['content'].encode()))
        h.append({'op': 'track', 'targets': [p, q] if share else [p], **par()})
        for v in vers[1:]:
            h += [W(p, v), {'op': 'carryin', 'targets': [p], **par()}]
        ka = names.index('A')
        kind = rng.random()
        if kind < 0.7:
            k = ka                                   # the version whose digest begins with the identifier is named
            form = {'len': rng.choice([2, 3, 3, 4, 4, 4, 5, 6, 8, 12, 27]), 'dash': rng.choice(['none', 'none', 'all', 'first']), 'upper': False}
        elif kind < 0.82:
            k = rng.randrange(len(names))            # any version, any form
            form = random_form(rng)
        else:
            k = rng.randrange(len(names))
            form = {'len': rng.choice([0, 1, 1, 2]), 'dash': 'none', 'upper': False}      # short: often ambiguous
        tg = [p, q] if share and rng.random() < 0.4 else [p]
        h.append({'op': 'remove', 'targets': tg, 'only_version': [p, k], 'only_form': form, 'force': rng.random() < 0.15})
        if rng.random() < 0.3:
            k2 = rng.randrange(len(names))
            h.append({'op': 'remove', 'targets': [p], 'only_version': [p, k2], 'only_form': random_form(rng, [4, 6, 8, 12, 27, 64]), 'force': False})
        out.append((f"onlyver-{g['algo']}-{g['ident']}-{'.'.join(names)}-v{k}-len{form['len']}{form['dash'][0]}-{i}", cfg, h))
    return out


# ------------------------------------------------------------------------------------------------ execution

def _hex(d):
    return ''.join(f'{b:02x}' for b in d['digest'])


def prepare(c, cfg, pre):
    """called by repo_harness.Runner.exec_cmd before a `remove --only-version`: the argument as typed (`_only_arg`), the
    same without dashes (`_only_hex`, what the older oracle clause in repo_check.o5_removal looks at), the algorithm
    identifier of the cache and the spelling of every recorded version of the targets (`_only_table`)."""
    bp, bk = c['only_version']
    hist = pre.recs.get(bp, {}).get('hist', [])
    if c.get('only_literal') is not None:
        arg = c['only_literal']
    else:
        # an index out of range gives a string that designates nothing
        arg = spell(_hex(hist[bk]), c.get('only_form') or {'len': 12}) if bk < len(hist) else 'ffffffffffff'
    c['_only_arg'] = arg
    c['_only_hex'] = arg.replace('-', '')
    c['_only_ident'] = hashref.PREFIX[ALGOS[cfg['algo']]]
    tab, seen = [], set()
    for t in c['targets']:
        r = pre.recs.get(t)
        if not r or t in seen: continue
        seen.add(t)
        for k, d in enumerate(r['hist']):
            tab.append((t, k, _hex(d)))
    c['_only_table'] = tab


def model_line(c):
    """`removepfx <identifier> <string as typed> <force> <n> (<path> <version index> <hex digest>)*n <targets>`"""
    tab = c['_only_table']
    return '\t'.join(['removepfx', c['_only_ident'], c['_only_arg'], '1' if c.get('force') else '0', str(len(tab))] +
                     [str(x) for t in tab for x in t] + c['targets'])


def parse_model_line(t):
    """inverse of model_line for replays: the string is replayed as it was typed (contents, and so digests, are the same)"""
    n = int(t[4])
    trip = t[5:5 + 3 * n]
    return {'op': 'remove', 'all_versions': False, 'force': t[3] == '1', 'targets': t[5 + 3 * n:],
            'only_version': [trip[0], int(trip[1])] if trip else ['?', 0], 'only_literal': t[2]}


# ------------------------------------------------------------------------------------------------ oracle

def named_addrs(c, pre):
    """cache addresses of the (target, version) pairs whose digest starts with what the user typed (liberal reading)"""
    from repo_check import rec_addr
    v = normal(c['_only_arg'])
    out = {}
    for t, k, hx in c['_only_table']:
        if hx.startswith(v):
            r = pre.recs[t]
            out.setdefault(rec_addr(r, t, r['hist'][k]), []).append((t, k))
    return out


def oracle(steps, cfg, history, collect=None):
    """C04/C05: `remove --only-version V` deletes nothing but a version V names; an ambiguous V deletes nothing"""
    from repo_harness import show_cmd
    out = []
    for st in steps:
        c, pre, post = st['cmd'], st['pre'], st['post']
        if c['op'] != 'remove' or not c.get('only_version') or c.get('_only_table') is None or pre is None or post is None:
            continue
        named = named_addrs(c, pre)
        deleted = [rel for rel in pre.cache if rel not in post.cache]
        if collect is not None:
            collect.add(st, cfg, named, deleted)
        for rel in deleted:
            if rel not in named:
                out.append((f"step {st['i']} {show_cmd(c)} (exit {st['rc']}): deleted object {rel}; the digest of this version does not start with "
                            f"'{normal(c['_only_arg'])}' (recorded versions of the targets: {', '.join(f'{t}#{k}={hx[:12]}..' for t, k, hx in c['_only_table'])})",
                            {'kind': 'only-version-deleted-unnamed'}))
        if len(named) > 1 and deleted:
            out.append((f"step {st['i']} {show_cmd(c)} (exit {st['rc']}): '{c['_only_arg']}' names {len(named)} different versions "
                        f"({', '.join(sorted(named))}), the command must refuse, but it deleted {deleted}", {'kind': 'only-version-ambiguous-deleted'}))
    return out


class Collector:
    """every `remove --only-version` command that ran, for the string-level tie with the Lean driver (`onlyver`)"""
    def __init__(self):
        self.obs = []

    def add(self, st, cfg, named, deleted):
        from repo_check import rec_addr
        c, pre = st['cmd'], st['pre']
        if st['rc'] not in (0, 1):
            return
        targets = set(c['targets'])
        needed = set()
        for q, r in pre.recs.items():
            if q in targets: continue
            for d in r['hist']:
                needed.add(rec_addr(r, q, d))
        addrs = [rec_addr(pre.recs[t], t, pre.recs[t]['hist'][k]) for t, k, hx in c['_only_table']]
        self.obs.append({'ident': c['_only_ident'], 'arg': c['_only_arg'], 'hexes': [hx for _, _, hx in c['_only_table']], 'addrs': addrs,
                         'in_cache': [a in pre.cache for a in addrs], 'spared': [a in needed and not c.get('force') for a in addrs],
                         'deleted': sorted(deleted), 'rc': st['rc'], 'refused': 'not unique' in (st.get('err') or ''),
                         'cmd': f"xvc file remove --from-cache --only-version '{c['_only_arg']}'{' --force' if c.get('force') else ''} {' '.join(c['targets'])}"})

    def tie(self, chk, model_bin):
        """`onlyver` answers of the driver against the observations"""
        st = chk.tie['streams'].setdefault('only-version-selection (string level)', {'commands': 0, 'disagreements': 0, 'named-nothing': 0, 'named-one': 0,
                                                                                     'ambiguous': 0, 'distinct_strings': 0})
        if not self.obs or not os.path.exists(model_bin):
            return
        lines = ['\t'.join(['onlyver', o['ident'], o['arg']] + o['hexes']) for o in self.obs]
        p = subprocess.run([model_bin], input='\n'.join(lines) + '\n', stdout=subprocess.PIPE, text=True, timeout=600)
        answers = p.stdout.split('\n')
        st['distinct_strings'] = len({(o['arg'], tuple(o['hexes'])) for o in self.obs})
        for o, line, ans in zip(self.obs, lines, answers):
            st['commands'] += 1
            want_deleted, want_refused = [], False
            if 'verdict=ambiguous' in ans:
                want_refused = True; st['ambiguous'] += 1
            elif 'verdict=one:' in ans:
                i = int(ans.split('verdict=one:')[1])
                st['named-one'] += 1
                if o['in_cache'][i] and not o['spared'][i]:
                    want_deleted = [o['addrs'][i]]
            elif 'verdict=nothing' in ans:
                st['named-nothing'] += 1
            else:
                want_refused = None
            chk.count(f"only-version:len={len(normal(o['arg']))}:{'dashes' if '-' in o['arg'] else 'plain'}:{'upper' if o['arg'] != o['arg'].lower() else 'lower'}:"
                      f"{ans.split('verdict=')[-1].split(':')[0]}")
            d = None
            if want_refused is None:
                d = f'driver answer not understood: {ans!r}'
            elif sorted(want_deleted) != o['deleted']:
                d = f"deleted by the implementation: {o['deleted']}; by the model's selection: {want_deleted}"
            elif want_refused != (o['rc'] == 1 and not o['deleted']) and (want_refused or o['refused']):
                d = f"refusal: implementation rc={o['rc']} ('not unique' reported: {o['refused']}), model {'refuses' if want_refused else 'goes ahead'}"
            if d:
                st['disagreements'] += 1
                chk.disagreement('only-version-selection', {'command': o['cmd'], 'recorded_versions_of_targets': o['hexes'], 'driver_line': line[:400]},
                                 f"rc={o['rc']} deleted={o['deleted']}", ans, d)


if __name__ == '__main__':
    import sys
    if sys.argv[1:] == ['--build']:
        json.dump(build_table(), open(TABLE_FILE, 'w'), indent=1)
        print('written', TABLE_FILE)
    for g in load_table():
        print(g['algo'], g['ident'], *(f"{n}={g[n]['content']}:{g[n]['digest'][:8]}" for n in ('A', 'B2', 'B1', 'C')))
