"""Binary-level harness for the repository model (C01-C05, C17, C19; DESIGN.md 4 "the repository model").

A *history* is a list of commands (dicts).  `Runner.run_history` replays it on a scratch repository with the
freshly built xvc binary, one process per command, and after every command records
  * the canonical abstraction of the real repository (compared with the Lean driver `repomodel`), and
  * raw observations (bytes, inodes, mode bits, records replayed from the JSON event files by an independent
    replayer) on which the model-independent oracles O1..O7 are evaluated.
"""
import os, json, stat, shutil, subprocess, random, hashlib
from concurrent.futures import ThreadPoolExecutor
import hashref
from xvcbin import Sandbox

ALGOS = hashref.ALGOS
METHODS = ['copy', 'symlink', 'hardlink', 'reflink']
TOBS = ['auto', 'text', 'binary']
STORE_METHOD = {'Copy': 'copy', 'Symlink': 'symlink', 'Hardlink': 'hardlink', 'Reflink': 'reflink'}
STORE_TOB = {'Auto': 'auto', 'Text': 'text', 'Binary': 'binary'}
PREFIX_IDX = {'b3': 0, 'b2': 1, 's2': 2, 's3': 3}


def fp(b: bytes) -> str:
    acc = 0
    for i, x in enumerate(b):
        acc = (acc + (i + 1) * (x + 1)) % 1000000007
    return f'{len(b)}.{acc}'


def ext_of(path: str) -> str:
    f = path.split('/')[-1]
    parts = f.split('.')
    if len(parts) >= 2:
        if f.startswith('.') and len(parts) == 2:
            return ''
        return parts[-1]
    return ''


# ------------------------------------------------------------------------------------------------ contents

IO_BUF = 8192          # buffer size of std::io::copy / BufReader: the unit in which a streaming reader sees a file


def line_ending_run(rng, tail=b''):
    """A text with a LONG RUN OF LINE ENDINGS in the middle: a prefix without line endings of 0 / a few / IO_BUF-1 / IO_BUF /
    IO_BUF+1 / 2*IO_BUF / any number of bytes, then 1..3 buffers' worth of LF / CR LF / CR / a random mixture (exactly one
    buffer, one byte less or more, just under two buffers - the shortest run that contains a whole buffer wherever it starts -
    two, about two and a half, three), then `tail`.  Whole read buffers of such a file hold nothing but line endings, at
    aligned and unaligned offsets (seeded change C02-5: a chunk-wise text digest took such a buffer for the end of the file)."""
    pre = rng.choice([0, 6, IO_BUF - 1, IO_BUF, IO_BUF + 1, 2 * IO_BUF, rng.randint(1, 3 * IO_BUF)])
    unit = rng.choice([b'\n', b'\n', b'\r\n', b'\r', None])
    n = rng.choice([IO_BUF - 1, IO_BUF, IO_BUF + 1, 2 * IO_BUF - 1, 2 * IO_BUF, 20000, 3 * IO_BUF])
    run = (unit * (n // len(unit) + 1))[:n] if unit else bytes(rng.choice(b'\r\n') for _ in range(n))
    return bytes(rng.choice(b'abcdefgh ,;') for _ in range(pre)) + run + tail


# Pairs of bytes (or short byte strings of equal length) that a reader which "normalises text" could fold together although the
# documented text digest keeps them apart (it drops CR and LF and NOTHING else, and alters no byte): bytes that are not valid
# UTF-8 (Latin-1 letters, lone continuation bytes, 0xFE/0xFF, a truncated or overlong sequence), valid UTF-8 that differs in one
# continuation byte, precomposed vs other letter, control bytes, blanks, the other "line break" characters (VT, FF, NEL, U+2028/9),
# a byte-order mark, upper/lower case.  Never CR, LF or NUL: the line structure and the text/binary class are the same.
FOLDABLE = [(b'\xe9', b'\xe8'), (b'\xe9', b'\xe8'), (b'\xfc', b'\xf6'), (b'\x80', b'\xbf'), (b'\xff', b'\xfe'), (b'\xc3', b'\xc4'),
            (b'\xc0\x80', b'\xc0\x81'), (b'\xed\xa0\x80', b'\xed\xa0\x81'), (b'\xf5', b'\xf8'),
            (b'\xc3\xa9', b'\xc3\xa8'), (b'\xe2\x80\xa8', b'\xe2\x80\xa9'), (b'\xc2\x85', b'\xc2\xa0'), (b'\x01', b'\x02'), (b'\t', b' '),
            (b'\x0b', b'\x0c'), (b'\x1a', b'\x1b'), (b'\xef\xbb\xbf', b'\xef\xbb\xbe'), (b'A', b'a'), (b'\x7f', b'\x08')]


def near_duplicate_pair(rng, tag=b''):
    """Two texts (no NUL: hashed as text under `auto`) with the SAME line structure (LF / CR LF / mixed / none) that differ only
    in 1-3 places by a pair of FOLDABLE: at the start, inside a line, right before a line ending, as the last byte."""
    x, y = rng.choice(FOLDABLE)
    eol = rng.choice([b'\n', b'\r\n', b'\n', b'\r', b''])
    words = [b'caf', b' cr', b'me br', b'l', b'e na', b've', b' d', b'j', b' vu']
    k = rng.randint(1, 3)
    spots = set(rng.sample(range(len(words)), k))
    if rng.random() < 0.3: spots.add(len(words) - 1)
    a = b = tag
    for i, w in enumerate(words):
        a += w + (x if i in spots else x); b += w + (y if i in spots else x)
        if i % 3 == 2: a += eol; b += eol
    if rng.random() < 0.3: a, b = x + a, y + b
    return a, b


def content_pool(rng):
    """content classes of the property's quantifier; all pairwise distinct after CR/LF stripping"""
    big_text = (b'line %d\n' * 1 % 7) + bytes(rng.choice(b'abcdefgh') for _ in range(8100))
    pool = {
        'empty': b'',
        'lf1': b'l1\nl2\n', 'lf2': b'alpha\nbeta\ngamma\n', 'lf3': b'x\n', 'lf4': b'one two\nthree\n',
        'crlf': b'c1\r\nc2\r\n', 'mixed': b'm1\r\nm2\nm3\rm4',
        'bin1': b'\x00\x01\x02\n\r\xff', 'bin2': b'BIN\x00\n\n\x00tail', 'bin3': b'\x89PNG\r\n\x1a\n\x00\x00',
        'nul8000': b'A' * 8000 + b'\x00\nB\r\n',          # first NUL after byte 8000: auto = text
        'nul7999': b'A' * 7999 + b'\x00\nB\r\n',          # NUL inside the probe: auto = binary
        'bigtext': big_text,
        'utf8': 'çğü\nαβγ\n'.encode(),
        # long runs of line endings (seeded change C02-5: a chunked text digest took an all-CR/LF chunk for end of file): two texts
        # with the same prefix before the run, and a run aligned to the 8 KiB buffer of io::copy
        'lfrun-a': b'header' + b'\n' * 20000 + b'total,A', 'lfrun-b': b'header' + b'\n' * 20000 + b'total,B',
        'crlf-aligned': b'a' * 8192 + b'\r\n' * 4096 + b'tail',
    }
    # the same, as a dimension: prefix length x kind of line ending x run length; two texts that differ only AFTER the run
    base = line_ending_run(rng)
    pool['lerun-a'], pool['lerun-b'] = base + b'total,A', base + b'total,B'
    # text that is NOT valid UTF-8 / near-duplicates (drawn from their own generator: the classes above are what they were)
    r3 = random.Random(rng.random())
    pool['latin1'] = 'déjà vu, crème brûlée\nnaïve\r\n'.encode('latin-1')
    pool['neardup-a'], pool['neardup-b'] = near_duplicate_pair(r3)
    return pool


PATHS = ['a.txt', 'b.txt', 'd/c.txt', 'd/e/f.txt', 'noext', 'd/noext2', 'sp ace.txt', 'ünï/dätä.txt', 'g.bin', 'd/h.bin', '.hidden']


# ------------------------------------------------------------------------------------------------ commands

def model_line(c):
    t = c['op']
    o = lambda k: c.get(k) or '-'
    b = lambda k: '1' if c.get(k) else '0'
    if c.get('cache_blocked') and not c.get('_unblockable'):
        # I/O fault: nothing can be moved to the cache addresses of the current contents of the listed paths
        bl = list(c['cache_blocked'])
        return '\t'.join(['blocked', str(len(bl))] + bl + [model_line({k: v for k, v in c.items() if k != 'cache_blocked'})])
    if t == 'write': return '\t'.join(['writess' if c.get('same_second') else 'write', c['path'], c['bytes'].hex()])
    if t == 'emptydir': return '\t'.join(['emptydir', c['path']])
    if t == 'delete': return '\t'.join(['delete', c['path']])
    if t == 'relink': return '\t'.join(['relink', c['path'], c['kind'], str(c.get('n', 0))])
    if t == 'track': return '\t'.join(['track', o('method'), o('tob'), b('no_commit'), b('force')] + c['targets'])
    if t == 'carryin': return '\t'.join(['carryin', o('tob'), b('force')] + c['targets'])
    if t == 'recheck': return '\t'.join(['recheck', o('method'), b('force')] + c['targets'])
    if t == 'link':
        import c05
        return c05.link_model_line(c)
    if t == 'remove' and c.get('only_version') and c.get('_only_table') is not None:
        import onlyver
        return onlyver.model_line(c)          # `removepfx`: the selection is made on the string the user typed
    if t == 'remove':
        sel = f"only:{c['only_version'][0]}:{c['only_version'][1]}" if c.get('only_version') else b('all_versions')
        return '\t'.join(['remove', sel, b('force')] + c['targets'])
    if t == 'untrack':
        if c.get('restore_versions'):
            bl = c.get('block') or []
            return '\t'.join(['untrackr', str(len(bl))] + [str(x) for b in bl for x in b] + c['targets'])
        return '\t'.join(['untrack'] + c['targets'])
    if t == 'copy': return '\t'.join(['copy', o('method'), b('no_recheck'), b('force'), c['src'], c['dst']])
    if t == 'move': return '\t'.join(['move', o('method'), b('no_recheck'), c['src'], c['dst']])
    raise ValueError(t)


def xvc_args(c):
    t = c['op']
    a = []
    if t == 'track':
        a = ['file', 'track']
        if c.get('method'): a += ['--recheck-method', c['method']]
        if c.get('tob'): a += ['--text-or-binary', c['tob']]
        if c.get('no_commit'): a.append('--no-commit')
        if c.get('force'): a.append('--force')
        if c.get('no_parallel'): a.append('--no-parallel')
        return a + c['targets']
    if t == 'carryin':
        a = ['file', 'carry-in']
        if c.get('tob'): a += ['--text-or-binary', c['tob']]
        if c.get('force'): a.append('--force')
        if c.get('no_parallel'): a.append('--no-parallel')
        return a + c['targets']
    if t == 'recheck':
        a = ['file', 'recheck']
        if c.get('method'): a += ['--recheck-method', c['method']]
        if c.get('force'): a.append('--force')
        if c.get('no_parallel'): a.append('--no-parallel')
        return a + c['targets']
    if t == 'remove':
        a = ['file', 'remove', '--from-cache']
        if c.get('all_versions'): a.append('--all-versions')
        if c.get('only_version'): a += ['--only-version', c.get('_only_arg', c.get('_only_hex', 'ffffffffffff'))]
        if c.get('force'): a.append('--force')
        return a + c['targets']
    if t == 'untrack':
        a = ['file', 'untrack']
        if c.get('restore_versions'): a += ['--restore-versions', c['restore_versions']]
        return a + c['targets']
    if t in ('copy', 'move'):
        a = ['file', t]
        if c.get('method'): a += ['--recheck-method', c['method']]
        if c.get('no_recheck'): a.append('--no-recheck')
        if c.get('force') and t == 'copy': a.append('--force')
        return a + [c['src'], c['dst']]
    raise ValueError(t)


def show_cmd(c):
    if c['op'] == 'write':
        return f"write {c['path']} <{c.get('cname', fp(c['bytes']))}>" + \
            ('   [same size as before, mtime in the same second as the recorded one, other nanoseconds]' if c.get('same_second') else '')
    if c['op'] == 'emptydir':
        return f"mkdir -p .xvc/<algorithm>/<digest of the bytes at {c['path']}, split 3/3/58>/   [an EMPTY digest directory]"
    if c['op'] == 'delete':
        return f"delete {c['path']}"
    if c['op'] == 'relink':
        return {'relative': f"ln -sfn \"$(realpath --relative-to=\"$(dirname {c['path']})\" \"$(readlink -f {c['path']})\")\" {c['path']}   [the same link, written relative]",
                'alias': f"ln -sfn \"$(readlink {c['path']} | sed \"s|^$PWD|$PWD-alias|\")\" {c['path']}   [the same link through a second name of the repository directory: ln -s repo ../repo-alias]",
                'chain': f"ln -s \"$(readlink {c['path']})\" ../outside/hop-{c.get('n', 0)}; ln -sfn ../outside/hop-{c.get('n', 0)} {c['path']}   [a link to a link to the same object]",
                'dotted': f"ln -sfn \"$PWD/./$(realpath --relative-to=. \"$(readlink -f {c['path']})\")\" {c['path']}   [the same absolute link with a /./ component]",
                }[c['kind']]
    try:
        if c.get('cache_blocked'):
            return 'xvc ' + ' '.join(xvc_args(c)) + f"   [a non-directory in the way of the cache address of the bytes at {c['cache_blocked']}: the move into the cache fails]"
        return 'xvc ' + ' '.join(xvc_args(c))
    except ValueError:
        return f"xvc file {c['op']} " + ' '.join(c.get('targets', []))


# ------------------------------------------------------------------------------------------------ observation

class Obs:
    """raw observation of a real repository after one command"""
    def __init__(self, sb: Sandbox):
        self.cache = sb.cache_objects()          # rel addr -> {bytes, mode, dirmode, ino, kind}
        ino2addrs = {}
        for k, v in self.cache.items():
            ino2addrs.setdefault(v['ino'], []).append(k)
        self.ws = {}
        for rel, k in sb.workspace_files().items():
            base = rel.split('/')[-1]
            if base in ('.gitignore', '.xvcignore'):
                continue
            if k['kind'] == 'symlink':
                # what the link RESOLVES to (a link is its meaning, not its spelling): the directory part is resolved through
                # every intermediate link, the last component too if it is a link itself; a dangling link still names its address
                tgt = k['target']
                xd = sb.path('.xvc') + '/'
                full = tgt if os.path.isabs(tgt) else os.path.join(os.path.dirname(sb.path(rel)), tgt)
                if not full.startswith(xd) or '/./' in full or '/../' in full:
                    full, xd = os.path.realpath(full), os.path.realpath(sb.path('.xvc')) + '/'
                    k['respelled'] = True
                k['addr'] = full[len(xd):] if full.startswith(xd) else None
            elif k['kind'] == 'file':
                k['addrs'] = sorted(ino2addrs.get(k['ino'], []))
                k['addr'] = k['addrs'][0] if k['addrs'] else None
            self.ws[rel] = k
        paths = sb.store_map('xvc-path')
        metas = sb.store_map('xvc-metadata')
        digs = sb.store_history('content-digest')
        cur = sb.store_map('content-digest')
        meth = sb.store_map('recheck-method')
        tob = sb.store_map('file-text-or-binary')
        self.recs = {}
        self.corrupt = [ev for st in ('xvc-path', 'xvc-metadata', 'content-digest', 'recheck-method', 'file-text-or-binary')
                        for ev in sb.store_events(st) if 'Corrupt' in ev]
        for e, p in paths.items():
            md = metas.get(e)
            if not md or md.get('file_type') != 'File':
                continue
            self.recs[p] = {'entity': e, 'cur': cur.get(e), 'hist': digs.get(e, []), 'method': STORE_METHOD.get(meth.get(e)),
                            'tob': STORE_TOB.get(tob.get(e))}
            # one inode can carry several cache names (a hard-linked file re-committed under another digest):
            # a workspace hard link is reported as the link of its path's recorded object when that is one of them
            k = self.ws.get(p)
            if k and k.get('kind') == 'file' and len(k.get('addrs', [])) > 1 and cur.get(e):
                d = cur[e]
                from xvcbin import cache_rel
                want = cache_rel(d['algorithm'], ''.join(f'{b:02x}' for b in d['digest']), ext_of(p))
                if want in k['addrs']:
                    k['addr'] = want


def addr_parts(rel):
    """'b3/abc/def/<58>/0.txt' -> (prefix, hex64, ext)"""
    parts = rel.split('/')
    f = parts[-1]
    return parts[0], ''.join(parts[1:4]), (f[2:] if f.startswith('0.') else '')


class Table:
    """digest hex -> fingerprint of the hashed byte string, built with hashers independent of xvc"""
    def __init__(self):
        self.t = {}
        self.known = set()

    def add(self, b: bytes):
        if b in self.known:
            return
        self.known.add(b)
        for v in (b, hashref.strip_crlf(b)):
            for i, a in enumerate(ALGOS):
                self.t[(i, hashref.digest(a, v))] = fp(v)

    def digest_token(self, algo_idx, hexd):
        return f"{algo_idx}:{self.t.get((algo_idx, hexd), 'unknown-' + hexd[:8])}"


def dig_token(table, d):
    if d is None:
        return '-'
    hexd = ''.join(f'{b:02x}' for b in d['digest'])
    return table.digest_token(ALGOS.index(d['algorithm']), hexd)


def abstraction(obs: Obs, table: Table) -> str:
    def addr_token(rel):
        if rel is None:
            return '?'
        pfx, hexd, ext = addr_parts(rel)
        return f"{table.digest_token(PREFIX_IDX.get(pfx, 9), hexd)}:{ext}"
    ws = []
    for p, k in obs.ws.items():
        if k['kind'] == 'symlink':
            ws.append(f"{p}=sym:{addr_token(k['addr'])}")
        elif k['kind'] == 'file':
            ws.append(f"{p}=file:{fp(k['bytes'])}:{'w' if k['writable'] else 'r'}:{addr_token(k['addr']) if k['addr'] else '-'}")
    cache = []
    for rel, o in obs.cache.items():
        body = fp(o['bytes']) if o['bytes'] is not None else o['kind']
        cache.append(f"{addr_token(rel)}={body}:{'rw' if o['mode'] & 0o222 else 'ro'}:{'drw' if o['dirmode'] & 0o222 else 'dro'}")
    recs = []
    for p, r in obs.recs.items():
        recs.append(f"{p}={dig_token(table, r['cur'])}:[{','.join(dig_token(table, d) for d in r['hist'])}]:{r['method']}:{r['tob']}")
    return f"ws={{{';'.join(sorted(ws))}}} cache={{{';'.join(sorted(cache))}}} rec={{{';'.join(sorted(recs))}}}"


# ------------------------------------------------------------------------------------------------ runner

def restore_name(path, rel_addr):
    """file name `untrack --restore-versions` gives version `rel_addr` of `path` (relative to the restore directory):
    <parent>/<stem>-<first 15 characters of the cache path, '/' -> '-'>.<extension>"""
    parent, base = os.path.split(path)
    stem, ext = os.path.splitext(base)
    return os.path.join(parent, f"{stem}-{rel_addr[:15].replace('/', '-')}.{ext[1:]}")


def restore_items(pre):
    """[(path, version index, digest, cache rel path)] for every recorded version of every tracked path"""
    from xvcbin import cache_rel
    out = []
    for p, r in pre.recs.items():
        for k, d in enumerate(r['hist']):
            out.append((p, k, d, cache_rel(d['algorithm'], ''.join(f'{b:02x}' for b in d['digest']), ext_of(p))))
    return out


def digest_dirs(sb, cfg, rel):
    """digest directories (relative to .xvc) of the bytes now readable at `rel` under the configured algorithm: for the
    bytes as they are and for the bytes without CR/LF (whichever way xvc decides to hash the file)"""
    try:
        with open(sb.path(rel), 'rb') as f:
            b = f.read()
    except OSError:
        return []
    a = ALGOS[cfg['algo']]
    out = []
    for v in (b, hashref.strip_crlf(b)):
        hx = hashref.digest(a, v)
        d = f'{hashref.PREFIX[a]}/{hx[:3]}/{hx[3:6]}/{hx[6:]}'
        if d not in out:
            out.append(d)
    return out


def block_cache(sb, cfg, paths):
    """put an empty regular file at the first missing component of every digest directory of the bytes at `paths`;
    returns (files made, whether every digest directory is blocked)"""
    made, ok = [], True
    for rel in paths:
        for d in digest_dirs(sb, cfg, rel):
            cur, done = sb.path('.xvc'), False
            for comp in d.split('/'):
                cur = os.path.join(cur, comp)
                if os.path.isdir(cur):
                    continue
                if not os.path.lexists(cur):
                    open(cur, 'w').close(); made.append(cur)
                done = True
                break
            ok = ok and done
    if not ok:
        for f in made: os.unlink(f)
        made = []
    return made, ok


def relink(sb, c):
    """The USER re-spells the symbolic link at `path` without changing what it resolves to: relative instead of absolute,
    through a second name of the repository directory (`<repo>-alias -> <repo>`), through an intermediate link outside the
    repository, or with a `/./` component.  Anything that is not a symbolic link is left alone (no-op)."""
    p = sb.path(c['path'])
    if not os.path.islink(p):
        return 0, '', 'not a symbolic link: left alone'
    old = os.readlink(p)
    absold = old if os.path.isabs(old) else os.path.join(os.path.dirname(p), old)
    k = c['kind']
    if k == 'relative':
        new = os.path.relpath(os.path.realpath(os.path.dirname(absold)), os.path.realpath(os.path.dirname(p))) + '/' + os.path.basename(absold)
    elif k == 'alias':
        alias = sb.root + '-alias'
        if not os.path.lexists(alias):
            os.symlink(os.path.basename(sb.root), alias)
        new = alias + absold[len(sb.root):] if absold.startswith(sb.root + '/') else absold
    elif k == 'chain':
        hop = os.path.join(sb.base, 'outside', f"hop-{c.get('n', 0)}")
        os.makedirs(os.path.dirname(hop), exist_ok=True)
        if os.path.lexists(hop): os.unlink(hop)
        os.symlink(absold, hop)
        new = os.path.relpath(hop, os.path.dirname(p))
    else:
        new = sb.root + '/.' + absold[len(sb.root):] if absold.startswith(sb.root + '/') else absold
    os.unlink(p)
    os.symlink(new, p)
    return 0, '', ''


def recorded_mtime_ns(sb, pre, rel):
    """modification time xvc has on record for the path (xvc-metadata store), else the one the file has now, else None"""
    try:
        e = pre.recs[rel]['entity'] if pre is not None and rel in pre.recs else None
        md = sb.store_map('xvc-metadata').get(e) if e else None
        if md and md.get('modified'):
            return md['modified']['secs_since_epoch'] * 10 ** 9 + md['modified']['nanos_since_epoch']
        return os.stat(sb.path(rel)).st_mtime_ns
    except (OSError, KeyError, TypeError):
        return None


class Runner:
    def __init__(self, chk, xvc, model_bin):
        self.chk, self.xvc, self.model_bin = chk, xvc, model_bin
        self.n = 0

    def cfg_args(self, cfg):
        return ['-c', f"cache.algorithm={hashref.CONFIG_NAME[ALGOS[cfg['algo']]]}", '-c', f"file.recheck.method={cfg['method']}",
                '-c', f"file.track.text_or_binary={cfg['tob']}"]

    def new_sandbox(self, name):
        sb = Sandbox(os.path.join(self.chk.scratch, 'repos'), name, self.xvc)
        sb.init()
        return sb

    def exec_cmd(self, sb, cfg, c, pre=None):
        if c['op'] == 'untrack' and c.get('restore_versions') and c.get('block') and pre is not None:
            # fault injection for the copy of single versions: a directory sits at the destination name
            rdir = os.path.normpath(os.path.join(sb.root, c['restore_versions']))
            items = restore_items(pre)
            for bp, bk in c['block']:
                for p, k, d, rel in items:
                    if p == bp and k == bk:
                        try:
                            os.makedirs(os.path.join(rdir, restore_name(p, rel)), exist_ok=True)
                        except OSError:
                            pass              # e.g. ENAMETOOLONG: the copy fails for the same reason
        if c['op'] == 'remove' and c.get('only_version') and pre is not None:
            # --only-version takes a prefix of the version's digest: the k-th recorded version of the named path
            # (an index out of range gives a prefix that designates nothing)
            bp, bk = c['only_version']
            hist = pre.recs.get(bp, {}).get('hist', [])
            c['_only_hex'] = ''.join(f'{x:02x}' for x in hist[bk]['digest'])[:12] if bk < len(hist) else 'ffffffffffff'
            # the string as the user types it (length, dashes, case: `only_form`) and the spelling of every recorded version
            # of the targets for the string-level model of the selection (lib/onlyver.py, XvcRepo/OnlyVersion.lean)
            import onlyver
            onlyver.prepare(c, cfg, pre)
        if c['op'] == 'link':
            import c05
            return c05.exec_link(sb, c)
        if c['op'] == 'relink':
            return relink(sb, c)
        if c['op'] == 'write':
            old_ns = recorded_mtime_ns(sb, pre, c['path']) if c.get('same_second') else None
            sb.write(c['path'], c['bytes'])
            if cfg.get('umask') is not None: os.chmod(sb.path(c['path']), 0o666 & ~cfg['umask'])
            if old_ns is not None:
                # the edit lands in the same whole second as the modification time xvc has on record (other nanoseconds):
                # tools that compare sizes and whole seconds call the file unchanged.  For the model it is an edit like
                # any other (a new stamp).  `restamp` leaves pinned times alone.
                pinned = sb.__dict__.setdefault('pinned', set())
                sec, ns = divmod(old_ns, 10 ** 9)
                t = sec * 10 ** 9 + (ns + 400_000_000 + 1000 * (len(pinned) + 1)) % 10 ** 9
                os.utime(sb.path(c['path']), ns=(t, t))
                pinned.add(t)
            return 0, '', ''
        if c['op'] == 'emptydir':
            # state left behind by a command that failed or was killed between mkdir and rename: the digest directory of the
            # bytes now at the path exists and is empty.  An empty directory is not an object.
            for d in digest_dirs(sb, cfg, c['path']):
                os.makedirs(sb.path('.xvc/' + d), exist_ok=True)
            return 0, '', ''
        if c['op'] == 'delete':
            p = sb.path(c['path'])
            if os.path.lexists(p): os.unlink(p)
            return 0, '', ''
        if c.get('cache_blocked'):
            # I/O fault at the move into the cache: an empty regular file sits where a directory of the cache address of the
            # bytes now at the listed paths would be created (ENOTDIR from create_dir_all, also for root)
            made, ok = block_cache(sb, cfg, c['cache_blocked'])
            if not ok:
                c['_unblockable'] = True          # the digest directory exists already: this fault cannot be staged
            try:
                return sb.x(*(self.cfg_args(cfg) + xvc_args(c)))
            finally:
                for f in made:
                    if os.path.isfile(f) and os.path.getsize(f) == 0: os.unlink(f)
        if c.get('tmp_blocked'):
            # a regular file sits where xvc keeps the temporary entries of its workspace copies (.xvc/tmp): every copy out of
            # the cache fails in this command (the paths listed are the ones the history expects to be copied)
            import shutil
            t = sb.path('.xvc/tmp')
            if os.path.isdir(t): shutil.rmtree(t)
            open(t, 'w').close()
            try:
                return sb.x(*(self.cfg_args(cfg) + xvc_args(c)))
            finally:
                if os.path.isfile(t): os.unlink(t)
        if c.get('fsize_limit'):
            # every write beyond the limit fails with EFBIG (SIGXFSZ ignored): like a full disk or a quota
            import shlex
            argv = [self.xvc] + self.cfg_args(cfg) + xvc_args(c)
            return sb.run(['bash', '-c', f"trap '' XFSZ; ulimit -f {int(c['fsize_limit'])}; exec " + ' '.join(shlex.quote(a) for a in argv)])
        return sb.x(*(self.cfg_args(cfg) + xvc_args(c)))

    @staticmethod
    def restamp(sb, state):
        """The model gives every user write and every independent copy made by xvc a fresh modification stamp.  Kernel
        timestamps only advance with the timer tick (files created within ~4 ms share an mtime), so the harness assigns
        explicit, strictly increasing mtimes to every independent regular workspace file it has not stamped yet
        (hard links share the inode - and the mtime - of their cache object and are left alone)."""
        for dp, dn, fn in os.walk(sb.root):
            dn[:] = [d for d in dn if d not in ('.xvc', '.git')]
            for f in fn:
                if f in ('.gitignore', '.xvcignore'):
                    continue
                p = os.path.join(dp, f)
                try:
                    st = os.lstat(p)
                except OSError:
                    continue
                if not stat.S_ISREG(st.st_mode) or st.st_nlink != 1:
                    continue
                if st.st_mtime_ns in state['mine'] or st.st_mtime_ns in sb.__dict__.get('pinned', ()):
                    continue
                state['k'] += 1
                t = (1_600_000_000 + state['k']) * 1_000_000_000
                os.utime(p, ns=(t, t))
                state['mine'].add(t)

    def run_history(self, name, cfg, history, hooks=None, keep=False, stop_at_panic=True):
        """returns list of steps: dict(cmd, rc, err, pre: Obs, post: Obs, abs: str)"""
        sb = self.new_sandbox(name)
        sb.umask = cfg.get('umask')          # every xvc process of this history runs under the user's umask
        table = Table()
        steps = []
        stamps = {'k': 0, 'mine': set()}
        pre = Obs(sb)
        for i, c in enumerate(history):
            if c['op'] == 'write' and not c.get('no_table'):
                table.add(c['bytes'])
            rc, out, err = self.exec_cmd(sb, cfg, c, pre)
            self.restamp(sb, stamps)
            post = Obs(sb)
            st = {'i': i, 'cmd': c, 'rc': rc, 'out': out[-400:], 'err': err[-600:], 'pre': pre, 'post': post, 'abs': abstraction(post, table)}
            if c['op'] == 'untrack' and c.get('restore_versions'):
                # what was written out: {(path, version index): bytes}; anything else under the directory by its name
                rdir = os.path.normpath(os.path.join(sb.root, c['restore_versions']))
                names = {}
                for p, k, d, rel in restore_items(pre):
                    names.setdefault(restore_name(p, rel), []).append((p, k, d))      # a version committed twice has one name
                written, toks = {}, set()
                for dp, dn, fn in os.walk(rdir):
                    for f in fn:
                        rel = os.path.relpath(os.path.join(dp, f), rdir)
                        with open(os.path.join(dp, f), 'rb') as fh:
                            b = fh.read()
                        if rel in names:
                            for p, k, d in names[rel]:
                                written[(p, k)] = b
                                toks.add(f"{p}@{dig_token(table, d)}={fp(b)}")
                        else:
                            toks.add(f"?{rel}={fp(b)}")
                st['restored'] = written
                st['abs'] += f" restored={{{';'.join(sorted(toks))}}}"
            steps.append(st)
            if hooks:
                for h in hooks:
                    h(sb, cfg, history, steps, table)
            pre = post
            if rc not in (0, 1) and stop_at_panic:          # panic / signal / timeout: the compared history ends here
                break
        if keep:
            return steps, sb, table
        sb.cleanup()
        return steps

    def model_answers(self, items):
        """items: list of (cfg, history); returns list of list of answer lines (one per command)"""
        lines = []
        for cfg, h in items:
            lines.append('\t'.join(['cfg', str(cfg['algo']), cfg['method'], cfg['tob']]))
            lines += [model_line(c) for c in h]
            lines.append('reset')
        p = subprocess.run([self.model_bin], input='\n'.join(lines) + '\n', stdout=subprocess.PIPE, text=True, timeout=3000)
        out = p.stdout.split('\n')
        res, k = [], 0
        for cfg, h in items:
            k += 1
            res.append(out[k:k + len(h)]); k += len(h) + 1
        return res

    def run_many(self, items, hooks_factory=None, workers=16):
        """items: list of (name, cfg, history). returns list of steps-lists"""
        def one(it):
            name, cfg, h = it
            try:
                return self.run_history(name, cfg, h, hooks_factory() if hooks_factory else None)
            except Exception as ex:      # harness failure is reported, never swallowed
                return [{'i': -1, 'cmd': {'op': 'harness-error'}, 'rc': -1, 'err': repr(ex), 'abs': 'harness-error', 'pre': None, 'post': None, 'out': ''}]
        with ThreadPoolExecutor(max_workers=workers) as ex:
            return list(ex.map(one, items))


def split_abs(s):
    """'rc=ok ws={..} cache={..} rec={..}' -> dict of sets"""
    out = {}
    for key in ('ws', 'cache', 'rec', 'restored'):
        i = s.find(key + '={')
        if i < 0:
            out[key] = None; continue
        j = i + len(key) + 2
        depth, k = 1, j
        while k < len(s) and depth:
            if s[k] == '{': depth += 1
            elif s[k] == '}': depth -= 1
            k += 1
        body = s[j:k - 1]
        out[key] = sorted({x for x in body.split(';') if x})
    m = s.split(' ')[0]
    out['rc'] = m[3:] if m.startswith('rc=') else None
    return out


def compare_step(step, model_line_out):
    """returns None or a description of the first difference between implementation and model"""
    a = split_abs(step['abs']); m = split_abs(model_line_out)
    real_panic = step['rc'] not in (0, 1)
    if real_panic != (m['rc'] == 'panic'):
        return f"exit class: implementation rc={step['rc']} model rc={m['rc']}"
    if real_panic:
        return None            # after a panic the partially written state is not compared
    for key in ('rec', 'cache', 'ws', 'restored'):
        if a[key] != m[key]:
            if a[key] is None or m[key] is None:
                return f'{key}: implementation {a[key]} model {m[key]}'
            da = [x for x in a[key] if x not in m[key]]; dm = [x for x in m[key] if x not in a[key]]
            return f'{key}: implementation-only {da} model-only {dm}'
    return None


# ------------------------------------------------------------------------------------------------ generator

def gen_history(rng, profile='main', maxlen=12):
    """structured, mostly valid histories inside the fragment where no known finding applies"""
    pool = content_pool(rng)
    names = list(pool)
    # Hard links and text_or_binary overrides stay apart: when the digest of a hard-linked path changes with the mode, the link's
    # inode is renamed onto the new cache address, so two cache paths share one inode: harmless since the repair F23, but the model
    # has no inode aliasing between cache objects (CORPUS F23).  Symlinks combine with everything since the repair F31 (a link is
    # dereferenced when it is carried; formerly known finding K10).
    use_hardlink = rng.random() < 0.4
    METHODS = ['copy', 'symlink', 'hardlink', 'reflink'] if use_hardlink else ['copy', 'symlink', 'reflink']
    TOBS = [None] if use_hardlink else ['auto', 'text', 'binary']
    cfg = {'algo': rng.choice([0, 0, 0, 1, 2, 3]), 'method': rng.choice(['copy', 'copy'] + METHODS[1:]),
           'tob': rng.choice(['auto', 'auto', 'auto', 'text', 'binary']),
           # the user's umask: mode of the files the user writes (0666 & ~umask) and umask of every xvc process; the model has no
           # modes beyond read-only/writable, the abstraction reports ANY write bit of a cache object (seeded change C17-4)
           'umask': rng.choice([0o022] * 5 + [0o002, 0o000, 0o077, 0o027])}
    paths = rng.sample(PATHS, rng.randint(2, 5))
    h = []
    on_disk, tracked, method_of = {}, set(), {}
    used_stripped = {}

    def fresh_content(p):
        # avoid two contents equal after CR/LF stripping in one history (K1 region, exercised by its own replay)
        for _ in range(20):
            n = rng.choice(names)
            b = pool[n]
            if rng.random() < 0.3:
                b = b + bytes(f'#{rng.randint(0, 99)}', 'ascii')
            sk = hashref.strip_crlf(b)
            if used_stripped.get(sk, b) == b:
                used_stripped[sk] = b
                return n, b
        return 'uniq', bytes(f'uniq{rng.random()}', 'ascii')

    def write(p, dup_of=None):
        if dup_of is not None and dup_of in on_disk:
            n, b = 'dup', on_disk[dup_of]
        else:
            n, b = fresh_content(p)
        h.append({'op': 'write', 'path': p, 'bytes': b, 'cname': n}); on_disk[p] = b

    for p in paths[:rng.randint(1, len(paths))]:
        write(p, dup_of=rng.choice(paths) if rng.random() < 0.25 else None)
    n = rng.randint(3, maxlen)
    while len(h) < n:
        r = rng.random()
        p = rng.choice(paths)
        ts = rng.sample(paths, rng.randint(1, min(3, len(paths))))
        optm = rng.choice([None, None] + METHODS)
        if r < 0.16:
            write(p, dup_of=rng.choice(paths) if rng.random() < 0.3 else None)
        elif r < 0.20:
            if p in on_disk:
                h.append({'op': 'delete', 'path': p}); on_disk.pop(p)
        elif r < 0.42:
            c = {'op': 'track', 'targets': ts, 'method': optm, 'tob': rng.choice([None, None, None] + TOBS),
                 'no_commit': rng.random() < 0.08, 'no_parallel': rng.random() < 0.5}
            h.append(c)
            for t in ts:
                if t in on_disk:
                    tracked.add(t)
        elif r < 0.56:
            tt = [t for t in ts if t in on_disk] or ts     # carry-in on a deleted file panics (assertion): rare stream below
            if rng.random() < 0.05: tt = ts
            h.append({'op': 'carryin', 'targets': tt, 'tob': rng.choice([None, None, None] + TOBS),
                      # (--force on a hard-linked path re-commits the SAME inode: the model follows it with St.hardLinkOf)
                      'force': rng.random() < 0.15, 'no_parallel': rng.random() < 0.5})
            if h[-1]['force'] and len(tt) > 1:
                # A PARALLEL forced re-commit of several targets that share one cache object races in the unchanged code (each thread
                # removes the object and moves its own file there; the other's recheck then finds nothing: panic with NotFound at
                # file/src/carry_in/mod.rs, about 1 run in 8; no bytes are lost).  Proposed finding, see notes/reports/round5-repoA.md;
                # the compared histories use the serial variant.
                h[-1]['no_parallel'] = True
        elif r < 0.74:
            h.append({'op': 'recheck', 'targets': ts, 'method': optm, 'force': rng.random() < 0.25, 'no_parallel': rng.random() < 0.5})
        elif r < 0.80:
            c = {'op': 'remove', 'targets': ts[:2], 'all_versions': rng.random() < 0.4, 'force': rng.random() < 0.15}
            if rng.random() < 0.3:
                c['all_versions'] = False
                c['only_version'] = [rng.choice(ts[:2]), rng.choice([0, 0, 1, 2])]
                import onlyver
                c['only_form'] = onlyver.derived_form(h, c)      # how the prefix is typed; does not draw from `rng`
            h.append(c)
        elif r < 0.85:
            tt = [t for t in ts if t in tracked][:2]
            if tt:
                c = {'op': 'untrack', 'targets': tt}
                if rng.random() < 0.5:
                    # --restore-versions into a fresh directory outside the repository; sometimes the copy of one
                    # version is made to fail (a directory sits at its destination name)
                    c['restore_versions'] = f'../restored-{len(h)}'
                    if rng.random() < 0.35:
                        c['block'] = [[rng.choice(tt), rng.choice([0, 0, 1, 2])]]
                h.append(c)
                if not c.get('block'):
                    for t in tt: tracked.discard(t)
        elif r < 0.93 and tracked:
            src = rng.choice(sorted(tracked))
            e = ext_of(src)
            cands = [q for q in PATHS if ext_of(q) == e and q != src]     # same extension: K2 excluded
            if cands:
                dst = rng.choice(cands)
                h.append({'op': 'copy', 'src': src, 'dst': dst, 'method': optm, 'no_recheck': rng.random() < 0.15, 'force': rng.random() < 0.2})
                if dst not in paths: paths.append(dst)
                tracked.add(dst)
        elif tracked:
            src = rng.choice(sorted(tracked))
            e = ext_of(src)
            cands = [q for q in PATHS if ext_of(q) == e and q != src]
            if cands and src in on_disk:          # absent source with copy->copy is K9: excluded
                dst = rng.choice(cands)
                h.append({'op': 'move', 'src': src, 'dst': dst, 'method': optm, 'no_recheck': rng.random() < 0.15})
                if dst not in paths: paths.append(dst)
                tracked.discard(src); tracked.add(dst)
                on_disk[dst] = on_disk.pop(src)
    add_motifs(cfg, h, paths, METHODS)
    return cfg, h


def same_size_variant(b):
    """other bytes of the same length: one letter or digit replaced by another one (CR, LF and NUL bytes stay where they
    are, so the text/binary class and the line structure are the same)"""
    for i in range(len(b) - 1, -1, -1):
        x = b[i]
        if 48 <= x <= 57 or 65 <= x <= 90 or 97 <= x <= 122:
            y = {57: 48, 90: 65, 122: 97}.get(x, x + 1)
            return b[:i] + bytes([y]) + b[i + 1:]
    return None


def add_motifs(cfg, h, paths, methods):
    """State x option combinations that the uniform draw above meets too rarely, appended to the generated history.  The
    choices come from a generator seeded by the history itself, so the main stream of histories is what it would be without
    them.  Every motif starts from a fresh, unique content, so it needs nothing from the state the history has reached.
      same-second   a tracked file is rewritten with other bytes of the SAME size within the same whole second as the recorded
                    modification time (other nanoseconds), then carry-in [--force] / track / recheck [--force]
      uncached      a tracked file that is in the workspace while its recorded version is NOT in the cache (track --no-commit,
                    remove --from-cache), then recheck with another method / --force
      cross-ext     the same bytes committed under two extensions (shared digest directory), deleted and rechecked
      empty-dir     the digest directory of a content exists and is empty when the content is committed"""
    r2 = random.Random(hashlib.sha1(repr((sorted(cfg.items()), h)).encode()).hexdigest())
    k = [0]

    def content():
        k[0] += 1
        tag = f'motif-{k[0]}-{r2.randrange(10 ** 9)}'
        return r2.choice([f'{tag}\nline two\n', f'{tag}\r\nline two\r\n', f'\x00{tag}\n\x01', f'{tag}', f'{tag}\n' + 'x' * 8100 + '\x00\n']).encode()
    np_ = lambda: r2.random() < 0.5
    optm = lambda: r2.choice([None] + methods)
    if r2.random() < 0.15:
        p = r2.choice(paths)
        X = content()
        h += [{'op': 'write', 'path': p, 'bytes': X, 'cname': 'motif'}, {'op': 'track', 'targets': [p], 'method': optm(), 'no_parallel': np_()}]
        for _ in range(r2.choice([1, 1, 2])):
            X = same_size_variant(X)
            h.append({'op': 'write', 'path': p, 'bytes': X, 'cname': 'same-size', 'same_second': True})
            f = r2.random()
            if f < 0.45: h.append({'op': 'carryin', 'targets': [p], 'force': True, 'no_parallel': np_()})
            elif f < 0.6: h.append({'op': 'carryin', 'targets': [p], 'no_parallel': np_()})
            elif f < 0.75: h.append({'op': 'track', 'targets': [p], 'no_parallel': np_()})
            elif f < 0.9: h.append({'op': 'recheck', 'targets': [p], 'method': optm(), 'no_parallel': np_()})
            else: h.append({'op': 'recheck', 'targets': [p], 'force': True, 'no_parallel': np_()})
    if r2.random() < 0.15:
        p = r2.choice(paths)
        h.append({'op': 'write', 'path': p, 'bytes': content(), 'cname': 'motif'})
        if r2.random() < 0.5:
            h.append({'op': 'track', 'targets': [p], 'method': optm(), 'no_commit': True, 'no_parallel': np_()})
        else:
            h += [{'op': 'track', 'targets': [p], 'method': optm(), 'no_parallel': np_()},
                  {'op': 'remove', 'targets': [p], 'all_versions': r2.random() < 0.3}]
        for _ in range(r2.choice([1, 2, 2])):
            if r2.random() < 0.7: h.append({'op': 'recheck', 'targets': [p], 'method': r2.choice(methods), 'no_parallel': np_()})
            else: h.append({'op': 'recheck', 'targets': [p], 'force': True, 'no_parallel': np_()})
    if r2.random() < 0.10:
        p = r2.choice(paths)
        qs = [q for q in PATHS if ext_of(q) != ext_of(p)]
        q = r2.choice(qs)
        X = content()
        h += [{'op': 'write', 'path': p, 'bytes': X, 'cname': 'motif'}, {'op': 'write', 'path': q, 'bytes': X, 'cname': 'dup'}]
        if r2.random() < 0.5:
            h.append({'op': 'track', 'targets': [p, q], 'method': optm(), 'no_parallel': np_()})
        else:
            h += [{'op': 'track', 'targets': [p], 'method': optm(), 'no_parallel': np_()}, {'op': 'track', 'targets': [q], 'method': optm(), 'no_parallel': np_()}]
        h += [{'op': 'delete', 'path': q}, {'op': 'delete', 'path': p}, {'op': 'recheck', 'targets': [q, p], 'no_parallel': np_()}]
    if r2.random() < 0.05:
        p = r2.choice(paths)
        h += [{'op': 'write', 'path': p, 'bytes': content(), 'cname': 'motif'}, {'op': 'emptydir', 'path': p},
              {'op': 'track', 'targets': [p], 'method': optm(), 'no_parallel': np_()}, {'op': 'delete', 'path': p}, {'op': 'recheck', 'targets': [p]}]
    method_change_motif(r2, h, paths, methods, content, np_)
    earlier_version_motif(r2, h, paths, methods, content, np_)
    mode_change_motif(r2, cfg, h, paths, methods, np_)
    near_duplicate_motif(r2, h, paths, methods, np_)
    respelled_link_motif(r2, h, paths, methods, content, np_)


def method_change_motif(r2, h, paths, methods, content, np_):
    """method-change  (workspace state of a tracked path) x (recorded method) x (requested method) x (--force): the entry is the
                    committed one / edited / replaced by a file of the user with the same bytes / deleted when
                    `recheck --recheck-method M [--force]` runs; afterwards the entry is deleted and restored by a `recheck`
                    WITHOUT a method (C17: the method last requested is recorded and used by later rechecks), once more after
                    another edit + `recheck --force`"""
    if r2.random() >= 0.14:
        return
    p = r2.choice(paths)
    X = content()
    h += [{'op': 'write', 'path': p, 'bytes': X, 'cname': 'motif'}, {'op': 'track', 'targets': [p], 'method': r2.choice([None] + methods), 'no_parallel': np_()}]
    for _ in range(r2.choice([1, 1, 2])):
        state = r2.choice(['edited', 'edited', 'replaced-same-bytes', 'deleted', 'committed'])
        if state == 'edited': h.append({'op': 'write', 'path': p, 'bytes': content(), 'cname': 'motif-edit'})
        elif state == 'replaced-same-bytes': h.append({'op': 'write', 'path': p, 'bytes': X, 'cname': 'dup'})
        elif state == 'deleted': h.append({'op': 'delete', 'path': p})
        # without --force an edited file is refused (nothing done, nothing recorded); a user file with the committed bytes in the
        # place of a link, recheck with the recorded method and no --force, is the open known finding K17: forced here
        force = state in ('edited', 'replaced-same-bytes') and r2.random() < 0.85 or state in ('deleted', 'committed') and r2.random() < 0.4
        if state == 'replaced-same-bytes': force = True
        h.append({'op': 'recheck', 'targets': [p], 'method': r2.choice(methods), 'force': force, 'no_parallel': np_()})
        h += [{'op': 'delete', 'path': p}, {'op': 'recheck', 'targets': [p], 'no_parallel': np_()}]
    if r2.random() < 0.5:
        h += [{'op': 'write', 'path': p, 'bytes': content(), 'cname': 'motif-edit'}, {'op': 'recheck', 'targets': [p], 'force': True, 'no_parallel': np_()}]


def earlier_version_motif(r2, h, paths, methods, content, np_):
    """earlier-version  two paths of one extension that have had the SAME content X: the second gets it by `xvc file copy` or as a
                    duplicate the user wrote and tracked; then one of them moves on to Y (carry-in / track), so X is the current
                    version of one path and only an EARLIER version of the other.  Then `untrack [--restore-versions]` /
                    `remove [--all-versions]` of one of the two, `recheck --force` of the other, and a last delete + recheck
                    (C04: every version of a path that is still tracked stays in the cache; C05: an object that any recorded
                    version of a path outside the targets refers to is not deleted)"""
    if r2.random() >= 0.12:
        return
    p = r2.choice(paths)
    cands = [q for q in PATHS if ext_of(q) == ext_of(p) and q != p]
    if not cands:
        return
    fresh = [q for q in cands if q not in paths]
    q = r2.choice(fresh or cands)
    X, Y = content(), content()
    m = lambda: r2.choice([None] + methods)
    h += [{'op': 'write', 'path': p, 'bytes': X, 'cname': 'motif'}, {'op': 'track', 'targets': [p], 'method': m(), 'no_parallel': np_()}]
    if r2.random() < 0.5:
        h.append({'op': 'copy', 'src': p, 'dst': q, 'method': m(), 'no_recheck': False, 'force': q in paths})
    else:
        h += [{'op': 'write', 'path': q, 'bytes': X, 'cname': 'dup'}, {'op': 'track', 'targets': [q], 'method': m(), 'no_parallel': np_()}]
    if q not in paths: paths.append(q)
    mover, stayer = (q, p) if r2.random() < 0.65 else (p, q)
    h.append({'op': 'write', 'path': mover, 'bytes': Y, 'cname': 'motif-edit'})
    h.append({'op': 'carryin', 'targets': [mover], 'no_parallel': np_()} if r2.random() < 0.7 else {'op': 'track', 'targets': [mover], 'no_parallel': np_()})
    victim, other = (stayer, mover) if r2.random() < 0.75 else (mover, stayer)
    f = r2.random()
    if f < 0.4: h.append({'op': 'untrack', 'targets': [victim]})
    elif f < 0.55: h.append({'op': 'untrack', 'targets': [victim], 'restore_versions': f'../restored-{len(h)}'})
    elif f < 0.8: h.append({'op': 'remove', 'targets': [victim], 'all_versions': False})
    else: h.append({'op': 'remove', 'targets': [victim], 'all_versions': True})
    h += [{'op': 'recheck', 'targets': [other], 'force': True, 'no_parallel': np_()}, {'op': 'delete', 'path': other}, {'op': 'recheck', 'targets': [other, victim]}]


def mode_change_motif(r2, cfg, h, paths, methods, np_, p_=0.2):
    """mode-change    a path tracked in text-or-binary mode A (by option or by configuration), its content EDITED (the contents
                    contain CR/LF, so the text digest and the raw digest differ; with and without a NUL, so `auto` goes both
                    ways), then `carry-in` / `track` [--force] with `--text-or-binary B`: the new version is addressed by the
                    digest of its bytes under B, the mode the command records (C02; `address-not-under-recorded-mode`).  Controls:
                    no edit in between (mode change alone re-hashes, F24), no option (recorded mode stays).  Then delete + recheck.
                    Not combined with hard links (see gen_history: the model has no inode aliasing between cache objects)."""
    if r2.random() >= p_ or 'hardlink' in methods or cfg.get('method') == 'hardlink':
        return
    p = r2.choice(paths)
    tag = f'mode-{r2.randrange(10 ** 9)}'
    def body(v):
        shape = r2.choice(['crlf', 'lf', 'mixed', 'nul-late', 'nul-early'])
        t = {'crlf': f'{tag} v{v}\r\nrow;2\r\n', 'lf': f'{tag} v{v}\nrow;2\n', 'mixed': f'{tag} v{v}\r\nrow\nend\r',
             'nul-late': f'{tag} v{v}\r\n' + 'x' * 8000 + '\x00\n', 'nul-early': f'{tag} v{v}\r\n\x00\n'}[shape]
        return t.encode()
    modes = [None, 'auto', 'text', 'binary']
    A = r2.choice(modes)
    h += [{'op': 'write', 'path': p, 'bytes': body(1), 'cname': 'mode-v1'},
          {'op': 'track', 'targets': [p], 'method': r2.choice([None] + methods), 'tob': A, 'no_parallel': np_()}]
    for v in range(2, 2 + r2.choice([1, 1, 2])):
        if r2.random() < 0.8:
            h.append({'op': 'write', 'path': p, 'bytes': body(v), 'cname': f'mode-v{v}'})
        B = r2.choice([m for m in modes[1:] if m != A] * 3 + [None])
        f = r2.random()
        if f < 0.6: h.append({'op': 'carryin', 'targets': [p], 'tob': B, 'force': r2.random() < 0.2, 'no_parallel': np_()})
        else: h.append({'op': 'track', 'targets': [p], 'tob': B, 'force': r2.random() < 0.2, 'no_parallel': np_()})
        A = B
    h += [{'op': 'delete', 'path': p}, {'op': 'recheck', 'targets': [p], 'no_parallel': np_()}]


def near_duplicate_motif(r2, h, paths, methods, np_, p_=0.12):
    """near-duplicate two contents hashed as text that differ only in bytes a text-normalising reader could fold together
                    (near_duplicate_pair: invalid UTF-8, control bytes, blanks, other line-break characters ...; same line
                    structure, so no CR/LF collision): on two paths of one extension tracked together or one after the other, or
                    on ONE path edited from one variant to the other and carried in; then delete + recheck of both.  Two contents,
                    two objects, each at the address of its own bytes; each path comes back with its own bytes (C01, C02, C03)."""
    if r2.random() >= p_:
        return
    p = r2.choice(paths)
    cands = [q for q in PATHS if ext_of(q) == ext_of(p) and q != p]
    A, B = near_duplicate_pair(r2, tag=f'nd-{r2.randrange(10 ** 9)} '.encode())
    m = lambda: r2.choice([None] + methods)
    shape = r2.choice(['together', 'one-by-one', 'edit'] if cands else ['edit'])
    if shape == 'edit':
        h += [{'op': 'write', 'path': p, 'bytes': A, 'cname': 'neardup-a'}, {'op': 'track', 'targets': [p], 'method': m(), 'no_parallel': np_()},
              {'op': 'write', 'path': p, 'bytes': B, 'cname': 'neardup-b'},
              r2.choice([{'op': 'carryin', 'targets': [p], 'no_parallel': np_()}, {'op': 'track', 'targets': [p], 'no_parallel': np_()},
                         {'op': 'carryin', 'targets': [p], 'force': True, 'no_parallel': np_()}]),
              {'op': 'delete', 'path': p}, {'op': 'recheck', 'targets': [p], 'no_parallel': np_()}]
        return
    q = r2.choice([c for c in cands if c not in paths] or cands)
    if q not in paths: paths.append(q)
    h += [{'op': 'write', 'path': p, 'bytes': A, 'cname': 'neardup-a'}, {'op': 'write', 'path': q, 'bytes': B, 'cname': 'neardup-b'}]
    if shape == 'together': h.append({'op': 'track', 'targets': [p, q], 'method': m(), 'no_parallel': np_()})
    else: h += [{'op': 'track', 'targets': [p], 'method': m(), 'no_parallel': np_()}, {'op': 'track', 'targets': [q], 'method': m(), 'no_parallel': np_()}]
    h += [{'op': 'delete', 'path': p}, {'op': 'delete', 'path': q}, {'op': 'recheck', 'targets': [q, p], 'no_parallel': np_()}]


RELINK_KINDS = ['relative', 'relative', 'alias', 'chain', 'dotted']


def respelled_link_motif(r2, h, paths, methods, content, np_, p_=0.10):
    """respelled-link a path tracked with the symlink method whose link the USER wrote again with another spelling of the same
                    target (relink: relative, through a second name of the repository directory, through an intermediate link,
                    with a /./ component) - what `cp -a`/rsync into a renamed checkout, `ln -r`, or a moved project directory with
                    a compatibility link leave behind.  It still IS a link to the cached copy.  Then `carry-in --force` /
                    `track --force` / `recheck [--force]` / `untrack` / `remove`, then delete + recheck: the committed version is
                    still in the cache and comes back (C04 `object-lost-by-force`, C01, C05)."""
    if r2.random() >= p_:
        return
    p = r2.choice(paths)
    X = content()
    h += [{'op': 'write', 'path': p, 'bytes': X, 'cname': 'motif'}, {'op': 'track', 'targets': [p], 'method': 'symlink', 'no_parallel': np_()},
          {'op': 'relink', 'path': p, 'kind': r2.choice(RELINK_KINDS), 'n': len(h)}]
    for _ in range(r2.choice([1, 1, 2])):
        f = r2.random()
        if f < 0.45: h.append({'op': 'carryin', 'targets': [p], 'force': True, 'no_parallel': np_()})
        elif f < 0.55: h.append({'op': 'track', 'targets': [p], 'force': True, 'no_parallel': np_()})
        elif f < 0.65: h.append({'op': 'carryin', 'targets': [p], 'no_parallel': np_()})
        elif f < 0.85: h.append({'op': 'recheck', 'targets': [p], 'force': r2.random() < 0.5, 'no_parallel': np_()})
        else: h.append({'op': 'relink', 'path': p, 'kind': r2.choice(RELINK_KINDS), 'n': len(h)})
    h += [{'op': 'delete', 'path': p}, {'op': 'recheck', 'targets': [p], 'no_parallel': np_()}]
