"""Shared helpers of the pipeline-data checks C14 (export/import) and C12 (invalidation).

* `extract_order(repo)`: a deliberately dumb, anchored reader of the Rust sources that yields the
  declaration order of the variants of `XvcDependency`, `XvcOutput`, `XvcParamFormat`,
  `XvcMetricsFormat` and of the fields of every dependency struct.  `derive(Ord)` compares variants by
  declaration index and fields in declaration order, so this is all the harness needs to compute the
  rank a dependency value has among others (the model treats dependencies as an opaque ordered type).
  A missing anchor raises `TieBroken`.
* `Dep` / `Out`: one constructible dependency / output: CLI arguments, the JSON value the CLI is
  expected to store for it before any run, the `derive(Ord)` key.
* `Tokens`: arbitrary strings <-> blank-free tokens of the model driver's line protocol.
* `pmap`: run scenario functions on a thread pool (the work is in subprocesses).
"""
import json, os, re, concurrent.futures


class TieBroken(Exception):
    pass


def _read(repo, rel):
    p = os.path.join(repo, rel)
    try:
        return open(p, encoding='utf-8').read()
    except OSError as e:
        raise TieBroken(f'cannot read {rel}: {e}')


def _block(src, anchor, rel):
    """text between the `{` following `anchor` and its matching `}`"""
    i = src.find(anchor)
    if i < 0:
        raise TieBroken(f'anchor {anchor!r} not found in {rel}')
    i = src.index('{', i)
    depth, j = 0, i
    while j < len(src):
        if src[j] == '{':
            depth += 1
        elif src[j] == '}':
            depth -= 1
            if depth == 0:
                return src[i + 1:j], src[:i].count('\n') + 1
        j += 1
    raise TieBroken(f'unbalanced braces after {anchor!r} in {rel}')


def _strip_comments(s):
    return re.sub(r'//[^\n]*', '', s)


def _enum_variants(src, name, rel):
    body, line = _block(src, f'pub enum {name} ', rel)
    body = _strip_comments(body)
    # remove attribute lines and nested braces / parens content
    body = re.sub(r'#\[[^\]]*\]', '', body)
    out, depth, cur = [], 0, ''
    for ch in body:
        if ch in '({':
            depth += 1
        elif ch in ')}':
            depth -= 1
        elif ch == ',' and depth == 0:
            out.append(cur); cur = ''
            continue
        if depth == 0 and ch not in ')}':
            cur += ch
    out.append(cur)
    names = [re.match(r'\s*([A-Za-z0-9_]+)', v).group(1) for v in out if re.match(r'\s*[A-Za-z0-9_]+', v)]
    if not names:
        raise TieBroken(f'no variants read for enum {name} in {rel}')
    return names, line


def _struct_fields(src, name, rel):
    body, line = _block(src, f'pub struct {name} ', rel)
    body = _strip_comments(body)
    fields = re.findall(r'^\s*pub\s+([a-z_0-9]+)\s*:', body, re.M)
    if not fields:
        raise TieBroken(f'no fields read for struct {name} in {rel}')
    return fields, line


def _variant_fields(src, enum, variant, rel):
    body, _ = _block(src, f'pub enum {enum} ', rel)
    body = _strip_comments(body)
    m = re.search(r'\b' + variant + r'\s*\{([^}]*)\}', body)
    if not m:
        raise TieBroken(f'variant {enum}::{variant} with named fields not found in {rel}')
    return re.findall(r'^\s*([a-z_0-9]+)\s*:', m.group(1), re.M)


DEP_STRUCTS = {   # variant -> (file, struct, primary fields = what the CLI sets)
    'Step': ('pipeline/src/pipeline/deps/step.rs', 'StepDep', ['name']),
    'Generic': ('pipeline/src/pipeline/deps/generic.rs', 'GenericDep', ['generic_command']),
    'File': ('pipeline/src/pipeline/deps/file.rs', 'FileDep', ['path']),
    'GlobItems': ('pipeline/src/pipeline/deps/glob_items.rs', 'GlobItemsDep', ['glob']),
    'Glob': ('pipeline/src/pipeline/deps/glob.rs', 'GlobDep', ['glob']),
    'RegexItems': ('pipeline/src/pipeline/deps/regex_items.rs', 'RegexItemsDep', ['path', 'regex']),
    'Regex': ('pipeline/src/pipeline/deps/regex.rs', 'RegexDep', ['path', 'regex']),
    'Param': ('pipeline/src/pipeline/deps/param.rs', 'ParamDep', ['format', 'path', 'key']),
    'LineItems': ('pipeline/src/pipeline/deps/line_items.rs', 'LineItemsDep', ['path', 'begin', 'end']),
    'Lines': ('pipeline/src/pipeline/deps/lines.rs', 'LinesDep', ['path', 'begin', 'end']),
    'SqliteQueryDigest': ('pipeline/src/pipeline/deps/sqlite_query.rs', 'SqliteQueryDep', ['path', 'query']),
    'UrlDigest': ('pipeline/src/pipeline/deps/url.rs', 'UrlDigestDep', ['url']),
}
# fields a run records, and what the CLI stores for them at creation (serde: None -> null, empty map/vec)
EMPTY = {'xvc_path_metadata_map': {}, 'xvc_path_content_digest_map': {}, 'lines': []}


def extract_order(repo):
    """-> dict(dep_variants, dep_fields{variant: [fields]}, out_variants, out_fields, param_formats, metric_formats, lines)"""
    rel = 'pipeline/src/pipeline/deps/mod.rs'
    src = _read(repo, rel)
    dep_variants, l1 = _enum_variants(src, 'XvcDependency', rel)
    info = {'dep_variants': dep_variants, 'dep_fields': {}, 'read': {f'{rel}:XvcDependency': l1}}
    for v in dep_variants:
        if v not in DEP_STRUCTS:
            raise TieBroken(f'XvcDependency::{v} is not known to the harness (new dependency kind?)')
        f, sname, prim = DEP_STRUCTS[v]
        fields, ln = _struct_fields(_read(repo, f), sname, f)
        info['dep_fields'][v] = fields
        info['read'][f'{f}:{sname}'] = ln
        # derive(Ord) is lexicographic in declaration order: the rank computed from the primary fields is
        # only valid if they are compared before every recorded field
        if set(fields[:len(prim)]) != set(prim):
            raise TieBroken(f'{sname}: fields set by the CLI {prim} are no longer declared first ({fields})')
    rel = 'pipeline/src/pipeline/outs.rs'
    src = _read(repo, rel)
    info['out_variants'], l2 = _enum_variants(src, 'XvcOutput', rel)
    info['out_fields'] = {v: _variant_fields(src, 'XvcOutput', v, rel) for v in info['out_variants']}
    info['metric_formats'], _ = _enum_variants(src, 'XvcMetricsFormat', rel)
    info['read'][f'{rel}:XvcOutput'] = l2
    rel = 'pipeline/src/pipeline/deps/param.rs'
    info['param_formats'], _ = _enum_variants(_read(repo, rel), 'XvcParamFormat', rel)
    # what the sorts in export.rs apply to
    rel = 'pipeline/src/pipeline/api/export.rs'
    src = _read(repo, rel)
    info['export_sorts'] = {
        'steps_sorted_by_entity': bool(re.search(r'steps\s*\.iter\(\)\s*\.sorted\(\)', src)),
        'deps_sorted_by_value': bool(re.search(r'deps\[e\]\s*\.values\(\)\s*\.cloned\(\)\s*\.sorted\(\)', src)),
        'outs_sorted_by_value': bool(re.search(r'outs\[e\]\s*\.values\(\)\s*\.cloned\(\)\s*\.sorted\(\)', src)),
    }
    return info


def path_key(p):
    """`RelativePathBuf: Ord` compares component-wise"""
    return tuple(c.encode('utf-8') for c in p.split('/') if c not in ('', '.'))


def _fkey(field, value):
    if field in ('path',):
        return (0, path_key(value))
    if isinstance(value, int):
        return (0, value)
    if isinstance(value, tuple):      # enum index
        return (0, value[0])
    return (0, value.encode('utf-8'))


class Dep:
    """One dependency as the CLI creates it."""

    def __init__(self, variant, **prim):
        self.variant, self.prim = variant, prim

    def cli(self):
        v, p = self.variant, self.prim
        if v == 'Step': return ['--step', p['name']]
        if v == 'Generic': return ['--generic', p['generic_command']]
        if v == 'File': return ['--file', p['path']]
        if v == 'GlobItems': return ['--glob_items', p['glob']]
        if v == 'Glob': return ['--glob', p['glob']]
        if v == 'RegexItems': return ['--regex_items', f"{p['path']}:/{p['regex']}"]
        if v == 'Regex': return ['--regex', f"{p['path']}:/{p['regex']}"]
        if v == 'Param': return ['--param', f"{p['path']}::{p['key']}"]
        if v == 'LineItems': return ['--line_items', f"{p['path']}::{p['begin']}-{p['end']}"]
        if v == 'Lines': return ['--lines', f"{p['path']}::{p['begin']}-{p['end']}"]
        if v == 'SqliteQueryDigest': return ['--sqlite-query', p['path'], p['query']]
        raise ValueError(v)

    # order in which `cmd_step_dependency` collects the options of ONE command line (entity order)
    BUILDER_ORDER = ['File', 'GlobItems', 'Glob', 'Param', 'Step', 'Generic', 'Regex', 'RegexItems', 'Lines', 'LineItems',
                     'UrlDigest', 'SqliteQueryDigest']

    def param_format(self):
        ext = os.path.splitext(self.prim['path'])[1].lstrip('.')
        return {'json': 'JSON', 'JSON': 'JSON', 'yaml': 'YAML', 'yml': 'YAML', 'toml': 'TOML', 'tom': 'TOML', 'tml': 'TOML'}.get(ext, 'Unknown')

    def skeleton(self):
        """(variant, primary fields) as they appear in the exported JSON"""
        p = dict(self.prim)
        if self.variant == 'Param':
            p['format'] = self.param_format()
        return self.variant, p

    def fresh_json(self, order):
        """the JSON value of this dependency before any run"""
        v, p = self.skeleton()
        body = {}
        for f in order['dep_fields'][v]:
            body[f] = p[f] if f in p else EMPTY.get(f, None)
        return {v: body}

    def ord_key(self, order):
        v, p = self.skeleton()
        key = [order['dep_variants'].index(v)]
        for f in order['dep_fields'][v]:
            if f not in p:
                break
            val = p[f]
            if f == 'format':
                val = (order['param_formats'].index(val),)
            key.append(_fkey(f, val))
        return tuple(key)

    def matches(self, j):
        """does an exported JSON dependency (possibly with recorded state) denote this dependency?"""
        v, p = self.skeleton()
        return isinstance(j, dict) and list(j) == [v] and all(j[v].get(f) == val for f, val in p.items())

    def __repr__(self):
        return f'{self.variant}({self.prim})'


class Out:
    def __init__(self, variant, path):
        self.variant, self.path = variant, path

    def cli(self):
        return [{'File': '--output-file', 'Metric': '--output-metric', 'Image': '--output-image'}[self.variant], self.path]

    def metric_format(self):
        ext = os.path.splitext(self.path)[1].lstrip('.').lower()
        return {'csv': 'CSV', 'json': 'JSON', 'tsv': 'TSV'}.get(ext, 'Unknown')

    def fresh_json(self, order):
        body = {'path': self.path}
        if self.variant == 'Metric':
            body['format'] = self.metric_format()
        return {self.variant: body}

    def ord_key(self, order):
        key = [order['out_variants'].index(self.variant)]
        for f in order['out_fields'][self.variant]:
            if f == 'path':
                key.append((0, path_key(self.path)))
            elif f == 'format':
                key.append((0, order['metric_formats'].index(self.metric_format())))
        return tuple(key)

    BUILDER_ORDER = ['File', 'Metric', 'Image']

    def __repr__(self):
        return f'{self.variant}({self.path})'


class Tokens:
    """arbitrary strings <-> blank-free tokens"""

    def __init__(self):
        self.fwd, self.back = {}, []

    def tok(self, s):
        if s not in self.fwd:
            self.fwd[s] = f'n{len(self.back)}'
            self.back.append(s)
        return self.fwd[s]

    def known(self, s):
        return self.fwd.get(s)


def ranks(keys):
    """key -> rank among the distinct keys (equal keys share a rank)"""
    order = sorted(set(keys))
    return {k: i for i, k in enumerate(order)}


def pmap(fn, items, workers=None):
    workers = workers or min(16, (os.cpu_count() or 4))
    with concurrent.futures.ThreadPoolExecutor(max_workers=workers) as ex:
        return list(ex.map(fn, items))


def load_proposed(chk, path):
    """known_findings.json is shared and not edited by the property modules; entries proposed by a module and not
    merged yet are read from its own lib/<cnn>_known_findings.json, so the check already has its final behaviour."""
    try:
        data = json.load(open(path))
    except OSError:
        return
    have = {f['id'] for f in chk.known_findings}
    for f in data.get('findings', []):
        if f.get('property') == chk.pid and f['id'] not in have:
            chk.known_findings.append(f)
            chk.notes.append(f'known finding {f["id"]} read from {os.path.relpath(path, os.path.dirname(os.path.dirname(path)))} (proposed, not yet in known_findings.json)')
